/-
Impl/StmtMangle — model of the STATEMENT level of esbuild's `--minify-syntax`
(/repo/internal/js_parser/js_parser.go), transcribed on the statement language of Spec/MiniJSStmt:

  isJumpStatement, jumpStmtsLookTheSame, stmtCaresAboutScope, stmtsCareAboutScope,
  shouldKeepStmtInDeadControlFlow / shouldKeepStmtsInDeadControlFlow (with the in-place trimming of `var`
  declarations, in the order the Go code does it: `keepDead`), stmtsToSingleStmt, dropFirstStatement, mangleFor,
  appendIfOrLabelBodyPreservingScope, mangleIf, mangleStmts (`mangleGo` + `finalize`), visitStmts, visitSingleStmt,
  visitLoopBody and the SEmpty / SExpr / SLocal / SReturn / SThrow / SBreak / SContinue / SBlock / SIf / SFor /
  SWhile / SDoWhile / SLabel / SFunction cases of visitAndAppendStmt.

Conventions.
* A RESULT LIST that the Go code grows with `append` and inspects at its end (`result`, `stmts`) is a STACK here:
  most recent statement first (`acc`).  `mangleStmts` / `visitStmts` return lists in source order.
* Go mutates statements in place (`prevS.Decls = append(…)`, `s.Test = …`, `s.Decls = identifiers`); the model
  returns the new statement.  `keepDead` returns the answer of shouldKeepStmtInDeadControlFlow TOGETHER with the
  statement as the call leaves it (a `false` answer leaves it untouched).
* `visitExpr` is the identity: the kernel generates only expressions that the expression visitor leaves alone (the
  expression rewrites are the subject of Impl/MiniJS).  Tests go through SimplifyBooleanExpr as in the Go code.
* Not modelled (the kernel keeps them out of the input): the inlined-constant prepass and the single-use `let` /
  `const` substitution at the top of mangleStmts (both depend on symbol use counts), `switch`, `try`, TypeScript,
  `using`, top-level relocation of `var` when bundling, block-level function declarations (visitStmts turns them into
  `let`), an expression statement whose expression vanishes inside mangleIf (`exprNil`, see there).
* The use count of a label (`UseCountEstimate`, needed by the SLabel case) is recomputed by `labelUses`: the
  `break l` / `continue l` statements that the visitor reaches with `isControlFlowDead = false`.
-/
import EsbuildModel.Impl.MiniJS
import EsbuildModel.Spec.MiniJSStmt
namespace EsbuildModel.MiniJS

/-- `stmtsKind` -/
inductive SKind where
  | normal | loopBody | fnBody
deriving DecidableEq, Repr

/-- what the statement visitor needs from the parser: `isUnbound` and two feature bits -/
structure Cfg where
  ub : Nat → Bool
  nullishOK : Bool

def isJumpStatement : Stmt → Bool
  | .brk _ | .cont _ | .ret _ | .throw _ => true
  | _ => false

def jumpStmtsLookTheSame : Stmt → Stmt → Bool
  | .brk a, .brk b => a == b
  | .cont a, .cont b => a == b
  | .ret a, .ret b =>
    match a, b with
    | none, none => true
    | some x, some y => valuesLookTheSame x y
    | _, _ => false
  | .throw a, .throw b => valuesLookTheSame a b
  | _, _ => false

def stmtCaresAboutScope : Stmt → Bool
  | .decl k _ => k != .var
  | .func _ _ => true
  | _ => false

def stmtsCareAboutScope : List Stmt → Bool
  | [] => false
  | s :: ss => stmtCaresAboutScope s || stmtsCareAboutScope ss

/-- findIdentifiers over the declarators: the names without their initialisers -/
def stripInits : List Decl → List Decl
  | [] => []
  | d :: ds => ⟨d.name, none⟩ :: stripInits ds

/-- shouldKeepStmtInDeadControlFlow on an SLocal -/
def keepDeadDecl (k : DeclKind) (ds : List Decl) : Bool × List Decl :=
  if k != .var then (false, ds)
  else if ds.isEmpty then (false, ds)
  else (true, stripInits ds)

mutual
/-- shouldKeepStmtInDeadControlFlow: (answer, the statement after the call) -/
def keepDead : Stmt → Bool × Stmt
  | .decl k ds => ((keepDeadDecl k ds).1, .decl k (keepDeadDecl k ds).2)
  | .block ss => ((keepDeadList ss).1, .block (keepDeadList ss).2)
  | .ifS c y n =>
    if (keepDead y).1 then (true, .ifS c (keepDead y).2 n)
    else ((keepDeadOpt n).1, .ifS c y (keepDeadOpt n).2)
  | .whileS c b => ((keepDead b).1, .whileS c (keepDead b).2)
  | .doWhile b c => ((keepDead b).1, .doWhile (keepDead b).2 c)
  | .forS init t u b =>
    match init with
    | .decl k ds =>
      if (keepDeadDecl k ds).1 then (true, .forS (.decl k (keepDeadDecl k ds).2) t u b)
      else ((keepDead b).1, .forS init t u (keepDead b).2)
    | init => ((keepDead b).1, .forS init t u (keepDead b).2)
  | .label l s => ((keepDead s).1, .label l (keepDead s).2)
  | .func f fid => (true, .func f fid)
  | s => (false, s)
def keepDeadOpt : Option Stmt → Bool × Option Stmt
  | none => (false, none)
  | some s => ((keepDead s).1, some (keepDead s).2)
/-- shouldKeepStmtsInDeadControlFlow: stops at the first child that is kept -/
def keepDeadList : List Stmt → Bool × List Stmt
  | [] => (false, [])
  | s :: ss =>
    if (keepDead s).1 then (true, (keepDead s).2 :: ss)
    else ((keepDeadList ss).1, s :: (keepDeadList ss).2)
end

/-- stmtsToSingleStmt -/
def stmtsToSingleStmt : List Stmt → Stmt
  | [] => .empty
  | [s] => if !stmtCaresAboutScope s then s else .block [s]
  | ss => .block ss

/-- dropFirstStatement(body, replaceOrNil) -/
def dropFirstStatement (body : Stmt) (replace : Option Stmt) : Stmt :=
  match body with
  | .block (_ :: rest) =>
    match replace with
    | some r => .block (r :: rest)
    | none =>
      match rest with
      | [s2] => if !stmtCaresAboutScope s2 then s2 else .block rest
      | _ => .block rest
  | _ =>
    match replace with
    | some r => r
    | none => .empty

/-- the operand of a `!` -/
def notOperand? : Expr → Option Expr
  | .unary op v => if op = .not then some v else none
  | _ => none

def andTest (test : Option Expr) (e : Expr) : Expr :=
  match test with
  | some t => .binary .and t e
  | none => e

def isPlainBreak : Stmt → Bool
  | .brk none => true
  | _ => false

/-- mangleFor on (TestOrNil, Body): the new pair -/
def mangleFor (test : Option Expr) (body : Stmt) : Option Expr × Stmt :=
  let first := match body with
    | .block (f :: _) => f
    | b => b
  match first with
  | .ifS c yes no =>
    if isPlainBreak yes then
      let n := match notOperand? c with
        | some v => v
        | none => notExpr c
      (some (andTest test n), dropFirstStatement body no)
    else
      match no with
      | some nn =>
        if isPlainBreak nn then (some (andTest test c), dropFirstStatement body (some yes))
        else (test, body)
      | none => (test, body)
  | _ => (test, body)

/-- appendIfOrLabelBodyPreservingScope on a result stack -/
def appendBody (acc : List Stmt) (body : Stmt) : List Stmt :=
  match body with
  | .block ss => if !stmtsCareAboutScope ss then ss.reverse ++ acc else .block ss :: acc
  | b => if stmtCaresAboutScope b then .block [b] :: acc else b :: acc

/-- the test of a dropped branch is kept for its side effects -/
def keepTestEffects (cfg : Cfg) (acc : List Stmt) (t : Tri) (test : Expr) : List Stmt :=
  if !t.noSE then
    match simplifyUnusedExpr cfg.ub test with
    | some e => .expr e :: acc
    | none => acc
  else acc

/-- the end of mangleIf: `expr = SimplifyUnusedExpr(expr); return append(stmts, SExpr{expr})`.  When the
simplified expression is nil the Go code appends an expression statement WITHOUT expression (`exprNil`); every
later pass drops it like an empty statement and the printer prints nothing for it: the model emits `.empty`. -/
def pushExpr (cfg : Cfg) (acc : List Stmt) (e : Expr) : List Stmt :=
  match simplifyUnusedExpr cfg.ub e with
  | some e2 => .expr e2 :: acc
  | none => .empty :: acc

/-- second half of mangleIf (after the constant folding) -/
def mangleIfShape (cfg : Cfg) (acc : List Stmt) (test : Expr) (yes : Stmt) (no : Option Stmt) : List Stmt :=
  match yes with
  | .expr ye =>
    match no with
    | none =>
      match notOperand? test with
      | some v => pushExpr cfg acc (joinWithLeftAssociativeOp .or v ye)
      | none => pushExpr cfg acc (joinWithLeftAssociativeOp .and test ye)
    | some (.expr ne) => pushExpr cfg acc (mangleIfExpr cfg.ub cfg.nullishOK test ye ne)
    | some n => .ifS test yes (some n) :: acc
  | .empty =>
    match no with
    | none => if exprCanBeRemovedIfUnused cfg.ub test then acc else pushExpr cfg acc test
    | some (.expr ne) =>
      match notOperand? test with
      | some v => pushExpr cfg acc (joinWithLeftAssociativeOp .and v ne)
      | none => pushExpr cfg acc (joinWithLeftAssociativeOp .or test ne)
    | some n =>
      match notOperand? test with
      | some v => .ifS v n none :: acc
      | none => .ifS (notExpr test) n none :: acc
  | yes =>
    match no with
    | some n =>
      match notOperand? test with
      | some v => .ifS v n (some yes) :: acc
      | none => .ifS test yes (some n) :: acc
    | none =>
      match yes with
      | .ifS c2 y2 none => .ifS (joinWithLeftAssociativeOp .and test c2) y2 none :: acc
      | yes => .ifS test yes none :: acc

def numOfBool (b : Bool) : Expr := .num (.int (if b then 1 else 0))

/-- mangleIf(stmts, loc, &SIf{test, yes, no}) -/
def mangleIf (cfg : Cfg) (acc : List Stmt) (test : Expr) (yes : Stmt) (no : Option Stmt) : List Stmt :=
  let t := toBooleanWithSideEffects test
  if t.ok then
    if t.value then
      -- the test is truthy
      if !(keepDeadOpt no).1 then appendBody (keepTestEffects cfg acc t test) yes
      else mangleIfShape cfg acc (if t.noSE then numOfBool true else test) yes (keepDeadOpt no).2
    else
      -- the test is falsy
      if !(keepDead yes).1 then
        match no with
        | none => keepTestEffects cfg acc t test
        | some n => appendBody (keepTestEffects cfg acc t test) n
      else mangleIfShape cfg acc (if t.noSE then numOfBool false else test) (keepDead yes).2 no
  else mangleIfShape cfg acc test yes no

-- ---------------------------------------------------------------- sizes (termination of mangleGo)

mutual
def Stmt.size : Stmt → Nat
  | .ifS _ y n => y.size + optSize n + 1
  | .block ss => listSize ss + 1
  | .label _ s => s.size + 1
  | .forS _ _ _ b => b.size + 1
  | .whileS _ b => b.size + 1
  | .doWhile b _ => b.size + 1
  | _ => 1
def optSize : Option Stmt → Nat
  | none => 0
  | some s => s.size + 1
def listSize : List Stmt → Nat
  | [] => 0
  | s :: ss => s.size + listSize ss + 1
end

/-- "if (a) return b; else if (c) return d; else return e;" => "if (a) return b; if (c) return d; return e;":
the `for` loop that pushes the ifs without their else; result: (stack, the last else) -/
def flattenChain (acc : List Stmt) (test : Expr) (yes : Stmt) : Stmt → List Stmt × Stmt
  | .ifS t2 y2 (some n2) =>
    if isJumpStatement y2 then flattenChain (.ifS test yes none :: acc) t2 y2 n2
    else (.ifS test yes none :: acc, .ifS t2 y2 (some n2))
  | no => (.ifS test yes none :: acc, no)

def optList : Option Stmt → List Stmt
  | none => []
  | some s => [s]

/-- "a(); return b;" => "return a(), b;" … : the `returnLoop` at the end of mangleStmts; `last` is
lastReturn.ValueOrNil, `acc` the statements before it -/
def returnLoop (cfg : Cfg) (last : Option Expr) : List Stmt → List Stmt
  | .expr p :: acc =>
    match last with
    | none => .ret none :: .expr p :: acc
    | some v => returnLoop cfg (some (.binary .comma p v)) acc
  | .ifS t (.ret pv) none :: acc =>
    let left := pv.getD .undef
    let right := last.getD .undef
    let r := match notOperand? t with
      | some v => (v, right, left)
      | none => (t, left, right)
    let value := match r.1 with
      | .binary op cl cr =>
        if op = .comma then .binary .comma cl (mangleIfExpr cfg.ub cfg.nullishOK cr r.2.1 r.2.2)
        else mangleIfExpr cfg.ub cfg.nullishOK r.1 r.2.1 r.2.2
      | t2 => mangleIfExpr cfg.ub cfg.nullishOK t2 r.2.1 r.2.2
    returnLoop cfg (some value) acc
  | acc => .ret last :: acc

def throwLoop (cfg : Cfg) (last : Expr) : List Stmt → List Stmt
  | .expr p :: acc => throwLoop cfg (.binary .comma p last) acc
  | .ifS t (.throw pv) none :: acc =>
    let r := match notOperand? t with
      | some v => (v, last, pv)
      | none => (t, pv, last)
    let value := match r.1 with
      | .binary op cl cr =>
        if op = .comma then .binary .comma cl (mangleIfExpr cfg.ub cfg.nullishOK cr r.2.1 r.2.2)
        else mangleIfExpr cfg.ub cfg.nullishOK r.1 r.2.1 r.2.2
      | t2 => mangleIfExpr cfg.ub cfg.nullishOK t2 r.2.1 r.2.2
    throwLoop cfg value acc
  | acc => .throw last :: acc

/-- "Drop a trailing unconditional jump statement if applicable" -/
def dropTrailingJump (kind : SKind) (acc : List Stmt) : List Stmt :=
  match kind, acc with
  | .loopBody, .cont none :: rest => rest
  | .fnBody, .ret none :: rest => rest
  | .fnBody, .ret (some (.unary op v)) :: rest => if op = .void then .expr v :: rest else acc
  | _, acc => acc

/-- the end of mangleStmts (after the main loop): trailing jump, then the reverse merges -/
def finalize (cfg : Cfg) (kind : SKind) (acc : List Stmt) : List Stmt :=
  match dropTrailingJump kind acc with
  | .ret v :: p :: rest => returnLoop cfg v (p :: rest)
  | .throw v :: p :: rest => throwLoop cfg v (p :: rest)
  | acc2 => acc2


theorem listSize_append (a b : List Stmt) : listSize (a ++ b) = listSize a + listSize b := by
  induction a with
  | nil => simp [listSize]
  | cons x xs ih => simp [listSize, ih]; omega

theorem size_flattenChain (acc : List Stmt) (test : Expr) (yes : Stmt) (no : Stmt) :
    (flattenChain acc test yes no).2.size ≤ no.size := by
  fun_induction flattenChain acc test yes no
  case case1 ih => simp only [Stmt.size, optSize] at *; omega
  case case2 => exact Nat.le_refl _
  case case3 => exact Nat.le_refl _

mutual
theorem size_keepDead : ∀ s : Stmt, (keepDead s).2.size = s.size
  | .decl k ds => by simp [keepDead, Stmt.size]
  | .block ss => by simp [keepDead, Stmt.size, size_keepDeadList ss]
  | .ifS c y n => by
    simp only [keepDead]
    split
    · simp [Stmt.size, size_keepDead y]
    · simp [Stmt.size, size_keepDeadOpt n]
  | .whileS c b => by simp [keepDead, Stmt.size, size_keepDead b]
  | .doWhile b c => by simp [keepDead, Stmt.size, size_keepDead b]
  | .forS init t u b => by
    cases init <;> simp only [keepDead] <;> (try split) <;> simp [Stmt.size, size_keepDead b]
  | .label l s => by simp [keepDead, Stmt.size, size_keepDead s]
  | .func f fid => by simp [keepDead, Stmt.size]
  | .empty => by simp [keepDead]
  | .expr _ => by simp [keepDead]
  | .ret _ => by simp [keepDead]
  | .throw _ => by simp [keepDead]
  | .brk _ => by simp [keepDead]
  | .cont _ => by simp [keepDead]
theorem size_keepDeadOpt : ∀ n : Option Stmt, optSize (keepDeadOpt n).2 = optSize n
  | none => by simp [keepDeadOpt]
  | some s => by simp [keepDeadOpt, optSize, size_keepDead s]
theorem size_keepDeadList : ∀ ss : List Stmt, listSize (keepDeadList ss).2 = listSize ss
  | [] => by simp [keepDeadList]
  | s :: ss => by
    simp only [keepDeadList]
    split
    · simp [listSize, size_keepDead s]
    · simp [listSize, size_keepDeadList ss]
end

/-- an `if` whose then-branch is a jump: previous-`if` absorption ("if (a) break c; if (b) break c;" =>
"if (a || b) break c;") -/
def absorbPrevIf (acc : List Stmt) (test : Expr) (yes : Stmt) : List Stmt × Expr :=
  match acc with
  | .ifS pt py none :: rest =>
    if jumpStmtsLookTheSame py yes then (rest, joinWithLeftAssociativeOp .or pt test) else (acc, test)
  | _ => (acc, test)

/-- "Absorb a previous expression statement" into a test -/
def absorbPrevExpr (acc : List Stmt) (test : Expr) : List Stmt × Expr :=
  match acc with
  | .expr p :: rest => (rest, .binary .comma p test)
  | _ => (acc, test)

def isImplicitJump (kind : SKind) (yes : Stmt) : Bool :=
  match kind, yes with
  | .loopBody, .cont none => true
  | .fnBody, .ret none => true
  | _, _ => false

/-- the SFor case of the main loop: the new stack -/
def pushFor (acc : List Stmt) (init : ForInit) (t u : Option Expr) (b : Stmt) : List Stmt :=
  match acc with
  | .expr p :: rest =>
    match init with
    | .none => .forS (.expr p) t u b :: rest
    | .expr e2 => .forS (.expr (.binary .comma p e2)) t u b :: rest
    | _ => .forS init t u b :: acc
  | .decl k ds :: rest =>
    if k = .var then
      match init with
      | .none => .forS (.decl .var ds) t u b :: rest
      | .decl k3 ds3 => if k3 = .var then .forS (.decl .var (ds ++ ds3)) t u b :: rest else .forS init t u b :: acc
      | _ => .forS init t u b :: acc
    else .forS init t u b :: acc
  | _ => .forS init t u b :: acc

/-- mangleStmts: the main loop followed by `finalize`; `acc` is `result` (a stack), `dead` is the local
`isControlFlowDead`; the value is the FINAL result of mangleStmts as a stack (the implicit-jump rule returns from the
whole function with what mangleIf gives) -/
def mangleGo (cfg : Cfg) (kind : SKind) (acc : List Stmt) (dead : Bool) : List Stmt → List Stmt
  | [] => finalize cfg kind acc
  | stmt0 :: rest =>
    if dead && !(keepDead stmt0).1 then mangleGo cfg kind acc dead rest
    else
      match hstmt : (if dead then (keepDead stmt0).2 else stmt0) with
      | .empty => mangleGo cfg kind acc dead rest
      | .decl k ds =>
        match acc with
        | .decl k0 ds0 :: acc0 =>
          if k = k0 then mangleGo cfg kind (.decl k0 (ds0 ++ ds) :: acc0) dead rest
          else mangleGo cfg kind (.decl k ds :: acc) dead rest
        | _ => mangleGo cfg kind (.decl k ds :: acc) dead rest
      | .expr e =>
        match simplifyUnusedExpr cfg.ub e with
        | none => mangleGo cfg kind acc dead rest
        | some e2 =>
          match acc with
          | .expr p :: acc0 => mangleGo cfg kind (.expr (.binary .comma p e2) :: acc0) dead rest
          | _ => mangleGo cfg kind (.expr e2 :: acc) dead rest
      | .ifS test0 yes no =>
        let a1 := absorbPrevExpr acc test0
        if isJumpStatement yes then
          let a2 := absorbPrevIf a1.1 a1.2 yes
          let body := optList no ++ rest
          if isImplicitJump kind yes && !stmtsCareAboutScope body then
            mangleIf cfg a2.1 (simplifyBooleanExpr cfg.ub (notExpr a2.2))
              (stmtsToSingleStmt (mangleGo cfg kind [] false body).reverse) none
          else
            match no with
            | some n =>
              let fc := flattenChain a2.1 a2.2 yes n
              mangleGo cfg kind (appendBody fc.1 fc.2) (dead || isJumpStatement fc.2) rest
            | none => mangleGo cfg kind (.ifS a2.2 yes none :: a2.1) dead rest
        else mangleGo cfg kind (.ifS a1.2 yes no :: a1.1) dead rest
      | .ret v =>
        match v, acc with
        | some e, .expr p :: acc0 => mangleGo cfg kind (.ret (some (.binary .comma p e)) :: acc0) dead rest
        | _, _ => mangleGo cfg kind (.ret v :: acc) true rest
      | .throw e =>
        match acc with
        | .expr p :: acc0 => mangleGo cfg kind (.throw (.binary .comma p e) :: acc0) dead rest
        | _ => mangleGo cfg kind (.throw e :: acc) true rest
      | .brk l => mangleGo cfg kind (.brk l :: acc) true rest
      | .cont l => mangleGo cfg kind (.cont l :: acc) true rest
      | .forS init t u b => mangleGo cfg kind (pushFor acc init t u b) dead rest
      | s => mangleGo cfg kind (s :: acc) dead rest
termination_by ss => listSize ss
decreasing_by
  all_goals (try simp only [listSize])
  all_goals (try omega)
  · rename_i h
    have hs : stmt0.size = (Stmt.ifS test0 yes no).size := by
      have := size_keepDead stmt0
      rw [← hstmt]; split <;> simp [this]
    simp only [listSize_append, hs, Stmt.size]
    cases no <;> simp [optList, listSize, optSize] <;> omega

/-- mangleStmts(stmts, kind), in source order -/
def mangleStmts (cfg : Cfg) (kind : SKind) (ss : List Stmt) : List Stmt := (mangleGo cfg kind [] false ss).reverse

-- ---------------------------------------------------------------- the visitor

/-- "let a = undefined;" => "let a;" (SLocal case, LocalLet only) -/
def dropUndefInit : List Decl → List Decl
  | [] => []
  | d :: ds =>
    (match d.init with
     | some .undef => ⟨d.name, none⟩
     | _ => d) :: dropUndefInit ds

def isUndefLit : Expr → Bool
  | .undef => true
  | _ => false

/-- "A true value is implied": the loop test after SimplifyBooleanExpr -/
def loopTest (cfg : Cfg) (t : Expr) : Option Expr :=
  let t2 := simplifyBooleanExpr cfg.ub t
  let tri := toBooleanWithSideEffects t2
  if tri.ok && tri.value && tri.noSE then none else some t2

def deadYes (t : Tri) : Bool := t.ok && !t.value
def deadNo (t : Tri) : Bool := t.ok && t.value

mutual
/-- UseCountEstimate of the label `l` after visiting the statement: the `break l` / `continue l` that the visitor
reaches while `isControlFlowDead` is false -/
def labelUses (cfg : Cfg) (dead : Bool) (l : Nat) : Stmt → Nat
  | .brk (some l2) => if !dead && l2 = l then 1 else 0
  | .cont (some l2) => if !dead && l2 = l then 1 else 0
  | .ifS c y n =>
    let t := toBooleanWithSideEffects (simplifyBooleanExpr cfg.ub c)
    labelUses cfg (dead || deadYes t) l y + labelUsesOpt cfg (dead || deadNo t) l n
  | .block ss => labelUsesList cfg dead l ss
  | .label _ s => labelUses cfg dead l s
  | .forS _ _ _ b => labelUses cfg dead l b
  | .whileS _ b => labelUses cfg dead l b
  | .doWhile b _ => labelUses cfg dead l b
  | _ => 0
def labelUsesOpt (cfg : Cfg) (dead : Bool) (l : Nat) : Option Stmt → Nat
  | none => 0
  | some s => labelUses cfg dead l s
def labelUsesList (cfg : Cfg) (dead : Bool) (l : Nat) : List Stmt → Nat
  | [] => 0
  | s :: ss => labelUses cfg dead l s + labelUsesList cfg dead l ss
end

/-- the `p.isControlFlowDead` branch at the end of visitStmts: keep what has to be kept, merging adjacent `var`s;
`acc` is the kept prefix (a stack) -/
def deadFilter (acc : List Stmt) : List Stmt → List Stmt
  | [] => acc
  | s :: ss =>
    if !(keepDead s).1 then deadFilter acc ss
    else
      match (keepDead s).2, acc with
      | .decl k ds, .decl k0 ds0 :: acc0 =>
        if k = .var && k0 = .var then deadFilter (.decl .var (ds0 ++ ds) :: acc0) ss
        else deadFilter (.decl k ds :: acc) ss
      | s2, _ => deadFilter (s2 :: acc) ss

/-- the end of visitStmts (after every statement has been visited): `visited` in source order -/
def finishVisit (cfg : Cfg) (dead : Bool) (kind : SKind) (visited : List Stmt) : List Stmt :=
  if dead then (deadFilter [] visited).reverse else mangleStmts cfg kind visited

def isBreakTo (l : Nat) : Stmt → Bool
  | .brk (some l2) => l2 = l
  | _ => false

def isEmptyStmt : Stmt → Bool
  | .empty => true
  | _ => false

mutual
/-- visitAndAppendStmt(stmts, stmt) with `p.isControlFlowDead = dead`; `acc` is `stmts` as a stack -/
def visitStmt (cfg : Cfg) (dead : Bool) (acc : List Stmt) (s : Stmt) : List Stmt :=
  match s with
  | .empty => .empty :: acc
  | .expr e => .expr e :: acc
  | .decl k ds => .decl k (if k = .letK then dropUndefInit ds else ds) :: acc
  | .ret v =>
    (match v with
     | some e => if isUndefLit e then .ret none else .ret (some e)
     | none => .ret none) :: acc
  | .throw e => .throw e :: acc
  | .brk l => .brk l :: acc
  | .cont l => .cont l :: acc
  | .func f fid => .func f fid :: acc
  | .block ss =>
    match finishVisit cfg dead .normal (visitList cfg dead [] ss).reverse with
    | [] => .empty :: acc
    | [s] => if !stmtCaresAboutScope s then s :: acc else .block [s] :: acc
    | ss2 => .block ss2 :: acc
  | .whileS c b =>
    let b2 := visitSingle cfg dead .loopBody b
    let m := mangleFor (loopTest cfg c) b2
    .forS .none m.1 none m.2 :: acc
  | .doWhile b c =>
    let b2 := visitSingle cfg dead .loopBody b
    .doWhile b2 (simplifyBooleanExpr cfg.ub c) :: acc
  | .ifS c y n =>
    let test := simplifyBooleanExpr cfg.ub c
    let t := toBooleanWithSideEffects test
    let y2 := visitSingle cfg (dead || deadYes t) .normal y
    let n2 := visitOpt cfg (dead || deadNo t) n
    let n3 := match n2 with
      | some s => if isEmptyStmt s then none else some s
      | none => none
    mangleIf cfg acc test y2 n3
  | .forS init t u b =>
    let t2 := match t with
      | some e => loopTest cfg e
      | none => none
    let b2 := visitSingle cfg dead .loopBody b
    let m := mangleFor t2 b2
    .forS init m.1 u m.2 :: acc
  | .label l s =>
    let s2 := visitSingle cfg dead .normal s
    if isBreakTo l s2 then acc
    else if labelUses cfg dead l s = 0 then appendBody acc s2
    else .label l s2 :: acc
termination_by 2 * s.size
decreasing_by all_goals ((try simp only [Stmt.size, optSize]); omega)
/-- visitSingleStmt(stmt, kind) -/
def visitSingle (cfg : Cfg) (dead : Bool) (kind : SKind) (s : Stmt) : Stmt :=
  match s with
  | .block ss => stmtsToSingleStmt (finishVisit cfg dead kind (visitList cfg dead [] ss).reverse)
  | s => stmtsToSingleStmt (finishVisit cfg dead kind (visitStmt cfg dead [] s).reverse)
termination_by 2 * s.size + 1
decreasing_by all_goals ((try simp only [Stmt.size]); omega)
def visitOpt (cfg : Cfg) (dead : Bool) (n : Option Stmt) : Option Stmt :=
  match n with
  | none => none
  | some s => some (visitSingle cfg dead .normal s)
termination_by 2 * optSize n
decreasing_by all_goals ((try simp only [optSize]); omega)
/-- the loop `for i, stmt := range stmts { visited = p.visitAndAppendStmt(visited, stmt) }` -/
def visitList (cfg : Cfg) (dead : Bool) (acc : List Stmt) (ss : List Stmt) : List Stmt :=
  match ss with
  | [] => acc
  | s :: ss => visitList cfg dead (visitStmt cfg dead acc s) ss
termination_by 2 * listSize ss + 1
decreasing_by all_goals ((try simp only [listSize]); omega)
end

/-- visitStmts(stmts, kind) -/
def visitStmts (cfg : Cfg) (dead : Bool) (kind : SKind) (ss : List Stmt) : List Stmt :=
  finishVisit cfg dead kind (visitList cfg dead [] ss).reverse

/-- the body of a function: `visitStmts(body, stmtsFnBody)` with live control flow -/
def visitFnBody (cfg : Cfg) (ss : List Stmt) : List Stmt := visitStmts cfg false .fnBody ss

end EsbuildModel.MiniJS
