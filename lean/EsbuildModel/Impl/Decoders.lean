import EsbuildModel.Impl.SmParse
import EsbuildModel.Impl.Wtf8
import EsbuildModel.Util.Wire
/-
Line protocol of kernel `decoders` (models: `Impl/SmParse.lean`, `Impl/GoSort.lean`, `Impl/Wtf8.lean`).
-/
namespace EsbuildModel.Decoders
open Wire SmParse Wtf8

def errText : Err → String
  | .missingGenCol => "Missing generated column"
  | .invalidGenCol v => s!"Invalid generated column value: {v}"
  | .missingSrc => "Missing source index"
  | .invalidSrc v => s!"Invalid source index value: {v}"
  | .missingOrigLine => "Missing original line"
  | .invalidOrigLine v => s!"Invalid original line value: {v}"
  | .missingOrigCol => "Missing original column"
  | .invalidOrigCol v => s!"Invalid original column value: {v}"
  | .invalidName v => s!"Invalid name index value: {v}"
  | .invalidChar => "Invalid character after mapping"

def parseBool (s : String) : Option Bool :=
  if s = "0" then some false else if s = "1" then some true else none

/-- `<lineOffset>:<columnOffset>:<hasVersion>:<hex units>:<sources>:<content>:<names>` -/
def parseSection (s : String) : Option SectionIn :=
  match s.splitOn ":" with
  | [lo, co, v, u, ns, nc, nn] =>
    match lo.toInt?, co.toInt?, parseBool v, parseHexUnits 4 u, ns.toNat?, nc.toNat?, nn.toNat? with
    | some lo, some co, some v, some u, some ns, some nc, some nn =>
      some { lineOffset := lo, columnOffset := co, hasVersion := v, units := u, sourcesLen := ns,
             contentLen := nc, namesLen := nn }
    | _, _, _, _, _, _, _ => none
  | _ => none

def showName : Option Nat → String
  | none => "-"
  | some n => toString n

def showMapping (m : Mapping) : String :=
  s!"{m.genLine}:{m.genCol}:{m.srcIdx}:{m.origLine}:{m.origCol}:{showName m.name}"

def showResult : Result → String
  | .map s c n ms => s!"map {s} {c} {n} {";".intercalate (ms.map showMapping)}"
  | .nil => "nil"
  | .err cur e len => s!"err {cur} {len} {errText e}"
  | .panic => "PANIC"
  | .hang => "HANG"

/-- `<genLine>:<genCol>:<tag>` (the tag travels in `srcIdx`) -/
def parseKey (s : String) : Option Mapping :=
  match (s.splitOn ":").mapM (·.toInt?) with
  | some [l, c, t] => some { genLine := l, genCol := c, srcIdx := t, origLine := 0, origCol := 0, name := none }
  | _ => none

def parseKeys (s : String) : Option (List Mapping) :=
  if s = "-" then some [] else (s.splitOn ",").mapM parseKey

def showBool (b : Bool) : String := if b then "true" else "false"

def driver (args : List String) : String :=
  match args with
  | ["maps", secs] =>
    match (if secs = "-" then some [] else (secs.splitOn "|").mapM parseSection) with
    | some xs => showResult (parse xs)
    | none => "bad-op"
  | ["sort", keys] =>
    match parseKeys keys with
    | some ms =>
      match GoSort.stable less ms.toArray with
      | some d => showIntList (d.toList.map (·.srcIdx))
      | none => "PANIC"
    | none => "bad-op"
  | ["find", keys, line, col] =>
    match parseKeys keys, line.toInt?, col.toInt? with
    | some ms, some line, some col =>
      match find ms.toArray line col with
      | none => "PANIC"
      | some none => "nil"
      | some (some k) => toString k
    | _, _, _ => "bad-op"
  | ["wdec", bytes] =>
    match parseHexUnits 2 bytes with
    | some bs =>
      match decodeWTF8Rune bs with
      | some (r, w) => s!"{r} {w}"
      | none => "PANIC"
    | none => "bad-op"
  | ["wall", bytes] =>
    match parseHexUnits 2 bytes with
    | some bs =>
      match decodeAll bs.length bs with
      | .runes cps => s!"R {showNatList cps} {hexUnits 4 (cps.flatMap pushUTF16)}"
      | .stuck cps => s!"S {showNatList cps}"
      | .panic => "PANIC"
    | none => "bad-op"
  | ["enc", plen, r] =>
    match plen.toNat?, r.toInt? with
    | some plen, some r =>
      match encodeWTF8Rune plen r with
      | some b => hexUnits 2 b
      | none => "PANIC"
    | _, _ => "bad-op"
  | ["u2s", units] =>
    match parseHexUnits 4 units with
    | some us =>
      match utf16ToString us with
      | some b => hexUnits 2 b
      | none => "PANIC"
    | none => "bad-op"
  | ["uval", units] =>
    match parseHexUnits 4 units with
    | some us =>
      match utf16ToStringWithValidation us with
      | .ok b => s!"ok {hexUnits 2 b}"
      | .bad u => s!"bad {u}"
      | .panic => "PANIC"
    | none => "bad-op"
  | ["ueq", units, bytes] =>
    match parseHexUnits 4 units, parseHexUnits 2 bytes with
    | some us, some bs =>
      match utf16EqualsString us bs with
      | some b => showBool b
      | none => "PANIC"
    | _, _ => "bad-op"
  | ["nbmp", units] =>
    match parseHexUnits 4 units with
    | some us => showBool (containsNonBMPUTF16 us)
    | none => "bad-op"
  | ["s2u", bytes] =>
    match parseHexUnits 2 bytes with
    | some bs => hexUnits 4 (stringToUTF16 bs)
    | none => "bad-op"
  | _ => "bad-op"

end EsbuildModel.Decoders
