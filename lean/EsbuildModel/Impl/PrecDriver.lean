/-
Line protocol of kernel `prec` (see harness/cmd/hinternal/k_prec.go):
  prec  print  <minify 0/1>  <level>  <forbidIn 0/1>  <tree>     → the model printer's tokens, blank separated
  prec  printsp  <forbidIn 0/1>  <tree>            → pieces under MinifyWhitespace, `_` = one blank
  prec  parse  <inOk 0/1>  <tokens>                → S-expression of the reference parser's tree, or `reject`
Trees travel in prefix form, blank separated:  i<n> | n<n> | u <UnOp…> e | b <BinOp…> l r | c t y n | d e <n> | x e i |
k f <argc> a… | w f <argc> a…  (k = call, w = new); operators by their Go constant names.
-/
import EsbuildModel.Impl.PrecPrint
import EsbuildModel.Impl.PrecSpace

namespace EsbuildModel.Prec
open EsbuildModel.JsExpr EsbuildModel.PrecPrint EsbuildModel.PrecSpace

def allUnOps : List UnOp := [.pos, .neg, .cpl, .not, .void, .typeof, .delete, .preDec, .preInc, .postDec, .postInc]
def allBinOps : List BinOp :=
  [.add, .sub, .mul, .div, .rem, .pow, .lt, .le, .gt, .ge, .in_, .instanceof, .shl, .shr, .ushr,
   .looseEq, .looseNe, .strictEq, .strictNe, .nullish, .logicalOr, .logicalAnd, .bitOr, .bitAnd, .bitXor, .comma,
   .assign, .addAssign, .subAssign, .mulAssign, .divAssign, .remAssign, .powAssign, .shlAssign, .shrAssign,
   .ushrAssign, .bitOrAssign, .bitAndAssign, .bitXorAssign, .nullishAssign, .logicalOrAssign, .logicalAndAssign]

def showTok : Tok → String
  | .ident n => "x" ++ toString n
  | .num n => toString n
  | .p x => x.text
  | .other s => s

def readTok (s : String) : Tok :=
  match s.toNat? with
  | some n => .num n
  | none =>
    if s.startsWith "x" then
      match (s.drop 1).toString.toNat? with
      | some n => .ident n
      | none => Tok.ofText s
    else Tok.ofText s

mutual
def showExpr : Expr → String
  | .ident n => "i" ++ toString n
  | .num n => "n" ++ toString n
  | .unary op e => "(u " ++ unOpName op ++ " " ++ showExpr e ++ ")"
  | .binary op l r => "(b " ++ binOpName op ++ " " ++ showExpr l ++ " " ++ showExpr r ++ ")"
  | .cond t y n => "(c " ++ showExpr t ++ " " ++ showExpr y ++ " " ++ showExpr n ++ ")"
  | .dot e n => "(d " ++ showExpr e ++ " " ++ toString n ++ ")"
  | .index e i => "(x " ++ showExpr e ++ " " ++ showExpr i ++ ")"
  | .call f as => "(k " ++ showExpr f ++ showArgs as ++ ")"
  | .new f as => "(w " ++ showExpr f ++ showArgs as ++ ")"
def showArgs : Args → String
  | .nil => ""
  | .cons a rest => " " ++ showExpr a ++ showArgs rest
end

mutual
/-- prefix-form reader; `none` on a malformed tree -/
def readExpr : Nat → List String → Option (Expr × List String)
  | 0, _ => none
  | fuel + 1, w :: ws =>
    if w = "u" then
      match ws with
      | o :: ws =>
        match allUnOps.find? (fun op => unOpName op == o), readExpr fuel ws with
        | some op, some (e, ws) => some (.unary op e, ws)
        | _, _ => none
      | [] => none
    else if w = "b" then
      match ws with
      | o :: ws =>
        match allBinOps.find? (fun op => binOpName op == o), readExpr fuel ws with
        | some op, some (l, ws) =>
          match readExpr fuel ws with
          | some (r, ws) => some (.binary op l r, ws)
          | none => none
        | _, _ => none
      | [] => none
    else if w = "c" then
      match readExpr fuel ws with
      | some (t, ws) =>
        match readExpr fuel ws with
        | some (y, ws) =>
          match readExpr fuel ws with
          | some (n, ws) => some (.cond t y n, ws)
          | none => none
        | none => none
      | none => none
    else if w = "d" then
      match readExpr fuel ws with
      | some (e, n :: ws) => n.toNat?.map fun n => (.dot e n, ws)
      | _ => none
    else if w = "x" then
      match readExpr fuel ws with
      | some (e, ws) =>
        match readExpr fuel ws with
        | some (i, ws) => some (.index e i, ws)
        | none => none
      | none => none
    else if w = "k" ∨ w = "w" then
      match readExpr fuel ws with
      | some (f, c :: ws) =>
        match c.toNat? with
        | some c =>
          match readArgs fuel c ws with
          | some (as, ws) => some (if w = "k" then .call f as else .new f as, ws)
          | none => none
        | none => none
      | _ => none
    else if w.startsWith "i" then (w.drop 1).toString.toNat?.map fun n => (.ident n, ws)
    else if w.startsWith "n" then (w.drop 1).toString.toNat?.map fun n => (.num n, ws)
    else none
  | _ + 1, [] => none
def readArgs : Nat → Nat → List String → Option (Args × List String)
  | 0, _, _ => none
  | _ + 1, 0, ws => some (.nil, ws)
  | fuel + 1, c + 1, ws =>
    match readExpr fuel ws with
    | some (a, ws) =>
      match readArgs fuel c ws with
      | some (rest, ws) => some (.cons a rest, ws)
      | none => none
    | none => none
end

def words (s : String) : List String := (s.splitOn " ").filter (· ≠ "")

def driver (args : List String) : String :=
  match args with
  | ["print", mn, level, fi, tree] =>
    let ws := words tree
    match level.toNat?, readExpr (ws.length + 1) ws with
    | some level, some (e, []) =>
      if (fi = "0" ∨ fi = "1") ∧ (mn = "0" ∨ mn = "1") then
        " ".intercalate ((print (mn = "1") e level (fi = "1") false).map showTok)
      else "bad-op"
    | _, _ => "bad-op"
  | ["printsp", fi, tree] =>
    let ws := words tree
    match readExpr (ws.length + 1) ws with
    | some (e, []) =>
      if (fi = "0" ∨ fi = "1") ∧ smallNums e then
        -- as the init of `for(`: the output so far ends in `(`; as an expression statement: nothing printed yet
        let st0 : St := { rev := if fi = "1" then [.t (.p .lparen)] else [], prevOp := none }
        let out := (printS e 0 (fi = "1") false st0).out
        " ".intercalate ((if fi = "1" then out.drop 1 else out).map showSTok)
      else "bad-op"
    | _ => "bad-op"
  | ["parse", inOk, toks] =>
    if inOk = "0" ∨ inOk = "1" then
      match parse (inOk = "1") ((words toks).map readTok) with
      | some e => showExpr e
      | none => "reject"
    else "bad-op"
  | _ => "bad-op"

end EsbuildModel.Prec
