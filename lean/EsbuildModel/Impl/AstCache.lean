/-
Model of the three parse caches of internal/cache/cache_ast.go: `CSSCache.Parse`, `JSONCache.Parse`, `JSCache.Parse`.
All three are the same routine: a Go map keyed by `source.KeyPath`; a hit needs `entry.source == source` (Go struct
equality over Index, KeyPath, PrettyPaths, IdentifierName, Contents) and equal options (`Options.Equal` for JS and CSS,
`==` for JSON); a hit replays the stored messages and returns the stored AST (and `ok`); a miss parses with a deferred
log, stores source, options, AST, messages, `ok` under the key path and returns them.
The parser is a parameter (`parse`); its answer stands for (AST, ok, messages).
-/
namespace EsbuildModel.AstCache

/-- `logger.Source` with its components numbered; `contents` are bytes -/
structure Source where
  index : Nat
  keyPath : Nat
  prettyPaths : Nat
  identifierName : Nat
  contents : List Nat
  deriving DecidableEq, Repr, Inhabited

structure Entry (Opt Res : Type) where
  source : Source
  options : Opt
  result : Res

abbrev Cache (Opt Res : Type) := Nat → Option (Entry Opt Res)

def Cache.empty {Opt Res : Type} : Cache Opt Res := fun _ => none

structure Answer (Opt Res : Type) where
  result : Res
  hit : Bool
  cache : Cache Opt Res

/-- `(*XCache).Parse(log, source, options)` -/
def parseCached {Opt Res : Type} (equal : Opt → Opt → Bool) (parse : Source → Opt → Res)
    (c : Cache Opt Res) (source : Source) (options : Opt) : Answer Opt Res :=
  let miss : Answer Opt Res :=
    let r := parse source options
    ⟨r, false, fun k => if k = source.keyPath then some ⟨source, options, r⟩ else c k⟩
  match c source.keyPath with
  | some entry => if entry.source = source ∧ equal entry.options options = true then ⟨entry.result, true, c⟩ else miss
  | none => miss

/-- a history of requests; the answers with their hit flags, oldest first -/
def runReqs {Opt Res : Type} (equal : Opt → Opt → Bool) (parse : Source → Opt → Res) :
    Cache Opt Res → List (Source × Opt) → List (Res × Bool × Source × Opt)
  | _, [] => []
  | c, (s, o) :: rest =>
    let a := parseCached equal parse c s o
    (a.result, a.hit, s, o) :: runReqs equal parse a.cache rest

end EsbuildModel.AstCache
