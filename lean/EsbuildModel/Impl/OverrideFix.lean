import EsbuildModel.Gen.CompatTable
import EsbuildModel.Gen.OverrideCalls
/-
Model of the "automatically fix invalid configurations of unsupported features" step of
`bundler.applyOptionDefaults` (internal/bundler/bundler.go):

    fixInvalidUnsupportedJSFeatureOverrides(options, compat.A, compat.B|compat.C|…)     -- several calls, in order
    func fixInvalidUnsupportedJSFeatureOverrides(options, implies, implied) {
        if options.UnsupportedJSFeatureOverrides.Has(implies) {
            options.UnsupportedJSFeatures |= implied
            options.UnsupportedJSFeatureOverrides |= implied
            options.UnsupportedJSFeatureOverridesMask |= implied
        }
    }

Both the call list and the helper's body are REGENERATED (Gen/OverrideCalls.lean); `fixOne` interprets the extracted
body, `applyAll` runs the extracted calls in source order. A `compat.JSFeature` bit set is modelled as the list of
the feature names whose bit is set (membership is what matters; `|=` is append).
-/
namespace EsbuildModel.OverrideFix

abbrev FSet := List String

/-- the three `compat.JSFeature` fields of `config.Options` the helper touches -/
structure St where
  features : FSet   -- options.UnsupportedJSFeatures
  overrides : FSet  -- options.UnsupportedJSFeatureOverrides
  mask : FSet       -- options.UnsupportedJSFeatureOverridesMask
deriving Repr, DecidableEq

/-- the extracted helper: parameter names, `options.<cond.1>.Has(<cond.2>)`, `options.<f> |= <p>` statements -/
structure Body where
  params : List String
  cond : String × String
  assigns : List (String × String)
deriving Repr, DecidableEq

def genBody : Body := ⟨Gen.OverrideCalls.fixParams, Gen.OverrideCalls.fixCond, Gen.OverrideCalls.fixAssigns⟩

/-- read `options.<name>`; `none`: a field this model does not know (the extracted body is not interpretable) -/
def St.field? (s : St) (name : String) : Option FSet :=
  if name = "UnsupportedJSFeatures" then some s.features
  else if name = "UnsupportedJSFeatureOverrides" then some s.overrides
  else if name = "UnsupportedJSFeatureOverridesMask" then some s.mask
  else none

/-- `options.<name> |= v` -/
def St.orInto? (s : St) (name : String) (v : FSet) : Option St :=
  if name = "UnsupportedJSFeatures" then some { s with features := s.features ++ v }
  else if name = "UnsupportedJSFeatureOverrides" then some { s with overrides := s.overrides ++ v }
  else if name = "UnsupportedJSFeatureOverridesMask" then some { s with mask := s.mask ++ v }
  else none

/-- value of a parameter of the helper in a call `(options, implies, implied)`: second / third parameter -/
def arg? (b : Body) (implies : String) (implied : FSet) (param : String) : Option FSet :=
  match b.params with
  | [_, p1, p2] => if param = p1 then some [implies] else if param = p2 then some implied else none
  | _ => none

/-- `JSFeature.Has`: `(features & feature) != 0` -/
def has (fld v : FSet) : Bool := v.any (fun f => fld.contains f)

def runAssigns (b : Body) (implies : String) (implied : FSet) : List (String × String) → St → Option St
  | [], s => some s
  | (fld, prm) :: rest, s =>
    match arg? b implies implied prm with
    | none => none
    | some v =>
      match s.orInto? fld v with
      | none => none
      | some s' => runAssigns b implies implied rest s'

/-- one call of the helper, interpreting the extracted body -/
def fixOne (b : Body) (c : String × FSet) (s : St) : Option St :=
  match s.field? b.cond.1, arg? b c.1 c.2 b.cond.2 with
  | some fld, some v => if has fld v then runAssigns b c.1 c.2 b.assigns s else some s
  | _, _ => none

/-- the calls in source order -/
def applyAll (b : Body) : List (String × FSet) → St → Option St
  | [], s => some s
  | c :: rest, s =>
    match fixOne b c s with
    | none => none
    | some s' => applyAll b rest s'

/-! ## The helper as reviewed (what the lemmas are proved about; `Props/C14Facts` proves the extracted body equals it) -/

def reviewedBody : Body :=
  ⟨["options", "implies", "implied"], ("UnsupportedJSFeatureOverrides", "implies"),
   [("UnsupportedJSFeatures", "implied"), ("UnsupportedJSFeatureOverrides", "implied"),
    ("UnsupportedJSFeatureOverridesMask", "implied")]⟩

def fixR (c : String × FSet) (s : St) : St :=
  if c.1 ∈ s.overrides then ⟨s.features ++ c.2, s.overrides ++ c.2, s.mask ++ c.2⟩ else s

def runR : List (String × FSet) → St → St
  | [], s => s
  | c :: rest, s => runR rest (fixR c s)

/-- the order condition under which the result is closed: a later call whose `implied` set contains the `implies`
feature of an earlier call must also contain everything the earlier call implies (in particular: fine when no later
call can switch an earlier call's trigger on, i.e. the calls are in dependency order; and fine when the list is
transitively closed, as esbuild's is). -/
def orderOK : List (String × FSet) → Bool
  | [] => true
  | p :: rest => rest.all (fun q => !q.2.contains p.1 || p.2.all (fun f => q.2.contains f)) && orderOK rest

/-- transitively closed (independent of the order of the calls) -/
def transClosed (calls : List (String × FSet)) : Bool :=
  calls.all fun p => calls.all fun q => !q.2.contains p.1 || p.2.all (fun f => q.2.contains f)

/-- `f` is forced by the initial override set: it is in it, or some call's `implies` is forced and lists `f` -/
inductive Forced (calls : List (String × FSet)) (init : FSet) : String → Prop
  | base {f} : f ∈ init → Forced calls init f
  | step {a S f} : (a, S) ∈ calls → Forced calls init a → f ∈ S → Forced calls init f

/-! ## Driver (sub-operation `fix` of kernel `c14facts`, see Impl/C14FactsDriver.lean): bit masks ↔ feature names over the regenerated feature list -/

def namesOf (features : List String) (n : Nat) : FSet :=
  (features.zipIdx.filter fun (_, i) => n.testBit i).map (·.1)

def maskOf (features : List String) (names : FSet) : Nat :=
  (features.zipIdx.filter fun (f, _) => names.contains f).foldl (fun acc (_, i) => acc ||| 2 ^ i) 0

/-- the statement after the calls: on a non-browser platform InlineScript becomes unsupported unless overridden -/
def inlineScriptDefault (browser : Bool) (s : St) : St :=
  if !browser && !s.mask.contains "InlineScript" then { s with features := s.features ++ ["InlineScript"] } else s

def driver (args : List String) : String :=
  match args with
  | [pl, f, o, m] =>
    match pl.toNat?, f.toNat?, o.toNat?, m.toNat? with
    | some pl, some f, some o, some m =>
      if pl > 1 ∨ f ≥ 2 ^ 64 ∨ o ≥ 2 ^ 64 ∨ m ≥ 2 ^ 64 then "bad-op" else
      let fs := Gen.compatFeatures
      -- bits above the last feature constant are carried through unchanged
      let known := 2 ^ fs.length
      match applyAll genBody Gen.OverrideCalls.calls ⟨namesOf fs f, namesOf fs o, namesOf fs m⟩ with
      | none => "PANIC"
      | some s =>
        let s := inlineScriptDefault (pl == 1) s
        s!"{maskOf fs s.features + f / known * known} {maskOf fs s.overrides + o / known * known} {maskOf fs s.mask + m / known * known}"
    | _, _, _, _ => "bad-op"
  | _ => "bad-op"

end EsbuildModel.OverrideFix
