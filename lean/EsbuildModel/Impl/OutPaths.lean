/-
Model of how esbuild computes the PATH of an output file (property C17), part 1: path functions.

  * `internal/fs/filepath.go` (esbuild's private copy of Go's path/filepath, POSIX flavour:
    `isWindows = false`, `pathSeparator = '/'`, volume name always empty): `isAbs`, `clean`, `join`,
    `base`, `dir`, `ext`, `rel`; and `internal/fs/fs_real.go` `Join` (= clean ∘ join), `Rel`.
  * `internal/logger/logger.go` `PlatformIndependentPathDirBaseExt` (dir and base only).
  * `internal/bundler/bundler.go` `sanitizeFilePathForVirtualModulePath`, `PathRelativeToOutbase`,
    `lowestCommonAncestorDirectory`.

Go strings are byte strings.  A model string is a `List Char` whose characters are the BYTES of the Go
string (code points 0‥255, the driver converts); every routine modelled here except two works on bytes
('/', '\\', '.', '[' …), so this is exact.  The two exceptions decode UTF-8 (`range` over a string in
`sanitize…`, `utf8.DecodeRuneInString` + `unicode.ToLower` in `lowestCommonAncestorDirectory`): for them
the model is exact on ASCII input only and the driver refuses anything else.

`clean` abstracts Go's `lazybuf` (write index `w`, barrier `dotdot`) into a stack of path elements:
the read loop of `clean` looks at one element (the text between two separators) at a time, `w > dotdot`
("can backtrack") holds exactly when the stack has a top element that is not a `..` kept by the
non-rooted case, and backtracking removes exactly that element with its separator.
-/
namespace EsbuildModel.OutPaths

abbrev Str := List Char

/-- string literal as a model string -/
def lit (x : String) : Str := x.toList

/-- the text between separators: `splitSlash "a//b" = ["a","","b"]`; never empty as a list -/
def splitSlash : Str → List Str
  | [] => [[]]
  | c :: cs =>
    if c = '/' then [] :: splitSlash cs
    else
      match splitSlash cs with
      | [] => [[c]]
      | x :: xs => (c :: x) :: xs

def joinSlash (l : List Str) : Str := List.intercalate ['/'] l

/-- `isAbs` (POSIX): `strings.HasPrefix(path, "/")` -/
def isAbs (p : Str) : Bool :=
  match p with
  | '/' :: _ => true
  | _ => false

/-- one element of the read loop of `clean`; `stack` is the output so far, last element first -/
def cleanStep (rooted : Bool) (stack : List Str) (e : Str) : List Str :=
  if e = [] then stack                       -- empty path element
  else if e = ['.'] then stack               -- . element
  else if e = ['.', '.'] then                -- .. element
    match stack with
    | [] => if rooted then [] else [e]
    | top :: below =>
      if top = ['.', '.'] then (if rooted then stack else e :: stack)   -- cannot backtrack
      else below                                                    -- can backtrack
  else e :: stack                            -- real path element

/-- `clean` (volume name empty) -/
def clean (path : Str) : Str :=
  match path with
  | [] => ['.']
  | c :: _ =>
    let rooted := c = '/'
    let stack := (splitSlash path).foldl (cleanStep rooted) []
    let body := joinSlash stack.reverse
    if rooted then '/' :: body
    else if body = [] then ['.'] else body

/-- `goFilepath.join`: the first non-empty element onwards, joined by the separator and cleaned -/
def joinRaw (elem : List Str) : Str :=
  match elem.dropWhile (fun e => e = []) with
  | [] => []
  | rest => clean (joinSlash rest)

/-- `realFS.Join` = `clean(join(parts))` (so `Join("", "") = "."`) -/
def join (parts : List Str) : Str := clean (joinRaw parts)

/-- `base` -/
def base (path : Str) : Str :=
  if path = [] then ['.'] else
  let stripped := path.reverse.dropWhile (fun c => c = '/')        -- trailing separators removed
  let last := (stripped.takeWhile (fun c => c ≠ '/')).reverse      -- after the last separator
  if last = [] then ['/'] else last

/-- `dir`: everything up to and including the last separator, cleaned -/
def dir (path : Str) : Str :=
  clean (path.reverse.dropWhile (fun c => c ≠ '/')).reverse

/-- the backwards scan of `ext` on the reversed path; `acc` is what has been passed -/
def extScan : Str → Str → Str
  | [], _ => []
  | c :: rest, acc =>
    if c = '/' then [] else if c = '.' then '.' :: acc else extScan rest (c :: acc)

/-- `ext` -/
def ext (path : Str) : Str := extScan path.reverse []

/-- `name[:len(name)-len(ext(name))]` -/
def stripExt (name : Str) : Str := name.take (name.length - (ext name).length)

inductive RelResult where
  | ok (rel : Str)
  | err                 -- "Rel: can't make … relative to …"
  | loop                -- Go's `for` would never terminate (shown unreachable in the lemmas)
  deriving Repr, DecidableEq

/-- the positioning loop of `rel`: `b` = `base[b0:]`, `t` = `targ[t0:]`; result: what is left of both
and the base element at which they differ (`base[b0:bi]`) -/
def relLoop (b t : Str) : Option (Str × Str × Str) :=
  let be := b.takeWhile (fun c => c ≠ '/')
  let te := t.takeWhile (fun c => c ≠ '/')
  if be ≠ te then some (b, t, be)
  else if h : b = [] ∧ t = [] then none
  else
    relLoop ((b.dropWhile (fun c => c ≠ '/')).drop 1) ((t.dropWhile (fun c => c ≠ '/')).drop 1)
termination_by b.length + t.length
decreasing_by
  have hb : b.length = (b.takeWhile (fun c => decide (c ≠ '/'))).length + (b.dropWhile (fun c => decide (c ≠ '/'))).length := by
    rw [← List.length_append, List.takeWhile_append_dropWhile]
  have ht : t.length = (t.takeWhile (fun c => decide (c ≠ '/'))).length + (t.dropWhile (fun c => decide (c ≠ '/'))).length := by
    rw [← List.length_append, List.takeWhile_append_dropWhile]
  have hne : b.length + t.length > 0 := by
    rcases b with _ | ⟨cb, b'⟩
    · rcases t with _ | ⟨ct, t'⟩
      · simp at h
      · simp only [List.length_cons]; omega
    · simp only [List.length_cons]; omega
  simp only [List.length_drop]
  omega

/-- `rel` (volume names empty, `sameWord` is equality) -/
def rel (basepath targpath : Str) : RelResult :=
  let base0 := clean basepath
  let targ := clean targpath
  if targ = base0 then .ok ['.'] else
  let base1 := if base0 = ['.'] then [] else base0
  if isAbs base1 ≠ isAbs targ then .err else
  match relLoop base1 targ with
  | none => .loop
  | some (b, t, be) =>
    if be = ['.', '.'] then .err
    else if b ≠ [] then
      let seps := b.count '/'
      let ups := ['.', '.'] ++ (List.replicate seps ['/', '.', '.']).flatten
      .ok (if t ≠ [] then ups ++ '/' :: t else ups)
    else .ok t

/-- `realFS.Rel` -/
def fsRel (basepath targpath : Str) : Option Str :=
  match rel basepath targpath with
  | .ok r => some r
  | _ => none

end EsbuildModel.OutPaths
