import EsbuildModel.Impl.SmJoin
import EsbuildModel.Impl.SmParse
import EsbuildModel.Impl.OutPaths
/-
Model of how the source map of ONE output chunk is assembled (property C07):

* `internal/sourcemap/sourcemap.go`: `ChunkBuilder.appendMapping` — the part of the `ChunkBuilder` that
  `Impl/SmJoin.lean` leaves to its caller: the lookup of the printer's (line, column) in the input source map of
  the file (`SourceMap.Find`, modelled in `Impl/SmParse.lean`), the replacement of source index / original
  line / original column / name by those of the mapping found, and the names table (`namesMap`, `quotedNames`).
* `internal/bundler/bundler.go`: `computeDataForSourceMapsInParallel` (which text goes into `sourcesContent`
  for every source of every file; the goroutines write disjoint slots, the model is the loop body).
* `internal/linker/linker.go`: `generateSourceMapForChunk` — the `sources` / `sourcesContent` / `names` arrays,
  the table `sourceIndexToSourcesIndex` with its running index, the rewriting of `file:` URLs to paths
  relative to the directory of the chunk, `sourceRoot`; the loop "Write the mappings" is `SmJoin.linkStep`.

Strings are byte lists (`SmJoin.Bytes`). JSON quoting (`helpers.QuoteForJSON`) is NOT modelled here: the model
works on the unquoted `sources` / `names`, and treats the already quoted `sourcesContent` entries as opaque
byte strings. A Go panic (index out of range, nil map entry, the explicit `panic("Internal error")`) is `none`.
-/
namespace EsbuildModel.SmChunk
open SmJoin

/-- `sourcemap.SourceMap` as far as the chunk builder and the linker read it -/
structure InputMap where
  sources : List Bytes
  mappings : Array SmParse.Mapping
  names : List Bytes
deriving DecidableEq, Repr

/-! ### `ChunkBuilder` with an input source map -/

/-- what happens to a builder, in order: a line terminator of the printed output, `k` columns of other output,
a call of `AddSourceMapping` that got past the duplicate test, with the line / column that the line-offset
tables gave for `originalLoc` (a position in the file the PRINTER read) and `originalName` -/
inductive PEv where
  | newline
  | cols (k : Nat)
  | call (line col : Int) (name : Bytes)
deriving DecidableEq, Repr

/-- `i, ok := b.namesMap[originalName]; if !ok { i = len(b.quotedNames); append … }`: the map mirrors the list -/
def internName (names : List Bytes) (n : Bytes) : Nat × List Bytes :=
  match names.findIdx? (· == n) with
  | some i => (i, names)
  | none => (names.length, names ++ [n])

/-- the part of `appendMapping` before `appendMappingWithoutRemapping`.
outer `none` = panic; `some (none, _)` = "Some locations won't have a mapping" (early return) -/
def remap (im : Option InputMap) (names : List Bytes) (line col : Int) (name : Bytes) :
    Option (Option Resolved × List Bytes) :=
  let located : Option (Option (Int × Int × Int × Bytes)) :=
    match im with
    | none => some (some (0, line, col, name))
    | some m =>
      match SmParse.find m.mappings line col with
      | none => none
      | some none => some none
      | some (some k) =>
        match m.mappings[k]? with
        | none => none
        | some mp =>
          match mp.name with
          | none => some (some (mp.srcIdx, mp.origLine, mp.origCol, name))
          | some i =>
            match m.names[i]? with
            | none => none -- b.inputSourceMap.Names[…]: index out of range
            | some s => some (some (mp.srcIdx, mp.origLine, mp.origCol, s))
  match located with
  | none => none
  | some none => some (none, names)
  | some (some (src, l, c, nm)) =>
    if nm ≠ [] then
      let r := internName names nm
      some (some ⟨src, l, c, some (r.1 : Int)⟩, r.2)
    else some (some ⟨src, l, c, none⟩, names)

/-- the calls as `SmJoin.Builder.step` sees them, and the names table at the end -/
def translate (im : Option InputMap) (names : List Bytes) : List PEv → Option (List BEv × List Bytes)
  | [] => some ([], names)
  | .newline :: es => (translate im names es).map fun r => (BEv.newline :: r.1, r.2)
  | .cols k :: es => (translate im names es).map fun r => (BEv.cols k :: r.1, r.2)
  | .call l c n :: es =>
    match remap im names l c n with
    | none => none
    | some (r, names') => (translate im names' es).map fun t => (BEv.map r :: t.1, t.2)

/-- `MakeChunkBuilder(inputSourceMap, …)`, the events, `GenerateChunk`: the chunk and `Chunk.QuotedNames`
(unquoted) -/
def buildChunkP (im : Option InputMap) (evs : List PEv) : Option (Chunk × List Bytes) :=
  (translate im [] evs).map fun r => (buildChunk im.isNone r.1, r.2)

/-! ### `computeDataForSourceMapsInParallel` -/

/-- `sourcemap.SourceContent`; `requoted` is `QuoteForJSON(UTF16ToString(Value), asciiOnly)` (opaque here) -/
structure SourceContent where
  quoted : Bytes
  hasValue : Bool
  requoted : Bytes
deriving DecidableEq, Repr

/-- `isASCIIOnly` of bundler.go; on bytes: a byte ≥ 0x80 is part of a rune > 0x7E (or of U+FFFD) -/
def isASCIIOnly (s : Bytes) : Bool := s.all fun c => !(decide (c < 0x20) || decide (c > 0x7E))

def nullBytes : Bytes := [110, 117, 108, 108]

/-- one round of `for i := range sm.Sources` -/
def quotedContentAt (asciiOnly : Bool) (sc : List SourceContent) (i : Nat) : Bytes :=
  match sc[i]? with
  | none => nullBytes -- i >= len(sm.SourcesContent)
  | some v =>
    if v.quoted ≠ [] ∧ (!asciiOnly || isASCIIOnly v.quoted) then v.quoted
    else if v.hasValue then v.requoted
    else nullBytes

/-- `result.QuotedContents` of one file; `selfQuoted` is `QuoteForJSON(Source.Contents, asciiOnly)` -/
def quotedContents (asciiOnly exclude : Bool) (selfQuoted : Bytes)
    (im : Option (InputMap × List SourceContent)) : List Bytes :=
  if exclude then []
  else
    match im with
    | none => [selfQuoted]
    | some (m, sc) => (List.range m.sources.length).map (quotedContentAt asciiOnly sc)

/-! ### `generateSourceMapForChunk` -/

/-- what the linker reads of `c.graph.Files[i].InputFile` and of `dataForSourceMaps[i]` -/
structure FileIn where
  ns : Bytes            -- Source.KeyPath.Namespace
  text : Bytes          -- Source.KeyPath.Text
  suffix : Bytes        -- Source.KeyPath.IgnoredSuffix
  inputSources : Option (List Bytes)   -- InputSourceMap.Sources, `none` = no input source map
  quoted : List Bytes   -- dataForSourceMaps[i].QuotedContents
deriving DecidableEq, Repr

/-- one `compileResultForSourceMap` -/
structure ResultIn where
  sourceIndex : Nat
  isNullEntry : Bool
  offset : Offset
  chunk : Chunk
  quotedNames : List Bytes
deriving DecidableEq, Repr

structure Item where
  source : Bytes
  quoted : Bytes   -- `[]` = nil (ExcludeSourcesContent)
deriving DecidableEq, Repr

def fileNs : Bytes := [102, 105, 108, 101]                       -- "file"
def fileUrlPrefix : Bytes := [102, 105, 108, 101, 58, 47, 47]    -- "file://"

/-- the `source` of a file without input source map. `helpers.FileURLFromFilePath(p).String()` is modelled for
Unix paths made of characters that URL escaping leaves alone (see `safePath`): `file://` + p. -/
def simpleSource (f : FileIn) : Bytes :=
  if f.ns = fileNs then
    fileUrlPrefix ++ (if f.text.head? = some 47 then f.text else 47 :: f.text)
  else
    (if f.ns ≠ [] then f.ns ++ [58] ++ f.text else f.text) ++ f.suffix

/-- the loop variables of "Generate the sources and sourcesContent arrays"; the Go map is only ever read by key,
so an association list is a faithful model -/
structure ItemsSt where
  tbl : List (Nat × Nat) := []
  items : List Item := []
  next : Nat := 0
deriving DecidableEq, Repr

/-- `sourceIndexToSourcesIndex[k]` -/
def tblGet : List (Nat × Nat) → Nat → Option Nat
  | [], _ => none
  | (k', v) :: rest, k => if k = k' then some v else tblGet rest k

/-- `for i, source := range sm.Sources` -/
def nestedItems (exclude : Bool) (quoted : List Bytes) : Nat → List Bytes → Option (List Item)
  | _, [] => some []
  | i, s :: rest =>
    let q : Option Bytes := if exclude then some [] else quoted[i]?
    match q with
    | none => none -- QuotedContents[i]: index out of range
    | some q => (nestedItems exclude quoted (i + 1) rest).map fun r => ⟨s, q⟩ :: r

/-- body of the first `for _, result := range results` -/
def itemsStep (files : List FileIn) (exclude : Bool) (st : ItemsSt) (r : ResultIn) : Option ItemsSt :=
  if r.isNullEntry then some st
  else if (tblGet st.tbl r.sourceIndex).isSome then some st
  else
    let tbl := (r.sourceIndex, st.next) :: st.tbl
    match files[r.sourceIndex]? with
    | none => none -- c.graph.Files[result.sourceIndex]
    | some file =>
      match file.inputSources with
      | none =>
        -- Simple case: no nested source map
        let q : Option Bytes := if exclude then some [] else file.quoted[0]?
        match q with
        | none => none
        | some q => some { tbl := tbl, items := st.items ++ [⟨simpleSource file, q⟩], next := st.next + 1 }
      | some srcs =>
        -- Complex case: nested source map
        match nestedItems exclude file.quoted 0 srcs with
        | none => none
        | some its => some { tbl := tbl, items := st.items ++ its, next := st.next + srcs.length }

def itemsLoop (files : List FileIn) (exclude : Bool) (st : ItemsSt) : List ResultIn → Option ItemsSt
  | [] => some st
  | r :: rs =>
    match itemsStep files exclude st r with
    | none => none
    | some st' => itemsLoop files exclude st' rs

def toStr (b : Bytes) : OutPaths.Str := b.map Char.ofNat
def ofStr (s : OutPaths.Str) : Bytes := s.map Char.toNat

/-- the characters for which the model of URL parsing / printing (the identity) is claimed: `A–Z a–z 0–9 / . _ -` -/
def safeChar (c : Nat) : Bool :=
  (65 ≤ c && c ≤ 90) || (97 ≤ c && c ≤ 122) || (48 ≤ c && c ≤ 57) || c = 47 || c = 46 || c = 95 || c = 45

def safePath (p : Bytes) : Bool := p.head? = some 47 && p.all safeChar

/-- "Modify the absolute path to the original file to be relative to the directory that will contain the output
file for this chunk": `url.Parse`, `IsFileURL`, `FilePathFromFileURL`, `fs.Rel`, `url.URL{Path: …}.String()`.
Modelled for `file://` + `safePath` (then parsing and printing are the identity) and for strings that do not start
with `file:` in any letter case (then `IsFileURL` is false and the string is left alone). -/
def writeSource (chunkAbsDir : Bytes) (s : Bytes) : Bytes :=
  if fileUrlPrefix.isPrefixOf s ∧ (s.drop 7).head? = some 47 then
    match OutPaths.fsRel (toStr chunkAbsDir) (toStr (s.drop 7)) with
    | some r => ofStr r
    | none => s
  else s

/-- is `s` inside the fragment for which `writeSource` is claimed -/
def sourceModelled (s : Bytes) : Bool :=
  if fileUrlPrefix.isPrefixOf s then safePath (s.drop 7)
  else
    let lower := (s.take 5).map fun c => if 65 ≤ c ∧ c ≤ 90 then c + 32 else c
    lower ≠ [102, 105, 108, 101, 58]

/-- `sourcesIndex, ok := sourceIndexToSourcesIndex[result.sourceIndex]` and the panic that follows -/
def toLinkIn (tbl : List (Nat × Nat)) (r : ResultIn) : Option LinkIn :=
  match tblGet tbl r.sourceIndex with
  | some si => some ⟨r.isNullEntry, r.offset, si, r.chunk, r.quotedNames.length⟩
  | none =>
    if r.isNullEntry then some ⟨true, r.offset, 0, r.chunk, r.quotedNames.length⟩
    else none -- panic("Internal error")

def toLinkIns (tbl : List (Nat × Nat)) : List ResultIn → Option (List LinkIn)
  | [] => some []
  | r :: rs =>
    match toLinkIn tbl r with
    | none => none
    | some x => (toLinkIns tbl rs).map (x :: ·)

/-- the fields of the JSON object that `generateSourceMapForChunk` writes (`"version": 3` aside) -/
structure Generated where
  sources : List Bytes
  sourceRoot : Option Bytes
  sourcesContent : Option (List Bytes)
  mappings : Bytes
  names : List Bytes
deriving DecidableEq, Repr

def generate (files : List FileIn) (exclude : Bool) (sourceRoot chunkAbsDir : Bytes) (results : List ResultIn) :
    Option Generated :=
  match itemsLoop files exclude {} results with
  | none => none
  | some st =>
    match toLinkIns st.tbl results with
    | none => none
    | some ins =>
      match linkJoin ins with
      | none => none
      | some mappings =>
        some { sources := st.items.map fun it => writeSource chunkAbsDir it.source
               sourceRoot := if sourceRoot ≠ [] then some sourceRoot else none
               sourcesContent := if exclude then none else some (st.items.map (·.quoted))
               mappings := mappings
               names := (results.map (·.quotedNames)).flatten }

/-! ### where the linker's results come from -/

/-- one compile result as `generateChunkJS` / `generateChunkCSS` hand it over: a null entry carries the zero
`sourcemap.Chunk`; otherwise the printer ran a `ChunkBuilder` made with the input source map of the file -/
def mkResult (im : Option InputMap) (sourceIndex : Nat) (isNull : Bool) (offset : Offset) (evs : List PEv) :
    Option ResultIn :=
  if isNull then some ⟨sourceIndex, true, offset, ⟨⟨[], none⟩, {}, 0, false⟩, []⟩
  else
    match buildChunkP im evs with
    | none => none
    | some (chunk, names) => some ⟨sourceIndex, false, offset, chunk, names⟩

end EsbuildModel.SmChunk
