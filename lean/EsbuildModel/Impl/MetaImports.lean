import EsbuildModel.Util.Wire
/-
Model of where the metafile gets the CONTENT of `imports` / `exports` / `entryPoint` / `cssBundle` of an output
and of `imports` of an input (the byte accounting `inputs` / `bytes` is `Impl/Metafile.lean`).

* internal/linker/linker.go `generateChunkJS`, "Start the metadata": `imports` = the `JSONMetadataImports` of the
  cross-chunk prefix (one `printPath` per `SImport` of `crossChunkPrefixStmts`, over the import records built from
  `chunk.crossChunkImports`: path = unique key of the other chunk, `ShouldNotBeExternalInMetafile`) followed by
  those of every compile result in order (one per `printPath` call of the printer); `exports`
  (`KeepESMImportExportSyntax`, entry: `["default"]` for a CommonJS-wrapped entry, else
  `SortedAndFilteredExportAliases`; other chunks: the values of `exportsToOtherChunks`; `sort.Strings`),
  `entryPoint` (every `chunk.isEntryPoint`: user entry points AND the entry points the bundler made for
  `import()` targets), `cssBundle` (`hasCSSChunk`: the unique key of `c.chunks[cssChunkIndex]`).
* `generateChunkCSS`, "Start the metadata": `imports` of the compile results (`recordImportPathForMetafile`, kind =
  `record.Kind`), no `exports`, `entryPoint` only when the entry file itself is a CSS file.
* internal/js_printer `printPath`, internal/css_printer `recordImportPathForMetafile`: one entry
  `{path, kind[, external: true]}`; `external` unless the record has `ShouldNotBeExternalInMetafile`.
* internal/helpers/quote.go `QuoteForJSON` (on the runes `DecodeWTF8Rune` delivers), config `MaybeRemoveWhitespace`.
* `generateChunksInParallel`: the joined metadata goes through `breakJoinerIntoPieces` + `substituteFinalPaths`
  (unique key -> pretty path of the final output); the code of the chunk goes through the same substitution with the
  paths relative to the directory of the chunk. Here: `substKeys` with a table (key, replacement); the exact piece
  scanner (what happens to a key prefix that is not followed by a valid key) is `Impl/Pieces.lean`.
* internal/bundler/bundler.go `processScannedFiles`, "Generate metadata about each import": per import record of an
  input, in record order: not resolved into the bundle (`resolveResult == nil || !record.SourceIndex.IsValid()`:
  external, failed, never resolved because unused) -> `{path: record.Path.Text, kind, external: true}`; else
  `{path: pretty path of the target, kind, original: record.Path.Text}`; nothing at all when not bundling.

Strings are lists of code points (`Str`). A Go panic (index out of range) is `none` / "PANIC".
-/
namespace EsbuildModel.MetaImports

abbrev Str := List Nat

def str (s : String) : Str := s.toList.map (·.toNat)

/-- ast.ImportKind, in the order of its constants -/
inductive Kind where
  | entryPoint | stmt | require | dynamic | requireResolve | at | composes | url
  /-- not an ast.ImportKind: the literal "file-loader" of `generateCodeForFileInChunkJS` -/
  | fileLoader
deriving DecidableEq, Repr

def Kind.ofNat? : Nat → Option Kind
  | 0 => some .entryPoint | 1 => some .stmt | 2 => some .require | 3 => some .dynamic
  | 4 => some .requireResolve | 5 => some .at | 6 => some .composes | 7 => some .url | 8 => some .fileLoader
  | _ => none

def Kind.toNat : Kind → Nat
  | .entryPoint => 0 | .stmt => 1 | .require => 2 | .dynamic => 3
  | .requireResolve => 4 | .at => 5 | .composes => 6 | .url => 7 | .fileLoader => 8

/-- `ImportKind.StringForMetafile` -/
def Kind.text : Kind → String
  | .stmt => "import-statement" | .require => "require-call" | .dynamic => "dynamic-import"
  | .requireResolve => "require-resolve" | .at => "import-rule" | .composes => "composes-from"
  | .url => "url-token" | .entryPoint => "entry-point" | .fileLoader => "file-loader"

/-! ## helpers.QuoteForJSON -/

def hexC (d : Nat) : Nat := if d < 10 then 48 + d else 55 + d   -- "0123456789ABCDEF"

/-- `\uXXXX` -/
def u4 (c : Nat) : Str := [92, 117, hexC (c / 4096 % 16), hexC (c / 256 % 16), hexC (c / 16 % 16), hexC (c % 16)]

/-- `canPrintWithoutEscape` -/
def canPrint (asciiOnly : Bool) (c : Nat) : Bool :=
  if c ≤ 0x7E then decide (c ≥ 0x20) && c != 92 && c != 34
  else !asciiOnly && c != 0xFEFF && (decide (c < 0xD800) || decide (c > 0xDFFF))

/-- what `internalQuote(…, '"')` appends for one rune -/
def quoteRune (asciiOnly : Bool) (c : Nat) : Str :=
  if canPrint asciiOnly c then [c]
  else if c = 8 then [92, 98]
  else if c = 12 then [92, 102]
  else if c = 10 then [92, 110]
  else if c = 13 then [92, 114]
  else if c = 9 then [92, 116]
  else if c = 92 then [92, 92]
  else if c = 34 then [92, 34]
  else if c ≤ 0xFFFF then u4 c
  else u4 (0xD800 + (c - 0x10000) / 1024 % 1024) ++ u4 (0xDC00 + (c - 0x10000) % 1024)

def quoteJSON (asciiOnly : Bool) (s : Str) : Str := 34 :: (s.flatMap (quoteRune asciiOnly) ++ [34])

/-- `MetafileFormat.MaybeRemoveWhitespace` of a format-string piece -/
def mrw (min : Bool) (s : String) : Str :=
  (s.toList.filter (fun c => !min || (c != ' ' && c != '\n'))).map (·.toNat)

/-! ## substitution of unique keys -/

def isPrefix : Str → Str → Bool
  | [], _ => true
  | _ :: _, [] => false
  | a :: as, b :: bs => a == b && isPrefix as bs

/-- the first key of the table that starts here: (replacement, length of the key) -/
def matchKey : List (Str × Str) → Str → Option (Str × Nat)
  | [], _ => none
  | (k, f) :: rest, s => if k ≠ [] ∧ isPrefix k s then some (f, k.length) else matchKey rest s

def substGo (tbl : List (Str × Str)) : Nat → Str → Str
  | 0, s => s
  | _, [] => []
  | n + 1, c :: rest =>
    match matchKey tbl (c :: rest) with
    | some (f, len) => f ++ substGo tbl n ((c :: rest).drop len)
    | none => c :: substGo tbl n rest

/-- every occurrence of a key, left to right, is replaced (`breakOutputIntoPieces` + `substituteFinalPaths`) -/
def substKeys (tbl : List (Str × Str)) (s : Str) : Str := substGo tbl (s.length + 1) s

/-! ## one output -/

/-- ast.ImportRecord as far as the printers read it for the metafile -/
structure Rec where
  path : Str            -- Path.Text (a unique key when the linker rewrote the record)
  kind : Kind           -- record.Kind (the CSS printer prints this one)
  notExternal : Bool    -- ShouldNotBeExternalInMetafile
deriving DecidableEq, Repr

/-- one entry of `imports` -/
structure Imp where
  path : Str
  kind : Kind
  external : Bool
deriving DecidableEq, Repr

/-- what adds an entry to `JSONMetadataImports` of a compile result: a `printPath` /
`recordImportPathForMetafile` call (record index, kind at the call), or the end of a file with the `file` loader
(`generateCodeForFileInChunkJS`: path = `UniqueKeyForAdditionalFile`, never `external`) -/
inductive Ev where
  | path (rec : Nat) (kind : Kind)
  | file (key : Str)
deriving DecidableEq, Repr

structure Chunk where
  isJS : Bool
  isEntry : Bool                 -- chunk.isEntryPoint
  source : Nat                   -- chunk.sourceIndex
  entryIsCSS : Bool              -- the entry file has a CSS representation
  cross : List (Kind × Nat)      -- chunk.crossChunkImports
  prefixStmts : List Nat         -- ImportRecordIndex of the SImports of crossChunkPrefixStmts, in order
  wrapCJS : Bool                 -- entry file: Meta.Wrap == WrapCJS
  aliases : List Str             -- entry file: Meta.SortedAndFilteredExportAliases
  toOther : List Str             -- values of exportsToOtherChunks
  css : Option Nat               -- hasCSSChunk / cssChunkIndex
  records : List Rec             -- import records of the files of the chunk
  prints : List Ev               -- what the compile results add to `imports`, in order
deriving Repr

structure Ctx where
  keepESM : Bool                 -- OutputFormat.KeepESMImportExportSyntax()
  asciiOnly : Bool
  min : Bool                     -- MinifiedMetafile
  keys : List Str                -- c.chunks[i].uniqueKey
  pretty : List Str              -- per source index: PrettyPaths.Select(MetafilePathStyle)
  emit : List (Str × Str)        -- key -> path relative to the directory of THIS chunk (what the code gets)
  json : List (Str × Str)        -- key -> pretty path of the final output (what the metadata gets)
deriving Repr

/-- "crossChunkImportRecords[i] = ast.ImportRecord{Kind, Path: uniqueKey, Flags: ShouldNotBeExternalInMetafile|…}" -/
def crossRecords (x : Ctx) (c : Chunk) : Option (List Rec) :=
  c.cross.mapM fun (k, i) => (x.keys[i]?).map fun key => { path := key, kind := k, notExternal := true }

/-- js_printer `printPath(importRecordIndex, importKind)` -/
def printJS (recs : List Rec) : Ev → Option Imp
  | .path i k => (recs[i]?).map fun r => { path := r.path, kind := k, external := !r.notExternal }
  | .file key => some { path := key, kind := .fileLoader, external := false }

/-- css_printer `recordImportPathForMetafile(importRecordIndex)` -/
def printCSS (recs : List Rec) : Ev → Option Imp
  | .path i _ => (recs[i]?).map fun r => { path := r.path, kind := r.kind, external := !r.notExternal }
  | .file _ => none   -- `generateChunkCSS` has no such entry

/-- the entries of the cross-chunk prefix: every statement there is `import … from <record>` -/
def prefixImports (x : Ctx) (c : Chunk) : Option (List Imp) :=
  (crossRecords x c).bind fun rs => c.prefixStmts.mapM fun i => printJS rs (.path i .stmt)

def fileImports (c : Chunk) : Option (List Imp) :=
  c.prints.mapM (if c.isJS then printJS c.records else printCSS c.records)

/-- `imports` before the path substitution -/
def rawImports (x : Ctx) (c : Chunk) : Option (List Imp) :=
  if c.isJS then
    (prefixImports x c).bind fun a => (fileImports c).map fun b => a ++ b
  else fileImports c

/-- `imports` as a reader of the metafile sees them -/
def imports (x : Ctx) (c : Chunk) : Option (List Imp) :=
  (rawImports x c).map fun l => l.map fun i => { i with path := substKeys x.json i.path }

/-- the import paths (with kinds) in the emitted code of the chunk -/
def emitted (x : Ctx) (c : Chunk) : Option (List (Str × Kind)) :=
  (rawImports x c).map fun l => l.map fun i => (substKeys x.emit i.path, i.kind)

/-! ### exports -/

def strLe : Str → Str → Bool
  | [], _ => true
  | _ :: _, [] => false
  | a :: as, b :: bs => a < b || (a == b && strLe as bs)

def insertStr (a : Str) : List Str → List Str
  | [] => [a]
  | b :: rest => if strLe a b then a :: b :: rest else b :: insertStr a rest

/-- `sort.Strings` (the result of any sorting algorithm: equal strings are indistinguishable) -/
def sortStrs : List Str → List Str
  | [] => []
  | a :: rest => insertStr a (sortStrs rest)

def exportAliases (x : Ctx) (c : Chunk) : List Str :=
  if x.keepESM then
    if c.isEntry then (if c.wrapCJS then [str "default"] else c.aliases) else c.toOther
  else []

def exports (x : Ctx) (c : Chunk) : List Str := sortStrs (exportAliases x c)

/-! ### entryPoint, cssBundle -/

/-- `none`: no field; `some none`: the code panics -/
def entryPoint (x : Ctx) (c : Chunk) : Option (Option Str) :=
  if c.isEntry && (c.isJS || c.entryIsCSS) then some (x.pretty[c.source]?) else none

def cssBundleRaw (x : Ctx) (c : Chunk) : Option (Option Str) :=
  if c.isJS then c.css.map fun i => x.keys[i]? else none

/-! ### the text of the entry up to `"inputs": {` -/

def commaJoin : List Str → Str
  | [] => []
  | [a] => a
  | a :: rest => a ++ (44 :: commaJoin rest)

/-- printers: `"\n        {\n          \"path\": %s,\n          \"kind\": %s%s\n        }"` -/
def jsonImport (x : Ctx) (i : Imp) : Str :=
  mrw x.min "\n        {\n          \"path\": " ++ quoteJSON x.asciiOnly i.path ++
  mrw x.min ",\n          \"kind\": " ++ quoteJSON x.asciiOnly (str i.kind.text) ++
  (if i.external then mrw x.min ",\n          \"external\": true" else []) ++ mrw x.min "\n        }"

def importsText (x : Ctx) (l : List Imp) : Str :=
  mrw x.min "{\n      \"imports\": [" ++ commaJoin (l.map (jsonImport x)) ++
  (if l.isEmpty then [] else mrw x.min "\n      ")

def exportsText (x : Ctx) (l : List Str) : Str :=
  mrw x.min "],\n      \"exports\": [" ++
  commaJoin (l.map fun a => mrw x.min "\n        " ++ quoteJSON x.asciiOnly a) ++
  (if l.isEmpty then [] else mrw x.min "\n      ") ++ mrw x.min "],\n"

def optField (x : Ctx) (name : String) : Option Str → Str
  | none => []
  | some v => mrw x.min ("      \"" ++ name ++ "\": ") ++ quoteJSON x.asciiOnly v ++ mrw x.min ",\n"

/-- the joiner `jMeta` of `generateChunkJS` / `generateChunkCSS` before the callback adds the inputs -/
def headRaw (x : Ctx) (c : Chunk) : Option Str := do
  let imps ← rawImports x c
  if c.isJS then
    let e ← match entryPoint x c with | none => some none | some none => none | some (some p) => some (some p)
    let b ← match cssBundleRaw x c with | none => some none | some none => none | some (some p) => some (some p)
    some (importsText x imps ++ exportsText x (exports x c) ++ optField x "entryPoint" e ++ optField x "cssBundle" b ++
      mrw x.min "      \"inputs\": {")
  else
    match entryPoint x c with
    | none => some (importsText x imps ++ mrw x.min "],\n      \"inputs\": {")
    | some none => none
    | some (some p) =>
      some (importsText x imps ++ mrw x.min "],\n      \"entryPoint\": " ++ quoteJSON x.asciiOnly p ++
        mrw x.min ",\n      \"inputs\": {")

/-- after `substituteFinalPaths` with the pretty paths -/
def headText (x : Ctx) (c : Chunk) : Option Str := (headRaw x c).map (substKeys x.json)

/-! ## one input (bundler.go) -/

/-- an import record after `ScanBundle`: `target = some i`: resolved to source `i` of the bundle -/
structure InRec where
  spec : Str
  kind : Kind
  target : Option Nat
deriving DecidableEq, Repr

structure InImp where
  path : Str
  kind : Kind
  external : Bool
  original : Option Str
deriving DecidableEq, Repr

def inputImport (pretty : List Str) (r : InRec) : Option InImp :=
  match r.target with
  | none => some { path := r.spec, kind := r.kind, external := true, original := none }
  | some t => (pretty[t]?).map fun p => { path := p, kind := r.kind, external := false, original := some r.spec }

/-- "Don't try to resolve paths if we're not bundling" -/
def inputImports (bundle : Bool) (pretty : List Str) (recs : List InRec) : Option (List InImp) :=
  if bundle then recs.mapM (inputImport pretty) else some []

/-! ## driver -/
open Wire

def parseStr (s : String) : Option Str := parseHexUnits 6 s
def showStr (s : Str) : String := hexUnits 6 s

def parseList {α : Type} (f : String → Option α) (s : String) : Option (List α) :=
  if s = "." then some [] else (s.splitOn " ").mapM f

def parsePair {α β : Type} (f : String → Option α) (g : String → Option β) (s : String) : Option (α × β) :=
  match s.splitOn ":" with
  | [a, b] => do some (← f a, ← g b)
  | _ => none

def parseKind (s : String) : Option Kind := (parseNat s).bind Kind.ofNat?

def parseRec (s : String) : Option Rec :=
  match s.splitOn ":" with
  | [p, k, ne] => do some { path := ← parseStr p, kind := ← parseKind k, notExternal := ne == "1" }
  | _ => none

def parseEv (s : String) : Option Ev :=
  match s.splitOn ":" with
  | ["F", key] => (parseStr key).map .file
  | [i, k] => do some (.path (← parseNat i) (← parseKind k))
  | _ => none

def parseInRec (s : String) : Option InRec :=
  match s.splitOn ":" with
  | [p, k, t] => do
    let t ← if t = "~" then some none else (parseNat t).map some
    some { spec := ← parseStr p, kind := ← parseKind k, target := t }
  | _ => none

def showImp (i : Imp) : String := s!"{i.kind.toNat}:{if i.external then 1 else 0}:{showStr i.path}"
def showList (l : List String) : String := if l.isEmpty then "." else " ".intercalate l
def showOpt : Option Str → String
  | none => "~"
  | some s => showStr s
def showInImp (i : InImp) : String :=
  s!"{i.kind.toNat}:{if i.external then 1 else 0}:{showStr i.path}:{showOpt i.original}"

def bit (f k : Nat) : Bool := f / 2 ^ k % 2 = 1

def chunkAnswer (x : Ctx) (c : Chunk) : String :=
  match imports x c, emitted x c, headText x c with
  | some imps, some em, some head =>
    let e := match entryPoint x c with | some (some p) => showStr p | _ => "~"
    let b := match cssBundleRaw x c with | some (some p) => showStr (substKeys x.json p) | _ => "~"
    let ex := if c.isJS then showList ((exports x c).map showStr) else "~"
    s!"imports={showList (imps.map showImp)};emitted={showList (em.map fun (p, k) => s!"{k.toNat}:{showStr p}")};exports={ex};entry={e};css={b};head={showStr head}"
  | _, _, _ => "PANIC"

def driver (args : List String) : String :=
  match args with
  | ["chunk", flags, keys, pretty, emit, json, cross, pre, recs, prints, aliases, toOther, source, css] =>
    match parseNat flags, parseList parseStr keys, parseList parseStr pretty, parseList (parsePair parseStr parseStr) emit,
      parseList (parsePair parseStr parseStr) json, parseList (parsePair parseKind parseNat) cross, parseList parseNat pre,
      parseList parseRec recs, parseList parseEv prints, parseList parseStr aliases,
      parseList parseStr toOther, parseNat source, (if css = "~" then some none else (parseNat css).map some) with
    | some f, some keys, some pretty, some emit, some json, some cross, some pre, some recs, some prints, some aliases,
      some toOther, some source, some css =>
      let x : Ctx := { keepESM := bit f 2, asciiOnly := bit f 5, min := bit f 6, keys, pretty, emit, json }
      let c : Chunk := { isJS := bit f 0, isEntry := bit f 1, source, entryIsCSS := bit f 4, cross, prefixStmts := pre,
                         wrapCJS := bit f 3, aliases, toOther, css, records := recs, prints }
      chunkAnswer x c
    | _, _, _, _, _, _, _, _, _, _, _, _, _ => "bad-op"
  | ["input", bundle, pretty, recs] =>
    match parseNat bundle, parseList parseStr pretty, parseList parseInRec recs with
    | some b, some pretty, some recs =>
      match inputImports (b = 1) pretty recs with
      | some l => showList (l.map showInImp)
      | none => "PANIC"
    | _, _, _ => "bad-op"
  | ["quote", a, s] =>
    match parseNat a, parseStr s with
    | some a, some s => showStr (quoteJSON (a = 1) s)
    | _, _ => "bad-op"
  | _ => "bad-op"

end EsbuildModel.MetaImports
