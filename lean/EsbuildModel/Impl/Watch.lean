/-
Model of what esbuild's real file system (`internal/fs/fs_real.go`, `internal/fs/fs.go`) RECORDS while a build reads
the file system in watch mode, of what `WatchData()` turns the record into (one predicate per path), and of the
file-content cache in front of it (`internal/cache/cache_fs.go: FSCache.ReadFile`).

Transcribed line by line from:
  realFS.ReadDirectory (entries cache, `watchData[dir]`, the "keep watching the file" branch), DirEntries.Get,
  DirEntries.SortedKeys, Entry.Kind/Entry.Symlink + realFS.kind (`watchKinds`), realFS.ReadFile, realFS.ModKey,
  realFS.WatchData (resolution of `stateFileNeedModKey`, the six predicates, the kind/symlink wrapper),
  FSCache.ReadFile.
Scope: `RealFSOptions{WantWatchData: true, DoNotCache: false}` (what `rebuildImpl` uses in watch mode), Unix paths,
ASCII entry names (`strings.ToLower` = `String.toLower`), no ".zip"/"__virtual__" path components (zipFS passes through).

The operating system is abstract: `FS` says, per path, what `stat`/`open`/`readdir`/`read` answer (`Node`) and what
`kindOfPath` (lstat + evalSymlinks + lstat) answers (`kind`).
-/
namespace EsbuildModel.Watch

abbrev Path := String

/-! ## association lists (Go maps): newest binding first, `aset` shadows -/
def aget {α : Type} : List (String × α) → String → Option α
  | [], _ => none
  | (k', v) :: m, k => if k' = k then some v else aget m k

def aset {α : Type} (m : List (String × α)) (k : String) (v : α) : List (String × α) := (k, v) :: m

/-! ## the abstract file system -/
inductive Node where
  | missing                                           -- stat fails (ENOENT, ENOTDIR of a parent, dangling link, …)
  | file (content : String) (key : Option Nat)        -- not a directory; `key = none`: mod key unusable (too new / zero mtime)
  | dir (names : List String) (key : Option Nat)      -- names in the order `Readdirnames` returns them
  deriving DecidableEq, Repr, Inhabited

structure FS where
  node : Path → Node
  kind : Path → String × Nat        -- kindOfPath: (symlink target or "", 0 | DirEntry=1 | FileEntry=2)

inductive Err where
  | notFound | notDir | isDir
  deriving DecidableEq, Repr, Inhabited

instance : DecidableEq (Except Err String) := fun a b =>
  match a, b with
  | .ok x, .ok y => if h : x = y then isTrue (by rw [h]) else isFalse (fun h' => h (by cases h'; rfl))
  | .error x, .error y => if h : x = y then isTrue (by rw [h]) else isFalse (fun h' => h (by cases h'; rfl))
  | .ok _, .error _ => isFalse (fun h => by cases h)
  | .error _, .ok _ => isFalse (fun h => by cases h)

inductive KeyRes where
  | ok (k : Nat) | unusable | err
  deriving DecidableEq, Repr, Inhabited

/-- `modKey(path)` of modkey_unix.go -/
def FS.modKey (fs : FS) (p : Path) : KeyRes :=
  match fs.node p with
  | .missing => .err
  | .file _ (some k) => .ok k
  | .file _ none => .unusable
  | .dir _ (some k) => .ok k
  | .dir _ none => .unusable

/-- `realFS.readdir`: canonical error or the names -/
def FS.readdir (fs : FS) (p : Path) : Except Err (List String) :=
  match fs.node p with
  | .missing => .error .notFound
  | .file _ _ => .error .notDir
  | .dir names _ => .ok names

/-- `ioutil.ReadFile` + `canonicalizeError` -/
def FS.readFile (fs : FS) (p : Path) : Except Err String :=
  match fs.node p with
  | .missing => .error .notFound
  | .file c _ => .ok c
  | .dir _ _ => .error .isDir

/-- `os.Stat(path)` succeeded and `!info.IsDir()` -/
def FS.isFile (fs : FS) (p : Path) : Bool :=
  match fs.node p with
  | .file _ _ => true
  | _ => false

def FS.isDir (fs : FS) (p : Path) : Bool :=
  match fs.node p with
  | .dir _ _ => true
  | _ => false

/-- the error part of `readdir` -/
def FS.dirErr (fs : FS) (p : Path) : Option Err :=
  match fs.node p with
  | .missing => some .notFound
  | .file _ _ => some .notDir
  | .dir _ _ => none

/-- the names part of `readdir` (`nil` on error) -/
def FS.names (fs : FS) (p : Path) : List String :=
  match fs.node p with
  | .dir names _ => names
  | _ => []

/-! ## names, lower-casing, the `entries.data` map -/
def lower (s : String) : String := s.toLower

/-- `fs.fp.join([]string{dir, base})` for a clean non-root `dir` and a plain `base` -/
def join (d b : String) : Path := d ++ "/" ++ b

/-- `entries.data[strings.ToLower(name)] = &Entry{base: name}` over `names`, then `entries.data[key]`:
the LAST name with that lower-cased key wins. -/
def lookupLast : List String → String → Option String
  | [], _ => none
  | n :: rest, k =>
    match lookupLast rest k with
    | some m => some m
    | none => if lower n = k then some n else none

/-- the `base` fields of the values of `entries.data` (one per lower-cased key: the last one), in list order -/
def dedupLast : List String → List String
  | [] => []
  | n :: rest => if rest.any (fun m => lower m = lower n) then dedupLast rest else n :: dedupLast rest

def insertStr (a : String) : List String → List String
  | [] => [a]
  | b :: l => if a ≤ b then a :: b :: l else b :: insertStr a l

/-- `sort.Strings` (byte order = code-point order); the order is total, so every correct sorting algorithm
returns the same list: an insertion sort here -/
def sortStrings (l : List String) : List String := l.foldr insertStr []

/-- `SortedKeys()`: the values of the map in (random) map order, sorted -/
def sortedKeysOf (names : List String) : List String := sortStrings (dedupLast names)

/-! ## operations of a build and their answers on a given file system (no caches: a FRESH build) -/
inductive Op where
  | readDir (d : Path)                 -- ReadDirectory(d)
  | get (d : Path) (q : String)        -- ReadDirectory(d) then entries.Get(q)
  | sortedKeys (d : Path)              -- ReadDirectory(d) then entries.SortedKeys()
  | kind (d : Path) (q : String)       -- ReadDirectory(d), Get(q), entry.Kind(fs) and entry.Symlink(fs)
  | readFile (p : Path)                -- ReadFile(p)
  | modKey (p : Path)                  -- ModKey(p)
  | cachedRead (p : Path)              -- FSCache.ReadFile(fs, p): ModKey(p), and ReadFile(p) unless the cache hits
  deriving DecidableEq, Repr, Inhabited

inductive Ans where
  | dir (e : Option Err)
  | entry (e : Option Err) (base : Option String)
  | keys (e : Option Err) (ks : Option (List String))
  | kind (e : Option Err) (r : Option (String × String × Nat))     -- base, symlink, kind
  | file (r : Except Err String)
  | key (r : KeyRes)
  deriving DecidableEq, Repr, Inhabited

def answer (fs : FS) : Op → Ans
  | .readDir d => .dir (fs.dirErr d)
  | .get d q => .entry (fs.dirErr d) (lookupLast (fs.names d) (lower q))
  | .sortedKeys d => .keys (fs.dirErr d) (if fs.isDir d then some (sortedKeysOf (fs.names d)) else none)
  | .kind d q => .kind (fs.dirErr d) ((lookupLast (fs.names d) (lower q)).map (fun b => (b, fs.kind (join d b))))
  | .readFile p => .file (fs.readFile p)
  | .modKey p => .key (fs.modKey p)
  | .cachedRead p => .file (fs.readFile p)

/-- What a fresh build may depend on: WHICH error it got is forgotten (H5: the watcher does not distinguish error
kinds), and so is the value of a mod key (it depends on the wall clock — a key becomes usable when the file is three
seconds old — and is used by esbuild only to decide whether the content cache may be trusted). -/
def obsErr : Option Err → Option Err
  | none => none
  | some _ => some .notFound

def obs : Ans → Ans
  | .dir e => .dir (obsErr e)
  | .entry e b => .entry (obsErr e) b
  | .keys e k => .keys (obsErr e) k
  | .kind e r => .kind (obsErr e) r
  | .file (.ok c) => .file (.ok c)
  | .file (.error _) => .file (.error .notFound)
  | .key _ => .key .err

/-! ## the recording state of `realFS` (+ the `FSCache` in front of it) -/
inductive WState where
  | dirEntries      -- stateDirHasAccessedEntries
  | dirUnreadable   -- stateDirUnreadable
  | hasModKey       -- stateFileHasModKey
  | needModKey      -- stateFileNeedModKey
  | missing         -- stateFileMissing
  | unusable        -- stateFileUnusableModKey
  deriving DecidableEq, Repr, Inhabited

/-- `accessedEntries` -/
structure Accessed where
  wasPresent : List (String × Bool) := []
  allEntries : Option (List String) := none
  deriving Repr, Inhabited

/-- `entriesOrErr` of one directory in `fs.entries`: error, the `data` map (as the list of names it was built from;
`nil` on error), the entries whose `needStat` is already false with their (symlink, kind), and the
`accessedEntries` object the `DirEntries` value points to (one object per directory, because the cache makes
`ReadDirectory` run its body at most once per directory). -/
structure DirCache where
  err : Option Err
  names : List String
  statd : List (String × (String × Nat)) := []
  acc : Accessed := {}
  deriving Repr, Inhabited

/-- `privateWatchData`; `acc = true`: the `accessedEntries` pointer is the object of this directory's `DirCache`,
`false`: nil. `modKey = none` is the zero `ModKey{}`. -/
structure PWD where
  acc : Bool := false
  contents : String := ""
  modKey : Option Nat := none
  state : WState
  deriving Repr, Inhabited

/-- `fsEntry` of cache_fs.go -/
structure FCEntry where
  contents : String
  modKey : Option Nat
  usable : Bool
  deriving Repr, Inhabited

structure St where
  cache : List (Path × DirCache) := []      -- fs.entries
  watch : List (Path × PWD) := []           -- fs.watchData
  kinds : List (Path × (String × Nat)) := []  -- fs.watchKinds
  fcache : List (Path × FCEntry) := []      -- FSCache.entries (lives across builds)
  deriving Repr, Inhabited

/-- the key stored in `data.modKey` / `fsEntry.modKey`: `ModKey{}` unless `err == nil` -/
def KeyRes.stored : KeyRes → Option Nat
  | .ok k => some k
  | _ => none

/-- the state `ModKey` derives from its result: `modKeyUnusable` / another error / success -/
def KeyRes.toState : KeyRes → WState
  | .unusable => .unusable
  | .err => .missing
  | .ok _ => .hasModKey

/-- `ReadDirectory`'s update of `fs.watchData[dir]` on a cache miss (`none`: leave the map alone) -/
def tReadDir (e : Option Err) (old : Option PWD) : Option PWD :=
  let state := if e.isSome then WState.dirUnreadable else WState.dirEntries
  match old with
  | some data =>
    if e.isSome && (data.state == .hasModKey || data.state == .needModKey || data.state == .unusable) then none
    else some { acc := true, state := state }
  | none => some { acc := true, state := state }

/-- `ReadFile`'s update of `fs.watchData[path]` -/
def tReadFile (r : Except Err String) (old : Option PWD) : PWD :=
  let data : PWD := match old with
    | some d => d
    | none => { state := .dirEntries }   -- zero value; its state (stateNone) is never looked at: see below
  let contents := match r with | .ok c => c | .error _ => ""
  match r with
  | .error _ => { data with state := .missing, contents := contents }
  | .ok _ =>
    if old.isNone || data.state == .dirUnreadable then { data with state := .needModKey, contents := contents }
    else { data with contents := contents }

/-- `ModKey`'s update of `fs.watchData[path]`: an unknown path, or one that so far is only known as
"not a readable directory" (`stateDirUnreadable`), gets its state from the result; `stateFileNeedModKey` is resolved -/
def tModKey (r : KeyRes) (old : Option PWD) : PWD :=
  match old with
  | none => { state := r.toState, modKey := r.stored }
  | some data =>
    if data.state == .dirUnreadable then { data with state := r.toState, modKey := r.stored }
    else if data.state == .needModKey then { data with state := .hasModKey, modKey := r.stored }
    else { data with modKey := r.stored }

/-- `realFS.ReadDirectory(dir)`: returns the (possibly cached) `entriesOrErr` -/
def doReadDir (fs : FS) (st : St) (d : Path) : St × DirCache :=
  match aget st.cache d with
  | some c => (st, c)
  | none =>
    let e := fs.dirErr d
    let c : DirCache := { err := e, names := fs.names d }
    let watch := match tReadDir e (aget st.watch d) with
      | some data => aset st.watch d data
      | none => st.watch
    ({ st with cache := aset st.cache d c, watch := watch }, c)

/-- `entries.Get(query)` on the `DirEntries` of directory `d` -/
def doGet (st : St) (d : Path) (c : DirCache) (q : String) : St × DirCache × Option String :=
  if c.err.isSome then (st, c, none)      -- entries.data == nil
  else
    let key := lower q
    let e := lookupLast c.names key
    let c' := { c with acc := { c.acc with wasPresent := aset c.acc.wasPresent key e.isSome } }
    ({ st with cache := aset st.cache d c' }, c', e)

/-- `entries.SortedKeys()` -/
def doSortedKeys (st : St) (d : Path) (c : DirCache) : St × Option (List String) :=
  if c.err.isSome then (st, none)
  else
    let keys := sortedKeysOf c.names
    let c' := { c with acc := { c.acc with allEntries := some keys } }
    ({ st with cache := aset st.cache d c' }, some keys)

/-- `entry.Kind(fs)` / `entry.Symlink(fs)` for the entry with base name `b` of directory `d` -/
def doStat (fs : FS) (st : St) (d : Path) (c : DirCache) (b : String) : St × (String × Nat) :=
  match aget c.statd b with
  | some r => (st, r)                      -- needStat == false
  | none =>
    let p := join d b
    let r := fs.kind p
    let c' := { c with statd := aset c.statd b r }
    ({ st with cache := aset st.cache d c', kinds := aset st.kinds p r }, r)

/-- `realFS.ReadFile(path)` -/
def doReadFile (fs : FS) (st : St) (p : Path) : St × Except Err String :=
  let r := fs.readFile p
  ({ st with watch := aset st.watch p (tReadFile r (aget st.watch p)) }, r)

/-- `realFS.ModKey(path)` -/
def doModKey (fs : FS) (st : St) (p : Path) : St × KeyRes :=
  let r := fs.modKey p
  ({ st with watch := aset st.watch p (tModKey r (aget st.watch p)) }, r)

/-- the tail of `FSCache.ReadFile` after a miss: return an error as it is, store a successful read -/
def fcStore (st : St) (p : Path) (k : KeyRes) (r : Except Err String) : St × Except Err String :=
  match r with
  | .error e => (st, .error e)
  | .ok c =>
    let isOk := match k with | .ok _ => true | _ => false
    ({ st with fcache := aset st.fcache p { contents := c, modKey := k.stored, usable := isOk } }, .ok c)

/-- the hit test of `FSCache.ReadFile`: `entry != nil && entry.isModKeyUsable && modKeyErr == nil && entry.modKey == modKey` -/
def fcHit (entry : Option FCEntry) (k : KeyRes) : Option String :=
  match entry, k with
  | some e, .ok key => if e.usable && e.modKey == some key then some e.contents else none
  | _, _ => none

/-- `FSCache.ReadFile(fs, path)` -/
def doCachedRead (fs : FS) (st : St) (p : Path) : St × Except Err String :=
  let entry := aget st.fcache p
  let st1 := (doModKey fs st p).1
  let k := (doModKey fs st p).2
  match fcHit entry k with
  | some c => (st1, .ok c)
  | none => fcStore (doReadFile fs st1 p).1 p k (doReadFile fs st1 p).2

/-- one operation of the build against the real file system object: new state and the answer THE CODE gives
(from its caches where it has them) -/
def step (fs : FS) (st : St) : Op → St × Ans
  | .readDir d =>
    let (st1, c) := doReadDir fs st d
    (st1, .dir c.err)
  | .get d q =>
    let (st1, c) := doReadDir fs st d
    let (st2, _, e) := doGet st1 d c q
    (st2, .entry c.err e)
  | .sortedKeys d =>
    let (st1, c) := doReadDir fs st d
    let (st2, ks) := doSortedKeys st1 d c
    (st2, .keys c.err ks)
  | .kind d q =>
    let (st1, c) := doReadDir fs st d
    let (st2, c2, e) := doGet st1 d c q
    match e with
    | none => (st2, .kind c.err none)
    | some b =>
      let (st3, r) := doStat fs st2 d c2 b
      (st3, .kind c.err (some (b, r)))
  | .readFile p =>
    let (st1, r) := doReadFile fs st p
    (st1, .file r)
  | .modKey p =>
    let (st1, r) := doModKey fs st p
    (st1, .key r)
  | .cachedRead p =>
    let (st1, r) := doCachedRead fs st p
    (st1, .file r)

/-- the recording part alone -/
def record (fs : FS) (st : St) (op : Op) : St := (step fs st op).1

def recordAll (fs : FS) (st : St) (ops : List Op) : St := ops.foldl (record fs) st

/-- the answers the code gave along the way -/
def answersOf (fs : FS) : St → List Op → List Ans
  | _, [] => []
  | st, op :: ops => (step fs st op).2 :: answersOf fs (step fs st op).1 ops

/-! ## `WatchData()` -/
structure WDItem where
  state : WState
  contents : String
  modKey : Option Nat
  acc : Option Accessed        -- `data.accessedEntries` dereferenced (`none`: nil pointer)
  deriving Repr, Inhabited

/-- what `WatchData()` closes over -/
structure WD where
  keys : List Path                           -- keys of `paths` (with repetitions)
  item : Path → Option WDItem                -- from `fs.watchData`
  kind : Path → Option (String × Nat)        -- from `fs.watchKinds`

/-- the loop body before the `switch`: `stateFileNeedModKey` is resolved with a `modKey(path)` call made NOW,
on the file system as it is when `WatchData()` runs (`fsW`) -/
def finItem (fsW : FS) (st : St) (p : Path) (data : PWD) : WDItem :=
  let acc := if data.acc then (aget st.cache p).map (·.acc) else none
  if data.state == .needModKey then
    match fsW.modKey p with
    | .unusable => { state := .unusable, contents := data.contents, modKey := data.modKey, acc := acc }
    | .err => { state := .missing, contents := data.contents, modKey := data.modKey, acc := acc }
    | .ok k => { state := .hasModKey, contents := data.contents, modKey := some k, acc := acc }
  else { state := data.state, contents := data.contents, modKey := data.modKey, acc := acc }

def finalize (fsW : FS) (st : St) : WD :=
  { keys := st.watch.map (·.1) ++ st.kinds.map (·.1)
    item := fun p => (aget st.watch p).map (finItem fsW st p)
    kind := fun p => aget st.kinds p }

inductive Verdict where
  | clean       -- the closure returns ""
  | changed     -- the closure returns a path
  | panic       -- nil dereference (never reached from states the recorder produces)
  deriving DecidableEq, Repr, Inhabited

/-- the closure stored for one `watchData` entry, evaluated on the file system `fs'` -/
def itemVerdict (fs' : FS) (p : Path) (it : WDItem) : Verdict :=
  match it.state with
  | .dirUnreadable => if fs'.dirErr p = none then .changed else .clean
  | .dirEntries =>
    if fs'.dirErr p ≠ none then .changed
    else match it.acc with
      | none => .panic
      | some acc =>
        let names := fs'.names p
        match acc.allEntries with
        | some all =>
          -- `len(names) != len(allEntries)`, then element-wise comparison of the sorted names: list inequality
          if sortStrings names ≠ all then .changed else .clean
        | none =>
          -- `lookup[strings.ToLower(name)] = name`; every key of `wasPresent` (a Go map: each key once, newest value)
          if (acc.wasPresent.map (·.1)).all (fun k =>
               aget acc.wasPresent k == some (lookupLast names k).isSome) then .clean else .changed
  | .missing => if fs'.isFile p then .changed else .clean
  | .hasModKey =>
    match fs'.modKey p with
    | .ok k => if some k ≠ it.modKey then .changed else .clean
    | _ => .changed
  | .needModKey => .clean        -- no `case` in the switch: no closure. Cannot occur after `finItem`.
  | .unusable =>
    match fs'.readFile p with
    | .ok c => if c ≠ it.contents then .changed else .clean
    | .error _ => .changed

/-- `paths[path]` after the second loop: the kind/symlink check wrapped around the previous closure -/
def verdict (wd : WD) (fs' : FS) (p : Path) : Verdict :=
  let base := match wd.item p with
    | some it => itemVerdict fs' p it
    | none => .clean
  match wd.kind p with
  | none => base
  | some observed =>
    if base ≠ .clean then base
    else if fs'.kind p ≠ observed then .changed else .clean

/-- the paths whose predicate fires on `fs'` -/
def dirty (wd : WD) (fs' : FS) : List Path := wd.keys.filter (fun p => verdict wd fs' p ≠ .clean)

/-! ## which pairs of operations lose information (H4) -/
/-- the path an operation reads as a DIRECTORY -/
def dirOf : Op → Option Path
  | .readDir d | .get d _ | .sortedKeys d | .kind d _ => some d
  | _ => none

/-- the path whose CONTENT an operation reads -/
def readOf : Op → Option Path
  | .readFile p | .cachedRead p => some p
  | _ => none

def FS.isMissing (fs : FS) (p : Path) : Bool :=
  match fs.node p with
  | .missing => true
  | _ => false

/-- `conflict fs a b`: performing `b` after `a` (on `fs`) may leave a record that no longer protects the answer of
`a`, because both use ONE `watchData[path]` slot:
 * the path was read as a directory first and its content is read afterwards (`ReadFile` / `FSCache.ReadFile`),
   and the path is not a file: `ReadFile` overwrites the directory state with `stateFileMissing`;
 * the path was read as a directory first, does not exist, and `ModKey` is called on it afterwards: `ModKey`
   replaces `stateDirUnreadable` by `stateFileMissing`, which does not notice the path becoming a directory;
 * the content of a missing path was read first and the path is read as a directory afterwards
   (`ReadDirectory` overwrites `stateFileMissing` with `stateDirUnreadable`, which does not notice the path
   becoming a file).
On a path that IS a file every order of directory reads, `ReadFile`, `ModKey` and content-cache hits is safe. -/
def conflict (fs : FS) (a b : Op) : Bool :=
  (match dirOf a, readOf b with
   | some d, some p => d == p && !fs.isFile p
   | _, _ => false) ||
  (match dirOf a, b with
   | some d, .modKey p => d == p && fs.isMissing p
   | _, _ => false) ||
  (match readOf a, dirOf b with
   | some p, some d => p == d && fs.isMissing p
   | _, _ => false)

/-- (H4) no two operations of the build conflict -/
def H4 (fs : FS) (ops : List Op) : Prop := ops.Pairwise (fun a b => conflict fs a b = false)

/-- (H1) a usable mod key identifies type and content: if the file had key `k` and the path has key `k` again,
it is the same file with the same content (the key holds inode, size, mtime, mode, uid; `modKeySafetyGap` is there
to make this true for files that are written twice within the mtime resolution) -/
def H1 (fs fs' : FS) : Prop :=
  ∀ p c k, fs.node p = .file c (some k) → fs'.modKey p = .ok k → fs'.node p = .file c (some k)

/-- (H2) the file system does not change between the reads of the build and `WatchData()` (only `modKey` is
looked at by `WatchData()`) -/
def H2 (fs fsW : FS) : Prop := ∀ p, fsW.modKey p = fs.modKey p

/-- (H3) no entry is replaced by one that differs only in case: `Get` records presence by lower-cased name -/
def H3 (fs fs' : FS) : Prop :=
  ∀ d k n n', lookupLast (fs.names d) k = some n → lookupLast (fs'.names d) k = some n' → n = n'

/-- warming the content cache: `FSCache.ReadFile` through a file system object that does not record -/
def warm (fs : FS) (paths : List Path) : List (Path × FCEntry) :=
  (paths.foldl (fun st p => (doCachedRead fs st p).1) ({} : St)).fcache

/-- deterministic builds: a decision tree over the observable answers -/
inductive Prog (ρ : Type) where
  | done (r : ρ)
  | ask (op : Op) (k : Ans → Prog ρ)

/-- run a program as a FRESH build on `fs`: result and the questions asked -/
def Prog.run {ρ : Type} (fs : FS) : Prog ρ → ρ × List Op
  | .done r => (r, [])
  | .ask op k =>
    let (r, ops) := (k (obs (answer fs op))).run fs
    (r, op :: ops)
end EsbuildModel.Watch
