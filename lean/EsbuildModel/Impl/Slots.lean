/-
Model of the two scope-tree walks of internal/renamer/renamer.go that decide which symbols may share a name.

A. `assignNestedScopeSlots` / `helper` — renamer.AssignNestedScopeSlots / assignNestedScopeSlotsHelper
   (used with --minify-identifiers): every symbol declared in a nested scope receives a slot number in its
   slot namespace (ast.SlotNamespace: 0 default, 1 label, 2 private name, 3 mangled property,
   4 must-not-be-renamed).  A scope starts counting where its parent stopped, sibling scopes start from the same
   counters (so they reuse slots), a symbol that already has a valid slot keeps it, the symbols of the module
   scope are temporarily marked valid so that hoisted copies in nested scopes are skipped, and the label of a
   label scope always takes the next label slot.  Returned: per namespace the maximum counter reached.
B. `numberRename` — renamer.ComputeReservedNames, NewNumberRenamer, AddTopLevelSymbol, AssignNamesByScope
   (assignNamesRecursive, assignNamesInScope, assignName, findUnusedName, findNameUseAndCount) and
   NameForSymbol (used without --minify-identifiers): a symbol keeps its (sanitised) name unless that name is a
   key of one of the name-count maps on its scope chain; otherwise `name2`, `name3`, … is tried, starting
   from the count stored for the name in the closest map.

What is transcribed and how:
* the scope tree is `js_ast.Scope` reduced to what the two walks read: the refs of `Members` (a Go map: the
  code sorts the inner indices, so does the model), `Generated`, `Label.Ref`, `Children`;
* `symbols[i]` out of range, `originalName[0]` / `name[1:]` on an empty name are Go panics → `none` / `.panic`;
* `ast.Index32` validity is `Option`; `uint32` counters are `Nat` (no wrap-around: fewer than 2^32-1 symbols);
* the `for` loop of findUnusedName takes fuel (`.outOfFuel` when it runs out; it never does with the fuel the
  driver passes, and the theorems are stated for every fuel);
* the iteration over singly-nested scopes in assignNamesRecursive is the recursion it replaces;
* names are ASCII (`List Char`, the driver rejects bytes ≥ 0x80), for which js_ast.IsIdentifier and
  ForceValidIdentifier are the tables below; `Symbol.Link` is not modelled (all symbols are their own
  representative), one source file.
-/
import EsbuildModel.Util.Wire
import EsbuildModel.Spec.ScopeTree
namespace EsbuildModel.Slots

/-- sort.Ints (as an insertion sort: the sorted arrangement of a list of integers is unique) -/
def insertNat (a : Nat) : List Nat → List Nat
  | [] => [a]
  | b :: bs => if a ≤ b then a :: b :: bs else b :: insertNat a bs
def sortNat (l : List Nat) : List Nat := l.foldr insertNat []

-- ------------------------------------------------------------------------------------------------
-- A. AssignNestedScopeSlots

/-- a symbol as part A sees it: slot namespace (0..4, 4 = SlotMustNotBeRenamed) and NestedScopeSlot -/
structure Sym where
  ns : Nat
  slot : Option Nat
deriving DecidableEq, Repr

/-- ast.SlotCounts (only indices 0..3 are ever read or written) -/
abbrev Counts := Nat → Nat

def zero : Counts := fun _ => 0
/-- `slot[ns]++` -/
def bump (c : Counts) (n : Nat) : Counts := fun k => if k = n then c k + 1 else c k
/-- SlotCounts.UnionMax -/
def unionMax (a b : Counts) : Counts := fun k => if a k < b k then b k else a k

/-- one iteration of the member / generated loops:
`if ns != SlotMustNotBeRenamed && !symbol.NestedScopeSlot.IsValid() { slot = counter[ns]; counter[ns]++ }` -/
def assignSym (ns : List Nat) (st : List (Option Nat)) (c : Counts) (i : Nat) : Option (List (Option Nat) × Counts) :=
  match ns[i]?, st[i]? with
  | some n, some sl =>
    if n ≠ 4 ∧ sl = none then some (st.set i (some (c n)), bump c n) else some (st, c)
  | _, _ => none

def assignSyms (ns : List Nat) : List (Option Nat) → Counts → List Nat → Option (List (Option Nat) × Counts)
  | st, c, [] => some (st, c)
  | st, c, i :: is =>
    match assignSym ns st c i with
    | none => none
    | some (st', c') => assignSyms ns st' c' is

/-- `if scope.Label.Ref != InvalidRef { symbol.NestedScopeSlot = counter[SlotLabel]; counter[SlotLabel]++ }`
(no test of the namespace or of an existing slot) -/
def assignLabel (st : List (Option Nat)) (c : Counts) : Option Nat → Option (List (Option Nat) × Counts)
  | none => some (st, c)
  | some i =>
    match st[i]? with
    | none => none
    | some _ => some (st.set i (some (c 1)), bump c 1)

mutual
/-- assignNestedScopeSlotsHelper -/
def helper (ns : List Nat) : Scope → List (Option Nat) → Counts → Option (List (Option Nat) × Counts)
  | ⟨m, g, l, ch⟩, st, c =>
    match assignSyms ns st c (sortNat m) with
    | none => none
    | some (st1, c1) =>
      match assignSyms ns st1 c1 g with
      | none => none
      | some (st2, c2) =>
        match assignLabel st2 c2 l with
        | none => none
        | some (st3, c3) => helperList ns ch st3 c3 c3
/-- the loop over the children: every child starts from `c`, the results are joined with UnionMax -/
def helperList (ns : List Nat) : List Scope → List (Option Nat) → Counts → Counts → Option (List (Option Nat) × Counts)
  | [], st, _, acc => some (st, acc)
  | s :: rest, st, c, acc =>
    match helper ns s st c with
    | none => none
    | some (st', r) => helperList ns rest st' c (unionMax acc r)
end

/-- the two marking loops over the module scope: `symbols[ref.InnerIndex].NestedScopeSlot = v` -/
def setSlots (v : Option Nat) : List (Option Nat) → List Nat → Option (List (Option Nat))
  | st, [] => some st
  | st, i :: is =>
    match st[i]? with
    | none => none
    | some _ => setSlots v (st.set i v) is

/-- AssignNestedScopeSlots on the slot table -/
def assignNested (ns : List Nat) (module : Scope) (st : List (Option Nat)) : Option (List (Option Nat) × Counts) :=
  match setSlots (some 1) st (module.members ++ module.generated) with
  | none => none
  | some st1 =>
    match helperList ns module.children st1 zero zero with
    | none => none
    | some (st2, r) =>
      match setSlots none st2 (module.members ++ module.generated) with
      | none => none
      | some st3 => some (st3, r)

/-- AssignNestedScopeSlots: the new NestedScopeSlot of every symbol and the slot counts -/
def assignNestedScopeSlots (module : Scope) (syms : List Sym) : Option (List (Option Nat) × Counts) :=
  assignNested (syms.map (·.ns)) module (syms.map (·.slot))

-- ------------------------------------------------------------------------------------------------
-- B. NumberRenamer

abbrev Name := List Char

/-- a symbol as part B sees it -/
structure NSym where
  ns : Nat
  name : Name
  jsx : Bool

inductive Res (α : Type) where
  | ok (a : α)
  | panic
  | outOfFuel

/-- `nameCounts map[string]uint32`; the first entry for a key is the current one -/
abbrev NameMap := List (Name × Nat)

/-- js_ast.IsIdentifierStart / IsIdentifierContinue / IsIdentifier / ForceValidIdentifier on ASCII -/
def isIdStart (c : Char) : Bool :=
  c == '_' || c == '$' || ('a' ≤ c && c ≤ 'z') || ('A' ≤ c && c ≤ 'Z')
def isIdContinue (c : Char) : Bool := isIdStart c || ('0' ≤ c && c ≤ '9')
def isIdentifier : Name → Bool
  | [] => false
  | c :: cs => isIdStart c && cs.all isIdContinue
def forceValidIdentifier (pre : Name) : Name → Name
  | [] => pre ++ ['_']
  | c :: cs => pre ++ (if isIdStart c then c else '_') :: cs.map (fun c => if isIdContinue c then c else '_')

/-- the walk of findNameUseAndCount over the enclosing scopes -/
def findInChain : List NameMap → Name → Option Nat
  | [], _ => none
  | m :: ms, n =>
    match m.lookup n with
    | some c => some c
    | none => findInChain ms n

inductive NameUse where
  | unused | used | usedInSameScope
deriving DecidableEq

/-- numberScope.findNameUseAndCount: `cur` is the scope itself, `parents` its chain of parents, closest first -/
def findNameUseAndCount (cur : NameMap) (parents : List NameMap) (n : Name) : NameUse × Nat :=
  match cur.lookup n with
  | some c => (.usedInSameScope, c)
  | none =>
    match findInChain parents n with
    | some c => (.used, c)
    | none => (.unused, 0)

def findNameUse (cur : NameMap) (parents : List NameMap) (n : Name) : NameUse :=
  (findNameUseAndCount cur parents n).1

/-- strconv.Itoa -/
def itoa (n : Nat) : Name := Nat.toDigits 10 n

/-- the loop `for { tries++; name = prefix + Itoa(tries); if findNameUse(name) == nameUnused { break } }` -/
def tryNames (cur : NameMap) (parents : List NameMap) (pre : Name) : Nat → Nat → Option (Name × Nat)
  | 0, _ => none
  | fuel + 1, tries =>
    let t := tries + 1
    let n := pre ++ itoa t
    if findNameUse cur parents n = .unused then some (n, t) else tryNames cur parents pre fuel t

/-- the first step of findUnusedName: make the name a valid identifier (`name[1:]` panics on "") -/
def sanitize (ns : Nat) (name : Name) : Option Name :=
  if ns = 2 then
    match name with
    | [] => none
    | _ :: id => some (if isIdentifier id then name else forceValidIdentifier ['#'] id)
  else some (if isIdentifier name then name else forceValidIdentifier [] name)

/-- numberScope.findUnusedName: the chosen name and the updated map of the scope -/
def findUnusedName (fuel : Nat) (cur : NameMap) (parents : List NameMap) (name : Name) (ns : Nat) : Res (Name × NameMap) :=
  match sanitize ns name with
  | none => .panic
  | some name =>
    match findNameUseAndCount cur parents name with
    | (.unused, _) => .ok (name, (name, 1) :: cur)
    | (_, count) =>
      match tryNames cur parents name fuel count with
      | none => .outOfFuel
      | some (n, t) => .ok (n, (n, 1) :: (name, t) :: cur)

/-- the JSX rule of assignName (`originalName[0]` panics on "") -/
def capitalize (jsx : Bool) (name : Name) : Option Name :=
  if jsx then
    match name with
    | [] => none
    | c :: cs => some (if 'a' ≤ c ∧ c ≤ 'z' then Char.ofNat (c.toNat - 32) :: cs else c :: cs)
  else some name

/-- NumberRenamer.assignName: `names` is `r.names[sourceIndex]` ([] = not yet renamed) -/
def assignName (fuel : Nat) (syms : List NSym) (cur : NameMap) (parents : List NameMap) (names : List Name) (ref : Nat) :
    Res (NameMap × List Name) :=
  match syms[ref]?, names[ref]? with
  | some sym, some old =>
    if old ≠ [] then .ok (cur, names)
    else if sym.ns ≠ 0 ∧ sym.ns ≠ 2 then .ok (cur, names)
    else
      match capitalize sym.jsx sym.name with
      | none => .panic
      | some original =>
        match findUnusedName fuel cur parents original sym.ns with
        | .ok (name, cur') => .ok (cur', names.set ref name)
        | .panic => .panic
        | .outOfFuel => .outOfFuel
  | _, _ => .panic

def assignNames (fuel : Nat) (syms : List NSym) (parents : List NameMap) :
    NameMap → List Name → List Nat → Res (NameMap × List Name)
  | cur, names, [] => .ok (cur, names)
  | cur, names, r :: rs =>
    match assignName fuel syms cur parents names r with
    | .ok (cur', names') => assignNames fuel syms parents cur' names' rs
    | .panic => .panic
    | .outOfFuel => .outOfFuel

mutual
/-- assignNamesRecursive (with assignNamesInScope inlined): `chain` is the numberScope passed as `parent`,
closest scope first, the root last; a scope without members and generated symbols allocates no numberScope -/
def assignRec (fuel : Nat) (syms : List NSym) : Scope → List NameMap → List Name → Res (List Name)
  | ⟨m, g, _, ch⟩, chain, names =>
    if m = [] ∧ g = [] then assignRecList fuel syms ch chain names
    else
      match assignNames fuel syms chain [] names (sortNat m ++ g) with
      | .ok (cur, names') => assignRecList fuel syms ch (cur :: chain) names'
      | .panic => .panic
      | .outOfFuel => .outOfFuel
def assignRecList (fuel : Nat) (syms : List NSym) : List Scope → List NameMap → List Name → Res (List Name)
  | [], _, names => .ok names
  | s :: rest, chain, names =>
    match assignRec fuel syms s chain names with
    | .ok names' => assignRecList fuel syms rest chain names'
    | .panic => .panic
    | .outOfFuel => .outOfFuel
end

/-- js_lexer.Keywords and js_lexer.StrictModeReservedWords (checked against the Go tables by the kernel) -/
def keywords : List Name :=
  ["break", "case", "catch", "class", "const", "continue", "debugger", "default", "delete", "do", "else", "enum",
   "export", "extends", "false", "finally", "for", "function", "if", "import", "in", "instanceof", "new", "null",
   "return", "super", "switch", "this", "throw", "true", "try", "typeof", "var", "void", "while", "with",
   "implements", "interface", "let", "package", "private", "protected", "public", "static", "yield"].map String.toList

/-- the loops of computeReservedNamesForScope over one list of refs -/
def reservedOf (syms : List NSym) : List Nat → Option (List Name)
  | [] => some []
  | i :: is =>
    match syms[i]? with
    | none => none
    | some sym =>
      match reservedOf syms is with
      | none => none
      | some rest => some (if sym.ns = 4 then sym.name :: rest else rest)

mutual
/-- computeReservedNamesForScope: the names added, in traversal order (the Go code stores them in a map) -/
def reservedScope (syms : List NSym) : Scope → Option (List Name)
  | ⟨m, g, _, ch⟩ =>
    match reservedOf syms (m ++ g) with
    | none => none
    | some own =>
      match reservedScopes syms ch with
      | none => none
      | some below => some (own ++ below)
def reservedScopes (syms : List NSym) : List Scope → Option (List Name)
  | [] => some []
  | s :: rest =>
    match reservedScope syms s with
    | none => none
    | some a =>
      match reservedScopes syms rest with
      | none => none
      | some b => some (a ++ b)
end

/-- ComputeReservedNames(moduleScopes, symbols): keys of the returned map -/
def computeReservedNames (syms : List NSym) (moduleScopes : List Scope) : Option (List Name) :=
  match reservedScopes syms moduleScopes with
  | none => none
  | some extra => some (keywords ++ extra)

/-- NewNumberRenamer(symbols, reserved); AddTopLevelSymbol for every ref of `topLevel`; AssignNamesByScope(scopes) -/
def numberRenameWith (fuel : Nat) (syms : List NSym) (reserved : List Name) (topLevel : List Nat) (scopes : List Scope) :
    Res (List Name) :=
  match assignNames fuel syms [] (reserved.map (fun n => (n, 1))) (List.replicate syms.length []) topLevel with
  | .ok (root, names) => assignRecList fuel syms scopes [root] names
  | .panic => .panic
  | .outOfFuel => .outOfFuel

/-- the whole pipeline on one file: reserved names from the module scope, then the renamer -/
def numberRename (fuel : Nat) (syms : List NSym) (module : Scope) (topLevel : List Nat) (scopes : List Scope) : Res (List Name) :=
  match computeReservedNames syms [module] with
  | none => .panic
  | some reserved => numberRenameWith fuel syms reserved topLevel scopes

/-- NumberRenamer.NameForSymbol -/
def nameForSymbol (syms : List NSym) (names : List Name) (ref : Nat) : Option Name :=
  match syms[ref]?, names[ref]? with
  | some sym, some n => some (if n ≠ [] then n else sym.name)
  | _, _ => none

-- ------------------------------------------------------------------------------------------------
-- wire

/-- nodes in preorder, each `members:generated:label:childcount` -/
def parseNode (s : String) : Option (List Nat × List Nat × Option Nat × Nat) :=
  match s.splitOn ":" with
  | [m, g, l, n] =>
    match Wire.parseNatList m, Wire.parseNatList g, n.toNat? with
    | some m, some g, some n =>
      if l = "-" then some (m, g, none, n)
      else match l.toNat? with
        | some l => some (m, g, some l, n)
        | none => none
    | _, _, _ => none
  | _ => none

mutual
def parseScope : Nat → List (List Nat × List Nat × Option Nat × Nat) → Option (Scope × List (List Nat × List Nat × Option Nat × Nat))
  | 0, _ => none
  | _, [] => none
  | fuel + 1, (m, g, l, n) :: rest =>
    match parseScopes fuel n rest with
    | none => none
    | some (ch, rest') => some (⟨m, g, l, ch⟩, rest')
def parseScopes : Nat → Nat → List (List Nat × List Nat × Option Nat × Nat) → Option (List Scope × List (List Nat × List Nat × Option Nat × Nat))
  | 0, _, _ => none
  | _, 0, rest => some ([], rest)
  | fuel + 1, n + 1, rest =>
    match parseScope fuel rest with
    | none => none
    | some (s, rest') =>
      match parseScopes fuel n rest' with
      | none => none
      | some (ss, rest'') => some (s :: ss, rest'')
end

def parseTree (s : String) : Option Scope :=
  match (s.splitOn "/").mapM parseNode with
  | none => none
  | some nodes =>
    match parseScope (2 * nodes.length + 2) nodes with
    | some (sc, []) => some sc
    | _ => none

def parseSym (s : String) : Option Sym :=
  match s.splitOn "." with
  | [n, sl] =>
    match n.toNat? with
    | some n =>
      if n > 4 then none
      else if sl = "-" then some ⟨n, none⟩
      else match sl.toNat? with
        | some v => some ⟨n, some v⟩
        | none => none
    | none => none
  | _ => none

def parseName (s : String) : Option Name :=
  match Wire.parseHexUnits 2 s with
  | none => none
  | some bs => if bs.all (· < 128) then some (bs.map Char.ofNat) else none

def parseNSym (s : String) : Option NSym :=
  match s.splitOn "." with
  | [n, j, nm] =>
    match n.toNat?, parseName nm with
    | some n, some nm =>
      if n > 4 then none
      else if j = "1" then some ⟨n, nm, true⟩
      else if j = "0" then some ⟨n, nm, false⟩
      else none
    | _, _ => none
  | _ => none

def parseList {α : Type} (f : String → Option α) (s : String) : Option (List α) :=
  if s = "-" then some [] else (s.splitOn ",").mapM f

def showName (n : Name) : String := Wire.hexUnits 2 (n.map Char.toNat)
def showNames (l : List Name) : String := if l.isEmpty then "-" else ",".intercalate (l.map showName)

def showSlots (l : List (Option Nat)) : String :=
  Wire.showIntList (l.map (fun | none => (-1 : Int) | some v => (v : Int)))

/-- insertion sort without duplicates (canonical form of the key set of a Go map) -/
def insertName (n : Name) : List Name → List Name
  | [] => [n]
  | x :: xs => if n = x then x :: xs else if String.ofList n < String.ofList x then n :: x :: xs else x :: insertName n xs
def sortNames (l : List Name) : List Name := l.foldr insertName []

def driver (args : List String) : String :=
  match args with
  | ["keywords"] => showNames (sortNames keywords)
  | ["nested", syms, tree] =>
    match parseList parseSym syms, parseTree tree with
    | some syms, some tree =>
      match assignNestedScopeSlots tree syms with
      | none => "PANIC"
      | some (st, r) => showSlots st ++ "|" ++ Wire.showNatList [r 0, r 1, r 2, r 3]
    | _, _ => "bad-op"
  | ["number", mode, syms, tree, top] =>
    match parseList parseNSym syms, parseTree tree, Wire.parseNatList top with
    | some syms, some tree, some top =>
      let scopes := if mode = "module" then some [tree] else if mode = "children" then some tree.children else none
      match scopes with
      | none => "bad-op"
      | some scopes =>
        match computeReservedNames syms [tree] with
        | none => "PANIC"
        | some reserved =>
          match numberRename 1000000 syms tree top scopes with
          | .panic => "PANIC"
          | .outOfFuel => "out-of-fuel"
          | .ok names =>
            match (List.range syms.length).mapM (nameForSymbol syms names) with
            | none => "PANIC"
            | some final => showNames final ++ "|" ++ showNames (sortNames ((reserved.drop keywords.length).filter (fun n => !keywords.contains n)))
    | _, _, _ => "bad-op"
  | _ => "bad-op"

end EsbuildModel.Slots
