import EsbuildModel.Impl.Json
import EsbuildModel.Spec.Json
/-
The JavaScript value of the expression `ParseJSON` returns, i.e. of the object / array literal the printer writes
for it (ECMA-262 §13.2.5 object initializers): properties are created in source order with CreateDataProperty; a
property written `["__proto__"]: v` (`PropertyIsComputed`) is an ordinary own property; a property written
`"__proto__": v` (not computed) creates no property and sets the [[Prototype]] when `v` is an object or null
(Annex B.3.1), and two of them in one literal are an early SyntaxError (`none`).
-/
namespace EsbuildModel.Json
open EsbuildModel.Spec.Json

def isObjectOrNull : JsVal → Bool
  | .null => true
  | .arr _ => true
  | .obj _ _ => true
  | _ => false

mutual
def denote : Ast → Option JsVal
  | .null => some .null
  | .bool b => some (.bool b)
  | .num v => some (.num v)
  | .str u => some (.str u)
  | .arr items _ => (denoteItems items).map .arr
  | .obj props _ => denoteProps props [] false false
def denoteItems : List Ast → Option (List JsVal)
  | [] => some []
  | a :: t =>
    match denote a, denoteItems t with
    | some v, some vs => some (v :: vs)
    | _, _ => none
/-- `acc`: the properties created so far, `protoSet`: the prototype was replaced, `seenProto`: a non-computed
`__proto__` key was seen -/
def denoteProps : List (List Nat × Bool × Ast) → List (List Nat × JsVal) → Bool → Bool → Option JsVal
  | [], acc, protoSet, _ => some (.obj acc protoSet)
  | (k, computed, a) :: t, acc, protoSet, seenProto =>
    match denote a with
    | none => none
    | some v =>
      if k = protoKey ∧ !computed then
        if seenProto then none
        else denoteProps t acc (protoSet || isObjectOrNull v) true
      else denoteProps t (setProp acc k v) protoSet seenProto
end

/-! ## printing a value the way the Node side of op `js` does -/

/-- CanonicalNumericIndexString for array indices: `0` or a decimal without leading zero, value < 2^32 - 1 -/
def arrayIndex (k : List Nat) : Option Nat :=
  match k with
  | [] => none
  | [48] => some 0
  | c :: t =>
    if 49 ≤ c ∧ c ≤ 57 ∧ t.all (fun d => 48 ≤ d && d ≤ 57) ∧ k.length ≤ 10 then
      let n := k.foldl (fun a d => a * 10 + (d - 48)) 0
      if n < 4294967295 then some n else none
    else none

def insertIdx {α : Type} (x : Nat × List Nat × α) : List (Nat × List Nat × α) → List (Nat × List Nat × α)
  | [] => [x]
  | y :: t => if x.1 < y.1 then x :: y :: t else y :: insertIdx x t

/-- OrdinaryOwnPropertyKeys: array indices in ascending order, then the other keys in creation order -/
def jsOrder {α : Type} (props : List (List Nat × α)) : List (List Nat × α) :=
  let idx := props.filterMap (fun p => (arrayIndex p.1).map (fun n => (n, p.1, p.2)))
  let rest := props.filter (fun p => (arrayIndex p.1).isNone)
  (idx.foldl (fun acc x => insertIdx x acc) []).map (fun x => (x.2.1, x.2.2)) ++ rest

def joinProps (l : List (List Nat × String)) : String :=
  ",".intercalate (l.map fun p => Wire.hexUnits 4 p.1 ++ ":" ++ p.2)

mutual
def dumpJs : JsVal → String
  | .null => "n"
  | .bool true => "t"
  | .bool false => "f"
  | .num v => "#" ++ Wire.hexUnit 16 (F64.toBits v)
  | .str u => "s" ++ Wire.hexUnits 4 u
  | .arr items => "[" ++ ",".intercalate (dumpJsItems items) ++ "]"
  | .obj props protoSet => "{" ++ (if protoSet then "P" else "") ++ joinProps (jsOrder (dumpJsProps props)) ++ "}"
def dumpJsItems : List JsVal → List String
  | [] => []
  | a :: t => dumpJs a :: dumpJsItems t
def dumpJsProps : List (List Nat × JsVal) → List (List Nat × String)
  | [] => []
  | (k, v) :: t => (k, dumpJs v) :: dumpJsProps t
end

end EsbuildModel.Json
