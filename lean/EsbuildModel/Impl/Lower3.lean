/-
Model of esbuild's lowering of object spread and of object rest in destructuring
(internal/js_parser/js_parser_lower.go: lowerObjectSpread, lowerObjectRestInDecls, lowerAssign,
lowerObjectRestToDecls, lowerObjectRestHelper (visit / lowerObjectRestPattern / splitObjectPattern /
captureIntoRef), captureKeyForObjectRest; js_parser.go: captureValueWithPossibleSideEffects(…, valueCouldBeMutated))
and of the runtime helpers the lowered code calls (internal/runtime/runtime.go: __spreadValues, __spreadProps,
__defNormalProp, __objRest, __restKey).

One expression language serves as source language and as the language of what esbuild emits (the emitted forms are
marked); `Src` says that a term uses source forms only.  Object literals and patterns are evaluated as ECMA-262
says (Spec/ObjectOps.lean has the abstract operations); the helper calls are evaluated as the JavaScript text of
the helpers says.  "Lowering preserves behaviour" is stated and proved in Props/C05ObjRest.lean.

User variables live in `H.env`, the temporaries esbuild generates in `TState.tm` (fresh symbols nobody else can
see).  `let` / `const` / `var` declarations are assignments to variables that exist (no TDZ, no scopes).

Array patterns (`[a, {...b}] = c`, splitArrayPattern), member expressions as assignment targets, for-in/of heads,
catch bindings and function parameters are not in the fragment.
-/
import EsbuildModel.Spec.ObjectOps
namespace EsbuildModel.Lower3

/-- how a property is named: identifier / string literal, numeric literal, or computed (the expression is given
separately; for the other two kinds that expression is a placeholder nobody looks at) -/
inductive KK where
  | str (s : String)
  | num (n : Nat)
  | comp
deriving DecidableEq, Repr

/-- an element of the array of keys passed to `__objRest` (captureKeyForObjectRest) -/
inductive CK where
  | str (s : String)      -- "a"
  | num (n : Int)         -- 0 + ""
  | ident (x : Nat)       -- __restKey(x)
  | temp (k : Nat)        -- __restKey(_k)
deriving DecidableEq, Repr

mutual
inductive E where
  | id (x : Nat)                        -- user variable
  | lit (v : Val)                       -- primitive literal
  | call (f : Nat) (a : E)              -- probe function f(a)
  | obj (ps : PL)                       -- object literal; in source terms it may contain spreads
  | asg (p : Pat) (rhs : E)             -- `p = rhs`: x = e, _k = e, destructuring assignment; value: that of rhs
  | seq (a b : E)                       -- a, b
  | tmp (k : Nat)                       -- emitted: temporary _k
  | spreadValues (a b : E)              -- emitted: __spreadValues(a, b)
  | spreadProps (a b : E)               -- emitted: __spreadProps(a, b)
  | objRest (src : E) (keys : List CK)  -- emitted: __objRest(src, [keys])
/-- the property definitions of an object literal -/
inductive PL where
  | nil
  | data (k : KK) (ke : E) (v : E) (rest : PL)        -- k: v   (also shorthand and methods)
  | getter (k : KK) (ke : E) (g : Nat) (rest : PL)    -- get k() {…}
  | setter (k : KK) (ke : E) (f : Nat) (rest : PL)    -- set k(v) {…}
  | proto (v : E) (rest : PL)                         -- __proto__: v  (not computed, not shorthand)
  | spread (e : E) (rest : PL)                        -- ...e
/-- assignment targets / bindings -/
inductive Pat where
  | var (x : Nat)
  | tmp (k : Nat)                                     -- emitted
  | obj (ps : PPL) (rest : Option Nat)                -- { ps, ...rest }
/-- the properties of an object pattern: `k: t = d` (`d` is a placeholder when `hasD` is false) -/
inductive PPL where
  | nil
  | prop (k : KK) (ke : E) (t : Pat) (hasD : Bool) (d : E) (tl : PPL)
end

def E.asId : E → Option Nat
  | .id x => some x
  | _ => none

def PL.append : PL → PL → PL
  | .nil, q => q
  | .data k ke v r, q => .data k ke v (r.append q)
  | .getter k ke g r, q => .getter k ke g (r.append q)
  | .setter k ke f r, q => .setter k ke f (r.append q)
  | .proto v r, q => .proto v (r.append q)
  | .spread e r, q => .spread e (r.append q)

def PL.isNil : PL → Bool
  | .nil => true
  | _ => false

def PL.hasSpread : PL → Bool
  | .nil => false
  | .data _ _ _ r => r.hasSpread
  | .getter _ _ _ r => r.hasSpread
  | .setter _ _ _ r => r.hasSpread
  | .proto _ r => r.hasSpread
  | .spread _ _ => true

def PPL.append : PPL → PPL → PPL
  | .nil, q => q
  | .prop k ke t hd d r, q => .prop k ke t hd d (r.append q)

def PPL.isNil : PPL → Bool
  | .nil => true
  | _ => false

mutual
/-- bindingHasObjectRest / exprHasObjectRest / containsRestBinding -/
def Pat.hasRest : Pat → Bool
  | .var _ => false
  | .tmp _ => false
  | .obj ps rest => rest.isSome || ps.hasRest
def PPL.hasRest : PPL → Bool
  | .nil => false
  | .prop _ _ t _ _ tl => t.hasRest || tl.hasRest
end

-- ---------------------------------------------------------------- state

structure TState where
  h : H
  tm : Nat → Val

/-- an operation on the user-visible state, run in a state with temporaries -/
def liftH {α : Type} (f : H → R α × H) (s : TState) : R α × TState :=
  ((f s.h).1, { s with h := (f s.h).2 })

def setVar (x : Nat) (v : Val) (s : TState) : TState := { s with h := { s.h with env := upd s.h.env x v } }
def setTmp (k : Nat) (v : Val) (s : TState) : TState := { s with tm := upd s.tm k v }

-- ---------------------------------------------------------------- the runtime helpers (runtime.go)

/-- ToBoolean is false -/
def falsy : Val → Bool
  | .undef => true
  | .null => true
  | .num n => n == 0
  | .str s => s == ""
  | _ => false

/-- `__defNormalProp = (obj, key, value) => key in obj ? __defProp(obj, key, {enumerable: true, configurable:
true, writable: true, value}) : obj[key] = value`: when the key is found on obj or its prototype chain the
property is defined, otherwise the assignment creates it (nothing on the chain can intercept it).  `obj` is an
object the lowered code has just made; ASSUMPTION: its prototype chain consists of ordinary objects. -/
def defNormalProp (a : Rec) (k : Key) (v : Val) : Rec := a.define k (.data v)

/-- `for (var prop in b)` on an object of the world: the own enumerable string keys when the loop starts
(inherited ones are rejected by the hasOwnProperty test that follows; V8 takes the list up front) -/
def forInKeys (w : World) (o : Nat) (tr : Trace) : List Key :=
  ((w.strKeys o tr).filter fun k => w.enumerable o (.str k) tr).map .str

/--
  __spreadValues = (a, b) => {
    for (var prop in b ||= {}) if (__hasOwnProp.call(b, prop)) __defNormalProp(a, prop, b[prop])
    if (__getOwnPropSymbols) for (var prop of __getOwnPropSymbols(b)) {
      if (__propIsEnum.call(b, prop)) __defNormalProp(a, prop, b[prop]) }
    return a }
-/
def spreadValuesH (w : World) (a b : Val) (h : H) : Res × H :=
  match a.asRec with
  | none => (.err .illFormed, h)
  | some ar =>
    let b := if falsy b then Rec.empty.toVal else b
    match b with
    | .obj o =>
      bindR (copyWorld w o (fun k tr => isOwn w o k tr) (fun _ => none) defNormalProp (forInKeys w o h.tr) ar h) fun a1 h1 =>
        bindR (copyWorld w o (fun k tr => ownEnum w o k tr) (fun _ => none) defNormalProp ((w.symKeys o h1.tr).map .sym) a1 h1)
          fun a2 h2 => (.ok a2.toVal, h2)
    | v =>
      bindR (copyEntries w v (fun _ => false) (fun _ => none) defNormalProp v.strEntries ar h) fun a1 h1 =>
        bindR (copyEntries w v (fun _ => false) (fun _ => none) defNormalProp v.symEntries a1 h1)
          fun a2 h2 => (.ok a2.toVal, h2)

/-- `__spreadProps = (a, b) => __defProps(a, __getOwnPropDescs(b))`: every own property of b (always a literal the
lowered code has just made: all enumerable) is defined on a with its complete descriptor; no getter runs -/
def spreadPropsH (a b : Val) : Res :=
  match a.asRec, b.asRec with
  | some ar, some br =>
    let a1 := br.strs.foldl (fun (t : Rec) p => t.define (.str p.1) p.2) ar
    .ok (br.syms.foldl (fun (t : Rec) p => t.define (.sym p.1) p.2) a1).toVal
  | _, _ => .err .illFormed

/-- `__restKey = key => typeof key === 'symbol' ? key : key + ''` (`+` converts an object with hint default and
refuses a symbol that such a conversion produces) -/
def restKeyH (w : World) (v : Val) (h : H) : Res × H :=
  match v with
  | .sym j => (.ok (.sym j), h)
  | v =>
    bindR (toPrim w .default v h) fun p h1 =>
      match p with
      | .sym _ => (.err .typeError, h1)
      | p => (.ok (.str (primStr p)), h1)

/-- `target[prop] = value` on the object `__objRest` is filling (it starts as `{}`): the assignment finds the
accessor `__proto__` of %Object.prototype%, whose setter changes the prototype when the value is an object or
null and does nothing otherwise; any other key becomes an own data property (exact as long as the prototype is
%Object.prototype% or null; after a `__proto__` key with an object value the new chain is taken to have no
setter or read-only property of a later key) -/
def objRestSet (t : Rec) (k : Key) (v : Val) : Rec :=
  if k = .str "__proto__" ∧ t.proto ≠ .null then
    (if v.isObject ∨ v = .null then { t with proto := v } else t)
  else t.define k (.data v)

/--
  __objRest = (source, exclude) => {
    var target = {}
    for (var prop in source) if (__hasOwnProp.call(source, prop) && exclude.indexOf(prop) < 0) target[prop] = source[prop]
    if (source != null && __getOwnPropSymbols) for (var prop of __getOwnPropSymbols(source)) {
      if (exclude.indexOf(prop) < 0 && __propIsEnum.call(source, prop)) target[prop] = source[prop] }
    return target }
-/
def objRestH (w : World) (source : Val) (exclude : List Val) (h : H) : Res × H :=
  let skip : Key → Bool := fun k => exclude.contains k.toVal
  match source with
  | .obj o =>
    bindR (copyWorld w o (fun k tr => isOwn w o k tr && !skip k) (fun _ => none) objRestSet (forInKeys w o h.tr) Rec.empty h) fun t1 h1 =>
      bindR (copyWorld w o (fun k tr => !skip k && ownEnum w o k tr) (fun _ => none) objRestSet ((w.symKeys o h1.tr).map .sym) t1 h1)
        fun t2 h2 => (.ok t2.toVal, h2)
  | v =>
    bindR (copyEntries w v skip (fun _ => none) objRestSet v.strEntries Rec.empty h) fun t1 h1 =>
      if v.nullish then (.ok t1.toVal, h1)
      else bindR (copyEntries w v skip (fun _ => none) objRestSet v.symEntries t1 h1) fun t2 h2 => (.ok t2.toVal, h2)

/-- the elements of the array literal passed to `__objRest`, left to right -/
def evalCKs (w : World) : List CK → TState → R (List Val) × TState
  | [], s => (.ok [], s)
  | c :: cs, s =>
    bindR (match c with
      | .str t => ((.ok (.str t) : Res), s)
      | .num n => (.ok (.str (toString n)), s)
      | .ident x => liftH (restKeyH w (s.h.env x)) s
      | .temp k => liftH (restKeyH w (s.tm k)) s) fun v s1 =>
      bindR (evalCKs w cs s1) fun vs s2 => (.ok (v :: vs), s2)

-- ---------------------------------------------------------------- evaluation

/-- an excluded name of a pattern: the key, the value the key expression had before ToPropertyKey (for a literal
name: the name itself), and the variable when the key expression is a bare identifier -/
structure Ex where
  key : Key
  raw : Val
  isId : Option Nat

/-- PropertyName evaluation: `ev` evaluates the expression of a computed key.  With `stopObj` the model stops
when a computed key is an object (`Hz.objectKey`). -/
def keyOf (w : World) (stopObj : Bool) (k : KK) (ev : TState → Res × TState) (s : TState) : R (Key × Val) × TState :=
  match k with
  | .str t => (.ok (.str t, .str t), s)
  | .num n => (.ok (.str (toString n), .num n), s)
  | .comp =>
    bindR (ev s) fun raw s1 =>
      if stopObj && raw.isObject then (.err (.outside .objectKey), s1)
      else bindR (liftH (toPropertyKey w raw) s1) fun key s2 => (.ok (key, raw), s2)

/-- the object has an accessor property k with a setter (getter) -/
def Rec.hasSetter (r : Rec) (k : Key) : Bool :=
  match r.get k with
  | some (.acc _ (some _)) => true
  | _ => false
def Rec.hasGetter (r : Rec) (k : Key) : Bool :=
  match r.get k with
  | some (.acc (some _) _) => true
  | _ => false

/-- RestBindingInitialization / the AssignmentRestProperty: a new object gets the own enumerable properties of
the value except the excluded names (CopyDataProperties), then it is stored.  With `guard` the model stops when
a variable that was used as a computed key has been reassigned since (`Hz.keyReread`). -/
def restStep (w : World) (guard : Bool) (r : Nat) (v : Val) (ex : List Ex) (s : TState) : Res × TState :=
  if guard && ex.any (fun e => match e.isId with | some x => s.h.env x != e.raw | none => false) then
    (.err (.outside .keyReread), s)
  else
    bindR (liftH (copyDataProps w guard true v (ex.map (·.key)) Rec.empty) s) fun ro s1 =>
      (.ok .undef, setVar r ro.toVal s1)

mutual
/-- `guard`: stop with `Exc.outside` in the situations listed at `Hz` (otherwise go on as the language says) -/
def evalE (w : World) (guard : Bool) : E → TState → Res × TState
  | .id x, s => (.ok (s.h.env x), s)
  | .lit v, s => (.ok v, s)
  | .call f a, s => bindR (evalE w guard a s) fun v s1 => liftH (doEv w (.call f v)) s1
  | .obj ps, s => bindR (evalPL w guard ps false [] Rec.empty s) fun r s1 => (.ok r.toVal, s1)
  | .asg p rhs, s =>
    bindR (evalE w guard rhs s) fun v s1 => bindR (bindPat w guard p v s1) fun _ s2 => (.ok v, s2)
  | .seq a b, s => bindR (evalE w guard a s) fun _ s1 => evalE w guard b s1
  | .tmp k, s => (.ok (s.tm k), s)
  | .spreadValues a b, s =>
    bindR (evalE w guard a s) fun av s1 => bindR (evalE w guard b s1) fun bv s2 => liftH (spreadValuesH w av bv) s2
  | .spreadProps a b, s =>
    bindR (evalE w guard a s) fun av s1 => bindR (evalE w guard b s1) fun bv s2 => (spreadPropsH av bv, s2)
  | .objRest src keys, s =>
    bindR (evalE w guard src s) fun sv s1 => bindR (evalCKs w keys s1) fun ks s2 => liftH (objRestH w sv ks) s2
/-- PropertyDefinitionEvaluation of the remaining property definitions on the object `t` under construction;
`af`: a spread came before; `seg`: the keys defined since the last spread -/
def evalPL (w : World) (guard : Bool) : PL → Bool → List Key → Rec → TState → R Rec × TState
  | .nil, _, _, t, s => (.ok t, s)
  | .data k ke v rest, af, seg, t, s =>
    bindR (keyOf w false k (evalE w guard ke) s) fun kv s1 =>
      bindR (evalE w guard v s1) fun vv s2 => evalPL w guard rest af (kv.1 :: seg) (t.createData kv.1 vv) s2
  | .getter k ke g rest, af, seg, t, s =>
    bindR (keyOf w false k (evalE w guard ke) s) fun kv s1 =>
      if guard && af && !seg.contains kv.1 && t.hasSetter kv.1 then (.err (.outside .accessorSplit), s1)
      else evalPL w guard rest af (kv.1 :: seg) (t.defGetter kv.1 g) s1
  | .setter k ke f rest, af, seg, t, s =>
    bindR (keyOf w false k (evalE w guard ke) s) fun kv s1 =>
      if guard && af && !seg.contains kv.1 && t.hasGetter kv.1 then (.err (.outside .accessorSplit), s1)
      else evalPL w guard rest af (kv.1 :: seg) (t.defSetter kv.1 f) s1
  | .proto v rest, af, seg, t, s =>
    bindR (evalE w guard v s) fun pv s1 =>
      if pv.isObject || pv == .null then
        (if guard && af then (.err (.outside .protoAfterSpread), s1)
         else evalPL w guard rest af seg { t with proto := pv } s1)
      else evalPL w guard rest af seg t s1
  | .spread e rest, _, _, t, s =>
    bindR (evalE w guard e s) fun sv s1 =>
      bindR (liftH (copyDataProps w guard false sv [] t) s1) fun t1 s2 => evalPL w guard rest true [] t1 s2
/-- BindingInitialization / DestructuringAssignmentEvaluation of a target with the value v -/
def bindPat (w : World) (guard : Bool) : Pat → Val → TState → Res × TState
  | .var x, v, s => (.ok .undef, setVar x v s)
  | .tmp k, v, s => (.ok .undef, setTmp k v s)
  | .obj ps rest, v, s =>
    if v.nullish then
      (if guard && ps.isNil && rest.isSome then (.err (.outside .nullRest), s) else (.err .typeError, s))
    else
      bindR (bindPPL w guard ps rest.isSome v [] s) fun ex s1 =>
        match rest with
        | none => (.ok .undef, s1)
        | some r => restStep w guard r v ex s1
/-- the properties of an object pattern, left to right: the name (evaluated once, converted once), GetV, the
default when the value is undefined, the target; returns the excluded names.  `hr`: the pattern ends with a rest
element. -/
def bindPPL (w : World) (guard : Bool) : PPL → Bool → Val → List Ex → TState → R (List Ex) × TState
  | .nil, _, _, ex, s => (.ok ex, s)
  | .prop k ke t hasD d tl, hr, v, ex, s =>
    bindR (keyOf w (guard && hr) k (evalE w guard ke) s) fun kv s1 =>
      bindR (liftH (getV w v kv.1) s1) fun pv s2 =>
        bindR (if hasD && pv == .undef then evalE w guard d s2 else (.ok pv, s2)) fun pv' s3 =>
          bindR (bindPat w guard t pv' s3) fun _ s4 =>
            bindPPL w guard tl hr v (ex ++ [⟨kv.1, kv.2, if k = .comp then ke.asId else none⟩]) s4
end

/-- a list of `target = value` steps (the declarations of a `let` / the comma-separated assignments) -/
def runAL (w : World) (guard : Bool) : List (Pat × E) → TState → Res × TState
  | [], s => (.ok .undef, s)
  | (p, e) :: r, s =>
    bindR (evalE w guard e s) fun v s1 => bindR (bindPat w guard p v s1) fun _ s2 => runAL w guard r s2

inductive Stmt where
  | expr (e : E)                  -- expression statement
  | decl (ds : List (Pat × E))    -- let / const / var with initialisers

def execStmt (w : World) (guard : Bool) : Stmt → TState → Res × TState
  | .expr e, s => bindR (evalE w guard e s) fun _ s1 => (.ok .undef, s1)
  | .decl ds, s => runAL w guard ds s

-- ---------------------------------------------------------------- the lowering

/-- lowerObjectSpread, the loop over the properties: `res` is the expression built so far (none: nothing yet),
`pend` the properties seen since the last spread.
  `{a, ...b, c}`  →  `__spreadProps(__spreadValues({a}, b), {c})` -/
def spreadLoop : PL → Option E → PL → E
  | .nil, res, pend =>
    match res with
    | none => .obj pend
    | some r => if pend.isNil then r else .spreadProps r (.obj pend)
  | .spread e rest, res, pend =>
    let r1 := match res with
      | none => E.obj pend
      | some r => if pend.isNil then r else .spreadProps r (.obj pend)
    spreadLoop rest (some (.spreadValues r1 e)) .nil
  | .data k ke v rest, res, pend => spreadLoop rest res (pend.append (.data k ke v .nil))
  | .getter k ke g rest, res, pend => spreadLoop rest res (pend.append (.getter k ke g .nil))
  | .setter k ke f rest, res, pend => spreadLoop rest res (pend.append (.setter k ke f .nil))
  | .proto v rest, res, pend => spreadLoop rest res (pend.append (.proto v .nil))

/-- lowerObjectSpread (object rest/spread unsupported) -/
def lowerSpread (ps : PL) : E :=
  if ps.hasSpread then spreadLoop ps none .nil else .obj ps

/-- captureKeyForObjectRest: the key expression to leave in the pattern, the element for the array of excluded
keys, the next free temporary -/
def captureKey (k : KK) (ke : E) (n : Nat) : E × CK × Nat :=
  match k with
  | .str t => (ke, .str t, n)
  | .num m => (ke, .num m, n)
  | .comp =>
    match ke with
    | .lit (.str t) => (ke, .str t, n)
    | .lit (.num m) => (ke, .num m, n)
    | .id x => (ke, .ident x, n)
    | .tmp j => (ke, .temp j, n)
    | ke => (.asg (.tmp n) ke, .temp n, n + 1)

/-- lowerObjectRestPattern: `{before, ...r} = init` -/
def restPattern (before : PPL) (r : Nat) (init : E) (cap : List CK) (n : Nat) : List (Pat × E) × Nat :=
  if before.isNil then ([(.var r, .objRest init cap)], n)
  else ([(.tmp n, init), (.obj before none, .tmp n), (.var r, .objRest (.tmp n) cap)], n + 1)

mutual
/-- `visit` of lowerObjectRestHelper: the assignments (in order) that replace `p = init`; `cap`: the captured keys
of the properties of the enclosing pattern that came before a split -/
def visitPat : Pat → E → List CK → Nat → List (Pat × E) × Nat
  | .var x, init, _, n => ([(.var x, init)], n)
  | .tmp k, init, _, n => ([(.tmp k, init)], n)
  | .obj ps rest, init, cap, n => visitPPL .nil ps rest init cap n
termination_by structural p => p
/-- the loop of `visit` over the properties of an object pattern; `done`: the properties passed so far (their keys
already replaced by the capturing form), to be emitted in one native pattern -/
def visitPPL : PPL → PPL → Option Nat → E → List CK → Nat → List (Pat × E) × Nat
  | done, .nil, none, init, _, n => ([(.obj done none, init)], n)
  | done, .nil, some r, init, cap, n => restPattern done r init cap n
  | done, .prop k ke t hd d tl, rest, init, cap, n =>
    -- "Save a copy of this key so the rest binding can exclude it"
    let c : E × CK × Nat := if rest.isSome then captureKey k ke n else (ke, .str "", n)
    let cap1 := if rest.isSome then cap ++ [c.2.1] else cap
    if t.hasRest then
      -- splitObjectPattern
      let more := !tl.isNil || rest.isSome
      let n1 := c.2.2
      let pre : List (Pat × E) := if more then [(.tmp n1, init)] else []
      let init1 : E := if more then .tmp n1 else init
      let n2 := if more then n1 + 1 else n1
      let first : Pat × E := (.obj (done.append (.prop k c.1 (.tmp n2) hd d .nil)) none, init1)
      let r2 := visitPat t (.tmp n2) [] (n2 + 1)
      if more then
        let r3 := visitPPL .nil tl rest init1 cap1 r2.2
        (pre ++ [first] ++ r2.1 ++ r3.1, r3.2)
      else (pre ++ [first] ++ r2.1, r2.2)
    else visitPPL (done.append (.prop k c.1 t hd d .nil)) tl rest init cap1 c.2.2
termination_by structural _ todo => todo
end

/-- js_ast.JoinWithComma over the assignments -/
def seqAll : List (Pat × E) → E
  | [] => .lit .undef
  | (p, e) :: r => r.foldl (fun acc pe => .seq acc (.asg pe.1 pe.2)) (.asg p e)

/-- captureValueWithPossibleSideEffects(loc, 2, init, valueCouldBeMutated): (first use, later uses, next free
temporary); primitive literals are written twice, everything else (identifiers too) goes through a temporary -/
def captureInit (init : E) (n : Nat) : E × E × Nat :=
  match init with
  | .lit v => (.lit v, .lit v, n)
  | e => (.asg (.tmp n) e, .tmp n, n + 1)

/-- lowerAssign with objRestMustReturnInitExpr (the value of the assignment expression is used) -/
def lowerAsgUsed (p : Pat) (rhs : E) (n : Nat) : E × Nat :=
  if p.hasRest then
    let c := captureInit rhs n
    let r := visitPat p c.1 [] c.2.2
    (.seq (seqAll r.1) c.2.1, r.2)
  else (.asg p rhs, n)

mutual
/-- the visitor: children first (they get their temporaries first), then the node itself -/
def lowerE : E → Nat → E × Nat
  | .id x, n => (.id x, n)
  | .lit v, n => (.lit v, n)
  | .call f a, n => let r := lowerE a n; (.call f r.1, r.2)
  | .obj ps, n => let r := lowerPL ps n; (lowerSpread r.1, r.2)
  | .asg p rhs, n =>
    let rp := lowerPat p n
    let rr := lowerE rhs rp.2
    lowerAsgUsed rp.1 rr.1 rr.2
  | .seq a b, n => let ra := lowerE a n; let rb := lowerE b ra.2; (.seq ra.1 rb.1, rb.2)
  | .tmp k, n => (.tmp k, n)
  | .spreadValues a b, n => let ra := lowerE a n; let rb := lowerE b ra.2; (.spreadValues ra.1 rb.1, rb.2)
  | .spreadProps a b, n => let ra := lowerE a n; let rb := lowerE b ra.2; (.spreadProps ra.1 rb.1, rb.2)
  | .objRest src keys, n => let r := lowerE src n; (.objRest r.1 keys, r.2)
def lowerPL : PL → Nat → PL × Nat
  | .nil, n => (.nil, n)
  | .data k ke v rest, n =>
    let rk := lowerE ke n; let rv := lowerE v rk.2; let rr := lowerPL rest rv.2
    (.data k rk.1 rv.1 rr.1, rr.2)
  | .getter k ke g rest, n => let rk := lowerE ke n; let rr := lowerPL rest rk.2; (.getter k rk.1 g rr.1, rr.2)
  | .setter k ke f rest, n => let rk := lowerE ke n; let rr := lowerPL rest rk.2; (.setter k rk.1 f rr.1, rr.2)
  | .proto v rest, n => let rv := lowerE v n; let rr := lowerPL rest rv.2; (.proto rv.1 rr.1, rr.2)
  | .spread e rest, n => let re := lowerE e n; let rr := lowerPL rest re.2; (.spread re.1 rr.1, rr.2)
def lowerPat : Pat → Nat → Pat × Nat
  | .var x, n => (.var x, n)
  | .tmp k, n => (.tmp k, n)
  | .obj ps rest, n => let r := lowerPPL ps n; (.obj r.1 rest, r.2)
def lowerPPL : PPL → Nat → PPL × Nat
  | .nil, n => (.nil, n)
  | .prop k ke t hd d tl, n =>
    let rk := lowerE ke n; let rt := lowerPat t rk.2; let rd := lowerE d rt.2; let rr := lowerPPL tl rd.2
    (.prop k rk.1 rt.1 hd rd.1 rr.1, rr.2)
end

def lower (e : E) : E := (lowerE e 0).1

/-- the children of the declarations -/
def lowerDecls : List (Pat × E) → Nat → List (Pat × E) × Nat
  | [], n => ([], n)
  | (p, e) :: r, n =>
    let rp := lowerPat p n; let re := lowerE e rp.2; let rr := lowerDecls r re.2
    ((rp.1, re.1) :: rr.1, rr.2)

/-- lowerObjectRestInDecls / lowerObjectRestToDecls -/
def visitDecls : List (Pat × E) → Nat → List (Pat × E) × Nat
  | [], n => ([], n)
  | (p, e) :: r, n =>
    if p.hasRest then
      let rv := visitPat p e [] n; let rr := visitDecls r rv.2
      (rv.1 ++ rr.1, rr.2)
    else let rr := visitDecls r n; ((p, e) :: rr.1, rr.2)

/-- statements: an assignment that is the whole expression statement is lowered with
objRestReturnValueIsUnused -/
def lowerStmt : Stmt → Nat → Stmt × Nat
  | .expr (.asg p rhs), n =>
    let rp := lowerPat p n
    let rr := lowerE rhs rp.2
    if rp.1.hasRest then
      let r := visitPat rp.1 rr.1 [] rr.2
      (.expr (seqAll r.1), r.2)
    else (.expr (.asg rp.1 rr.1), rr.2)
  | .expr e, n => let r := lowerE e n; (.expr r.1, r.2)
  | .decl ds, n =>
    let r := lowerDecls ds n
    let r2 := visitDecls r.1 r.2
    (.decl r2.1, r2.2)

def lowerS (st : Stmt) : Stmt := (lowerStmt st 0).1

mutual
/-- the term uses source forms only -/
def E.src : E → Bool
  | .id _ => true
  | .lit _ => true
  | .call _ a => a.src
  | .obj ps => ps.src
  | .asg p rhs => p.src && rhs.src
  | .seq a b => a.src && b.src
  | .tmp _ => false
  | .spreadValues _ _ => false
  | .spreadProps _ _ => false
  | .objRest _ _ => false
def PL.src : PL → Bool
  | .nil => true
  | .data _ ke v r => ke.src && v.src && r.src
  | .getter _ ke _ r => ke.src && r.src
  | .setter _ ke _ r => ke.src && r.src
  | .proto v r => v.src && r.src
  | .spread e r => e.src && r.src
def Pat.src : Pat → Bool
  | .var _ => true
  | .tmp _ => false
  | .obj ps _ => ps.src
def PPL.src : PPL → Bool
  | .nil => true
  | .prop _ ke t _ d tl => ke.src && t.src && d.src && tl.src
end

def Stmt.src : Stmt → Bool
  | .expr e => e.src
  | .decl ds => ds.all fun pe => pe.1.src && pe.2.src

end EsbuildModel.Lower3
