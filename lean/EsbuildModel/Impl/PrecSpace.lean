/-
Model of the white space esbuild's expression printer emits under MinifyWhitespace (js_printer.go:
`printSpaceBeforeOperator`, `printSpaceBeforeIdentifier`, `needSpaceBeforeDot`, with `printSpace` a no-op), on top of the
token decisions of `PrecPrint.print true`. The printer consults its own output (`p.js`, `prevOp` / `prevOpEnd`,
`needSpaceBeforeDot`), so the model threads the output so far: `rev` is the list of pieces, last one first, and `prevOp`
is the opcode of the operator that was printed last if nothing was printed since.

Numeric leaves are modelled for integers below 1000 (printed in plain decimal; larger ones may be printed as `1e3`,
hexadecimal … which changes `needSpaceBeforeDot`; the driver refuses them).
-/
import EsbuildModel.Impl.PrecPrint

namespace EsbuildModel.PrecSpace
open EsbuildModel.JsExpr EsbuildModel.PrecPrint

/-- a piece of output: a token, or one blank -/
inductive STok
  | t (tok : Tok)
  | sp
  deriving DecidableEq, Repr, Inhabited

structure St where
  rev : List STok
  prevOp : Option Nat
  deriving Repr

def tokText : Tok → String
  | .ident n => "x" ++ toString n
  | .num n => toString n
  | .p x => x.text
  | .other s => s

/-- ASCII part of `js_ast.IsIdentifierContinue` -/
def isIdentChar (c : Char) : Bool := c.isAlphanum || c == '_' || c == '$'

def lastChar : STok → Option Char
  | .sp => some ' '
  | .t (.ident _) => some '0'   -- the generated names end in a digit; any identifier ends in an identifier character
  | .t (.num _) => some '0'
  | .t tok => (tokText tok).toList.getLast?

def emit (st : St) (tok : Tok) : St := { rev := .t tok :: st.rev, prevOp := none }
def emitSp (st : St) : St := { rev := .sp :: st.rev, prevOp := none }
/-- `p.print(entry.Text); p.prevOp = op; p.prevOpEnd = len(p.js)` -/
def emitOp (st : St) (e : Entry) : St := { rev := .t (Tok.ofText e.text) :: st.rev, prevOp := some e.code }

/-- `printSpaceBeforeIdentifier` -/
def spaceBeforeIdent (st : St) : St :=
  match st.rev with
  | x :: _ => if (lastChar x).any isIdentChar then emitSp st else st
  | [] => st

/-- `len(p.js) > 1 && p.js[len(p.js)-2] == '<'` when the last piece is the one-byte operator `!` -/
def secondLastIsLt (st : St) : Bool :=
  match st.rev with
  | _ :: x :: _ => lastChar x == some '<'
  | _ => false

/-- `printSpaceBeforeOperator(next)` -/
def spaceBeforeOp (st : St) (next : Nat) : St :=
  match st.prevOp with
  | none => st
  | some prev =>
    let c (op : String) : Nat := (entryOf op).code
    if ((prev == c "BinOpAdd" || prev == c "UnOpPos") && (next == c "BinOpAdd" || next == c "UnOpPos" || next == c "UnOpPreInc")) ||
       ((prev == c "BinOpSub" || prev == c "UnOpNeg") && (next == c "BinOpSub" || next == c "UnOpNeg" || next == c "UnOpPreDec")) ||
       (prev == c "UnOpPostDec" && next == c "BinOpGt") ||
       (prev == c "UnOpNot" && next == c "UnOpPreDec" && secondLastIsLt st)
    then emitSp st else st

/-- an operator: keyword operators go through `printSpaceBeforeIdentifier` and do not set `prevOp` -/
def emitOperator (st : St) (e : Entry) : St :=
  if e.isKeyword then emit (spaceBeforeIdent st) (Tok.ofText e.text)
  else emitOp (spaceBeforeOp st e.code) e

/-- `p.needSpaceBeforeDot == len(p.js)`: the last piece is a plain decimal integer -/
def needSpaceBeforeDot (st : St) : Bool :=
  match st.rev with
  | .t (.num _) :: _ => true
  | _ => false

def open_ (wrap : Bool) (st : St) : St := if wrap then emit st (.p .lparen) else st
def close_ (wrap : Bool) (st : St) : St := if wrap then emit st (.p .rparen) else st

mutual
/-- `printExpr` under MinifyWhitespace, appending to the output so far -/
def printS : Expr → (level : Nat) → (forbidIn isNewTarget : Bool) → St → St
  | .ident n, _, _, _, st => emit (spaceBeforeIdent st) (.ident n)
  | .num n, _, _, _, st => emit (spaceBeforeIdent st) (.num n)
  | .unary op v, level, _, _, st =>
    let entry := unEntry op
    let wrap := decide (level ≥ entry.level)
    let st := open_ wrap st
    let st := if isPrefix entry.code then st else printS v (lvl "LPostfix" - 1) false false st
    let st := emitOperator st entry
    let st := if isPrefix entry.code then printS v (lvl "LPrefix" - 1) false false st else st
    close_ wrap st
  | .binary op l r, level, forbidIn, _, st =>
    let (wrap, leftLevel, rightLevel) := binaryLevels op l r level forbidIn
    let fi := forbidIn && !wrap
    let st := open_ wrap st
    let st := printS l leftLevel fi false st
    let st := emitOperator st (binEntry op)
    let st := printS r rightLevel fi false st
    close_ wrap st
  | .cond t y n, level, forbidIn, _, st =>
    let wrap := decide (level ≥ lvl "LConditional")
    let fi := forbidIn && !wrap
    let st := open_ wrap st
    let st := printS t (lvl "LConditional") fi false st
    let st := emit st (.p .question)
    let st := printS y (lvl "LYield") false false st
    let st := emit st (.p .colon)
    let st := printS n (lvl "LYield") fi false st
    close_ wrap st
  | .dot e name, _, _, isNewTarget, st =>
    let st := printS e (lvl "LPostfix") false isNewTarget st
    let st := if needSpaceBeforeDot st then emitSp st else st
    emit (emit st (.p .dot)) (.ident name)
  | .index e i, _, _, isNewTarget, st =>
    let st := printS e (lvl "LPostfix") false isNewTarget st
    let st := emit st (.p .lbrack)
    let st := printS i (lvl "LLowest") false false st
    emit st (.p .rbrack)
  | .call f args, level, _, isNewTarget, st =>
    let wrap := decide (level ≥ lvl "LNew") || isNewTarget
    let st := open_ wrap st
    let st := printS f (lvl "LPostfix") false false st
    let st := emit st (.p .lparen)
    let st := printArgsS args st
    let st := emit st (.p .rparen)
    close_ wrap st
  | .new f args, level, _, _, st =>
    let wrap := decide (level ≥ lvl "LCall")
    let st := open_ wrap st
    let st := emit (spaceBeforeIdent st) (.p .kNew)
    let st := printS f (lvl "LNew") false true st
    let st :=
      if !args.isNil || decide (level ≥ lvl "LPostfix") then emit (printArgsS args (emit st (.p .lparen))) (.p .rparen)
      else st
    close_ wrap st
def printArgsS : Args → St → St
  | .nil, st => st
  | .cons a .nil, st => printS a (lvl "LComma") false false st
  | .cons a rest, st => printArgsS rest (emit (printS a (lvl "LComma") false false st) (.p .comma))
end

/-- the pieces in output order -/
def St.out (st : St) : List STok := st.rev.reverse

def showSTok : STok → String
  | .sp => "_"
  | .t tok => tokText tok

mutual
def smallNums : Expr → Bool
  | .ident _ => true
  | .num n => decide (n < 1000)
  | .unary _ e => smallNums e
  | .binary _ l r => smallNums l && smallNums r
  | .cond t y n => smallNums t && smallNums y && smallNums n
  | .dot e _ => smallNums e
  | .index e i => smallNums e && smallNums i
  | .call f as => smallNums f && smallNumsArgs as
  | .new f as => smallNums f && smallNumsArgs as
def smallNumsArgs : Args → Bool
  | .nil => true
  | .cons a rest => smallNums a && smallNumsArgs rest
end

end EsbuildModel.PrecSpace
