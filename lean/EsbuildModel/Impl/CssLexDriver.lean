import EsbuildModel.Impl.CssPrint
/-
Line protocol of the kernel `csslex`: `csslex lex …` (tokenizer) and `csslex print …` (token printer).
-/
namespace EsbuildModel.CssLex

def driver (args : List String) : String :=
  match args with
  | "lex" :: rest => lexDriver rest
  | "print" :: rest => printDriver rest
  | _ => "bad-op"

end EsbuildModel.CssLex
