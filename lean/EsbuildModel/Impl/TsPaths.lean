import EsbuildModel.Impl.PkgExports
/-
Model of esbuild's tsconfig.json `paths` / `baseUrl` remapping, transcribed from the Go code:

  /repo/internal/resolver/tsconfig_json.go
      isValidTSConfigPathPattern, isSlash, isValidTSConfigPathNoBaseURLPattern,
      getSubstitutedPathWithConfigDirTemplate, the "paths" / "baseUrl" part of ParseTSConfigJSON,
      applyExtendedConfig (BaseURL / Paths / BaseURLForPaths only)
  /repo/internal/resolver/resolver.go
      the no-baseUrl filter at the end of parseTSConfigFromSource, hasCaseInsensitiveSuffix,
      matchTSConfigPaths

Strings are Go byte strings (`Str = List Char`, one `Char` per byte).  A Go `map[string][]TSConfigPath`
is an association list with pairwise distinct keys; the order of the list stands for the (random) iteration
order of the Go map, and `Props/C11TsPaths.lean` proves that no result depends on it.
The file system is a parameter: `load : Str → Option α` stands for `loadAsFileOrDirectory`.
A Go run-time panic (slice bounds out of range) is the explicit result `Outcome.panic`; since the fix f92402c
(the length test `len(path) >= len(prefix)+len(suffix)` in the pattern scan) it is proved unreachable
(`C11TsPaths.paths_total`).
-/
namespace EsbuildModel.TsPaths
open EsbuildModel.NodeExports (Str)
open EsbuildModel.PkgExports (hasPrefix hasSuffix indexByte slice goClean goJoin)

/-! ## file-system path helpers (fs.Join = path.Clean(path.Join(..)), fs.IsAbs = path.IsAbs) -/

/-- `r.fs.Join(a, b)` (both the mock and the real FS clean the joined path) -/
def fsJoin (a b : Str) : Str := goClean (goJoin a b)

/-- `r.fs.IsAbs(p)` on a POSIX file system -/
def isAbs (p : Str) : Bool := hasPrefix p ['/']

/-! ## validation of patterns (tsconfig_json.go) -/

/-- the loop of `isValidTSConfigPathPattern` with its `foundAsterisk` flag -/
def validLoop (found : Bool) : Str → Bool
  | [] => true
  | c :: cs =>
    if c = '*' then (if found then false else validLoop true cs)
    else validLoop found cs

/-- `isValidTSConfigPathPattern`: at most one `*` -/
def isValidPattern (t : Str) : Bool := validLoop false t

def isSlash (c : Char) : Bool := c = '/' || c = '\\'

def isAsciiLetter (c : Char) : Bool := ('a' ≤ c && c ≤ 'z') || ('A' ≤ c && c ≤ 'Z')

/-- `isValidTSConfigPathNoBaseURLPattern`; `c0 c1 c2` default to the zero byte exactly as in the Go code -/
def isValidNoBaseURL (t : Str) : Bool :=
  let n := t.length
  let z := Char.ofNat 0
  let c0 := match t with | a :: _ => a | _ => z
  let c1 := match t with | _ :: b :: _ => b | _ => z
  let c2 := match t with | _ :: _ :: c :: _ => c | _ => z
  if c0 = '.' && (n = 1 || (n = 2 && c1 = '.')) then true            -- "." or ".."
  else if c0 = '.' && (isSlash c1 || (c1 = '.' && isSlash c2)) then true  -- "./" "../" ".\" "..\"
  else if isSlash c0 then true                                         -- "/" or UNC "\\"
  else if isAsciiLetter c0 && c1 = ':' && isSlash c2 then true         -- "c:/" "c:\"
  else false

def configDirTemplate : Str := "${configDir}".toList

/-- `getSubstitutedPathWithConfigDirTemplate(fs, value, basePath)` (`value[12:]` is in range because of the prefix test) -/
def substConfigDir (configDir value : Str) : Str :=
  if hasPrefix value configDirTemplate then fsJoin configDir ('.' :: '/' :: value.drop 12) else value

/-! ## the "paths" table -/

/-- Go `map[string][]TSConfigPath` -/
abbrev Table := List (Str × List Str)

/-- `m[key] = append(m[key], v)` -/
def appendTo (t : Table) (key v : Str) : Table :=
  match t with
  | [] => [(key, [v])]
  | (k, l) :: rest => if k = key then (k, l ++ [v]) :: rest else (k, l) :: appendTo rest key v

/-- one property of the JSON object "paths": key, and the value — `none` when it is not an array, otherwise
its items (`none` = the item is not a string) -/
abbrev RawPaths := List (Str × Option (List (Option Str)))

/-- the inner loop over `array.Items` -/
def addItems (configDir key : Str) (t : Table) : List (Option Str) → Table
  | [] => t
  | none :: items => addItems configDir key t items
  | some s :: items =>
    if isValidPattern s then addItems configDir key (appendTo t key (substConfigDir configDir s)) items
    else addItems configDir key t items

/-- the loop over `paths.Properties` in ParseTSConfigJSON -/
def parsePaths (configDir : Str) (t : Table) : RawPaths → Table
  | [] => t
  | (key, value) :: props =>
    if !isValidPattern key then parsePaths configDir t props
    else
      match value with
      | none => parsePaths configDir t props                       -- warning "should be an array"
      | some items => parsePaths configDir (addItems configDir key t items) props

/-- the fields of `TSConfigJSON` that matter here -/
structure Config where
  baseUrl : Option Str          -- BaseURL *string
  baseUrlForPaths : Str         -- BaseURLForPaths
  paths : Option Table          -- Paths *TSConfigPaths
deriving Repr, DecidableEq

def Config.empty : Config := ⟨none, [], none⟩

/-- `derived.applyExtendedConfig(base)` -/
def applyExtended (derived base : Config) : Config :=
  let d1 := if base.baseUrl.isSome then { derived with baseUrl := base.baseUrl } else derived
  if base.paths.isSome then { d1 with paths := base.paths, baseUrlForPaths := base.baseUrlForPaths } else d1

/-- the raw content of one tsconfig.json: "extends" is resolved by the caller (`bases` = the configs of the
files named by "extends" that could be loaded, in order), `baseUrl` and `paths` are the JSON values -/
structure Raw where
  baseUrl : Option Str
  paths : Option RawPaths
deriving Repr

/-- `ParseTSConfigJSON` restricted to extends / baseUrl / paths -/
def parseConfig (fileDir configDir : Str) (bases : List Config) (raw : Raw) : Config :=
  let r0 := bases.foldl applyExtended Config.empty
  let r1 := match raw.baseUrl with
    | none => r0
    | some v =>
      let v := substConfigDir configDir v
      let v := if isAbs v then v else fsJoin fileDir v
      { r0 with baseUrl := some v }
  match raw.paths with
  | none => r1
  | some props => { r1 with baseUrlForPaths := fileDir, paths := some (parsePaths configDir [] props) }

/-- the filter at the end of `parseTSConfigFromSource` (only for the outermost file: `!isExtends`) -/
def finishConfig (isExtends : Bool) (c : Config) : Config :=
  if !isExtends && c.baseUrl.isNone then
    match c.paths with
    | none => c
    | some t => { c with paths := some (t.map fun kv => (kv.1, kv.2.filter isValidNoBaseURL)) }
  else c

/-! ## matchTSConfigPaths (resolver.go) -/

inductive Outcome (α : Type) where
  | panic                 -- Go run-time panic: slice bounds out of range
  | notFound              -- `PathPair{}, false, nil`
  | found (a : α)
deriving Repr, DecidableEq

def toLowerAscii (c : Char) : Char := if 'A' ≤ c && c ≤ 'Z' then Char.ofNat (c.toNat + 32) else c

/-- `hasCaseInsensitiveSuffix(s, ".d.ts")`: `strings.EqualFold` of the last five BYTES with an ASCII-only
string is ASCII case-insensitive equality (a multi-byte rune inside five bytes leaves fewer than five runes) -/
def hasDtsSuffix (s : Str) : Bool :=
  s.length ≥ 5 && (s.drop (s.length - 5)).map toLowerAscii = ['.', 'd', '.', 't', 's']

/-- `strings.Replace(s, "*", by, 1)` -/
def replaceFirstStar (s by_ : Str) : Str :=
  match s with
  | [] => []
  | c :: cs => if c = '*' then by_ ++ cs else c :: replaceFirstStar cs by_

/-- absolute path tried for one (already substituted) fallback -/
def absolutize (absBase f : Str) : Str := if isAbs f then f else fsJoin absBase f

/-- the loop over `originalPaths` of an exact match -/
def tryExact {α} (load : Str → Option α) (absBase : Str) : List Str → Outcome α
  | [] => .notFound
  | f :: rest =>
    if hasDtsSuffix f then tryExact load absBase rest
    else
      match load (absolutize absBase f) with
      | some r => .found r
      | none => tryExact load absBase rest

/-- the first loop: `for key, originalPaths := range Map { if key == path {...; return} }` -/
def findExact (t : Table) (path : Str) : Option (List Str) :=
  match t with
  | [] => none
  | (k, fbs) :: rest => if k = path then some fbs else findExact rest path

/-- the state of the second loop: longestMatchPrefixLength, longestMatchSuffixLength, longestMatch -/
structure Best where
  plen : Int
  slen : Int
  pre : Str
  suf : Str
  fbs : List Str
deriving Repr, DecidableEq

def Best.init : Best := ⟨-1, -1, [], [], []⟩

/-- one iteration of the second loop -/
def scanStep (path : Str) (st : Best) (kv : Str × List Str) : Best :=
  match indexByte kv.1 '*' with
  | none => st
  | some i =>
    let pre := kv.1.take i
    let suf := kv.1.drop (i + 1)
    if decide (path.length ≥ pre.length + suf.length) && hasPrefix path pre && hasSuffix path suf &&
        (decide ((pre.length : Int) > st.plen) ||
          (decide ((pre.length : Int) = st.plen) && decide ((suf.length : Int) > st.slen))) then
      ⟨pre.length, suf.length, pre, suf, kv.2⟩
    else st

def scan (path : Str) (t : Table) : Best := t.foldl (scanStep path) Best.init

/-- the loop over `longestMatch.originalPaths`; `matchedText` is recomputed (and may panic) in every iteration -/
def tryPattern {α} (load : Str → Option α) (absBase path pre suf : Str) : List Str → Outcome α
  | [] => .notFound
  | f :: rest =>
    match slice path pre.length ((path.length : Int) - suf.length) with
    | none => .panic                                       -- path[len(prefix) : len(path)-len(suffix)]
    | some matched =>
      let o := replaceFirstStar f matched
      if hasDtsSuffix o then tryPattern load absBase path pre suf rest
      else
        match load (absolutize absBase o) with
        | some r => .found r
        | none => tryPattern load absBase path pre suf rest

/-- `matchTSConfigPaths` on the table `t` with the base URL already chosen -/
def matchTable {α} (load : Str → Option α) (absBase : Str) (t : Table) (path : Str) : Outcome α :=
  match findExact t path with
  | some fbs => tryExact load absBase fbs
  | none =>
    let b := scan path t
    if b.plen ≠ -1 then tryPattern load absBase path b.pre b.suf b.fbs else .notFound

/-- `absBaseURL`: the explicit base URL takes precedence over the implicit one -/
def Config.absBaseURL (c : Config) : Str :=
  match c.baseUrl with
  | some b => b
  | none => c.baseUrlForPaths

/-- `matchTSConfigPaths(tsConfigJSON, path)`; callers guarantee `Paths != nil` -/
def matchTSConfigPaths {α} (load : Str → Option α) (c : Config) (path : Str) : Outcome α :=
  match c.paths with
  | none => .panic                                          -- nil pointer dereference (never called like this)
  | some t => matchTable load c.absBaseURL t path

/-- the head of `loadNodeModules`: tsconfig `paths` first, then `baseUrl`, then `rest` (node_modules …).
`cfg = none` stands for `tsConfigForDir(dirInfo) == nil`. -/
def tsconfigStage {α} (load : Str → Option α) (cfg : Option Config) (importPath : Str)
    (rest : Unit → Outcome α) : Outcome α :=
  match cfg with
  | none => rest ()
  | some c =>
    let viaPaths : Outcome α := match c.paths with
      | none => .notFound
      | some t => matchTable load c.absBaseURL t importPath
    match viaPaths with
    | .panic => .panic
    | .found r => .found r
    | .notFound =>
      match c.baseUrl with
      | none => rest ()
      | some b =>
        match load (fsJoin b importPath) with
        | some r => .found r
        | none => rest ()

end EsbuildModel.TsPaths
