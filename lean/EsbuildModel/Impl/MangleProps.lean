/-
Model of esbuild's property-name mangling at link time.

* `run` — linker.(*linkerContext).mangleProps (internal/linker/linker.go), line by line:
  1. reserved names = the JS keywords (`js_lexer.Keywords`), the targets of the mangle cache (`false` entry: the
     key itself), the `ReservedProps` of every reachable JavaScript file other than the runtime;
  2. the per-file tables `MangledProps : name → symbol` are merged by name: the first reachable file that has a
     name provides the representative symbol, later ones are linked to it with `ast.MergeSymbols` (which adds the
     use-count estimates, uint32 arithmetic) — `mergeSymbols`, `mergeProps`, `stepFile`;
  3. the representatives are sorted with `renamer.StableSymbolCountArray.Less` (count descending, then the stable
     index of the representative's file, then its inner index) — `less`, `mkArray`;
  4. the alphabet is `ast.DefaultNameMinifierJS.ShuffleByCharFreq(sum of the files' histograms)` — `shuffle`,
     `includeFreq` (int32 arithmetic); names come from `NumberToMinifiedName` = `Rename.name`;
  5. in sorted order: a property found in the cache keeps its cached name (`false`: no entry in the result table);
     otherwise the next generated name that is not reserved is taken, written to the result table and (when the
     cache is not nil) to the cache — `assignLoop`, `nextFree`.
* `printerName` — js_printer.(*printer).mangledPropName: follow the symbol links, look the representative up in the
  table, fall back to the original name.

Go maps are association lists here; every `range` over a map is a traversal in list order (that the result does
not depend on that order is a THEOREM, Props/C15MangleProps.lean, not an assumption of the model). A Go panic
(symbol index out of range, a cache value that is neither a string nor `false`, a stable index out of range) and
the non-termination of `MergeSymbols` on cyclic links are `none`.
`sort.Sort` is not stable; the model uses a stable insertion sort with the same comparator — the two agree whenever no
two entries compare equal, which holds when `StableSourceIndices` is injective on the files (it is a permutation
in esbuild; proved sufficient in `less_total`).
-/
import EsbuildModel.Impl.Rename
import EsbuildModel.Util.Wire
namespace EsbuildModel.MangleProps

abbrev Name := List Char

/-- ast.Ref -/
structure Ref where
  src : Nat
  inner : Nat
deriving DecidableEq, Repr

/-- the fields of ast.Symbol that mangleProps / MergeSymbols / FollowSymbols read or write
(`link = none` is `ast.InvalidRef`; `pinned` is the flag MustNotBeRenamed) -/
structure Sym where
  name : Name
  link : Option Ref
  count : Nat
  pinned : Bool
deriving DecidableEq, Repr

/-- ast.SymbolMap.SymbolsForSource -/
abbrev SymMap := List (List Sym)

/-- symbols.Get(ref); `none` = index out of range (Go panics) -/
def getSym (m : SymMap) (r : Ref) : Option Sym :=
  match m[r.src]? with
  | none => none
  | some row => row[r.inner]?

/-- `*symbols.Get(ref) = s` (only used on refs that were read before) -/
def setSym (m : SymMap) (r : Ref) (s : Sym) : SymMap :=
  m.modify r.src (fun row => row.set r.inner s)

def u32 : Nat := 4294967296

/-- ast.MergeSymbols(symbols, old, new) with fuel for the two recursive calls; returns the table and the ref -/
def mergeSymbols : Nat → SymMap → Ref → Ref → Option (SymMap × Ref)
  | 0, _, _, _ => none
  | fuel + 1, m, old, new =>
    if old = new then some (m, new) else
    match getSym m old with
    | none => none
    | some os =>
      match os.link with
      | some l =>
        -- oldSymbol.Link = MergeSymbols(symbols, oldSymbol.Link, new); return oldSymbol.Link
        match mergeSymbols fuel m l new with
        | none => none
        | some (m', r) =>
          match getSym m' old with
          | none => none
          | some os' => some (setSym m' old { os' with link := some r }, r)
      | none =>
        match getSym m new with
        | none => none
        | some ns =>
          match ns.link with
          | some l =>
            -- newSymbol.Link = MergeSymbols(symbols, old, newSymbol.Link); return newSymbol.Link
            match mergeSymbols fuel m old l with
            | none => none
            | some (m', r) =>
              match getSym m' new with
              | none => none
              | some ns' => some (setSym m' new { ns' with link := some r }, r)
          | none =>
            -- oldSymbol.Link = new; newSymbol.MergeContentsWith(oldSymbol)
            let m1 := setSym m old { os with link := some new }
            let ns' : Sym :=
              { ns with
                count := (ns.count + os.count) % u32
                name := if os.pinned && !ns.pinned then os.name else ns.name
                pinned := ns.pinned || os.pinned }
            some (setSym m1 new ns', new)

/-- ast.FollowSymbols without the path compression (which does not change any answer) -/
def follow : Nat → SymMap → Ref → Option Ref
  | 0, _, _ => none
  | fuel + 1, m, r =>
    match getSym m r with
    | none => none
    | some s =>
      match s.link with
      | none => some r
      | some l => follow fuel m l

/-- a value of the mangle cache (`map[string]interface{}`): `false`, a string, anything else -/
inductive CVal where
  | keep
  | str (s : Name)
  | other
deriving DecidableEq, Repr

abbrev Cache := List (Name × CVal)

/-- Go map assignment `m[k] = v` -/
def mapSet {α β : Type} [BEq α] : List (α × β) → α → β → List (α × β)
  | [], k, v => [(k, v)]
  | (a, b) :: rest, k, v => if k == a then (a, v) :: rest else (a, b) :: mapSet rest k v

/-- js_lexer.Keywords (the kernel compares this list with the real table) -/
def keywords : List Name :=
  [['b', 'r', 'e', 'a', 'k'],
   ['c', 'a', 's', 'e'],
   ['c', 'a', 't', 'c', 'h'],
   ['c', 'l', 'a', 's', 's'],
   ['c', 'o', 'n', 's', 't'],
   ['c', 'o', 'n', 't', 'i', 'n', 'u', 'e'],
   ['d', 'e', 'b', 'u', 'g', 'g', 'e', 'r'],
   ['d', 'e', 'f', 'a', 'u', 'l', 't'],
   ['d', 'e', 'l', 'e', 't', 'e'],
   ['d', 'o'],
   ['e', 'l', 's', 'e'],
   ['e', 'n', 'u', 'm'],
   ['e', 'x', 'p', 'o', 'r', 't'],
   ['e', 'x', 't', 'e', 'n', 'd', 's'],
   ['f', 'a', 'l', 's', 'e'],
   ['f', 'i', 'n', 'a', 'l', 'l', 'y'],
   ['f', 'o', 'r'],
   ['f', 'u', 'n', 'c', 't', 'i', 'o', 'n'],
   ['i', 'f'],
   ['i', 'm', 'p', 'o', 'r', 't'],
   ['i', 'n'],
   ['i', 'n', 's', 't', 'a', 'n', 'c', 'e', 'o', 'f'],
   ['n', 'e', 'w'],
   ['n', 'u', 'l', 'l'],
   ['r', 'e', 't', 'u', 'r', 'n'],
   ['s', 'u', 'p', 'e', 'r'],
   ['s', 'w', 'i', 't', 'c', 'h'],
   ['t', 'h', 'i', 's'],
   ['t', 'h', 'r', 'o', 'w'],
   ['t', 'r', 'u', 'e'],
   ['t', 'r', 'y'],
   ['t', 'y', 'p', 'e', 'o', 'f'],
   ['v', 'a', 'r'],
   ['v', 'o', 'i', 'd'],
   ['w', 'h', 'i', 'l', 'e'],
   ['w', 'i', 't', 'h']]

/-- the names the cache reserves: `false` → the key, string → the string, anything else → panic -/
def cacheReserved : Cache → Option (List Name)
  | [] => some []
  | (k, .keep) :: rest => (cacheReserved rest).map (k :: ·)
  | (_, .str s) :: rest => (cacheReserved rest).map (s :: ·)
  | (_, .other) :: _ => none

/-- one reachable file: `c.graph.Files[src].InputFile.Repr` (is it JavaScript?) and the three AST fields read -/
structure File where
  src : Nat
  isJS : Bool
  reserved : List Name
  mangled : List (Name × Ref)
  freq : Option (List Int)

structure Input where
  reachable : List File
  syms : SymMap
  stable : List Nat
  cache : Option Cache

/-- merge one file's table into `mergedProps` (Go: `for name, ref := range repr.AST.MangledProps`) -/
def mergeProps (fuel : Nat) : List (Name × Ref) → List (Name × Ref) × SymMap → Option (List (Name × Ref) × SymMap)
  | [], st => some st
  | (n, r) :: rest, (mg, sm) =>
    match mg.lookup n with
    | some existing =>
      match mergeSymbols fuel sm r existing with
      | none => none
      | some (sm', _) => mergeProps fuel rest (mg, sm')
    | none => mergeProps fuel rest (mg ++ [(n, r)], sm)   -- the key is absent: plain insertion

def wrap32 (x : Int) : Int := (x + 2147483648) % 4294967296 - 2147483648

/-- ast.CharFreq.Include: 64 int32 additions (a missing position reads as 0: the Go type is a fixed array) -/
def includeFreq (a b : List Int) : List Int :=
  (List.range 64).map (fun i => wrap32 (a.getD i 0 + b.getD i 0))

/-- the state of the loop over `c.graph.ReachableFiles` -/
structure Acc where
  reserved : List Name
  merged : List (Name × Ref)
  syms : SymMap
  freq : List Int

def stepFile (fuel : Nat) (a : Acc) (f : File) : Option Acc :=
  if f.src = 0 then some a            -- runtime.SourceIndex
  else if !f.isJS then some a         -- Repr.(*graph.JSRepr) fails
  else
    match mergeProps fuel f.mangled (a.merged, a.syms) with
    | none => none
    | some (mg, sm) =>
      some { reserved := a.reserved ++ f.reserved, merged := mg, syms := sm,
             freq := match f.freq with
                     | none => a.freq
                     | some o => includeFreq a.freq o }

def foldFiles (fuel : Nat) : List File → Acc → Option Acc
  | [], a => some a
  | f :: rest, a =>
    match stepFile fuel a f with
    | none => none
    | some a' => foldFiles fuel rest a'

/-- stable insertion sort (structural, so that the kernel can evaluate it); on inputs without ties — the only ones
on which Go's `sort.Sort` is specified — every correct sort returns the same list -/
def insertBy {α : Type} (le : α → α → Bool) (a : α) : List α → List α
  | [] => [a]
  | b :: l => if le a b then a :: b :: l else b :: insertBy le a l

def isort {α : Type} (le : α → α → Bool) : List α → List α
  | [] => []
  | a :: l => insertBy le a (isort le l)

/-- renamer.StableSymbolCount -/
structure SC where
  stable : Nat
  ref : Ref
  count : Nat
deriving DecidableEq, Repr

/-- renamer.StableSymbolCountArray.Less -/
def less (a b : SC) : Bool :=
  if a.count > b.count then true
  else if a.count < b.count then false
  else if a.stable < b.stable then true
  else if a.stable > b.stable then false
  else decide (a.ref.inner < b.ref.inner)

def mkSC (stable : List Nat) (sm : SymMap) (ref : Ref) : Option SC :=
  match stable[ref.src]? with
  | none => none
  | some st =>
    match getSym sm ref with
    | none => none
    | some s => some { stable := st, ref := ref, count := s.count }

/-- `for _, ref := range mergedProps { sorted = append(sorted, …) }` -/
def mkArray (stable : List Nat) (sm : SymMap) : List (Name × Ref) → Option (List SC)
  | [] => some []
  | (_, r) :: rest =>
    match mkSC stable sm r with
    | none => none
    | some sc => (mkArray stable sm rest).map (sc :: ·)

def sortSC (l : List SC) : List SC := isort (fun x y => !less y x) l

/-- the tail alphabet of ast.DefaultNameMinifierJS -/
def defaultTail : List Char :=
  ['a', 'b', 'c', 'd', 'e', 'f', 'g', 'h', 'i', 'j', 'k', 'l', 'm', 'n', 'o', 'p', 'q', 'r', 's', 't', 'u', 'v', 'w',
   'x', 'y', 'z', 'A', 'B', 'C', 'D', 'E', 'F', 'G', 'H', 'I', 'J', 'K', 'L', 'M', 'N', 'O', 'P', 'Q', 'R', 'S', 'T',
   'U', 'V', 'W', 'X', 'Y', 'Z', '0', '1', '2', '3', '4', '5', '6', '7', '8', '9', '_', '$']

/-- ast.charAndCount -/
structure CC where
  char : Char
  count : Int
  index : Nat

/-- ast.charAndCountArray.Less -/
def ccLess (a b : CC) : Bool := decide (a.count > b.count) || (a.count == b.count && decide (a.index < b.index))

/-- `item.char < "0" || item.char > "9"` -/
def notDigit (c : Char) : Bool := decide (c < '0') || decide (c > '9')

/-- ast.NameMinifier.ShuffleByCharFreq applied to DefaultNameMinifierJS: the sorted histogram … -/
def shuffleTail (freq : List Int) : List Char :=
  let arr := defaultTail.zipIdx.map (fun p => ({ char := p.1, count := freq.getD p.2 0, index := p.2 } : CC))
  (isort (fun a b => !ccLess b a) arr).map (·.char)

/-- … and the identifier-start / identifier-continue sequences read off it -/
def alphabetOf (tail : List Char) : Rename.Alphabet :=
  { head := tail.filter notDigit, tail := tail }

def shuffle (freq : List Int) : Rename.Alphabet := alphabetOf (shuffleTail freq)

/-- `name := nm(next); next++; for reserved[name] { name = nm(next); next++ }`: the number of the name taken -/
def nextFree (reserved : List Name) (nm : Nat → Name) : Nat → Nat → Option Nat
  | 0, _ => none
  | fuel + 1, k => if reserved.contains (nm k) then nextFree reserved nm fuel (k + 1) else some k

structure LoopSt where
  next : Nat
  cache : Option Cache
  out : List (Ref × Name)

/-- `for _, symbolCount := range sorted { … }` -/
def assignLoop (nm : Nat → Name) (reserved : List Name) (sm : SymMap) : List SC → LoopSt → Option LoopSt
  | [], st => some st
  | sc :: rest, st =>
    match getSym sm sc.ref with
    | none => none
    | some sym =>
      match (match st.cache with
             | none => none
             | some c => c.lookup sym.name) with
      | some .keep => assignLoop nm reserved sm rest st
      | some (.str s) => assignLoop nm reserved sm rest { st with out := mapSet st.out sc.ref s }
      | some .other => none
      | none =>
        match nextFree reserved nm (reserved.length + 1) st.next with
        | none => none
        | some k =>
          assignLoop nm reserved sm rest
            { next := k + 1
              cache := st.cache.map (· ++ [(sym.name, CVal.str (nm k))])   -- the key is absent: plain insertion
              out := mapSet st.out sc.ref (nm k) }

structure Output where
  mangled : List (Ref × Name)
  cache : Option Cache
  syms : SymMap

def zeroFreq : List Int := List.replicate 64 0

def totalSyms (m : SymMap) : Nat := (m.map List.length).sum

/-- "Reserve all target properties in the cache" (a nil map has no entries) -/
def cacheRes : Option Cache → Option (List Name)
  | none => some []
  | some c => cacheReserved c

def run (I : Input) : Option Output :=
  let fuel := 2 * totalSyms I.syms + 2
  match cacheRes I.cache with
  | none => none
  | some cres =>
    match foldFiles fuel I.reachable { reserved := keywords ++ cres, merged := [], syms := I.syms, freq := zeroFreq } with
    | none => none
    | some a =>
      match mkArray I.stable a.syms a.merged with
      | none => none
      | some arr =>
        match assignLoop (Rename.name (shuffle a.freq)) a.reserved a.syms (sortSC arr)
                { next := 0, cache := I.cache, out := [] } with
        | none => none
        | some st => some { mangled := st.out, cache := st.cache, syms := a.syms }

/-- js_printer mangledPropName: the text printed for a property symbol -/
def printerName (o : Output) (r : Ref) : Option Name :=
  match follow (totalSyms o.syms + 1) o.syms r with
  | none => none
  | some root =>
    match o.mangled.lookup root with
    | some n => some n
    | none => (getSym o.syms root).map (·.name)

-- ---------------------------------------------------------------- wire

def parseRef (s : String) : Option Ref :=
  match s.splitOn "." with
  | [a, b] =>
    match a.toNat?, b.toNat? with
    | some a, some b => some ⟨a, b⟩
    | _, _ => none
  | _ => none

def parseList {α : Type} (sep : String) (f : String → Option α) (s : String) : Option (List α) :=
  if s = "-" then some [] else (s.splitOn sep).mapM f

def parseSym (s : String) : Option Sym :=
  match s.splitOn ":" with
  | [n, l, c, p] =>
    match (if l = "-" then some none else (parseRef l).map some), c.toNat?, p.toNat? with
    | some l, some c, some p => some { name := n.toList, link := l, count := c, pinned := p != 0 }
    | _, _, _ => none
  | _ => none

def parseRow (s : String) : Option (List Sym) :=
  if s = "" then some [] else (s.splitOn ",").mapM parseSym

def parseCVal (s : String) : Option (Name × CVal) :=
  match s.splitOn "=" with
  | [k, v] =>
    match v.toList with
    | ['F'] => some (k.toList, .keep)
    | ['O'] => some (k.toList, .other)
    | 'S' :: rest => some (k.toList, .str rest)
    | _ => none
  | _ => none

def parseCache (s : String) : Option (Option Cache) :=
  if s = "nil" then some none else (parseList "," parseCVal s).map some

def parseEntry (s : String) : Option (Name × Ref) :=
  match s.splitOn ":" with
  | [n, r] => (parseRef r).map (fun r => (n.toList, r))
  | _ => none

def parseFile (s : String) : Option File :=
  match s.splitOn "|" with
  | [src, js, res, mg, fr] =>
    match src.toNat?, js.toNat?, parseList "," (fun x => some x.toList) res, parseList "," parseEntry mg,
          (if fr = "-" then some none else
            match Wire.parseIntList fr with
            | some l => if l.length = 64 then some (some l) else none
            | none => none) with
    | some src, some js, some res, some mg, some fr =>
      some { src := src, isJS := js != 0, reserved := res, mangled := mg, freq := fr }
    | _, _, _, _, _ => none
  | _ => none

def showRef (r : Ref) : String := toString r.src ++ "." ++ toString r.inner

def showSym (s : Sym) : String :=
  String.ofList s.name ++ ":" ++ (match s.link with
    | none => "-"
    | some l => showRef l) ++ ":" ++ toString s.count ++ ":" ++ (if s.pinned then "1" else "0")

def showCVal : Option CVal → String
  | none => "~"
  | some .keep => "F"
  | some .other => "O"
  | some (.str s) => "S" ++ String.ofList s

def allRefs (m : SymMap) : List Ref :=
  (m.zipIdx.map (fun p => (List.range p.1.length).map (fun i => (⟨p.2, i⟩ : Ref)))).flatten

def showOutput (o : Output) (keys : List Name) : String :=
  let refs := allRefs o.syms
  let opt : Option Name → String := fun
    | none => "~"
    | some n => String.ofList n
  "M" ++ toString o.mangled.length ++ ":" ++ ",".intercalate (refs.map (fun r => opt (o.mangled.lookup r)))
    ++ "|P:" ++ ",".intercalate (refs.map (fun r => match printerName o r with
        | none => "!"
        | some n => String.ofList n))
    ++ "|C" ++ (match o.cache with
        | none => "nil:"
        | some c => toString c.length ++ ":" ++ ",".intercalate (keys.map (fun k => showCVal (c.lookup k))))
    ++ "|S:" ++ ",".intercalate (refs.map (fun r => match getSym o.syms r with
        | none => "!"
        | some s => showSym s))

def driver (args : List String) : String :=
  match args with
  | ["keywords"] => ",".intercalate (keywords.map String.ofList)
  | ["run", syms, stable, cache, files, keys] =>
    match parseList ";" parseRow syms, Wire.parseNatList stable, parseCache cache, parseList ";" parseFile files,
          parseList "," (fun x => some x.toList) keys with
    | some syms, some stable, some cache, some files, some keys =>
      match run { reachable := files, syms := syms, stable := stable, cache := cache } with
      | none => "PANIC"
      | some o => showOutput o keys
    | _, _, _, _, _ => "bad-op"
  | _ => "bad-op"

end EsbuildModel.MangleProps
