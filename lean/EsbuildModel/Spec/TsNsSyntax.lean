/-
Source language, run-time values and machine state shared by the TypeScript namespace/enum specification
(Spec/TsNamespaces.lean), the JavaScript subset the compiler output lives in (Spec/TsNsJs.lean) and the
model of esbuild's compilation (Impl/TsNs.lean).  Nothing in this file is about esbuild.

A program is a list of members (the module level); a member is a variable declaration, a function
`function f() { return e }`, a namespace block, an enum block, an expression statement, `export import x = a.b`,
a type-only declaration (erased) or `export declare function` (erased, but it makes the namespace count as
instantiated).  Expressions: integer and string literals, identifiers, member access, `+`, the probe call
`p("tag", e)` (logs the value of `e`, evaluates to it) and a call without arguments `f()`.

Positions: a block (namespace or enum body) is named by its `Path`, the list of member indices from the block
outwards to the module (`[]` = module level, `i :: π` = the block opened by member `i` of block `π`).
Because the language has no loops and function bodies are single expressions, every block body runs at most
once; a binding can therefore be named by the block that declares it (`Loc.var π x`), and the namespace / enum
object a block body works on by the block (`Loc.inst π`).
-/
namespace EsbuildModel.TsNs

abbrev Path := List Nat

inductive Expr where
  | num (n : Int)
  | str (s : String)
  | id (x : String)
  | dot (e : Expr) (p : String)
  | add (a b : Expr)
  | probe (tag : String) (e : Expr)
  | call (f : Expr)
deriving Repr, DecidableEq, Inhabited

inductive VarKind where
  | var | let_ | const_
deriving Repr, DecidableEq, Inhabited

inductive Member where
  | local_ (kind : VarKind) (exported : Bool) (name : String) (init : Option Expr)
  | func (exported : Bool) (name : String) (body : Expr)
  /-- `dotted`: written `namespace Parent.name { … }` (only meaningful for the single exported member of a
      namespace; the parser treats both spellings alike) -/
  | ns (exported : Bool) (dotted : Bool) (name : String) (body : List Member)
  | enum_ (exported : Bool) (name : String) (members : List (String × Option Expr))
  | expr (e : Expr)
  /-- `export import name = head.p₁.p₂…` -/
  | importEq (name : String) (head : String) (path : List String)
  /-- `type T = number` / `interface I {}` (with or without `export`) -/
  | typeOnly (exported : Bool)
  /-- `export declare function g(): void` -/
  | declareFn
deriving Repr, Inhabited

abbrev Program := List Member

/-- storage locations -/
inductive Loc where
  | var (scope : Path) (name : String)
  | inst (scope : Path)
  | global (name : String)
deriving Repr, DecidableEq, Inhabited

inductive Value where
  | undef
  | num (n : Int)
  | str (s : String)
  | obj (id : Nat)
  /-- the function declared as `name` in block `scope` -/
  | fn (scope : Path) (name : String)
deriving Repr, DecidableEq, Inhabited

inductive Slot where
  | tdz
  | val (v : Value)
deriving Repr, DecidableEq, Inhabited

/-- own properties in insertion order -/
abbrev Obj := List (String × Value)

structure State where
  heap : List Obj
  store : Loc → Option Slot
  trace : List (String × Value)

def State.empty : State := { heap := [], store := fun _ => none, trace := [] }

inductive Err where
  | reference      -- ReferenceError (unbound global, temporal dead zone)
  | type_          -- TypeError (property of undefined, call of a non-function)
  | stuck          -- outside the modelled fragment of JavaScript (e.g. `+` on an object)
  | fuel           -- call depth exhausted
  | early          -- (specification only) a constant enum member was read before its initialisation
deriving Repr, DecidableEq, Inhabited

inductive Res (α : Type) where
  | ok (a : α) (s : State)
  | err (e : Err) (s : State)

abbrev M (α : Type) := State → Res α

@[inline] def M.pure {α} (a : α) : M α := fun s => .ok a s
@[inline] def M.bind {α β} (m : M α) (f : α → M β) : M β := fun s =>
  match m s with
  | .ok a s' => f a s'
  | .err e s' => .err e s'

instance : Monad M where
  pure := M.pure
  bind := M.bind

def fail {α} (e : Err) : M α := fun s => .err e s

/-! ### primitive operations of the machine (ECMA-262 on the modelled value set) -/

def lookupProp (o : Obj) (k : String) : Option Value :=
  match o with
  | [] => none
  | (k', v) :: rest => if k' = k then some v else lookupProp rest k

def setPropObj (o : Obj) (k : String) (v : Value) : Obj :=
  match o with
  | [] => [(k, v)]
  | (k', v') :: rest => if k' = k then (k', v) :: rest else (k', v') :: setPropObj rest k v

def updateAt {α} (l : List α) (i : Nat) (f : α → α) : List α :=
  match l, i with
  | [], _ => []
  | a :: rest, 0 => f a :: rest
  | a :: rest, i + 1 => a :: updateAt rest i f

/-- ToBoolean -/
def truthy : Value → Bool
  | .undef => false
  | .num n => n != 0
  | .str s => s != ""
  | .obj _ => true
  | .fn _ _ => true

/-- Number::toString / ToString on the primitive values of the model (integers print in decimal) -/
def toStr : Value → Option String
  | .undef => some "undefined"
  | .num n => some (toString n)
  | .str s => some s
  | .obj _ => none
  | .fn _ _ => none

/-- ToPropertyKey -/
def toKey (v : Value) : Option String := toStr v

/-- the `+` operator (13.15.3 ApplyStringOrNumericBinaryOperator) where it stays inside the value set -/
def addV : Value → Value → Option Value
  | .num a, .num b => some (.num (a + b))
  | .str a, b => (toStr b).map (fun s => .str (a ++ s))
  | a, .str b => (toStr a).map (fun s => .str (s ++ b))
  | _, _ => none

/-- [[Get]] on a value; property names are assumed not to be inherited ones (`toString`, `length`, …) -/
def getProp (v : Value) (k : String) : M Value := fun s =>
  match v with
  | .undef => .err .type_ s
  | .obj id =>
    match s.heap[id]? with
    | some o => .ok ((lookupProp o k).getD .undef) s
    | none => .err .stuck s
  | _ => .ok .undef s

/-- [[Set]] on a value (only ordinary objects are supported as targets) -/
def setProp (v : Value) (k : String) (x : Value) : M Unit := fun s =>
  match v with
  | .undef => .err .type_ s
  | .obj id =>
    if id < s.heap.length then .ok () { s with heap := updateAt s.heap id (fun o => setPropObj o k x) }
    else .err .stuck s
  | _ => .err .stuck s

/-- `{}` -/
def alloc : M Value := fun s => .ok (.obj s.heap.length) { s with heap := s.heap ++ [[]] }

def setStore (st : Loc → Option Slot) (l : Loc) (x : Option Slot) : Loc → Option Slot :=
  fun l' => if l' = l then x else st l'

/-- GetValue of an identifier reference -/
def readLoc (l : Loc) : M Value := fun s =>
  match s.store l with
  | some (.val v) => .ok v s
  | _ => .err .reference s

/-- PutValue on an identifier reference that is an existing binding -/
def assignLoc (l : Loc) (v : Value) : M Unit := fun s =>
  match s.store l with
  | some (.val _) => .ok () { s with store := setStore s.store l (some (.val v)) }
  | some .tdz => .err .reference s
  | none => .err .stuck s

/-- InitializeBinding -/
def initLoc (l : Loc) (v : Value) : M Unit := fun s =>
  .ok () { s with store := setStore s.store l (some (.val v)) }

/-- instantiate a binding at block entry: `var` (undefined unless it exists), `let`/`const` (TDZ) -/
def declareVar (l : Loc) : M Unit := fun s =>
  match s.store l with
  | some _ => .ok () s
  | none => .ok () { s with store := setStore s.store l (some (.val .undef)) }

def declareTdz (l : Loc) : M Unit := fun s =>
  .ok () { s with store := setStore s.store l (some .tdz) }

def logProbe (tag : String) (v : Value) : M Unit := fun s =>
  .ok () { s with trace := s.trace ++ [(tag, v)] }

end EsbuildModel.TsNs
