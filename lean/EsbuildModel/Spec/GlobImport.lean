import EsbuildModel.Spec.Glob
/-
Run-time meaning of a path expression such as  "./dir/" + x + ".js"  or  `./locale-${lang}.json`, written without
looking at esbuild's code.

The expression is a sequence of fragments: literal text and holes (the non-constant operands).  At run time every
hole is some string, and the expression evaluates to the concatenation.  `fillMatch false fs p` decides "the
expression `fs` can evaluate to `p`" (every hole may be any string).

esbuild's documentation of glob-style imports says that a hole becomes `*` (any characters except `/`) and that a
hole right after a `/` becomes `**/*` (any number of directories, then a name).  `fillMatch true fs p` is that
reading: the same, but a hole may be filled with a string containing `/` only when the literal text right before it
ends with `/`; holes with nothing (or only empty literals) between them count as one hole.

`acc` = the literal text since the last hole (what "right before" refers to), `cur` = `some perm` while the previous
non-empty fragment was a hole, `perm` telling whether that hole may contain `/`.
-/
namespace EsbuildModel.Spec.GlobImport
open EsbuildModel.Spec.Glob (starLoop deepLoop)

inductive Frag where
  | text (t : List Nat)
  | hole
  deriving DecidableEq, Repr

/-- a hole: any string (`perm`) or any string without `/` -/
def holeLoop (perm : Bool) (k : List Nat → Bool) : List Nat → Bool := if perm then deepLoop k else starLoop k

def fillMatch (restrict : Bool) : List Nat → Option Bool → List Frag → List Nat → Bool
  | _, _, [] => fun p => p.isEmpty
  | acc, cur, .text t :: fs => fun p =>
    if t = [] then fillMatch restrict acc cur fs p
    else t.isPrefixOf p && fillMatch restrict (if cur.isSome then t else acc ++ t) none fs (p.drop t.length)
  | acc, cur, .hole :: fs =>
    let perm := !restrict || cur.getD (acc.getLast? = some 47)
    holeLoop perm (fillMatch restrict acc (some perm) fs)

/-- the expression can evaluate to `p` (holes are arbitrary strings) -/
def canEvaluateTo (fs : List Frag) (p : List Nat) : Bool := fillMatch false [] none fs p

/-- `p` is one of the paths the documented glob of the expression names -/
def documentedGlob (fs : List Frag) (p : List Nat) : Bool := fillMatch true [] none fs p

/-- every hole comes right after literal text ending with `/` (or right after such a hole) -/
def holesAfterSlash : List Nat → Option Bool → List Frag → Bool
  | _, _, [] => true
  | acc, cur, .text t :: fs =>
    if t = [] then holesAfterSlash acc cur fs else holesAfterSlash (if cur.isSome then t else acc ++ t) none fs
  | acc, cur, .hole :: fs =>
    let perm := cur.getD (acc.getLast? = some 47)
    perm && holesAfterSlash acc (some perm) fs

end EsbuildModel.Spec.GlobImport
