/-
Specification side of the file-content cache (work package `fscache`, property C09), written without
looking at esbuild's code: what a file is for `stat`, what "the answer of a read is CURRENT" means, what a
file system clock with a limited time-stamp resolution does, and what the too-new test must decide
when it is expressed in nanoseconds.

Time is an integer number of nanoseconds since the Unix epoch (negative = before 1970).
-/
namespace EsbuildModel.StatCache

/-- file contents: a list of bytes -/
abbrev Contents := List Nat

def nsPerSec : Int := 1000000000

/-- what `stat` + `read` can tell about one path that holds a regular file -/
structure File where
  inode : Nat
  mtime : Int          -- nanoseconds since the epoch
  mode : Nat
  uid : Nat
  contents : Contents
  deriving DecidableEq, Repr, Inhabited

/-- `st_size`: a regular file's size is the length of its contents -/
def File.size (f : File) : Nat := f.contents.length

/-- the answer of reading a path -/
inductive ReadRes where
  | ok (c : Contents)
  | err
  deriving DecidableEq, Repr, Inhabited

/-- what a read of the path answers when the path holds `f` (`none`: nothing there) -/
def resOf : Option File → ReadRes
  | none => .err
  | some f => .ok f.contents

/-- A read that was in progress while the path held, in this order, the files `during` (at least the
file at the start of the call) is CURRENT (linearizable) when its answer is what reading one of them gives. -/
def ReadCurrent (answer : ReadRes) (during : List (Option File)) : Prop :=
  ∃ f ∈ during, answer = resOf f

/-- the time stamp a file system with resolution `res` (> 0, in ns) gives to a write at time `clock`:
the clock rounded DOWN to a multiple of the resolution (ext4: 1 ns, HFS+: 1 s, FAT: 2 s) -/
def stamp (res clock : Int) : Int := clock - clock % res

/-- the too-new test in nanoseconds: a time stamp is too new when less than `gapNs` have passed since -/
def tooNewNs (gapNs mtime now : Int) : Prop := now < mtime + gapNs

instance (g m n : Int) : Decidable (tooNewNs g m n) := by unfold tooNewNs; exact inferInstance

/-- seconds / nanoseconds split as `struct timespec` has it (0 ≤ nsec < 10⁹, also for negative times) -/
def secOf (t : Int) : Int := t / nsPerSec
def nsecOf (t : Int) : Int := t % nsPerSec

theorem sec_nsec (t : Int) : secOf t * nsPerSec + nsecOf t = t := by
  unfold secOf nsecOf nsPerSec; omega

theorem nsec_range (t : Int) : 0 ≤ nsecOf t ∧ nsecOf t < nsPerSec := by
  unfold nsecOf nsPerSec; omega

theorem stamp_le (res clock : Int) (h : 0 < res) : stamp res clock ≤ clock := by
  unfold stamp
  have := Int.emod_nonneg clock (Int.ne_of_gt h)
  omega

theorem stamp_gt (res clock : Int) (h : 0 < res) : clock - res < stamp res clock := by
  unfold stamp
  have := Int.emod_lt_of_pos clock h
  omega

end EsbuildModel.StatCache
