import EsbuildModel.Spec.Unicode
/-
The (line, UTF-16 column) of a byte offset in a text, as source maps count them.  Written from

* The Unicode Standard ch. 3 (UTF-8: Table 3-6 via `Spec.Unicode.utf8`; UTF-16: Table 3-5 via `Spec.Unicode.utf16`),
* ECMA-262 12.3 (LineTerminator :: LF CR LS PS;
  LineTerminatorSequence :: LF | CR [lookahead ≠ LF] | LS | PS | CR LF),
* Source Map v3 (lines and columns are zero-based; by the convention of every consumer a column counts UTF-16
  code units of the line's text),
* and the replacement rule of Go's `range`/`utf8.DecodeRune` for ill-formed input, which is part of the task
  statement: a byte at which no well-formed UTF-8 sequence starts is ONE character U+FFFD of width one byte.

Nothing here was written by looking at esbuild's code: decoding is "the first k bytes are Table 3-6's encoding
of a scalar value" (no bit patterns, no lead-byte classes), and the position is counted, not scanned:
line = number of line terminator sequences that END at or before the offset, column = UTF-16 length of the
characters between the end of the last such sequence and the offset.
-/
namespace EsbuildModel.Spec.TextPosition
open EsbuildModel.Spec.Unicode

/-- a decoded character: its code point and how many bytes of the text it occupies -/
structure Ch where
  cp : Nat
  width : Nat
deriving Repr, DecidableEq

/-- the only code point a byte sequence of this length could encode (Table 3-6 read backwards; truncated
subtraction is harmless because `WellFormed` re-encodes and compares) -/
def candidate : List Nat → Nat
  | [b0] => b0
  | [b0, b1] => (b0 - 0xC0) * 64 + (b1 - 0x80)
  | [b0, b1, b2] => (b0 - 0xE0) * 4096 + (b1 - 0x80) * 64 + (b2 - 0x80)
  | [b0, b1, b2, b3] => (b0 - 0xF0) * 262144 + (b1 - 0x80) * 4096 + (b2 - 0x80) * 64 + (b3 - 0x80)
  | _ => 0

/-- D79/D92: `seq` is the UTF-8 encoding of a scalar value -/
def WellFormed (seq : List Nat) : Prop := IsScalar (candidate seq) ∧ utf8 (candidate seq) = seq

instance (seq : List Nat) : Decidable (WellFormed seq) := by unfold WellFormed; exact inferInstance

/-- the character at the front of a non-empty byte string: the scalar value whose encoding is a prefix, else
U+FFFD for the single first byte -/
def firstChar (bs : List Nat) : Ch :=
  match [1, 2, 3, 4].find? (fun k => decide (k ≤ bs.length ∧ WellFormed (bs.take k))) with
  | some k => ⟨candidate (bs.take k), k⟩
  | none => ⟨0xFFFD, 1⟩

/-- decoding with `skip` bytes of the current character still to be passed over -/
def decodeAux : Nat → List Nat → List Ch
  | _, [] => []
  | 0, b :: rest => let c := firstChar (b :: rest); c :: decodeAux (c.width - 1) rest
  | k + 1, _ :: rest => decodeAux k rest

/-- the characters of a byte string, in order; their widths add up to its length -/
def decode (bs : List Nat) : List Ch := decodeAux 0 bs

/-- ECMA-262 LineTerminator code points -/
def isLineTerminator (cp : Nat) : Bool := cp == 0x0A || cp == 0x0D || cp == 0x2028 || cp == 0x2029

/-- does a LineTerminatorSequence END with this character?  (LF, LS, PS always — LF also as the second half of
CR LF —, CR only when the next character is not LF) -/
def endsLine (cp : Nat) (next : Option Nat) : Bool :=
  cp == 0x0A || cp == 0x2028 || cp == 0x2029 || (cp == 0x0D && next != some 0x0A)

/-- every character paired with `endsLine` -/
def marks : List Nat → List (Nat × Bool)
  | [] => []
  | c :: rest => (c, endsLine c rest.head?) :: marks rest

/-- UTF-16 code units of a code point (Table 3-5) -/
def units (cp : Nat) : Nat := (utf16 cp).length

structure Pos where
  line : Nat
  col : Nat
deriving Repr, DecidableEq

/-- position of the boundary in front of character number `k` (`k = length`: the end of the text) -/
def posOfIndex (cps : List Nat) (k : Nat) : Pos :=
  let before := (marks cps).take k
  { line := before.countP (·.2)
    col := ((before.reverse.takeWhile (fun m => !m.2)).map (fun m => units m.1)).sum }

/-- byte offset of the boundary in front of character number `k` -/
def offsetOfIndex (chs : List Ch) (k : Nat) : Nat := ((chs.take k).map (·.width)).sum

/-- the character index whose boundary is byte offset `i`, if `i` is a character boundary -/
def indexOfOffset (chs : List Ch) (i : Nat) : Option Nat :=
  (List.range (chs.length + 1)).find? (fun k => offsetOfIndex chs k == i)

/-- THE SPEC: position of byte offset `i` of text `bs`; `none` when `i` is not a character boundary
(inside a multi-byte character, or beyond the end) -/
def position (bs : List Nat) (i : Nat) : Option Pos :=
  let chs := decode bs
  (indexOfOffset chs i).map (posOfIndex (chs.map (·.cp)))

/-- position of the end of a text -/
def endPosition (bs : List Nat) : Pos :=
  let chs := decode bs
  posOfIndex (chs.map (·.cp)) chs.length

/-- the position reached when text at relative position `rel` (counted from its own start) is placed at `base`:
on the first line columns add, on later lines the base column plays no role -/
def Pos.offsetBy (base rel : Pos) : Pos :=
  if rel.line = 0 then ⟨base.line, base.col + rel.col⟩ else ⟨base.line + rel.line, rel.col⟩

/-- lexicographic order of positions -/
def Pos.le (a b : Pos) : Prop := a.line < b.line ∨ (a.line = b.line ∧ a.col ≤ b.col)

instance (a b : Pos) : Decidable (Pos.le a b) := by unfold Pos.le; exact inferInstance

-- sanity examples: "a\r\nb" — the offset between CR and LF is still on line 0 (column 2); after LF: (1,0)
example : (List.range 5).map (position [0x61, 0x0D, 0x0A, 0x62]) =
    [some ⟨0, 0⟩, some ⟨0, 1⟩, some ⟨0, 2⟩, some ⟨1, 0⟩, some ⟨1, 1⟩] := by decide
-- "é😀 x" followed by an ill-formed byte: é is 2 bytes / 1 unit, 😀 4 bytes / 2 units, LS 3 bytes
example : (List.range 12).map (position [0xC3, 0xA9, 0xF0, 0x9F, 0x98, 0x80, 0xE2, 0x80, 0xA8, 0x78, 0xFF]) =
    [some ⟨0, 0⟩, none, some ⟨0, 1⟩, none, none, none, some ⟨0, 3⟩, none, none, some ⟨1, 0⟩, some ⟨1, 1⟩,
     some ⟨1, 2⟩] := by decide
-- a surrogate encoded in three bytes (ED A0 80) is ill formed: three characters U+FFFD
example : decode [0xED, 0xA0, 0x80] = [⟨0xFFFD, 1⟩, ⟨0xFFFD, 1⟩, ⟨0xFFFD, 1⟩] := by decide

end EsbuildModel.Spec.TextPosition
