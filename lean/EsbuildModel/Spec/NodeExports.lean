/-
Independent specification: the package "exports" / "imports" part of Node.js' documented ESM
resolution algorithm (https://nodejs.org/api/esm.html#resolution-algorithm-specification):

  PACKAGE_EXPORTS_RESOLVE, PACKAGE_IMPORTS_RESOLVE, PACKAGE_IMPORTS_EXPORTS_RESOLVE,
  PATTERN_KEY_COMPARE, PACKAGE_TARGET_RESOLVE

transcribed from the pseudo-code of the documentation, step by step, WITHOUT looking at esbuild.
The numbered comments quote the steps of the documentation.

Strings are lists of characters. A package.json value is a `Target` tree; an object is the list of
its (key, value) pairs in source (= insertion) order. PRECONDITION of the whole file: such a list
stands for a JavaScript object, i.e. its keys are pairwise different (JSON.parse keeps one value per key).

`strict : Bool` selects between the two behaviours that exist for Node 20:
  * `strict = true`  : the documented algorithm, literally.
  * `strict = false` : what the Node 20 binary does where it still lags behind its documentation:
      - empty path segments ("./a//b", a trailing "/") in targets and pattern matches are only
        reported as deprecation DEP0166 instead of being thrown as invalid,
      - a subpath ending in "/" is only reported as deprecation DEP0155 for "exports"
        (it is thrown for "imports", as documented).
    This variant exists so that the transcription can be validated against the real Node 20 binary
    case by case (harness/nodecheck/pkgexports_nodecheck.mjs + pkgexports_nodecheck_compare.py:
    9000 generated cases, all agree).

What this specification does NOT model (limits, stated as hypotheses where theorems use it):
  * URLs are modelled as plain paths: percent-encoding, "?" and "#" have no special meaning in
    `urlNormalize`; the "valid URL" test of step 1.1.1 is approximated by "has a URL scheme".
  * LOOKUP_PACKAGE_SCOPE / READ_PACKAGE_JSON / PACKAGE_RESOLVE are outside: "imports" are handed in
    as a value and a bare-specifier result is returned as `.pkg specifier`.
-/
namespace EsbuildModel.NodeExports

abbrev Str := List Char

/-- a JSON value as found under "exports" / "imports" -/
inductive Target where
  | str (s : Str)
  | null
  | arr (l : List Target)
  | obj (l : List (Str × Target))
  | other                      -- number, boolean
  deriving Repr, Inhabited

/-- the errors the algorithm throws -/
inductive Err where
  | invalidTarget        -- Invalid Package Target
  | invalidSpecifier     -- Invalid Module Specifier
  | invalidConfig        -- Invalid Package Configuration
  | notExported          -- Package Path Not Exported
  | importNotDefined     -- Package Import Not Defined
  deriving DecidableEq, Repr, Inhabited

/-- result of PACKAGE_TARGET_RESOLVE / PACKAGE_IMPORTS_EXPORTS_RESOLVE -/
inductive TR where
  | url (path : Str)     -- a resolved URL (its path)
  | pkg (spec : Str)     -- the result of PACKAGE_RESOLVE(spec, packageURL + "/"), left symbolic
  | null
  | undef
  | throw (e : Err)
  deriving DecidableEq, Repr, Inhabited

/-- result of PACKAGE_EXPORTS_RESOLVE / PACKAGE_IMPORTS_RESOLVE -/
inductive Outcome where
  | resolved (path : Str)
  | package (spec : Str)
  | error (e : Err)
  deriving DecidableEq, Repr, Inhabited

/-! ## strings -/

def startsWith (s p : Str) : Bool := p.isPrefixOf s
def endsWith (s p : Str) : Bool := p.isSuffixOf s

/-- split at every character satisfying `p`; never returns the empty list ("".split(x) = [""]) -/
def splitBy (p : Char → Bool) : Str → List Str
  | [] => [[]]
  | c :: cs =>
    if p c then [] :: splitBy p cs
    else
      match splitBy p cs with
      | [] => [[c]]
      | s :: ss => (c :: s) :: ss

def joinWith (sep : Char) : List Str → Str
  | [] => []
  | [s] => s
  | s :: ss => s ++ sep :: joinWith sep ss

/-- "/" or "\" -/
def isSep (c : Char) : Bool := c = '/' || c = '\\'

/-- ASCII lower case ("case insensitive") -/
def lowerChar : Char → Char
  | 'A' => 'a' | 'B' => 'b' | 'C' => 'c' | 'D' => 'd' | 'E' => 'e' | 'F' => 'f' | 'G' => 'g'
  | 'H' => 'h' | 'I' => 'i' | 'J' => 'j' | 'K' => 'k' | 'L' => 'l' | 'M' => 'm' | 'N' => 'n'
  | 'O' => 'o' | 'P' => 'p' | 'Q' => 'q' | 'R' => 'r' | 'S' => 's' | 'T' => 't' | 'U' => 'u'
  | 'V' => 'v' | 'W' => 'w' | 'X' => 'x' | 'Y' => 'y' | 'Z' => 'z'
  | c => c

def hexVal (c : Char) : Option Nat :=
  if '0' ≤ c ∧ c ≤ '9' then some (c.toNat - '0'.toNat)
  else if 'a' ≤ c ∧ c ≤ 'f' then some (c.toNat - 'a'.toNat + 10)
  else if 'A' ≤ c ∧ c ≤ 'F' then some (c.toNat - 'A'.toNat + 10)
  else none

/-- one pass of percent-decoding (`skip` = characters of an escape still to be dropped) -/
def pctGo : Nat → Str → Str
  | _, [] => []
  | k + 1, _ :: cs => pctGo k cs
  | 0, c :: cs =>
    if c = '%' then
      match cs with
      | a :: b :: _ =>
        match hexVal a, hexVal b with
        | some x, some y => Char.ofNat (16 * x + y) :: pctGo 2 cs
        | _, _ => c :: pctGo 0 cs
      | _ => c :: pctGo 0 cs
    else c :: pctGo 0 cs

def pctDecode (s : Str) : Str := pctGo 0 s

def nodeModules : Str := ['n','o','d','e','_','m','o','d','u','l','e','s']

/-- ".", ".." or "node_modules", "case insensitive and including percent encoded variants" -/
def isDotOrModules (seg : Str) : Bool :=
  let d := (pctDecode seg).map lowerChar
  d == ['.'] || d == ['.', '.'] || d == nodeModules

/-- a segment that PACKAGE_TARGET_RESOLVE rejects ("" only in the documented, strict, reading) -/
def invalidSegment (strict : Bool) (seg : Str) : Bool :=
  (strict && seg.isEmpty) || isDotOrModules seg

/-- "every instance of "*" replaced with patternMatch" -/
def replaceStar (s pm : Str) : Str :=
  s.flatMap fun c => if c = '*' then pm else [c]

/-! ## URL resolution, on plain paths

WHATWG URL parsing of a file: URL: "\" is a path separator, single-dot segments (".", "%2e") are
dropped, double-dot segments ("..", ".%2e", "%2e.", "%2e%2e") remove the previous segment, a dot
segment in last position leaves an empty last segment. Empty segments are kept. -/

def isSingleDot (seg : Str) : Bool :=
  let l := seg.map lowerChar
  l == ['.'] || l == ['%','2','e']

def isDoubleDot (seg : Str) : Bool :=
  let l := seg.map lowerChar
  l == ['.','.'] || l == ['.','%','2','e'] || l == ['%','2','e','.'] || l == ['%','2','e','%','2','e']

/-- `out` is the list of segments kept so far -/
def removeDots (out : List Str) : List Str → List Str
  | [] => out
  | [s] =>
    if isDoubleDot s then out.dropLast ++ [[]]
    else if isSingleDot s then out ++ [[]]
    else out ++ [s]
  | s :: t :: rest =>
    if isDoubleDot s then removeDots out.dropLast (t :: rest)
    else if isSingleDot s then removeDots out (t :: rest)
    else removeDots (out ++ [s]) (t :: rest)

/-- normal form of an absolute path as the URL parser leaves it -/
def urlNormalize (path : Str) : Str :=
  let p := path.map fun c => if c = '\\' then '/' else c
  let body := if startsWith p ['/'] then p.drop 1 else p
  '/' :: joinWith '/' (removeDots [] (splitBy (· = '/') body))

/-- approximation of "target is a valid URL": it begins with a URL scheme -/
def hasScheme (s : Str) : Bool :=
  match s with
  | [] => false
  | c :: cs =>
    (lowerChar c).isAlpha &&
      (match (cs.dropWhile fun d => d.isAlphanum || d = '+' || d = '-' || d = '.') with
       | ':' :: _ => true
       | _ => false)

/-- ECMA-262 6.1.7 "array index": canonical numeric string of an integer in [0, 2^32 - 2] -/
def isArrayIndex (key : Str) : Bool :=
  !key.isEmpty && key.all Char.isDigit && (key == ['0'] || key.head? != some '0') &&
    (key.foldl (fun n c => 10 * n + (c.toNat - '0'.toNat)) 0) < 4294967295

/-! ## PATTERN_KEY_COMPARE -/

/-- "the index of "*" in key" (the length if there is none; the callers assert there is one) -/
def indexOfStar : Str → Nat
  | [] => 0
  | c :: cs => if c = '*' then 0 else indexOfStar cs + 1

def patternKeyCompare (keyA keyB : Str) : Int :=
  -- 1.,2. Assert: keyA / keyB contains only a single "*".
  -- 3.,4. Let baseLengthA/B be the index of "*" in keyA/keyB.
  let baseLengthA := indexOfStar keyA
  let baseLengthB := indexOfStar keyB
  -- 5. If baseLengthA is greater than baseLengthB, return -1.
  if baseLengthA > baseLengthB then -1
  -- 6. If baseLengthB is greater than baseLengthA, return 1.
  else if baseLengthB > baseLengthA then 1
  -- 7. If the length of keyA is greater than the length of keyB, return -1.
  else if keyA.length > keyB.length then -1
  -- 8. If the length of keyB is greater than the length of keyA, return 1.
  else if keyB.length > keyA.length then 1
  -- 9. Return 0.
  else 0

/-- "sorted by the sorting function PATTERN_KEY_COMPARE which orders in descending order of
specificity" (a stable sort, as ECMAScript's Array.prototype.sort is) -/
def insertKey (k : Str) : List Str → List Str
  | [] => [k]
  | x :: xs => if patternKeyCompare x k < 0 then x :: insertKey k xs else k :: x :: xs

def sortKeys : List Str → List Str
  | [] => []
  | k :: ks => insertKey k (sortKeys ks)

/-! ## PACKAGE_TARGET_RESOLVE(packageURL, target, patternMatch, isImports, conditions) -/

/-- `matchObj[key]` -/
def lookup (obj : List (Str × Target)) (key : Str) : Option Target :=
  match obj with
  | [] => none
  | (k, v) :: rest => if k = key then some v else lookup rest key

mutual
def targetResolve (strict : Bool) (packageURL : Str) (patternMatch : Option Str) (isImports : Bool)
    (conditions : List Str) : Target → TR
  -- 1. If target is a String, then
  | .str target =>
    -- 1.1 If target does not start with "./", then
    if !startsWith target ['.', '/'] then
      -- 1.1.1 If isImports is false, or if target starts with "../" or "/", or if target is a valid URL,
      --       throw an Invalid Package Target error.
      if !isImports || startsWith target ['.', '.', '/'] || startsWith target ['/'] || hasScheme target then
        .throw .invalidTarget
      else
        match patternMatch with
        -- 1.1.2 If patternMatch is a String, return PACKAGE_RESOLVE(target with every instance of "*"
        --       replaced by patternMatch, packageURL + "/").
        | some pm => .pkg (replaceStar target pm)
        -- 1.1.3 Return PACKAGE_RESOLVE(target, packageURL + "/").
        | none => .pkg target
    -- 1.2 If target split on "/" or "\" contains any "", ".", "..", or "node_modules" segments after the
    --     first "." segment, case insensitive and including percent encoded variants, throw an Invalid
    --     Package Target error.
    else if ((splitBy isSep target).drop 1).any (invalidSegment strict) then .throw .invalidTarget
    else
      -- 1.3 Let resolvedTarget be the URL resolution of the concatenation of packageURL and target.
      let resolvedTarget := urlNormalize (packageURL ++ target)
      -- 1.4 Assert: packageURL is contained in resolvedTarget.
      match patternMatch with
      -- 1.5 If patternMatch is null, then return resolvedTarget.
      | none => .url resolvedTarget
      | some pm =>
        -- 1.6 If patternMatch split on "/" or "\" contains any "", ".", "..", or "node_modules" segments,
        --     case insensitive and including percent encoded variants, throw an Invalid Module Specifier error.
        if (splitBy isSep pm).any (invalidSegment strict) then .throw .invalidSpecifier
        -- 1.7 Return the URL resolution of resolvedTarget with every instance of "*" replaced with patternMatch.
        else .url (urlNormalize (replaceStar resolvedTarget pm))
  -- 2. Otherwise, if target is a non-null Object, then
  | .obj props =>
    -- 2.1 If target contains any index property keys, as defined in ECMA-262 6.1.7 Array Index, throw an
    --     Invalid Package Configuration error.
    if props.any (fun p => isArrayIndex p.1) then .throw .invalidConfig
    -- 2.2 For each property p of target, in object insertion order as, …   2.3 Return undefined.
    else conditionLoop strict packageURL patternMatch isImports conditions props
  -- 3. Otherwise, if target is an Array, then
  | .arr items =>
    -- 3.1 If _target.length is zero, return null.
    if items.isEmpty then .null
    -- 3.2 For each item targetValue in target, do …
    else fallbackLoop strict packageURL patternMatch isImports conditions .undef items
  -- 4. Otherwise, if target is null, return null.
  | .null => .null
  -- 5. Otherwise throw an Invalid Package Target error.
  | .other => .throw .invalidTarget

/-- step 2.2 -/
def conditionLoop (strict : Bool) (packageURL : Str) (patternMatch : Option Str) (isImports : Bool)
    (conditions : List Str) : List (Str × Target) → TR
  -- 2.3 Return undefined.
  | [] => .undef
  | (p, targetValue) :: rest =>
    -- 2.2.1 If p equals "default" or conditions contains an entry for p, then
    if p = ['d','e','f','a','u','l','t'] || conditions.contains p then
      -- 2.2.1.2 Let resolved be the result of PACKAGE_TARGET_RESOLVE(packageURL, targetValue, patternMatch, isImports, conditions).
      match targetResolve strict packageURL patternMatch isImports conditions targetValue with
      -- 2.2.1.3 If resolved is equal to undefined, continue the loop.
      | .undef => conditionLoop strict packageURL patternMatch isImports conditions rest
      -- 2.2.1.4 Return resolved.
      | resolved => resolved
    else conditionLoop strict packageURL patternMatch isImports conditions rest

/-- step 3.2 / 3.3; `last` is "the last fallback resolution null return or error" (undefined at first) -/
def fallbackLoop (strict : Bool) (packageURL : Str) (patternMatch : Option Str) (isImports : Bool)
    (conditions : List Str) (last : TR) : List Target → TR
  -- 3.3 Return or throw the last fallback resolution null return or error.
  | [] => last
  | targetValue :: rest =>
    -- 3.2.1 Let resolved be the result of PACKAGE_TARGET_RESOLVE(…), continuing the loop on any Invalid
    --       Package Target error.
    match targetResolve strict packageURL patternMatch isImports conditions targetValue with
    | .throw .invalidTarget => fallbackLoop strict packageURL patternMatch isImports conditions (.throw .invalidTarget) rest
    -- 3.2.2 If resolved is undefined, continue the loop.
    | .undef => fallbackLoop strict packageURL patternMatch isImports conditions last rest
    -- (a null return is remembered as the last fallback result and the loop continues: 3.3)
    | .null => fallbackLoop strict packageURL patternMatch isImports conditions .null rest
    -- 3.2.3 Return resolved.
    | resolved => resolved
end

/-! ## PACKAGE_IMPORTS_EXPORTS_RESOLVE(matchKey, matchObj, packageURL, isImports, conditions) -/

/-- steps 4.1 – 4.2.2.2 for one expansion key: the patternMatch if the key applies -/
def patternMatchOf (expansionKey matchKey : Str) : Option Str :=
  -- 4.1 Let patternBase be the substring of expansionKey up to but excluding the first "*" character.
  let patternBase := expansionKey.take (indexOfStar expansionKey)
  -- 4.2 If matchKey starts with but is not equal to patternBase, then
  if startsWith matchKey patternBase && matchKey != patternBase then
    -- 4.2.1 Let patternTrailer be the substring of expansionKey from the index after the first "*" character.
    let patternTrailer := expansionKey.drop (indexOfStar expansionKey + 1)
    -- 4.2.2 If patternTrailer has zero length, or if matchKey ends with patternTrailer and the length of
    --       matchKey is greater than or equal to the length of expansionKey, then
    if patternTrailer.isEmpty || (endsWith matchKey patternTrailer && matchKey.length ≥ expansionKey.length) then
      -- 4.2.2.2 Let patternMatch be the substring of matchKey starting at the index of the length of
      --         patternBase up to the length of matchKey minus the length of patternTrailer.
      some ((matchKey.take (matchKey.length - patternTrailer.length)).drop patternBase.length)
    else none
  else none

/-- step 4: "For each key expansionKey in expansionKeys, do" -/
def expansionLoop (strict : Bool) (packageURL : Str) (isImports : Bool) (conditions : List Str)
    (matchObj : List (Str × Target)) (matchKey : Str) : List Str → TR
  -- 5. Return null.
  | [] => .null
  | expansionKey :: rest =>
    match patternMatchOf expansionKey matchKey with
    | some patternMatch =>
      -- 4.2.2.1 Let target be the value of matchObj[expansionKey].
      match lookup matchObj expansionKey with
      -- 4.2.2.3 Return the result of PACKAGE_TARGET_RESOLVE(packageURL, target, patternMatch, isImports, conditions).
      | some target => targetResolve strict packageURL (some patternMatch) isImports conditions target
      | none => .null   -- unreachable: expansionKey is a key of matchObj
    | none => expansionLoop strict packageURL isImports conditions matchObj matchKey rest

def importsExportsResolve (strict : Bool) (matchKey : Str) (matchObj : List (Str × Target))
    (packageURL : Str) (isImports : Bool) (conditions : List Str) : TR :=
  -- 1. If matchKey ends in "/", then throw an Invalid Module Specifier error.
  --    (Node 20 only warns (DEP0155) for "exports" and goes on with the patterns.)
  if endsWith matchKey ['/'] && (strict || isImports) then .throw .invalidSpecifier
  else
    -- 2. If matchKey is a key of matchObj and does not contain "*", then
    --    (Node 20: "and does not end in "/"", which step 1 implies)
    match (if matchKey.contains '*' || endsWith matchKey ['/'] then none else lookup matchObj matchKey) with
    -- 2.1/2.2 Return the result of PACKAGE_TARGET_RESOLVE(packageURL, target, null, isImports, conditions).
    | some target => targetResolve strict packageURL none isImports conditions target
    | none =>
      -- 3. Let expansionKeys be the list of keys of matchObj containing only a single "*", sorted by the
      --    sorting function PATTERN_KEY_COMPARE which orders in descending order of specificity.
      let expansionKeys := sortKeys ((matchObj.map Prod.fst).filter fun k => k.count '*' = 1)
      -- 4., 5.
      expansionLoop strict packageURL isImports conditions matchObj matchKey expansionKeys

/-! ## PACKAGE_EXPORTS_RESOLVE(packageURL, subpath, exports, conditions) -/

def keyStartsWithDot (p : Str × Target) : Bool := startsWith p.1 ['.']

def finish (notFound : Err) : TR → Outcome
  | .url p => .resolved p
  | .pkg s => .package s
  | .throw e => .error e
  | .null => .error notFound
  | .undef => .error notFound

def packageExportsResolve (strict : Bool) (packageURL subpath : Str) (exports : Target)
    (conditions : List Str) : Outcome :=
  -- 1. If exports is an Object with both a key starting with "." and a key not starting with ".", throw an
  --    Invalid Package Configuration error.
  let mixed := match exports with
    | .obj props => props.any keyStartsWithDot && props.any (fun p => !keyStartsWithDot p)
    | _ => false
  if mixed then .error .invalidConfig
  else
    let r : TR :=
      -- 2. If subpath is equal to ".", then
      if subpath = ['.'] then
        -- 2.1 Let mainExport be undefined.
        let mainExport : Option Target :=
          match exports with
          -- 2.2 If exports is a String or Array, or an Object containing no keys starting with ".", then
          --     set mainExport to exports.
          | .str _ => some exports
          | .arr _ => some exports
          | .obj props =>
            if !props.any keyStartsWithDot then some exports
            -- 2.3 Otherwise if exports is an Object containing a "." property, then set mainExport to exports["."].
            else lookup props ['.']
          | _ => none
        -- 2.4 If mainExport is not undefined, then
        match mainExport with
        -- 2.4.1 Let resolved be the result of PACKAGE_TARGET_RESOLVE(packageURL, mainExport, null, false, conditions).
        | some t => targetResolve strict packageURL none false conditions t
        | none => .undef
      else
        -- 3. Otherwise, if exports is an Object and all keys of exports start with ".", then
        match exports with
        | .obj props =>
          if props.all keyStartsWithDot then
            -- 3.2 Let resolved be the result of PACKAGE_IMPORTS_EXPORTS_RESOLVE(subpath, exports, packageURL, false, conditions).
            importsExportsResolve strict subpath props packageURL false conditions
          else .undef
        | _ => .undef
    -- 2.4.2 / 3.3 If resolved is not null or undefined, return resolved.
    -- 4. Throw a Package Path Not Exported error.
    finish .notExported r

/-! ## PACKAGE_IMPORTS_RESOLVE(specifier, parentURL, conditions)
`imports` = pjson.imports of the enclosing package scope (`none` if there is no scope or no field). -/

def packageImportsResolve (strict : Bool) (packageURL specifier : Str) (imports : Option Target)
    (conditions : List Str) : Outcome :=
  -- 2. If specifier is exactly equal to "#" or starts with "#/", then throw an Invalid Module Specifier error.
  --    (Node 20 makes the test for a trailing "/" here as well, i.e. before it looks at pjson.imports;
  --     the documentation makes it in PACKAGE_IMPORTS_EXPORTS_RESOLVE step 1, i.e. only for an object.)
  if specifier = ['#'] || startsWith specifier ['#', '/'] || (!strict && endsWith specifier ['/']) then
    .error .invalidSpecifier
  else
    match imports with
    -- 4.2 If pjson.imports is a non-null Object, then
    | some (.obj props) =>
      -- 4.2.1 Let resolved be the result of PACKAGE_IMPORTS_EXPORTS_RESOLVE(specifier, pjson.imports, packageURL, true, conditions).
      -- 4.2.2 If resolved is not null or undefined, return resolved.
      -- 5. Throw a Package Import Not Defined error.
      finish .importNotDefined (importsExportsResolve strict specifier props packageURL true conditions)
    | _ => .error .importNotDefined

end EsbuildModel.NodeExports
