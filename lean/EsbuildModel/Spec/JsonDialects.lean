import EsbuildModel.Spec.Json
/-
The two supersets of RFC 8259 that `Props/C13Json.lean` proves esbuild's JSON parser to accept EXACTLY, as
instances of `Spec.Json.Dialect` (every switch that is on is a deviation from RFC 8259, with a reproduction in the
Props file):

* `esbuildStrict` (flavour `js_lexer.JSON`, used for `.json` files and the `json` loader): RFC 8259 plus
  - the ECMAScript WhiteSpace and LineTerminator code points between tokens (VT, FF, NBSP, ZWNBSP/BOM, the Unicode
    Space_Separator characters, LS, PS),
  - HTML-like comments `<!-- …` and (at the start of a line) `--> …`, each up to the end of the line, with a warning,
  - an integer part `0` followed by `8` or `9` and further digits (`08`, `09.5`, `0812e3`, `-09`), read as decimal,
  - the escapes `\8` and `\9` in strings (the digit itself).
* `esbuildTsconfig` (flavour `js_lexer.TSConfigJSON`, used for tsconfig.json): all of the above plus `//` and `/* */`
  comments, a trailing comma in arrays and objects, every ECMAScript NumericLiteral that is not a BigInt (hex, octal,
  binary, separators, `.5`, `5.`, legacy octal; except `0789.5`-like forms) with white space and comments allowed
  after a minus sign, and the ECMAScript (sloppy mode) string escapes, line continuations and raw control characters
  in double-quoted strings.
-/
namespace EsbuildModel.Spec.Json

/-- ECMA-262 Table 35 WhiteSpace and Table 36 LineTerminator code points other than the four of RFC 8259 -/
def jsExtraWs (c : Char) : Bool :=
  let n := c.toNat
  n == 0x0B || n == 0x0C || n == 0xA0 || n == 0xFEFF || n == 0x1680 || (0x2000 ≤ n && n ≤ 0x200A) ||
  n == 0x202F || n == 0x205F || n == 0x3000 || n == 0x2028 || n == 0x2029

def esbuildStrict : Dialect :=
  { rfc8259 with extraWs := jsExtraWs, htmlComments := true, leadingZero89 := true, escape89 := true }

def esbuildTsconfig : Dialect :=
  { extraWs := jsExtraWs, lineComments := true, blockComments := true, htmlComments := true, trailingCommas := true,
    leadingZero89 := true, escape89 := true, jsNumbers := true, jsStrings := true }

/-- pointwise: everything dialect `a` allows, dialect `b` allows -/
structure Dialect.le (a b : Dialect) : Prop where
  extraWs : ∀ c, a.extraWs c = true → b.extraWs c = true
  lineComments : a.lineComments = true → b.lineComments = true
  blockComments : a.blockComments = true → b.blockComments = true
  htmlComments : a.htmlComments = true → b.htmlComments = true
  trailingCommas : a.trailingCommas = true → b.trailingCommas = true
  leadingZero89 : a.leadingZero89 = true → b.leadingZero89 = true
  escape89 : a.escape89 = true → b.escape89 = true
  jsNumbers : a.jsNumbers = true → b.jsNumbers = true
  jsStrings : a.jsStrings = true → b.jsStrings = true

end EsbuildModel.Spec.Json
