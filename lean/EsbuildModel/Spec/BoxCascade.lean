/-
Specification (written from CSS Cascade 4 §6 "Cascade Sorting Order", CSS Box 3 / CSS Position 3 shorthand
definitions and CSS Logical Properties 1, not from esbuild's code): the cascade restricted to the declaration list
of ONE style rule and to ONE family of box properties (`margin`, `padding` or `inset`):

* the family has four physical longhands (top, right, bottom, left), one four-value shorthand, four flow-relative
  longhands (`-block-start`, …) and two two-value flow-relative shorthands (`-block`, `-inline`);
* the four-value shorthand takes 1 to 4 component values: `v1`, `v1 v2`, `v1 v2 v3`, `v1 v2 v3 v4` set
  top/right/bottom/left to `v1`, `v2|v1`, `v3|v1`, `v4|v2|v1`; a two-value shorthand sets start/end to `v1`, `v2|v1`;
* flow-relative and physical properties of one family share the same four computed slots (the writing mode says
  which), and within one origin and one rule the winning declaration for a slot is the LAST one that sets it among
  the `!important` declarations, if there is one, else the last among the normal ones;
* a declaration whose value the user agent does not accept is ignored (CSS Syntax 3 §9: "invalid … ignored").

The user agent is a parameter (`Browser`): which values it accepts (`ok`), which component values are
self-contained (`plain`: no `var()`/`env()`/`attr()` substitution inside, so that the positional expansion can be
done at parse time), the parsed value of such a component (`den`), and the writing mode (`wm`).  Values that are
accepted but cannot be expanded at parse time are kept symbolically (`Val.piece`): two of them are the same only if
they come from the same property, the same text and the same side.
-/
namespace EsbuildModel.Spec.BoxCascade

inductive Side | top | right | bottom | left
  deriving DecidableEq, Repr

inductive Flow | blockStart | blockEnd | inlineStart | inlineEnd
  deriving DecidableEq, Repr

/-- the properties of one box family -/
inductive BoxProp
  | shorthand            -- margin / padding / inset
  | side (s : Side)      -- margin-top … / top …
  | flow (l : Flow)      -- margin-block-start …
  | block | inline       -- margin-block, margin-inline (two values)
  deriving DecidableEq, Repr

/-- a declaration as the cascade sees it; `prop = none`: a property outside the family -/
structure Decl (τ : Type) where
  prop : Option BoxProp
  value : List τ
  important : Bool

structure Browser (τ V : Type) where
  ok : BoxProp → List τ → Bool
  plain : τ → Bool
  den : τ → V
  wm : Flow → Side

inductive Val (τ V : Type)
  | known (v : V)
  | piece (p : BoxProp) (value : List τ) (s : Side)
  deriving DecidableEq

variable {τ V : Type}

/-- 1–4 value expansion: (top, right, bottom, left) -/
def quad : List τ → Option (τ × τ × τ × τ)
  | [a] => some (a, a, a, a)
  | [a, b] => some (a, b, a, b)
  | [a, b, c] => some (a, b, c, b)
  | [a, b, c, d] => some (a, b, c, d)
  | _ => none

/-- 1–2 value expansion: (start, end) -/
def pair : List τ → Option (τ × τ)
  | [a] => some (a, a)
  | [a, b] => some (a, b)
  | _ => none

def pick (q : τ × τ × τ × τ) : Side → τ
  | .top => q.1
  | .right => q.2.1
  | .bottom => q.2.2.1
  | .left => q.2.2.2

/-- value of a single-component property -/
def single (B : Browser τ V) (p : BoxProp) (value : List τ) (s : Side) : Val τ V :=
  match value with
  | [t] => if B.plain t then .known (B.den t) else .piece p value s
  | _ => .piece p value s

/-- value of the `i`-th half of a two-value shorthand -/
def half (B : Browser τ V) (p : BoxProp) (value : List τ) (s : Side) (first : Bool) : Val τ V :=
  if value.all B.plain then
    match pair value with
    | some (a, b) => .known (B.den (if first then a else b))
    | none => .piece p value s
  else .piece p value s

/-- what an ACCEPTED declaration of property `p` with this value assigns to side `s` (`none`: it does not touch `s`) -/
def assigned (B : Browser τ V) (p : BoxProp) (value : List τ) (s : Side) : Option (Val τ V) :=
  match p with
  | .shorthand =>
    some (if value.all B.plain then
            match quad value with
            | some q => .known (B.den (pick q s))
            | none => .piece p value s
          else .piece p value s)
  | .side s' => if s' = s then some (single B p value s) else none
  | .flow l => if B.wm l = s then some (single B p value s) else none
  | .block =>
    if B.wm .blockStart = s then some (half B p value s true)
    else if B.wm .blockEnd = s then some (half B p value s false) else none
  | .inline =>
    if B.wm .inlineStart = s then some (half B p value s true)
    else if B.wm .inlineEnd = s then some (half B p value s false) else none

/-- the contribution of one declaration to side `s` at importance level `imp` -/
def contribution (B : Browser τ V) (s : Side) (imp : Bool) (d : Decl τ) : Option (Val τ V) :=
  match d.prop with
  | none => none
  | some p => if d.important = imp ∧ B.ok p d.value = true then assigned B p d.value s else none

/-- last declaration of the given importance that sets side `s` -/
def lastOf (B : Browser τ V) (ds : List (Decl τ)) (s : Side) (imp : Bool) : Option (Val τ V) :=
  (ds.filterMap (contribution B s imp)).getLast?

/-- the cascaded value of side `s` (`none`: no declaration of this rule sets it) -/
def winner (B : Browser τ V) (ds : List (Decl τ)) (s : Side) : Option (Val τ V) :=
  match lastOf B ds s true with
  | some v => some v
  | none => lastOf B ds s false

/-- the usual writing mode (horizontal-tb, ltr) -/
def horizontalLtr : Flow → Side
  | .blockStart => .top
  | .blockEnd => .bottom
  | .inlineStart => .left
  | .inlineEnd => .right

end EsbuildModel.Spec.BoxCascade
