import EsbuildModel.Spec.JsStringLiteral
/-
ECMA-262 (2023) 12.7 "Names and Keywords", written from the specification text without looking at esbuild's code.

    IdentifierName  :: IdentifierStart | IdentifierName IdentifierPart
    IdentifierStart :: IdentifierStartChar | `\` UnicodeEscapeSequence
    IdentifierPart  :: IdentifierPartChar  | `\` UnicodeEscapeSequence
    IdentifierStartChar :: UnicodeIDStart | `$` | `_`
    IdentifierPartChar  :: UnicodeIDContinue | `$` | <ZWNJ> | <ZWJ>
    UnicodeEscapeSequence :: `u` Hex4Digits | `u{` CodePoint `}`          (12.9.4)
    CodePoint :: HexDigits[~Sep]  but only if MV of HexDigits ≤ 0x10FFFF

12.7.1.1 Early errors: for `\ UnicodeEscapeSequence` in IdentifierStart (IdentifierPart) it is a Syntax Error if the
IdentifierCodePoint of the escape is not matched by IdentifierStartChar (IdentifierPartChar).
12.7.1.2 IdentifierCodePoints: the code point of every IdentifierStart / IdentifierPart in order; the StringValue of
the name is the UTF-16 encoding (CodePointsToString) of that sequence.
12.7.2: ReservedWord; the words reserved in strict mode code only.

The Unicode properties ID_Start and ID_Continue are PARAMETERS (`UnicodeProps`); `Ascii` states the part of them that
the Unicode Character Database fixes for U+0000 … U+007F (letters; letters, digits, LOW LINE), `NoSurrogates` that a
surrogate code point (General_Category Cs) has neither property.
-/
namespace EsbuildModel.Spec.JsIdentifier
open EsbuildModel.Spec.StrLit (isHexDigit digitsMV)

structure UnicodeProps where
  idStart : Nat → Bool
  idContinue : Nat → Bool

def isAsciiLetter (c : Nat) : Bool := (65 ≤ c && c ≤ 90) || (97 ≤ c && c ≤ 122)
def isAsciiDigit (c : Nat) : Bool := 48 ≤ c && c ≤ 57

/-- what the UCD says about ASCII: ID_Start = letters, ID_Continue = letters, digits, `_` -/
def UnicodeProps.Ascii (U : UnicodeProps) : Prop :=
  ∀ c, c < 128 → U.idStart c = isAsciiLetter c ∧ U.idContinue c = (isAsciiLetter c || isAsciiDigit c || c == 95)

/-- surrogate code points are unassigned to both properties -/
def UnicodeProps.NoSurrogates (U : UnicodeProps) : Prop :=
  ∀ c, 0xD800 ≤ c → c ≤ 0xDFFF → U.idStart c = false ∧ U.idContinue c = false

/-- IdentifierStartChar -/
def startChar (U : UnicodeProps) (c : Nat) : Bool := U.idStart c || c == 36 || c == 95
/-- IdentifierPartChar -/
def partChar (U : UnicodeProps) (c : Nat) : Bool := U.idContinue c || c == 36 || c == 0x200C || c == 0x200D

/-- one IdentifierStart / IdentifierPart of the source text -/
inductive Elem
  /-- a source character standing for itself -/
  | char (c : Nat)
  /-- `\uXXXX` with the four characters after `u` -/
  | esc4 (a b c d : Nat)
  /-- `\u{…}` with the characters between the braces -/
  | escBrace (digits : List Nat)
  deriving DecidableEq, Repr

/-- the source characters the element is written with -/
def Elem.text : Elem → List Nat
  | .char c => [c]
  | .esc4 a b c d => [92, 117, a, b, c, d]
  | .escBrace ds => [92, 117, 123] ++ ds ++ [125]

/-- IdentifierCodePoint (the MV of the hex digits); `none` = the element is not derivable from the grammar: a `\` written
as a character, a non-HexDigit, an empty `\u{}`, or a CodePoint above 0x10FFFF -/
def Elem.cp : Elem → Option Nat
  | .char c => if c = 92 then none else some c
  | .esc4 a b c d => if [a, b, c, d].all isHexDigit then some (digitsMV 16 [a, b, c, d]) else none
  | .escBrace ds => if ds ≠ [] ∧ ds.all isHexDigit = true ∧ digitsMV 16 ds ≤ 0x10FFFF then some (digitsMV 16 ds) else none

/-- `src` is an IdentifierName (grammar + early errors of 12.7.1.1) whose IdentifierCodePoints are `cps` -/
def IsIdentifierName (U : UnicodeProps) (src cps : List Nat) : Prop :=
  ∃ elems : List Elem, src = elems.flatMap Elem.text ∧ elems.map Elem.cp = cps.map some ∧
    ∃ c rest, cps = c :: rest ∧ startChar U c = true ∧ ∀ d ∈ rest, partChar U d = true

/-- Table: UTF-16 encoding of a code point (10.1.1 UTF16EncodeCodePoint) -/
def utf16Encode (cp : Nat) : List Nat :=
  if cp ≤ 0xFFFF then [cp] else [0xD800 + (cp - 0x10000) / 1024, 0xDC00 + (cp - 0x10000) % 1024]

/-- StringValue of an IdentifierName with the given IdentifierCodePoints -/
def stringValue (cps : List Nat) : List Nat := cps.flatMap utf16Encode

/-- 12.7.2 ReservedWord -/
def reservedWords : List String :=
  ["await", "break", "case", "catch", "class", "const", "continue", "debugger", "default", "delete", "do", "else", "enum",
   "export", "extends", "false", "finally", "for", "function", "if", "import", "in", "instanceof", "new", "null", "return",
   "super", "switch", "this", "throw", "true", "try", "typeof", "var", "void", "while", "with", "yield"]

/-- 12.7.2: identifiers that are additionally reserved in strict mode code -/
def strictOnlyReservedWords : List String :=
  ["let", "static", "implements", "interface", "package", "private", "protected", "public"]

/-- 12.7.2: `await` and `yield` are ReservedWords that are nevertheless usable as identifiers in some contexts -/
def contextualReservedWords : List String := ["await", "yield"]

end EsbuildModel.Spec.JsIdentifier
