/-
ECMA-262 private names (`#x`): an independent big-step semantics, written from the specification text
(ECMA-262 2023: 6.2.12 Private Names, 7.3.26-7.3.33 PrivateElementFind / PrivateFieldAdd /
PrivateMethodOrAccessorAdd / PrivateGet / PrivateSet / DefineField / InitializeInstanceElements, 6.2.5.5-6 GetValue /
PutValue on private references, 13.3.2 `MemberExpression . PrivateIdentifier`, 13.3.6 EvaluateCall, 13.3.9 optional
chains, 13.3.11 tagged templates, 13.4 update expressions, 13.10.1 `#x in o`, 13.15.2 assignment operators,
13.15.5 destructuring assignment, 15.7.14 ClassDefinitionEvaluation, 9.2 PrivateEnvironment records /
ResolvePrivateIdentifier), without looking at esbuild.

The fragment: a program is a table of classes (each with an optional lexical parent: a class expression that
occurs in a static field initializer of the parent) whose members are public fields, private fields, private
methods, private getters / setters (all of them instance or static) and public static methods `t0, t1, …`
(containers of test code).  A class either has no heritage or extends a fixed base class whose constructor returns
its argument when that is an object ("stamp": the only way to run the field initializers of a class on an object
a second time, which is what makes PrivateFieldAdd's "already present" TypeError observable).  Bodies,
initializers and constructor bodies are expressions of the language below; all of them have one parameter `a`.

Private Names: every class definition is evaluated at most once (`Pub.created`; a second evaluation is `Exc.stuck`:
outside the model), so the Private Name created for `#n` by the definition of class `c` is the pair `(c, n)`.
`resolve` is ResolvePrivateIdentifier: the innermost enclosing class that declares the name.

Objects are numbers.  Every object has a list of PrivateElements (`SSt.priv`, the [[PrivateElements]] slot) and
own public data properties (`Pub.pub`; no prototypes, no public accessors).  Class constructors and the function
objects of methods are objects too (`clsId`, `fnId`).

The outside world (`World`): probe functions `f0, f1, …` may look at the history and the user's variables
`v0, v1, …`, answer with any value, throw, and reassign the variables; they do not call back into the program.
Arithmetic (`arith`, `toNumeric`) is a parameter: no user code runs inside it.

`g : Bool` (guard): `false` is the semantics of the specification.  With `true` the evaluation stops with
`Exc.hazard` at the points where the theorems about esbuild's lowering need a hypothesis (see Props/C05Private.lean);
`guard_transparent` there shows that a guarded run that does not stop is the unguarded run.
-/
namespace EsbuildModel.JsPrivate

inductive Val where
  | undef
  | null
  | bool (b : Bool)
  | num (n : Int)
  | nan
  | str (s : String)
  | obj (id : Nat)
deriving DecidableEq, Repr, Inhabited

def Val.nullish : Val → Bool
  | .undef => true
  | .null => true
  | _ => false

/-- ToBoolean -/
def Val.truthy : Val → Bool
  | .undef => false
  | .null => false
  | .bool b => b
  | .num n => n != 0
  | .nan => false
  | .str s => s != ""
  | .obj _ => true

inductive Exc where
  | typeError
  | refError            -- a class binding read before its initialization
  | host (v : Val)      -- thrown by a probe function
  | hazard              -- guarded runs only
  | fuel                -- the call depth of the run was exhausted
  | stuck               -- outside the fragment (early errors: unresolvable private name; a class evaluated twice; …)
deriving DecidableEq, Repr

inductive Res where
  | val (v : Val)
  | err (x : Exc)
deriving DecidableEq, Repr

/-- the result of an argument / element list -/
inductive LRes where
  | vals (vs : List Val)
  | err (x : Exc)
deriving DecidableEq, Repr

def bindR {σ : Type} (r : Res × σ) (f : Val → σ → Res × σ) : Res × σ :=
  match r with
  | (.err x, s) => (.err x, s)
  | (.val v, s) => f v s

inductive BinOp where
  | add | sub | mul
deriving DecidableEq, Repr

inductive LogOp where
  | or | and | nul
deriving DecidableEq, Repr

/-- does `lval op= …` stop after reading the left value? -/
def LogOp.done : LogOp → Val → Bool
  | .or, v => v.truthy
  | .and, v => !v.truthy
  | .nul, v => !v.nullish

inductive Ev where
  | call (f : Nat) (arg : Val)
deriving DecidableEq, Repr

inductive HRes where
  | ret (v : Val)
  | throw (v : Val)
deriving DecidableEq, Repr

structure World where
  /-- probe function `f`, argument, events so far, the user's variables: the answer and the variables afterwards -/
  host : Nat → Val → List Ev → (Nat → Val) → HRes × (Nat → Val)
  /-- ApplyStringOrNumericBinaryOperator; none: TypeError -/
  arith : BinOp → Val → Val → Option Val
  /-- ToNumeric; none: TypeError -/
  toNumeric : Val → Option Val

-- ---------------------------------------------------------------- syntax

inductive Expr where
  | lit (v : Val)
  | var (x : Nat)                         -- the user's variable `v<x>` (global, the world may reassign it)
  | arg                                   -- the parameter `a` of the enclosing function
  | this
  | cls (c : Nat)                         -- the binding of the top-level class `K<c>`
  | asgVar (x : Nat) (e : Expr)           -- v<x> = e
  | call (f : Nat) (a : Expr)             -- f<f>(a)
  | seq (a b : Expr)                      -- (a, b)
  | new (ce a : Expr)                     -- new ce(a)
  | scall (ce : Expr) (i : Nat) (a : Expr) -- ce.t<i>(a)
  | pubGet (o : Expr) (p : Nat)           -- o.p<p>
  | classExpr (c : Nat)                   -- the class expression of the nested class `c`
  | pget (o : Expr) (n : Nat)             -- o.#n
  | pset (o : Expr) (n : Nat) (v : Expr)  -- o.#n = v
  | pbin (o : Expr) (n : Nat) (op : BinOp) (v : Expr)   -- o.#n op= v
  | plog (o : Expr) (n : Nat) (op : LogOp) (v : Expr)   -- o.#n ||= v, &&=, ??=
  | pupd (o : Expr) (n : Nat) (inc pre : Bool)          -- o.#n++, ++o.#n, o.#n--, --o.#n
  | pin (n : Nat) (o : Expr)              -- #n in o
  | pcall (o : Expr) (n : Nat) (a : Expr) -- o.#n(a)
  | ptag (o : Expr) (n : Nat) (site : Nat) -- o.#n`…` (no substitutions; `site`: which template literal)

def Expr.isVar : Expr → Option Nat
  | .var x => some x
  | _ => none

/-- an argument whose evaluation has no effect and cannot fail -/
def Expr.trivial : Expr → Bool
  | .lit _ => true
  | .var _ => true
  | .arg => true
  | .this => true
  | _ => false

inductive Member where
  | pubField (static : Bool) (key : Nat) (init : Option Expr)
  | privField (static : Bool) (name : Nat) (init : Option Expr)
  | method (static : Bool) (name : Nat) (body : Expr)
  | getter (static : Bool) (name : Nat) (body : Expr)
  | setter (static : Bool) (name : Nat) (body : Expr)
  | smethod (idx : Nat) (body : Expr)       -- static t<idx>(a) { return body }

structure Class where
  parent : Option Nat
  stamp : Bool
  ctor : Option Expr
  members : List Member

structure Prog where
  classes : List Class

def Prog.cls (P : Prog) (c : Nat) : Option Class := P.classes[c]?

-- ---------------------------------------------------------------- what a class declares

/-- a function of the program: member `i` of class `c` -/
abbrev FnRef := Nat × Nat

inductive PKind where
  | field (v : Val)
  | method (f : FnRef)
  | accessor (g s : Option FnRef)
deriving DecidableEq, Repr

/-- a PrivateElement: [[Key]] is the Private Name `(cls, name)` -/
structure PElem where
  cls : Nat
  name : Nat
  kind : PKind
deriving DecidableEq, Repr

def Member.isGetter (st : Bool) (n : Nat) : Member → Bool
  | .getter s m _ => s == st && m == n
  | _ => false

def Member.isSetter (st : Bool) (n : Nat) : Member → Bool
  | .setter s m _ => s == st && m == n
  | _ => false

def findIdx (ms : List Member) (p : Member → Bool) : Option Nat :=
  match ms.findIdx? p with
  | some i => some i
  | none => none

/-- what the private name `#n` is in a class body: staticness and the element's kind (a field's value is filled
in later); the first declaration counts, a getter and a setter of the same name and placement are one accessor -/
def declOf (c : Nat) (ms : List Member) (n : Nat) : List Member → Nat → Option (Bool × PKind)
  | [], _ => none
  | m :: rest, i =>
    match m with
    | .privField st m' _ => if m' = n then some (st, .field .undef) else declOf c ms n rest (i + 1)
    | .method st m' _ => if m' = n then some (st, .method (c, i)) else declOf c ms n rest (i + 1)
    | .getter st m' _ =>
      if m' = n then some (st, .accessor (some (c, i)) ((findIdx ms (Member.isSetter st n)).map fun j => (c, j)))
      else declOf c ms n rest (i + 1)
    | .setter st m' _ =>
      if m' = n then some (st, .accessor ((findIdx ms (Member.isGetter st n)).map fun j => (c, j)) (some (c, i)))
      else declOf c ms n rest (i + 1)
    | _ => declOf c ms n rest (i + 1)

def Prog.decl (P : Prog) (c n : Nat) : Option (Bool × PKind) :=
  match P.cls c with
  | some cl => declOf c cl.members n cl.members 0
  | none => none

/-- ResolvePrivateIdentifier: the innermost class of the scope chain that declares the name (`fuel`: the length
of the chain is at most the number of classes) -/
def resolveFrom (P : Prog) (n : Nat) : Nat → Nat → Option (Nat × Nat)
  | 0, _ => none
  | fuel + 1, c =>
    match P.decl c n with
    | some _ => some (c, n)
    | none =>
      match P.cls c with
      | some cl =>
        match cl.parent with
        | some p => resolveFrom P n fuel p
        | none => none
      | none => none

def Prog.resolve (P : Prog) (scope : Option Nat) (n : Nat) : Option (Nat × Nat) :=
  match scope with
  | some c => resolveFrom P n (P.classes.length + 1) c
  | none => none

def Member.privName : Member → Option (Bool × Nat)
  | .method st n _ => some (st, n)
  | .getter st n _ => some (st, n)
  | .setter st n _ => some (st, n)
  | _ => none

/-- the names of the private methods and accessors of a placement, in source order, each once -/
def methodNames (ms : List Member) (st : Bool) : List Nat :=
  (ms.filterMap fun m => match m.privName with
    | some (s, n) => if s == st then some n else none
    | none => none).eraseDups

/-- constructor.[[PrivateMethods]] (st = false) / the static private methods (st = true) -/
def Prog.methodElems (P : Prog) (c : Nat) (st : Bool) : List PElem :=
  match P.cls c with
  | some cl => (methodNames cl.members st).filterMap fun n =>
      match P.decl c n with
      | some (_, k) => some ⟨c, n, k⟩
      | none => none
  | none => []

def Member.isField (st : Bool) : Member → Bool
  | .pubField s _ _ => s == st
  | .privField s _ _ => s == st
  | _ => false

/-- constructor.[[Fields]] (st = false) / the static fields (st = true), in source order -/
def Prog.fields (P : Prog) (c : Nat) (st : Bool) : List Member :=
  match P.cls c with
  | some cl => cl.members.filter (Member.isField st)
  | none => []

def Prog.member (P : Prog) (f : FnRef) : Option Member :=
  match P.cls f.1 with
  | some cl => cl.members[f.2]?
  | none => none

def Member.isSMethod (idx : Nat) : Member → Bool
  | .smethod i _ => i == idx
  | _ => false

/-- the member index of `static t<idx>` -/
def Prog.smethod (P : Prog) (c idx : Nat) : Option FnRef :=
  match P.cls c with
  | some cl => (findIdx cl.members (Member.isSMethod idx)).map fun i => (c, i)
  | none => none

-- ---------------------------------------------------------------- state

/-- the object of class `c` (its constructor function), of member function `f`, of the strings array of a
tagged-template site: fixed numbers below `firstFresh`, where the objects created by `new` start -/
def clsId (c : Nat) : Nat := c
def fnId (f : FnRef) : Nat := 64 + 16 * f.1 + f.2
def tplId (site : Nat) : Nat := 20 + site
def firstFresh : Nat := 400

def decodeFn (id : Nat) : Option FnRef :=
  if 64 ≤ id ∧ id < 320 then some ((id - 64) / 16, (id - 64) % 16) else none

/-- everything but the private elements -/
structure Pub where
  tr : List Ev
  env : Nat → Val
  /-- own public data properties: object, key -/
  pub : Nat → Nat → Option Val
  /-- the next fresh object -/
  next : Nat
  /-- the binding of a top-level class has been initialized -/
  defined : Nat → Bool
  /-- the class definition has been evaluated -/
  created : Nat → Bool

structure SSt where
  c : Pub
  /-- [[PrivateElements]] of every object: object, then the Private Name (class, name) -/
  priv : Nat → Nat → Nat → Option PKind

def SSt.setC (s : SSt) (c : Pub) : SSt := { s with c := c }

def upd {α : Type} (f : Nat → α) (k : Nat) (v : α) : Nat → α := fun j => if j = k then v else f j

def Pub.setPub (c : Pub) (o k : Nat) (v : Val) : Pub :=
  { c with pub := upd c.pub o (upd (c.pub o) k (some v)) }

/-- a probe call: an event; the world answers and may reassign the variables -/
def Pub.probe (w : World) (f : Nat) (a : Val) (c : Pub) : Res × Pub :=
  match w.host f a c.tr c.env with
  | (.ret v, env') => (.val v, { c with tr := c.tr ++ [.call f a], env := env' })
  | (.throw v, env') => (.err (.host v), { c with tr := c.tr ++ [.call f a], env := env' })

/-- `o.p<k>` on a value: ToObject fails on undefined / null, primitives have no such property -/
def Pub.getPub (c : Pub) (o : Val) (k : Nat) : Res :=
  match o with
  | .undef => .err .typeError
  | .null => .err .typeError
  | .obj id => .val ((c.pub id k).getD .undef)
  | _ => .val .undef

/-- requests to the program: run a function, construct an instance, evaluate a class definition -/
inductive Req where
  | call (f : FnRef) (thisv argv : Val)
  | construct (c : Nat) (argv : Val)
  | define (c : Nat)

abbrev Orc (σ : Type) := Req → σ → Res × σ

structure Frame where
  /-- the class whose body the running code is lexically part of (the PrivateEnvironment) -/
  scope : Option Nat
  thisV : Val
  argV : Val

-- ---------------------------------------------------------------- 7.3.26 … 7.3.32

/-- PrivateElementFind(O, P): the element of the object `o` whose [[Key]] is the Private Name `k` ([[PrivateElements]]
is a list without duplicate keys, kept here as the partial map it represents) -/
def pfind (s : SSt) (o : Nat) (k : Nat × Nat) : Option PKind := s.priv o k.1 k.2

def SSt.setElem (s : SSt) (o : Nat) (k : Nat × Nat) (e : PKind) : SSt :=
  { s with priv := upd s.priv o (upd (s.priv o) k.1 (upd (s.priv o k.1) k.2 (some e))) }

/-- PrivateFieldAdd(O, P, value) -/
def privateFieldAdd (o : Nat) (k : Nat × Nat) (v : Val) (s : SSt) : Res × SSt :=
  match pfind s o k with
  | some _ => (.err .typeError, s)
  | none => (.val .undef, s.setElem o k (.field v))

/-- PrivateMethodOrAccessorAdd(O, method) -/
def privateMethodAdd (o : Nat) (m : PElem) (s : SSt) : Res × SSt :=
  match pfind s o (m.cls, m.name) with
  | some _ => (.err .typeError, s)
  | none => (.val .undef, s.setElem o (m.cls, m.name) m.kind)

def privateMethodsAdd (o : Nat) : List PElem → SSt → Res × SSt
  | [], s => (.val .undef, s)
  | m :: rest, s => bindR (privateMethodAdd o m s) fun _ s1 => privateMethodsAdd o rest s1

/-- GetValue of a private reference: ToObject(base) (a primitive gets a fresh wrapper without private elements),
then PrivateGet(O, P) -/
def privateGet (orc : Orc SSt) (k : Nat × Nat) (base : Val) (s : SSt) : Res × SSt :=
  match base with
  | .obj o =>
    match pfind s o k with
    | none => (.err .typeError, s)
    | some (.field v) => (.val v, s)
    | some (.method f) => (.val (.obj (fnId f)), s)
    | some (.accessor none _) => (.err .typeError, s)
    | some (.accessor (some g) _) => orc (.call g base .undef) s
  | _ => (.err .typeError, s)

/-- PutValue on a private reference: ToObject(base), then PrivateSet(O, P, value) -/
def privateSet (orc : Orc SSt) (k : Nat × Nat) (base v : Val) (s : SSt) : Res × SSt :=
  match base with
  | .obj o =>
    match pfind s o k with
    | none => (.err .typeError, s)
    | some (.field _) => (.val .undef, s.setElem o k (.field v))
    | some (.method _) => (.err .typeError, s)
    | some (.accessor _ none) => (.err .typeError, s)
    | some (.accessor _ (some st)) => bindR (orc (.call st base v) s) fun _ s1 => (.val .undef, s1)
  | _ => (.err .typeError, s)

/-- `#n in v` -/
def privateIn (k : Nat × Nat) (v : Val) (s : SSt) : Res × SSt :=
  match v with
  | .obj o => (.val (.bool (pfind s o k).isSome), s)
  | _ => (.err .typeError, s)

/-- [[Call]] of a value with one argument: the functions of the program; everything else is not callable -/
def callVal (P : Prog) {σ : Type} (orc : Orc σ) (fv thisv av : Val) (s : σ) : Res × σ :=
  match fv with
  | .obj id =>
    match decodeFn id with
    | some f =>
      match P.member f with
      | some (.method _ _ _) => orc (.call f thisv av) s
      | some (.smethod _ _) => orc (.call f thisv av) s
      | _ => (.err .typeError, s)
    | none => (.err .typeError, s)
  | _ => (.err .typeError, s)

def liftC (f : Pub → Res × Pub) (s : SSt) : Res × SSt := ((f s.c).1, s.setC (f s.c).2)

def rebound (x : Expr) (xv : Val) (s : SSt) : Bool :=
  match x.isVar with
  | some k => s.c.env k != xv
  | none => false

-- ---------------------------------------------------------------- expressions

def isClassObj (P : Prog) (c : Pub) (v : Val) : Option Nat :=
  match v with
  | .obj id => if id < P.classes.length && c.created id then some id else none
  | _ => none

def evalE (P : Prog) (w : World) (g : Bool) (orc : Orc SSt) (fr : Frame) : Expr → SSt → Res × SSt
  | .lit v, s => (.val v, s)
  | .var x, s => (.val (s.c.env x), s)
  | .arg, s => (.val fr.argV, s)
  | .this, s => (.val fr.thisV, s)
  | .cls c, s => if s.c.defined c then (.val (.obj (clsId c)), s) else (.err .refError, s)
  | .asgVar x e, s =>
    bindR (evalE P w g orc fr e s) fun v s1 => (.val v, s1.setC { s1.c with env := upd s1.c.env x v })
  | .call f a, s => bindR (evalE P w g orc fr a s) fun v s1 => liftC (Pub.probe w f v) s1
  | .seq a b, s => bindR (evalE P w g orc fr a s) fun _ s1 => evalE P w g orc fr b s1
  | .new ce a, s =>
    -- 13.3.5.1.1 EvaluateNew: the constructor expression, the arguments, IsConstructor, Construct
    bindR (evalE P w g orc fr ce s) fun cv s1 =>
      bindR (evalE P w g orc fr a s1) fun av s2 =>
        match isClassObj P s2.c cv with
        | some c => orc (.construct c av) s2
        | none => (.err .typeError, s2)
  | .scall ce i a, s =>
    -- a method call: the property is read first (TypeError on undefined / null), then the arguments are evaluated,
    -- then IsCallable
    bindR (evalE P w g orc fr ce s) fun cv s1 =>
      if cv.nullish then (.err .typeError, s1)
      else
        let fo := (isClassObj P s1.c cv).bind fun c => P.smethod c i
        bindR (evalE P w g orc fr a s1) fun av s2 =>
          match fo with
          | some f => orc (.call f cv av) s2
          | none => (.err .typeError, s2)
  | .pubGet o p, s => bindR (evalE P w g orc fr o s) fun ov s1 => (s1.c.getPub ov p, s1)
  | .classExpr c, s => orc (.define c) s
  | .pget o n, s =>
    match P.resolve fr.scope n with
    | none => (.err .stuck, s)
    | some k => bindR (evalE P w g orc fr o s) fun ov s1 => privateGet orc k ov s1
  | .pset o n v, s =>
    -- 13.15.2: the reference, the right-hand side, PutValue
    match P.resolve fr.scope n with
    | none => (.err .stuck, s)
    | some k =>
      bindR (evalE P w g orc fr o s) fun ov s1 =>
        bindR (evalE P w g orc fr v s1) fun rv s2 =>
          bindR (privateSet orc k ov rv s2) fun _ s3 => (.val rv, s3)
  | .pbin o n op v, s =>
    -- 13.15.2: the reference, GetValue, the right-hand side, the operator, PutValue
    match P.resolve fr.scope n with
    | none => (.err .stuck, s)
    | some k =>
      bindR (evalE P w g orc fr o s) fun ov s1 =>
        bindR (privateGet orc k ov s1) fun lval s2 =>
          bindR (evalE P w g orc fr v s2) fun rv s3 =>
            match w.arith op lval rv with
            | none => (.err .typeError, s3)
            | some r => bindR (privateSet orc k ov r s3) fun _ s4 => (.val r, s4)
  | .plog o n op v, s =>
    match P.resolve fr.scope n with
    | none => (.err .stuck, s)
    | some k =>
      bindR (evalE P w g orc fr o s) fun ov s1 =>
        bindR (privateGet orc k ov s1) fun lval s2 =>
          if op.done lval then (.val lval, s2)
          else if g && rebound o ov s2 then (.err .hazard, s2)
          else
            bindR (evalE P w g orc fr v s2) fun rv s3 =>
              bindR (privateSet orc k ov rv s3) fun _ s4 => (.val rv, s4)
  | .pupd o n inc pre, s =>
    -- 13.4: GetValue, ToNumeric, ± 1, PutValue
    match P.resolve fr.scope n with
    | none => (.err .stuck, s)
    | some k =>
      bindR (evalE P w g orc fr o s) fun ov s1 =>
        bindR (privateGet orc k ov s1) fun old s2 =>
          match w.toNumeric old with
          | none => (.err .typeError, s2)
          | some oldN =>
            match w.arith (if inc then .add else .sub) oldN (.num 1) with
            | none => (.err .typeError, s2)
            | some nv => bindR (privateSet orc k ov nv s2) fun _ s3 => (.val (if pre then nv else oldN), s3)
  | .pin n o, s =>
    match P.resolve fr.scope n with
    | none => (.err .stuck, s)
    | some k => bindR (evalE P w g orc fr o s) fun ov s1 => privateIn k ov s1
  | .pcall o n a, s =>
    -- 13.3.6: the reference, GetValue, the arguments, IsCallable, Call with `this` = the base value
    match P.resolve fr.scope n with
    | none => (.err .stuck, s)
    | some k =>
      bindR (evalE P w g orc fr o s) fun ov s1 =>
        bindR (privateGet orc k ov s1) fun fv s2 =>
          if g && fv.nullish && !a.trivial then (.err .hazard, s2)
          else bindR (evalE P w g orc fr a s2) fun av s3 => callVal P orc fv ov av s3
  | .ptag o n site, s =>
    match P.resolve fr.scope n with
    | none => (.err .stuck, s)
    | some k =>
      bindR (evalE P w g orc fr o s) fun ov s1 =>
        bindR (privateGet orc k ov s1) fun fv s2 => callVal P orc fv ov (.obj (tplId site)) s2

-- ---------------------------------------------------------------- classes

def evalInit (P : Prog) (w : World) (g : Bool) (orc : Orc SSt) (fr : Frame) (init : Option Expr) (s : SSt) : Res × SSt :=
  match init with
  | none => (.val .undef, s)
  | some e => evalE P w g orc fr e s

/-- DefineField(receiver, fieldRecord): the initializer runs as a method of the receiver; a private name is
added with PrivateFieldAdd, a public one with CreateDataPropertyOrThrow -/
def defineField (P : Prog) (w : World) (g : Bool) (orc : Orc SSt) (c o : Nat) (m : Member) (s : SSt) : Res × SSt :=
  match m with
  | .pubField _ key init =>
    bindR (evalInit P w g orc ⟨some c, .obj o, .undef⟩ init s) fun v s1 => (.val .undef, s1.setC (s1.c.setPub o key v))
  | .privField _ n init =>
    bindR (evalInit P w g orc ⟨some c, .obj o, .undef⟩ init s) fun v s1 => privateFieldAdd o (c, n) v s1
  | _ => (.val .undef, s)

def defineFields (P : Prog) (w : World) (g : Bool) (orc : Orc SSt) (c o : Nat) : List Member → SSt → Res × SSt
  | [], s => (.val .undef, s)
  | m :: rest, s => bindR (defineField P w g orc c o m s) fun _ s1 => defineFields P w g orc c o rest s1

/-- the object a constructor initializes: a fresh one, or (class with the stamping base) the argument if that is
an object -/
def newTarget (stamp : Bool) (av : Val) (c : Pub) : Nat × Pub :=
  match stamp, av with
  | true, .obj j => (j, c)
  | _, _ => (c.next, { c with next := c.next + 1 })

/-- [[Construct]] of class `c` with one argument: the object, InitializeInstanceElements (all private methods and
accessors, then the fields in source order), the constructor body -/
def constructS (P : Prog) (w : World) (g : Bool) (orc : Orc SSt) (c : Nat) (av : Val) (s : SSt) : Res × SSt :=
  match P.cls c with
  | none => (.err .stuck, s)
  | some cl =>
    let o := (newTarget cl.stamp av s.c).1
    let s0 := s.setC (newTarget cl.stamp av s.c).2
    bindR (privateMethodsAdd o (P.methodElems c false) s0) fun _ s1 =>
      bindR (defineFields P w g orc c o (P.fields c false) s1) fun _ s2 =>
        bindR (evalInit P w g orc ⟨some c, .obj o, av⟩ cl.ctor s2) fun _ s3 => (.val (.obj o), s3)

/-- ClassDefinitionEvaluation from the point where the constructor F exists: the static private methods, then the
static fields in source order -/
def defineS (P : Prog) (w : World) (g : Bool) (orc : Orc SSt) (c : Nat) (s : SSt) : Res × SSt :=
  if s.c.created c then (.err .stuck, s)
  else
    match P.cls c with
    | none => (.err .stuck, s)
    | some _ =>
      let s0 := s.setC { s.c with created := upd s.c.created c true }
      bindR (privateMethodsAdd (clsId c) (P.methodElems c true) s0) fun _ s1 =>
        bindR (defineFields P w g orc c (clsId c) (P.fields c true) s1) fun _ s2 => (.val (.obj (clsId c)), s2)

/-- the program answers a request; `fuel` bounds the depth of calls -/
def runS (P : Prog) (w : World) (g : Bool) : Nat → Req → SSt → Res × SSt
  | 0, _, s => (.err .fuel, s)
  | k + 1, .call f tv av, s =>
    match P.member f with
    | some (.method _ _ b) => evalE P w g (runS P w g k) ⟨some f.1, tv, av⟩ b s
    | some (.getter _ _ b) => evalE P w g (runS P w g k) ⟨some f.1, tv, av⟩ b s
    | some (.setter _ _ b) => bindR (evalE P w g (runS P w g k) ⟨some f.1, tv, av⟩ b s) fun _ s1 => (.val .undef, s1)
    | some (.smethod _ b) => evalE P w g (runS P w g k) ⟨some f.1, tv, av⟩ b s
    | _ => (.err .stuck, s)
  | k + 1, .construct c av, s => constructS P w g (runS P w g k) c av s
  | k + 1, .define c, s => defineS P w g (runS P w g k) c s

/-- the top-level class declarations, in order; the binding is initialized when the definition has been evaluated -/
def defineTops (P : Prog) (w : World) (g : Bool) (fuel : Nat) : List Nat → SSt → Res × SSt
  | [], s => (.val .undef, s)
  | c :: rest, s =>
    bindR (runS P w g fuel (.define c) s) fun _ s1 =>
      defineTops P w g fuel rest (s1.setC { s1.c with defined := upd s1.c.defined c true })

/-- a program: the top-level classes, then one expression outside every class -/
def runProgS (P : Prog) (w : World) (g : Bool) (fuel : Nat) (tops : List Nat) (main : Expr) (s : SSt) : Res × SSt :=
  bindR (defineTops P w g fuel tops s) fun _ s1 =>
    evalE P w g (runS P w g fuel) ⟨none, .undef, .undef⟩ main s1

end EsbuildModel.JsPrivate
