/-
Independent specification of PROPERTY NAMES of object literals and classes, written from ECMA-262 (2023) and not from
esbuild's code:

  §13.2.5  PropertyName : LiteralPropertyName | ComputedPropertyName
           LiteralPropertyName : IdentifierName | StringLiteral | NumericLiteral
           ComputedPropertyName : `[` AssignmentExpression `]`
  §15.7    ClassElementName : PropertyName | PrivateIdentifier
  §13.2.5.4 / §15.7 "PropName": the string of a LiteralPropertyName (StringValue of the IdentifierName, SV of the
           StringLiteral, ToString of the NumericValue); EMPTY for a ComputedPropertyName.
  §13.2.5.5 evaluation of a PropertyName: that same string, or ToPropertyKey of the value of the AssignmentExpression.
  §6.1.6.1.20 Number::toString: "NaN", "0" for +0 and -0, "-" followed by the text of -x for x < 0, "Infinity".
  §13.2.5.5 PropertyDefinition : PropertyName `:` AssignmentExpression — "if propKey is "__proto__" and
           IsComputedPropertyKey(PropertyName) is false" the definition SETS THE PROTOTYPE; the forms IdentifierReference
           (shorthand), CoverInitializedName and MethodDefinition never do.
  §15.7.1  early errors of classes, all in terms of PropName: a non-static method named "constructor" is the constructor
           (and must be a plain method); a field named "constructor", a static field or static method named "prototype",
           a static field named "constructor", and the private name "#constructor" are Syntax Errors.

The input is a TOKEN sequence.  A token carries the value the lexical grammar gives it (StringValue / SV / numeric value);
that the text esbuild prints for a name, a string or a number lexes to exactly that token is the subject of the existing
theorems C13IdentPrint.print_identifier_utf16_roundtrip, C01.string_literal_value_preserved and C01NumPrint.

A Number is described as far as ToString needs it: NaN, ±Infinity, or sign, "is the integer n" and the shortest
round-trip decimal text of |x| (two finite doubles are equal iff sign and text are equal; +0 and -0 differ in sign only).
-/
namespace EsbuildModel.Spec.PropertyKey

inductive NumV
  | nan
  | inf (neg : Bool)
  | fin (neg : Bool) (intVal : Option Nat) (text : List Char)
  deriving DecidableEq, Repr

inductive Tok
  | name (sv : List Nat)                          -- IdentifierName with this StringValue (reserved words included)
  | str (sv : List Nat)                           -- StringLiteral with this SV
  | num (intVal : Option Nat) (text : List Char)  -- NumericLiteral (a non-negative finite number)
  | bigint (text : List Nat)                      -- NumericLiteral with a BigInt suffix
  | priv (name : List Nat)                        -- PrivateIdentifier (with the `#`)
  | p (s : String)                                -- punctuator
  | expr (text : List Nat)                        -- an AssignmentExpression nothing is known about
  | nl                                            -- a LineTerminator between two tokens
  deriving DecidableEq, Repr

/-- a property key (the result of ToPropertyKey), kept abstract where a decimal text would have to be produced: `numv` is
Number::toString of the finite number with this sign / integer value / shortest text (never of -0: that is +0's string) -/
inductive KeyV
  | str (u : List Nat)
  | numv (neg : Bool) (intVal : Option Nat) (text : List Char)
  | bigint (text : List Nat)
  | priv (name : List Nat)
  | dyn (text : List Nat)                         -- known at run time only
  deriving DecidableEq, Repr

def sv (s : String) : List Nat := s.toList.map Char.toNat

/-- ToPropertyKey of a Number: Number::toString -/
def numKey : NumV → KeyV
  | .nan => .str (sv "NaN")
  | .inf false => .str (sv "Infinity")
  | .inf true => .str (sv "-Infinity")
  | .fin neg iv t => .numv (neg && iv != some 0) iv t

/-- the value of an expression as far as it is known -/
inductive Value
  | str (u : List Nat)
  | num (n : NumV)
  | bigint (text : List Nat)
  | dyn (text : List Nat)
  deriving DecidableEq, Repr

def toPropertyKey : Value → KeyV
  | .str u => .str u
  | .num n => numKey n
  | .bigint t => .bigint t
  | .dyn t => .dyn t

/-- an IdentifierReference: `NaN` and `Infinity` denote the global constants (ASSUMPTION: they are not shadowed and the
expression is not inside `with`); every other name is only known at run time -/
def identValue (name : List Nat) : Value :=
  if name = sv "NaN" then .num .nan else if name = sv "Infinity" then .num (.inf false) else .dyn name

/-- Number::unaryMinus -/
def neg : NumV → NumV
  | .nan => .nan
  | .inf n => .inf (!n)
  | .fin n iv t => .fin (!n) iv t

/-- Number::divide for the only divisions that are needed: by the literal `0`. `x / 0` is NaN for x = ±0 and ±Infinity for
x ≠ 0; `none` = not needed here -/
def divByZero : NumV → Option NumV
  | .fin _ (some 0) _ => some .nan
  | .fin n (some _) _ => some (.inf n)
  | .fin n none _ => some (.inf n)      -- a non-integer is not zero
  | _ => none

def isZeroLit : Tok → Bool
  | .num (some 0) _ => true
  | _ => false

/-- the fragment of AssignmentExpression that is needed: a literal, an identifier, an opaque expression, `-` literal,
literal `/` `0`, `-` literal `/` `0` (unary minus binds tighter than `/`), `-` applied to `NaN` / `Infinity` -/
def assignExpr : List Tok → Option (Value × List Tok)
  | .str u :: r => some (.str u, r)
  | .bigint t :: r => some (.bigint t, r)
  | .expr t :: r => some (.dyn t, r)
  | .name n :: r => some (identValue n, r)
  | .num iv t :: .p "/" :: z :: r =>
    if isZeroLit z then (divByZero (.fin false iv t)).map fun v => (.num v, r) else none
  | .num iv t :: r => some (.num (.fin false iv t), r)
  | .p "-" :: .num iv t :: .p "/" :: z :: r =>
    if isZeroLit z then (divByZero (.fin true iv t)).map fun v => (.num v, r) else none
  | .p "-" :: .num iv t :: r => some (.num (.fin true iv t), r)
  | .p "-" :: .name n :: r =>
    (match identValue n with
     | .num v => some (.num (neg v), r)
     | _ => none)
  | _ => none

structure PName where
  computed : Bool
  key : KeyV
  deriving DecidableEq, Repr

/-- PropertyName / ClassElementName at the head of the tokens -/
def propertyName : List Tok → Option (PName × List Tok)
  | .name s :: r => some (⟨false, .str s⟩, r)
  | .str s :: r => some (⟨false, .str s⟩, r)
  | .num iv t :: r => some (⟨false, numKey (.fin false iv t)⟩, r)
  | .bigint t :: r => some (⟨false, .bigint t⟩, r)
  | .priv n :: r => some (⟨false, .priv n⟩, r)
  | .p "[" :: r =>
    match assignExpr r with
    | some (v, .p "]" :: r') => some (⟨true, toPropertyKey v⟩, r')
    | _ => none
  | _ => none

/-- PropName as far as the static semantics look at it: the string of a literal name. A numeric literal's PropName is a
canonical numeric string and a BigInt's a digit string; neither can be one of the names the specification singles out, so
they are reported as `none` like a computed key -/
def PName.propName (n : PName) : Option (List Nat) :=
  if n.computed then none else match n.key with
    | .str u => some u
    | _ => none

def protoName : List Nat := sv "__proto__"
def constructorName : List Nat := sv "constructor"
def prototypeName : List Nat := sv "prototype"

/-- the form of an object-literal PropertyDefinition after its PropertyName -/
inductive DefForm
  | shorthand     -- IdentifierReference / CoverInitializedName
  | colon         -- PropertyName `:` AssignmentExpression
  | method        -- MethodDefinition (method, getter, setter, generator, async)
  deriving DecidableEq, Repr

/-- §13.2.5.5: the definition sets the prototype of the object -/
def isProtoSetter (n : PName) (form : DefForm) : Bool :=
  form == .colon && n.propName == some protoName

inductive ClassForm
  | field | method | getter | setter | generator | asyncMethod | asyncGenerator | accessor
  deriving DecidableEq, Repr

/-- §15.7.1: the element is the class constructor -/
def isConstructor (n : PName) (form : ClassForm) (isStatic : Bool) : Bool :=
  !isStatic && form == .method && n.propName == some constructorName

/-- §15.7.1 early errors that depend on the name -/
def classEarlyError (n : PName) (form : ClassForm) (isStatic : Bool) : Bool :=
  (n.key == .priv (sv "#constructor")) ||
  (match form with
   | .field | .accessor => n.propName == some constructorName || (isStatic && n.propName == some prototypeName)
   | .method => isStatic && n.propName == some prototypeName
   | _ => (!isStatic && n.propName == some constructorName) || (isStatic && n.propName == some prototypeName))

/-- tokens after which a contextual word (`get` `set` `static` `async` `accessor`) IS a modifier: the start of a
ClassElementName, `*`, or (for `static`) a block.  Before `(`, `=`, `;`, `:`, `,`, `}` the word is the name itself -/
def startsElementName : Tok → Bool
  | .name _ | .str _ | .num _ _ | .bigint _ | .priv _ => true
  | .p s => s == "[" || s == "*" || s == "{"
  | _ => false

end EsbuildModel.Spec.PropertyKey
