/-
Independent specification: the ECMAScript (ES2023, §13 "ECMAScript Language: Expressions") expression grammar
restricted to identifiers, numeric literals, parentheses, the unary / update / binary / assignment / conditional /
comma operators, member access, calls and `new`, as a reference recursive-descent parser on tokens.
Written from the specification's productions, NOT from esbuild's parser or printer:

  Expression[In]            : AssignmentExpression | Expression , AssignmentExpression
  AssignmentExpression[In]  : ConditionalExpression | LeftHandSideExpression AssignmentOperator AssignmentExpression
                              (early error unless the target is "simple": identifier or member access, possibly parenthesised)
  ConditionalExpression[In] : ShortCircuitExpression | ShortCircuitExpression ? AssignmentExpression[+In] : AssignmentExpression[?In]
  ShortCircuitExpression    : LogicalORExpression | CoalesceExpression
  CoalesceExpression        : CoalesceExpressionHead ?? BitwiseORExpression      (so `??` never mixes with `||` / `&&` without parentheses)
  LogicalOR … Multiplicative: ten left-associative strata  A : B | A op B
  RelationalExpression[In]  : … | [+In] RelationalExpression in ShiftExpression
  ExponentiationExpression  : UnaryExpression | UpdateExpression ** ExponentiationExpression
  UnaryExpression           : UpdateExpression | (delete|void|typeof|+|-|~|!) UnaryExpression
  UpdateExpression          : LeftHandSideExpression | LHS ++ | LHS -- | ++ UnaryExpression | -- UnaryExpression   (target must be simple)
  LeftHandSideExpression    : NewExpression | CallExpression
  MemberExpression          : PrimaryExpression | MemberExpression [ Expression[+In] ] | MemberExpression . IdentifierName | new MemberExpression Arguments
  NewExpression             : MemberExpression | new NewExpression
  CallExpression            : MemberExpression Arguments | CallExpression Arguments | CallExpression [ Expression[+In] ] | CallExpression . IdentifierName
  Arguments                 : ( ) | ( ArgumentList ) | ( ArgumentList , ) ;  ArgumentList : AssignmentExpression[+In] | ArgumentList , AssignmentExpression[+In]
  PrimaryExpression         : IdentifierReference | NumericLiteral | ( Expression[+In] )

Not in this fragment: arrow functions, yield, await, spread, templates, optional chains, object/array/function/class
literals, destructuring assignment targets, private names, `super`, `import`.
-/
namespace EsbuildModel.JsExpr

/-- punctuators and reserved words of the fragment (ECMA-262 §12.8 Punctuators, §12.7.2 ReservedWord) -/
inductive P
  | lparen | rparen | lbrack | rbrack | dot | question | colon | comma
  | plus | minus | star | slash | percent | starstar
  | lt | le | gt | ge | shl | shr | ushr
  | eq | ne | seq | sne
  | amp | bar | caret | ampamp | barbar | qq
  | tilde | bang | plusplus | minusminus
  | assign | plusEq | minusEq | starEq | slashEq | percentEq | starstarEq
  | shlEq | shrEq | ushrEq | barEq | ampEq | caretEq | qqEq | barbarEq | ampampEq
  | kIn | kInstanceof | kTypeof | kVoid | kDelete | kNew
  deriving DecidableEq, Repr, Inhabited

def P.all : List P :=
  [.lparen, .rparen, .lbrack, .rbrack, .dot, .question, .colon, .comma,
   .plus, .minus, .star, .slash, .percent, .starstar,
   .lt, .le, .gt, .ge, .shl, .shr, .ushr, .eq, .ne, .seq, .sne,
   .amp, .bar, .caret, .ampamp, .barbar, .qq, .tilde, .bang, .plusplus, .minusminus,
   .assign, .plusEq, .minusEq, .starEq, .slashEq, .percentEq, .starstarEq,
   .shlEq, .shrEq, .ushrEq, .barEq, .ampEq, .caretEq, .qqEq, .barbarEq, .ampampEq,
   .kIn, .kInstanceof, .kTypeof, .kVoid, .kDelete, .kNew]

/-- source text of a punctuator / reserved word -/
def P.text : P → String
  | .lparen => "(" | .rparen => ")" | .lbrack => "[" | .rbrack => "]" | .dot => "." | .question => "?"
  | .colon => ":" | .comma => ","
  | .plus => "+" | .minus => "-" | .star => "*" | .slash => "/" | .percent => "%" | .starstar => "**"
  | .lt => "<" | .le => "<=" | .gt => ">" | .ge => ">=" | .shl => "<<" | .shr => ">>" | .ushr => ">>>"
  | .eq => "==" | .ne => "!=" | .seq => "===" | .sne => "!=="
  | .amp => "&" | .bar => "|" | .caret => "^" | .ampamp => "&&" | .barbar => "||" | .qq => "??"
  | .tilde => "~" | .bang => "!" | .plusplus => "++" | .minusminus => "--"
  | .assign => "=" | .plusEq => "+=" | .minusEq => "-=" | .starEq => "*=" | .slashEq => "/=" | .percentEq => "%="
  | .starstarEq => "**=" | .shlEq => "<<=" | .shrEq => ">>=" | .ushrEq => ">>>=" | .barEq => "|=" | .ampEq => "&="
  | .caretEq => "^=" | .qqEq => "??=" | .barbarEq => "||=" | .ampampEq => "&&="
  | .kIn => "in" | .kInstanceof => "instanceof" | .kTypeof => "typeof" | .kVoid => "void" | .kDelete => "delete"
  | .kNew => "new"

def P.ofText (s : String) : Option P := P.all.find? (fun p => p.text == s)

/-- tokens: identifier `n` (any IdentifierName that is not a reserved word), non-negative numeric literal, punctuator /
reserved word, and any other text (never accepted by the grammar of the fragment) -/
inductive Tok
  | ident (n : Nat)
  | num (n : Nat)
  | p (x : P)
  | other (s : String)
  deriving DecidableEq, Repr, Inhabited

def Tok.ofText (s : String) : Tok :=
  match P.ofText s with
  | some x => .p x
  | none => .other s

/-- unary and update operators (ECMA-262 §13.4, §13.5) -/
inductive UnOp
  | pos | neg | cpl | not | void | typeof | delete | preDec | preInc | postDec | postInc
  deriving DecidableEq, Repr, Inhabited

/-- binary operators: §13.6 – §13.13, the comma operator §13.16 and the assignment operators §13.15 -/
inductive BinOp
  | add | sub | mul | div | rem | pow | lt | le | gt | ge | in_ | instanceof | shl | shr | ushr
  | looseEq | looseNe | strictEq | strictNe | nullish | logicalOr | logicalAnd | bitOr | bitAnd | bitXor
  | comma
  | assign | addAssign | subAssign | mulAssign | divAssign | remAssign | powAssign | shlAssign | shrAssign
  | ushrAssign | bitOrAssign | bitAndAssign | bitXorAssign | nullishAssign | logicalOrAssign | logicalAndAssign
  deriving DecidableEq, Repr, Inhabited

mutual
/-- abstract syntax of the fragment (what both the reference parser and esbuild's AST denote) -/
inductive Expr
  | ident (n : Nat)
  | num (n : Nat)
  | unary (op : UnOp) (e : Expr)
  | binary (op : BinOp) (l r : Expr)
  | cond (t y n : Expr)
  | dot (e : Expr) (name : Nat)
  | index (e i : Expr)
  | call (f : Expr) (args : Args)
  | new (f : Expr) (args : Args)
inductive Args
  | nil
  | cons (a : Expr) (rest : Args)
end

/-! ### operator tables of the grammar -/

/-- AssignmentTargetType = simple (§13.15.1, §13.4.1): identifier reference or member access -/
def Expr.simpleTarget : Expr → Bool
  | .ident _ | .dot _ _ | .index _ _ => true
  | _ => false

/-- AssignmentOperator and `=`, `&&=`, `||=`, `??=` (§13.15) -/
def assignOpOf : Tok → Option BinOp
  | .p .assign => some .assign | .p .plusEq => some .addAssign | .p .minusEq => some .subAssign
  | .p .starEq => some .mulAssign | .p .slashEq => some .divAssign | .p .percentEq => some .remAssign
  | .p .starstarEq => some .powAssign | .p .shlEq => some .shlAssign | .p .shrEq => some .shrAssign
  | .p .ushrEq => some .ushrAssign | .p .barEq => some .bitOrAssign | .p .ampEq => some .bitAndAssign
  | .p .caretEq => some .bitXorAssign | .p .qqEq => some .nullishAssign | .p .barbarEq => some .logicalOrAssign
  | .p .ampampEq => some .logicalAndAssign
  | _ => none

/-- the left-associative strata BitwiseOR … Multiplicative (§13.7 – §13.12), loosest first -/
def bitOrStrata : List (List (P × BinOp)) :=
  [ [(.bar, .bitOr)],
    [(.caret, .bitXor)],
    [(.amp, .bitAnd)],
    [(.eq, .looseEq), (.ne, .looseNe), (.seq, .strictEq), (.sne, .strictNe)],
    [(.lt, .lt), (.gt, .gt), (.le, .le), (.ge, .ge), (.kInstanceof, .instanceof), (.kIn, .in_)],
    [(.shl, .shl), (.shr, .shr), (.ushr, .ushr)],
    [(.plus, .add), (.minus, .sub)],
    [(.star, .mul), (.slash, .div), (.percent, .rem)] ]

def andOps : List (P × BinOp) := [(.ampamp, .logicalAnd)]
def orOps : List (P × BinOp) := [(.barbar, .logicalOr)]
def coalesceOps : List (P × BinOp) := [(.qq, .nullish)]
def commaOps : List (P × BinOp) := [(.comma, .comma)]

def findOp (ops : List (P × BinOp)) (x : P) : Option BinOp :=
  match ops with
  | [] => none
  | (y, op) :: rest => if x = y then some op else findOp rest x

/-- the operator of stratum `ops` denoted by a token; `in` only with [+In] -/
def lookupOp (ops : List (P × BinOp)) (inOk : Bool) : Tok → Option BinOp
  | .p x =>
    match findOp ops x with
    | some .in_ => if inOk then some .in_ else none
    | r => r
  | _ => none

/-- the seven operators of UnaryExpression -/
def unaryOpOf : P → Option UnOp
  | .kDelete => some .delete | .kVoid => some .void | .kTypeof => some .typeof
  | .plus => some .pos | .minus => some .neg | .tilde => some .cpl | .bang => some .not
  | _ => none

/-- prefix operators: UnaryExpression's seven plus `++` / `--` of UpdateExpression -/
def prefixOpOf : P → Option UnOp
  | .plusplus => some .preInc | .minusminus => some .preDec
  | x => unaryOpOf x

def UnOp.isUpdate : UnOp → Bool
  | .preDec | .preInc | .postDec | .postInc => true
  | _ => false

/-- Position of the nonterminal whose production introduces the operator, in the chain of the grammar
(1 Expression, 2 spread element, 3 yield, 4 AssignmentExpression, 5 ConditionalExpression, 6 CoalesceExpression,
7 LogicalOR, 8 LogicalAND, 9 BitwiseOR, 10 BitwiseXOR, 11 BitwiseAND, 12 Equality, 13 Relational, 14 Shift, 15 Additive,
16 Multiplicative, 17 Exponentiation, 18 Unary, 19 Update (postfix), 20 `new` without arguments, 21 Call, 22 Member).
CoalesceExpression sits beside LogicalOR in the grammar (neither contains the other); it is numbered just below it. -/
def BinOp.stratum : BinOp → Nat
  | .comma => 1
  | .assign | .addAssign | .subAssign | .mulAssign | .divAssign | .remAssign | .powAssign | .shlAssign | .shrAssign
  | .ushrAssign | .bitOrAssign | .bitAndAssign | .bitXorAssign | .nullishAssign | .logicalOrAssign
  | .logicalAndAssign => 4
  | .nullish => 6 | .logicalOr => 7 | .logicalAnd => 8 | .bitOr => 9 | .bitXor => 10 | .bitAnd => 11
  | .looseEq | .looseNe | .strictEq | .strictNe => 12
  | .lt | .le | .gt | .ge | .in_ | .instanceof => 13
  | .shl | .shr | .ushr => 14
  | .add | .sub => 15
  | .mul | .div | .rem => 16
  | .pow => 17

/-- the recursion of the operator's production: `A : A op B` is left, `A : B op A` is right -/
inductive Assoc | left | right
  deriving DecidableEq, Repr

def BinOp.assoc : BinOp → Assoc
  | .pow => .right
  | .assign | .addAssign | .subAssign | .mulAssign | .divAssign | .remAssign | .powAssign | .shlAssign | .shrAssign
  | .ushrAssign | .bitOrAssign | .bitAndAssign | .bitXorAssign | .nullishAssign | .logicalOrAssign
  | .logicalAndAssign => .right
  | _ => .left

/-- source text of a binary operator -/
def BinOp.tok : BinOp → P
  | .add => .plus | .sub => .minus | .mul => .star | .div => .slash | .rem => .percent | .pow => .starstar
  | .lt => .lt | .le => .le | .gt => .gt | .ge => .ge | .in_ => .kIn | .instanceof => .kInstanceof
  | .shl => .shl | .shr => .shr | .ushr => .ushr | .looseEq => .eq | .looseNe => .ne | .strictEq => .seq
  | .strictNe => .sne | .nullish => .qq | .logicalOr => .barbar | .logicalAnd => .ampamp | .bitOr => .bar
  | .bitAnd => .amp | .bitXor => .caret | .comma => .comma
  | .assign => .assign | .addAssign => .plusEq | .subAssign => .minusEq | .mulAssign => .starEq
  | .divAssign => .slashEq | .remAssign => .percentEq | .powAssign => .starstarEq | .shlAssign => .shlEq
  | .shrAssign => .shrEq | .ushrAssign => .ushrEq | .bitOrAssign => .barEq | .bitAndAssign => .ampEq
  | .bitXorAssign => .caretEq | .nullishAssign => .qqEq | .logicalOrAssign => .barbarEq
  | .logicalAndAssign => .ampampEq

/-- source text of a unary / update operator -/
def UnOp.tok : UnOp → P
  | .pos => .plus | .neg => .minus | .cpl => .tilde | .not => .bang | .void => .kVoid | .typeof => .kTypeof
  | .delete => .kDelete | .preDec | .postDec => .minusminus | .preInc | .postInc => .plusplus

def UnOp.isPostfix : UnOp → Bool
  | .postDec | .postInc => true
  | _ => false

mutual
def Expr.size : Expr → Nat
  | .ident _ | .num _ => 1
  | .unary _ e => e.size + 1
  | .binary _ l r => l.size + r.size + 1
  | .cond t y n => t.size + y.size + n.size + 1
  | .dot e _ => e.size + 1
  | .index e i => e.size + i.size + 1
  | .call f as => f.size + as.size + 1
  | .new f as => f.size + as.size + 1
def Args.size : Args → Nat
  | .nil => 0
  | .cons a rest => a.size + rest.size + 1
end

def Expr.isComma : Expr → Bool
  | .binary .comma _ _ => true
  | _ => false

mutual
/-- The tree shapes the grammar derives: the operand of `++` / `--` and the left side of an assignment are simple targets
(early errors of §13.4.1 and §13.15.1), and comma chains lean to the left (Expression : Expression , AssignmentExpression). -/
def Expr.wellFormed : Expr → Bool
  | .ident _ | .num _ => true
  | .unary op v => v.wellFormed && (!op.isUpdate || v.simpleTarget)
  | .binary op l r =>
    l.wellFormed && r.wellFormed && (op.stratum != 4 || l.simpleTarget) && !(op.stratum == 1 && r.isComma)
  | .cond t y n => t.wellFormed && y.wellFormed && n.wellFormed
  | .dot e _ => e.wellFormed
  | .index e i => e.wellFormed && i.wellFormed
  | .call f as => f.wellFormed && as.wellFormed
  | .new f as => f.wellFormed && as.wellFormed
def Args.wellFormed : Args → Bool
  | .nil => true
  | .cons a rest => a.wellFormed && rest.wellFormed
end

/-- `l , r` with the comma chain of `r` re-associated to the left: `a , (b , c)` ↦ `(a , b) , c` -/
def appendComma (l : Expr) : Expr → Expr
  | .binary .comma r1 r2 => .binary .comma (appendComma l r1) r2
  | r => .binary .comma l r

mutual
/-- comma chains made left-leaning everywhere (the comma operator is associative: same evaluation order, same value) -/
def Expr.normComma : Expr → Expr
  | .ident n => .ident n
  | .num n => .num n
  | .unary op e => .unary op e.normComma
  | .binary op l r =>
    match op with
    | .comma => appendComma l.normComma r.normComma
    | op => .binary op l.normComma r.normComma
  | .cond t y n => .cond t.normComma y.normComma n.normComma
  | .dot e n => .dot e.normComma n
  | .index e i => .index e.normComma i.normComma
  | .call f as => .call f.normComma as.normComma
  | .new f as => .new f.normComma as.normComma
def Args.normComma : Args → Args
  | .nil => .nil
  | .cons a rest => .cons a.normComma rest.normComma
end

mutual
/-- assignment and update targets are identifiers or member accesses (no condition on commas) -/
def Expr.targetsOk : Expr → Bool
  | .ident _ | .num _ => true
  | .unary op v => v.targetsOk && (!op.isUpdate || v.simpleTarget)
  | .binary op l r => l.targetsOk && r.targetsOk && (op.stratum != 4 || l.simpleTarget)
  | .cond t y n => t.targetsOk && y.targetsOk && n.targetsOk
  | .dot e _ => e.targetsOk
  | .index e i => e.targetsOk && i.targetsOk
  | .call f as => f.targetsOk && as.targetsOk
  | .new f as => f.targetsOk && as.targetsOk
def Args.targetsOk : Args → Bool
  | .nil => true
  | .cons a rest => a.targetsOk && rest.targetsOk
end


/-! ### the reference parser

Every function takes the parser `A` for AssignmentExpression (indexed by [In]) that is used below brackets, and a
loop budget `F`. Left recursion `A : B | A op B` is the usual iteration `B (op B)*` that builds the left-leaning tree. -/

abbrev Parser := List Tok → Option (Expr × List Tok)

/-- `(op B)*` after a first operand `l` -/
def chainLoop (sub : Parser) (ops : List (P × BinOp)) (inOk : Bool) : Nat → Expr → Parser
  | 0, _, _ => none
  | g + 1, l, ts =>
    match ts with
    | [] => some (l, [])
    | t :: ts' =>
      match lookupOp ops inOk t with
      | none => some (l, t :: ts')
      | some op =>
        match sub ts' with
        | none => none
        | some (r, ts'') => chainLoop sub ops inOk g (.binary op l r) ts''

/-- `A : B | A op B` -/
def chain (sub : Parser) (ops : List (P × BinOp)) (inOk : Bool) (F : Nat) : Parser := fun ts =>
  match sub ts with
  | none => none
  | some (l, ts') => chainLoop sub ops inOk F l ts'

/-- Expression[In] -/
def expressionWith (A : Bool → Parser) (F : Nat) (inOk : Bool) : Parser :=
  chain (A inOk) commaOps inOk F

/-- ArgumentList after `(`, up to and including `)` -/
def argsLoop (A : Bool → Parser) : Nat → List Tok → Option (Args × List Tok)
  | 0, _ => none
  | g + 1, ts =>
    match A true ts with
    | some (a, .p .comma :: .p .rparen :: ts') => some (.cons a .nil, ts')
    | some (a, .p .comma :: ts') =>
      match argsLoop A g ts' with
      | some (rest, ts'') => some (.cons a rest, ts'')
      | none => none
    | some (a, .p .rparen :: ts') => some (.cons a .nil, ts')
    | _ => none

/-- Arguments -/
def arguments (A : Bool → Parser) (F : Nat) : List Tok → Option (Args × List Tok)
  | .p .lparen :: .p .rparen :: ts => some (.nil, ts)
  | .p .lparen :: ts => argsLoop A F ts
  | _ => none

/-- PrimaryExpression -/
def primary (A : Bool → Parser) (F : Nat) : Parser
  | .ident n :: ts => some (.ident n, ts)
  | .num n :: ts => some (.num n, ts)
  | .p .lparen :: ts =>
    match expressionWith A F true ts with
    | some (e, .p .rparen :: ts') => some (e, ts')
    | _ => none
  | _ => none

/-- the `. IdentifierName` and `[ Expression ]` suffixes of MemberExpression -/
def memberLoop (A : Bool → Parser) (F : Nat) : Nat → Expr → Parser
  | 0, _, _ => none
  | g + 1, e, ts =>
    match ts with
    | .p .dot :: .ident n :: ts' => memberLoop A F g (.dot e n) ts'
    | .p .dot :: _ => none
    | .p .lbrack :: ts' =>
      match expressionWith A F true ts' with
      | some (i, .p .rbrack :: ts'') => memberLoop A F g (.index e i) ts''
      | _ => none
    | _ => some (e, ts)

/-- the head of a LeftHandSideExpression: a PrimaryExpression, or `new` followed by a MemberExpression (head and member
suffixes) and Arguments — without Arguments it is the production NewExpression : new NewExpression -/
def memberHead (A : Bool → Parser) (F : Nat) : Nat → Parser
  | 0, _ => none
  | g + 1, ts =>
    match ts with
    | .p .kNew :: ts' =>
      match memberHead A F g ts' with
      | none => none
      | some (h, ts0) =>
        match memberLoop A F F h ts0 with
        | none => none
        | some (t, ts1) =>
          match ts1 with
          | .p .lparen :: _ =>
            match arguments A F ts1 with
            | some (as, ts2) => some (.new t as, ts2)
            | none => none
          | _ => some (.new t .nil, ts1)
    | _ => primary A F ts

/-- the suffixes of CallExpression: Arguments, `. IdentifierName`, `[ Expression ]` -/
def callLoop (A : Bool → Parser) (F : Nat) : Nat → Expr → Parser
  | 0, _, _ => none
  | g + 1, e, ts =>
    match ts with
    | .p .dot :: .ident n :: ts' => callLoop A F g (.dot e n) ts'
    | .p .dot :: _ => none
    | .p .lbrack :: ts' =>
      match expressionWith A F true ts' with
      | some (i, .p .rbrack :: ts'') => callLoop A F g (.index e i) ts''
      | _ => none
    | .p .lparen :: _ =>
      match arguments A F ts with
      | some (as, ts') => callLoop A F g (.call e as) ts'
      | none => none
    | _ => some (e, ts)

/-- LeftHandSideExpression : NewExpression | CallExpression — a head followed by call and member suffixes -/
def lhs (A : Bool → Parser) (F : Nat) : Parser := fun ts =>
  match memberHead A F F ts with
  | some (e, ts1) => callLoop A F F e ts1
  | none => none

/-- UpdateExpression : LeftHandSideExpression | LHS ++ | LHS -- (the prefix forms are in `unaryAux`) -/
def postfixExpr (A : Bool → Parser) (F : Nat) : Parser := fun ts =>
  match lhs A F ts with
  | some (e, .p .plusplus :: ts') => if e.simpleTarget then some (.unary .postInc e, ts') else none
  | some (e, .p .minusminus :: ts') => if e.simpleTarget then some (.unary .postDec e, ts') else none
  | r => r

/-- UnaryExpression, including the prefix forms `++ UnaryExpression`, `-- UnaryExpression` of UpdateExpression -/
def unaryAux (A : Bool → Parser) (F : Nat) : Nat → Parser
  | 0, _ => none
  | g + 1, ts =>
    match ts with
    | .p x :: ts' =>
      match prefixOpOf x with
      | some op =>
        match unaryAux A F g ts' with
        | some (e, ts1) => if op.isUpdate && !e.simpleTarget then none else some (.unary op e, ts1)
        | none => none
      | none => postfixExpr A F ts
    | _ => postfixExpr A F ts

def startsWithUnaryOp : List Tok → Bool
  | .p x :: _ => (unaryOpOf x).isSome
  | _ => false

/-- ExponentiationExpression : UnaryExpression | UpdateExpression ** ExponentiationExpression -/
def expAux (A : Bool → Parser) (F : Nat) : Nat → Parser
  | 0, _ => none
  | g + 1, ts =>
    if startsWithUnaryOp ts then unaryAux A F F ts
    else
      match unaryAux A F F ts with
      | some (l, .p .starstar :: ts1) =>
        match expAux A F g ts1 with
        | some (r, ts2) => some (.binary .pow l r, ts2)
        | none => none
      | r => r

/-- a tower of left-associative strata over ExponentiationExpression -/
def parseStrata (A : Bool → Parser) (F : Nat) (inOk : Bool) : List (List (P × BinOp)) → Parser
  | [] => expAux A F F
  | ops :: higher => chain (parseStrata A F inOk higher) ops inOk F

/-- BitwiseORExpression[In] -/
def bitOr (A : Bool → Parser) (F : Nat) (inOk : Bool) : Parser := parseStrata A F inOk bitOrStrata

/-- LogicalANDExpression[In] -/
def logicalAnd (A : Bool → Parser) (F : Nat) (inOk : Bool) : Parser := chain (bitOr A F inOk) andOps inOk F

/-- ShortCircuitExpression[In] : LogicalORExpression | CoalesceExpression. After the first BitwiseORExpression the next
token decides: `??` starts a CoalesceExpression (operands are BitwiseORExpressions), anything else continues a
LogicalANDExpression and then a LogicalORExpression. -/
def shortCircuit (A : Bool → Parser) (F : Nat) (inOk : Bool) : Parser := fun ts =>
  match bitOr A F inOk ts with
  | none => none
  | some (l, .p .qq :: ts1) => chainLoop (bitOr A F inOk) coalesceOps inOk F l (.p .qq :: ts1)
  | some (l, ts1) =>
    match chainLoop (bitOr A F inOk) andOps inOk F l ts1 with
    | none => none
    | some (l2, ts2) => chainLoop (logicalAnd A F inOk) orOps inOk F l2 ts2

/-- ConditionalExpression[In] -/
def conditional (A : Bool → Parser) (F : Nat) (inOk : Bool) : Parser := fun ts =>
  match shortCircuit A F inOk ts with
  | some (t, .p .question :: ts1) =>
    match A true ts1 with
    | some (y, .p .colon :: ts2) =>
      match A inOk ts2 with
      | some (n, ts3) => some (.cond t y n, ts3)
      | none => none
    | _ => none
  | r => r

/-- AssignmentExpression[In]. A token sequence whose tree is an identifier or a member access can only be derived through
LeftHandSideExpression, so "ConditionalExpression, then an assignment operator, and the tree is a simple target" is the
production `LeftHandSideExpression AssignmentOperator AssignmentExpression` together with its early error. -/
def assignmentWith (A : Bool → Parser) (F : Nat) (inOk : Bool) : Parser := fun ts =>
  match conditional A F inOk ts with
  | some (l, t :: ts1) =>
    match assignOpOf t with
    | some op =>
      if l.simpleTarget then
        match A inOk ts1 with
        | some (r, ts2) => some (.binary op l r, ts2)
        | none => none
      else none
    | none => some (l, t :: ts1)
  | r => r

/-- AssignmentExpression with nesting budget `f` -/
def assignment : Nat → Bool → Parser
  | 0 => fun _ _ => none
  | f + 1 => fun inOk => assignmentWith (assignment f) (f + 1) inOk

/-- Expression[In] with budget `f` -/
def expression (f : Nat) (inOk : Bool) : Parser := expressionWith (assignment f) (f + 1) inOk

/-- the whole token list is one Expression[In]; the budget is more than any derivation of that many tokens needs -/
def parse (inOk : Bool) (ts : List Tok) : Option Expr :=
  match expression (2 * ts.length + 2) inOk ts with
  | some (e, []) => some e
  | _ => none

end EsbuildModel.JsExpr
