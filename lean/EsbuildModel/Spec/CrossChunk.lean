/-
What code splitting has to guarantee at the level of symbols, stated on the linker's graph without reference to
how computeCrossChunkDependencies works.

Part 1 (`EsmLink`): chunks are ES modules.  ECMA-262 §16.2.1.1 (early errors of Module): the exported names of a
module must be pairwise different and every exported binding must be declared in the module (an imported
binding counts); §16.2.1.6.3 (InitializeEnvironment): every `import { a as x } from M` must resolve to a binding
that M exports under the name `a`.  And every identifier a module mentions has to be bound in it.

Part 2: what "chunk c mentions symbol s" and "chunk c declares symbol s" mean on esbuild's graph: a chunk holds
the live parts of its files; a part mentions the symbols its uses resolve to (per use: `resolveUse`, the
linker's own notion of which symbol a use denotes after import binding), an entry chunk moreover mentions what
its entry point's export table resolves to; a chunk declares the top-level symbols of its live parts.
-/
import EsbuildModel.Impl.CrossChunk

namespace EsbuildModel.EsmLink

/-- an ES module at symbol level -/
structure Mod (S N : Type) where
  declared : List S                 -- bindings the module's own statements create
  mentions : List S                 -- bindings the module's code refers to (export clauses included)
  imports : List (Nat × S × N)      -- `import { name as s } from <module k>`
  exports : List (S × N)            -- `export { s as name }`

def Bound {S N : Type} (m : Mod S N) (s : S) : Prop := s ∈ m.declared ∨ ∃ k a, (k, s, a) ∈ m.imports

structure Valid {S N : Type} (ms : List (Mod S N)) : Prop where
  mentions_bound : ∀ m ∈ ms, ∀ s ∈ m.mentions, Bound m s
  exports_bound : ∀ m ∈ ms, ∀ x ∈ m.exports, Bound m x.1
  export_names_distinct : ∀ m ∈ ms, (m.exports.map (·.2)).Nodup
  imports_resolve : ∀ m ∈ ms, ∀ x ∈ m.imports, ∃ mk, ms[x.1]? = some mk ∧ (x.2.1, x.2.2) ∈ mk.exports

end EsbuildModel.EsmLink

namespace EsbuildModel.CrossChunk

/-- `p` is a live part of the JavaScript file `f`, one of the files of chunk `c` -/
def LivePartOf (g : G) (c : Chunk) (f : File) (p : Part) : Prop :=
  ∃ s ∈ c.files, g.file? s = some f ∧ f.isJS = true ∧ p ∈ f.parts ∧ p.live = true

/-- some live part of the chunk uses a symbol that resolves to `s` -/
def PartNeeds (g : G) (c : Chunk) (s : Ref) : Prop :=
  ∃ f p u, LivePartOf g c f p ∧ u ∈ p.uses ∧ resolveUse g f u = some (some s)

/-- the chunk is an entry point chunk and its entry point exports `s`, or needs its `exports` object or wrapper -/
def EntryNeeds (g : G) (c : Chunk) (s : Ref) : Prop :=
  c.isEntry = true ∧ ∃ f, g.file? c.entrySrc = some f ∧ f.isJS = true ∧
    ((f.wrap ≠ 1 ∧ ∃ e ∈ f.exports, resolveExport g e = some s) ∨
     (f.force = true ∧ s = f.exportsRef) ∨ (f.wrap ≠ 0 ∧ s = f.wrapperRef))

def Needs (g : G) (c : Chunk) (s : Ref) : Prop := PartNeeds g c s ∨ EntryNeeds g c s

/-- `s` is a top-level symbol of a live part of the chunk -/
def Declares (g : G) (c : Chunk) (s : Ref) : Prop := ∃ f p, LivePartOf g c f p ∧ s ∈ p.declared

/-- no symbol is declared in two chunks (computeChunks puts every file into one chunk and a part declares
symbols of its own file only; the driver checks this on every observed build) -/
def DeclUnique (g : G) : Prop :=
  ∀ (A B : Nat) (cA cB : Chunk) (s : Ref), g.chunks[A]? = some cA → g.chunks[B]? = some cB → Declares g cA s → Declares g cB s → A = B

/-- chunk `A` has `import { a as s } from <chunk B>` -/
def Imports (R : List ChunkOut) (A B : Nat) (s : Ref) (a : Name) : Prop :=
  ∃ o items, R[A]? = some o ∧ (B, items) ∈ o.imports ∧ (s, a) ∈ items

/-- chunk `B` has `export { s as a }` for other chunks -/
def Exports (R : List ChunkOut) (B : Nat) (s : Ref) (a : Name) : Prop :=
  ∃ o, R[B]? = some o ∧ (s, a) ∈ o.exports

/-- symbols the tail of an entry chunk declares itself -/
def tailDecls : List TailTok → List Ref
  | [] => []
  | .decl r :: rest => r :: tailDecls rest
  | _ :: rest => tailDecls rest

/-- the ES module that a chunk becomes, at symbol level: it declares the top-level symbols of its live parts (and
the temporaries of its tail), mentions the top-level symbols its parts and its tail need (symbols that are
declared nowhere at top level are locals of nested scopes, free globals or generated names and are not the
business of cross-chunk linking), and has the computed import and export clauses.  Chunks that are not
JavaScript chunks are not ES modules: they stand in the list as empty modules so that indices agree. -/
def moduleOf (g : G) (c : Chunk) (o : ChunkOut) : EsmLink.Mod Ref Name :=
  if c.js then
    { declared := chunkDeclared g c ++ tailDecls o.tail
      mentions := ((match chunkImports g c with
                    | some l => l
                    | none => []) ++ tailNeeds o.tail).filter (fun s => (declChunk g s).isSome)
      imports := o.imports.flatMap fun e => e.2.map fun x => (e.1, x.1, x.2)
      exports := o.exports }
  else { declared := [], mentions := [], imports := [], exports := [] }

def modulesOf (g : G) (R : List ChunkOut) : List (EsmLink.Mod Ref Name) :=
  (g.chunks.zip R).map fun x => moduleOf g x.1 x.2

/-- a chunk that is not a JavaScript chunk holds no JavaScript file with live parts (the driver checks this on
every observed build) -/
def NonJSDeclareNothing (g : G) : Prop := ∀ c ∈ g.chunks, c.js = false → ∀ s, ¬ Declares g c s

end EsbuildModel.CrossChunk
