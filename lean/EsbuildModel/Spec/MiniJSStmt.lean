/-
Spec/MiniJSStmt — statements on top of the expression language of Spec/MiniJS, with a big-step semantics written
from ECMA-262 (not from esbuild's code): completion records (normal / return v / break l / continue l / throw),
`var` hoisting, block scoping of `let` / `const` / function declarations, labels, and the three loop forms.

Choices (all restated in the work-package report):

* A function body is run by `execBody`: the names declared with `var` anywhere in the body (nested blocks, loop
  bodies and loop heads included — VarDeclaredNames) are bound to `undefined` on entry, the function declarations at
  the top level of the body are bound to their function objects on entry; falling off the end is `return undefined`.
* LOCAL VARIABLES live in an environment `Env` (name ↦ value) layered over the world: an identifier that is not
  in the environment is looked up in the world (`World.read`: a global, or an outer function's variable).  The
  expression evaluator is the one of Spec/MiniJS, run in the world `w.withEnv env`.  Expressions have no assignment
  operators, so the environment is changed by declarations only; host code (calls, getters) cannot change a local:
  function declarations are OPAQUE — `function f() {…}` binds `f` to the object `fid`, calling it is a `call` event
  answered by the world, and the body is assumed not to touch the locals of the enclosing list.
* BLOCK SCOPE: `{ … }` restores, on exit (normal or abrupt), the names it declares directly with `let` / `const` /
  `function` to the bindings they had on entry; function declarations of the block are bound on entry; a `let` /
  `const` binding is written when its declaration RUNS.  Reading such a name earlier in the block therefore sees the
  enclosing binding, where JavaScript throws a ReferenceError (temporal dead zone).  This is the one deliberate
  deviation from the language: esbuild documents that it assumes TDZ errors do not happen, the expression-level
  package makes the same choice, and the report gives a run example.  `for (let i = …; …; …)` scopes its names
  over the whole loop (per-iteration copies are unobservable without closures).
* LOOPS and FUEL: `exec w n` runs a statement; the only step that consumes fuel is going round a loop again (the
  continuation of an iteration runs with `n - 1`), everything else is structural, so `exec w n s st = none` means
  "some loop went round more than n times".  Statements inside a loop body run with the fuel of their loop.
* LABELS: `labs` is the label set of the statement being run (the labels directly in front of it); `continue l`
  continues the loop whose label set contains `l`, `break l` ends the labelled statement `l`.
* `throw e` throws the value of `e` (`Exn.host v`: a thrown value, whoever threw it).
* Not modelled: `switch`, `try`, `with`, `for-in/of`, classes, destructuring, assignments, closures over locals.
-/
import EsbuildModel.Spec.MiniJS
namespace EsbuildModel.MiniJS

inductive DeclKind where
  | var | letK | const
deriving DecidableEq, Repr

/-- one declarator `x` or `x = e` -/
structure Decl where
  name : Nat
  init : Option Expr

/-- head of a `for` statement -/
inductive ForInit where
  | none
  | expr (e : Expr)
  | decl (k : DeclKind) (ds : List Decl)

inductive Stmt where
  | empty
  | expr (e : Expr)
  | decl (k : DeclKind) (ds : List Decl)
  | ifS (c : Expr) (yes : Stmt) (no : Option Stmt)
  | block (ss : List Stmt)
  | ret (e : Option Expr)
  | throw (e : Expr)
  | brk (l : Option Nat)
  | cont (l : Option Nat)
  | label (l : Nat) (s : Stmt)
  | forS (init : ForInit) (test : Option Expr) (update : Option Expr) (body : Stmt)
  | whileS (c : Expr) (body : Stmt)
  | doWhile (body : Stmt) (c : Expr)
  | func (name : Nat) (fid : Nat)      -- `function name() { <opaque body fid> }`

-- ---------------------------------------------------------------- state

abbrev Env := Nat → Option Val

def Env.set (env : Env) (x : Nat) (v : Val) : Env := fun y => if y = x then some v else env y

/-- the world as seen from inside a function whose locals are `env` -/
def World.withEnv (w : World) (env : Env) : World :=
  { w with read := fun tr x => match env x with
      | some v => some v
      | none => w.read tr x }

structure St where
  env : Env
  tr : Trace

inductive Completion where
  | normal
  | ret (v : Val)
  | brk (l : Option Nat)
  | cont (l : Option Nat)
  | throw (e : Exn)
deriving DecidableEq, Repr

/-- `none`: out of fuel -/
abbrev Out := Option (Completion × St)

def evalIn (w : World) (st : St) (e : Expr) : Res Val × Trace := eval (w.withEnv st.env) e st.tr

-- ---------------------------------------------------------------- declared names

def declNames : List Decl → List Nat
  | [] => []
  | d :: ds => d.name :: declNames ds

def ForInit.lexNames : ForInit → List Nat
  | .decl k ds => if k = .var then [] else declNames ds
  | _ => []

def ForInit.varNames : ForInit → List Nat
  | .decl k ds => if k = .var then declNames ds else []
  | _ => []

/-- LexicallyDeclaredNames of a statement list, `let` / `const` part -/
def lexNames : List Stmt → List Nat
  | [] => []
  | .decl k ds :: ss => if k = .var then lexNames ss else declNames ds ++ lexNames ss
  | _ :: ss => lexNames ss

/-- the function declarations directly in a statement list: (name, function object) -/
def fnDecls : List Stmt → List (Nat × Nat)
  | [] => []
  | .func f fid :: ss => (f, fid) :: fnDecls ss
  | _ :: ss => fnDecls ss

def fnNames (ss : List Stmt) : List Nat := (fnDecls ss).map (·.1)

/-- the names a block restores on exit -/
def scopeNames (ss : List Stmt) : List Nat := lexNames ss ++ fnNames ss

mutual
/-- VarDeclaredNames -/
def Stmt.varNames : Stmt → List Nat
  | .decl k ds => if k = .var then declNames ds else []
  | .ifS _ y n => y.varNames ++ optVarNames n
  | .block ss => listVarNames ss
  | .label _ s => s.varNames
  | .forS init _ _ b => init.varNames ++ b.varNames
  | .whileS _ b => b.varNames
  | .doWhile b _ => b.varNames
  | _ => []
def optVarNames : Option Stmt → List Nat
  | none => []
  | some s => s.varNames
def listVarNames : List Stmt → List Nat
  | [] => []
  | s :: ss => s.varNames ++ listVarNames ss
end

def bindFns (env : Env) : List (Nat × Nat) → Env
  | [] => env
  | (f, fid) :: rest => bindFns (env.set f (.obj fid)) rest

def bindUndef (env : Env) : List Nat → Env
  | [] => env
  | x :: xs => bindUndef (env.set x .undef) xs

/-- leaving a scope: the names it declared get their outer bindings back -/
def restore (outer inner : Env) (names : List Nat) : Env := fun x => if x ∈ names then outer x else inner x

def inScope (names : List Nat) (outer : Env) (r : Out) : Out :=
  match r with
  | none => none
  | some (c, st) => some (c, ⟨restore outer st.env names, st.tr⟩)

-- ---------------------------------------------------------------- execution

def execDecls (w : World) : List Decl → St → Completion × St
  | [], st => (.normal, st)
  | d :: ds, st =>
    match d.init with
    | none => execDecls w ds st
    | some e =>
      match evalIn w st e with
      | (.val v, tr) => execDecls w ds ⟨st.env.set d.name v, tr⟩
      | (.throw ex, tr) => (.throw ex, ⟨st.env, tr⟩)

/-- evaluate an expression for its effects / its value: `k` continues with the value -/
def withVal (w : World) (st : St) (e : Expr) (k : Val → St → Out) : Out :=
  match evalIn w st e with
  | (.val v, tr) => k v ⟨st.env, tr⟩
  | (.throw ex, tr) => some (.throw ex, ⟨st.env, tr⟩)

/-- a missing loop test is `true` -/
def withTest (w : World) (st : St) (t : Option Expr) (k : Bool → St → Out) : Out :=
  match t with
  | none => k true st
  | some e => withVal w st e fun v st1 => k (toBoolean v) st1

inductive LoopCtl where
  | goOn | exit | propagate

/-- what the completion of a loop body means for the loop with label set `labs` -/
def loopCtl (labs : List Nat) : Completion → LoopCtl
  | .normal => .goOn
  | .cont none => .goOn
  | .cont (some l) => if l ∈ labs then .goOn else .propagate
  | .brk none => .exit
  | _ => .propagate

/-- after the body of a loop: `next` is what happens when the loop goes on -/
def afterBody (labs : List Nat) (r : Out) (next : St → Out) : Out :=
  match r with
  | none => none
  | some (c, st) =>
    match loopCtl labs c with
    | .goOn => next st
    | .exit => some (.normal, st)
    | .propagate => some (c, st)

def execInit (w : World) : ForInit → St → Completion × St
  | .none, st => (.normal, st)
  | .expr e, st =>
    match evalIn w st e with
    | (.val _, tr) => (.normal, ⟨st.env, tr⟩)
    | (.throw ex, tr) => (.throw ex, ⟨st.env, tr⟩)
  | .decl _ ds, st => execDecls w ds st

mutual
/-- one statement; `again labs s st` is "the loop `s` (label set `labs`) goes round once more" -/
def execS (w : World) (again : List Nat → Stmt → St → Out) (labs : List Nat) : Stmt → St → Out
  | .empty, st => some (.normal, st)
  | .expr e, st => withVal w st e fun _ st1 => some (.normal, st1)
  | .decl _ ds, st => some (execDecls w ds st)
  | .ifS c y n, st =>
    withVal w st c fun v st1 =>
      if toBoolean v then execS w again [] y st1 else execOpt w again n st1
  | .block ss, st =>
    inScope (scopeNames ss) st.env (execL w again ss ⟨bindFns st.env (fnDecls ss), st.tr⟩)
  | .ret none, st => some (.ret .undef, st)
  | .ret (some e), st => withVal w st e fun v st1 => some (.ret v, st1)
  | .throw e, st => withVal w st e fun v st1 => some (.throw (.host v), st1)
  | .brk l, st => some (.brk l, st)
  | .cont l, st => some (.cont l, st)
  | .label l s, st =>
    match execS w again (l :: labs) s st with
    | some (.brk (some l2), st1) => if l2 = l then some (.normal, st1) else some (.brk (some l2), st1)
    | r => r
  | .forS init t u b, st =>
    inScope init.lexNames st.env
      (match execInit w init st with
       | (.normal, st1) =>
         withTest w st1 t fun go st2 =>
           if go then
             afterBody labs (execS w again [] b st2) fun st3 =>
               match u with
               | none => again labs (.forS .none t u b) st3
               | some ue => withVal w st3 ue fun _ st4 => again labs (.forS .none t u b) st4
           else some (.normal, st2)
       | (c, st1) => some (c, st1))
  | .whileS c b, st =>
    withVal w st c fun v st1 =>
      if toBoolean v then afterBody labs (execS w again [] b st1) fun st2 => again labs (.whileS c b) st2
      else some (.normal, st1)
  | .doWhile b c, st =>
    afterBody labs (execS w again [] b st) fun st1 =>
      withVal w st1 c fun v st2 =>
        if toBoolean v then again labs (.doWhile b c) st2 else some (.normal, st2)
  | .func _ _, st => some (.normal, st)
def execOpt (w : World) (again : List Nat → Stmt → St → Out) : Option Stmt → St → Out
  | none, st => some (.normal, st)
  | some s, st => execS w again [] s st
def execL (w : World) (again : List Nat → Stmt → St → Out) : List Stmt → St → Out
  | [], st => some (.normal, st)
  | s :: ss, st =>
    match execS w again [] s st with
    | some (.normal, st1) => execL w again ss st1
    | r => r
end

/-- run a statement with fuel `n` -/
def exec (w : World) : Nat → List Nat → Stmt → St → Out
  | 0 => execS w (fun _ _ _ => none)
  | n + 1 => execS w (exec w n)

/-- the `again` of fuel level `n` -/
def againOf (w : World) : Nat → List Nat → Stmt → St → Out
  | 0 => fun _ _ _ => none
  | n + 1 => exec w n

def execList (w : World) (n : Nat) : List Stmt → St → Out := execL w (againOf w n)

/-- falling off the end of a function body returns undefined -/
def bodyResult : Out → Out
  | some (.normal, st) => some (.ret .undef, st)
  | r => r

/-- run a function body: hoist, run, and report the completion with the final trace and the final environment
(the top-level `let` / `const` bindings are still visible in it) -/
def execBody (w : World) (n : Nat) (ss : List Stmt) (st : St) : Out :=
  bodyResult (execList w n ss ⟨bindFns (bindUndef st.env (listVarNames ss)) (fnDecls ss), st.tr⟩)

end EsbuildModel.MiniJS
