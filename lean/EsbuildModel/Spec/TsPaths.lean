/-
Specification of TypeScript's `paths` mapping, written from the TypeScript handbook ("Module Resolution →
Path mapping", tsconfig reference for `paths` / `baseUrl`) and NOT from esbuild's code.

Rules as I read the documentation:

  P1  A key of `paths` is a pattern with at most one `*`.
  P2  A key without `*` matches exactly the specifier equal to it.
  P3  A key `pre*suf` matches a specifier `s` iff `s = pre ++ m ++ suf` for some text `m` (the `*` stands for
      ANY substring, possibly empty, possibly containing `/`); `m` is the matched text.
  P4  An exact key (P2) takes precedence over every pattern.
  P5  Among the patterns that match, "the pattern with the longest prefix wins" (the text before the `*`).
      The handbook says nothing about two matching patterns with equally long prefixes
      (the TypeScript compiler keeps the first one in the file; esbuild keeps the one with the longest suffix).
  P6  The value of the chosen key is a list of substitutions, tried IN ORDER; in each, the `*` (if any) is
      replaced by the matched text; for an exact key the substitution is used as it is.
  P7  A substitution is resolved relative to `baseUrl` (since TypeScript 4.1: relative to the tsconfig.json
      that defines `paths` when `baseUrl` is not set); an absolute substitution is used as it is.
  P8  The first location at which the module can be loaded wins.  If none can be loaded, or if no key
      matches, resolution continues as if there were no `paths` (P8 is the caller's business).
  B1  (bundler rule, not TypeScript) a location ending in `.d.ts` (any letter case) is skipped: it holds no code.

Strings are lists of characters.  The table is a list of (key, substitutions).
-/
namespace EsbuildModel.TsPathsSpec

abbrev Str := List Char

/-- P3 (and P1): `key` is the pattern `pre*suf` with exactly one star -/
def IsStar (key pre suf : Str) : Prop := key = pre ++ '*' :: suf ∧ '*' ∉ pre ∧ '*' ∉ suf

/-- P3: the pattern `pre*suf` matches `s` with matched text `m` -/
def StarMatches (pre suf s m : Str) : Prop := s = pre ++ m ++ suf

/-- which entry of the table is used, and with which matched text -/
inductive Selection where
  | exact (subs : List Str)
  | pattern (pre suf matched : Str) (subs : List Str)
  | nomatch
deriving Repr, DecidableEq

/-- P2, P4, P5 -/
inductive Selects (t : List (Str × List Str)) (s : Str) : Selection → Prop where
  | exact (subs : List Str) :
      (s, subs) ∈ t → Selects t s (.exact subs)
  | pattern (pre suf m : Str) (subs : List Str) :
      (∀ subs', (s, subs') ∉ t) →                                   -- P4: no exact key
      (pre ++ '*' :: suf, subs) ∈ t → IsStar (pre ++ '*' :: suf) pre suf → StarMatches pre suf s m →
      (∀ pre' suf' m' subs', (pre' ++ '*' :: suf', subs') ∈ t → IsStar (pre' ++ '*' :: suf') pre' suf' →
          StarMatches pre' suf' s m' → pre'.length ≤ pre.length) →  -- P5: no matching pattern has a longer prefix
      Selects t s (.pattern pre suf m subs)
  | nomatch :
      (∀ subs', (s, subs') ∉ t) →
      (∀ pre' suf' m' subs', (pre' ++ '*' :: suf', subs') ∈ t → IsStar (pre' ++ '*' :: suf') pre' suf' →
          ¬ StarMatches pre' suf' s m') →
      Selects t s .nomatch

/-- P6: replace the first `*` -/
def substitute (sub m : Str) : Str :=
  match sub with
  | [] => []
  | c :: cs => if c = '*' then m ++ cs else c :: substitute cs m

def lower (c : Char) : Char := if 'A' ≤ c ∧ c ≤ 'Z' then Char.ofNat (c.toNat + 32) else c

/-- B1 -/
def isDeclarationFile (p : Str) : Bool :=
  (p.map lower).reverse.take 5 = ['s', 't', '.', 'd', '.']

/-- P6 + B1: the substituted locations in order -/
def locations : Selection → List Str
  | .exact subs => subs.filter (fun p => !isDeclarationFile p)
  | .pattern _ _ m subs => (subs.map (substitute · m)).filter (fun p => !isDeclarationFile p)
  | .nomatch => []

/-- P7; `join` is the platform's path join, a parameter shared with the implementation -/
def absolute (join : Str → Str → Str) (base p : Str) : Str := if p.head? = some '/' then p else join base p

/-- P8: the first location that can be loaded -/
def firstLoadable {α} (load : Str → Option α) : List Str → Option α
  | [] => none
  | p :: ps =>
    match load p with
    | some r => some r
    | none => firstLoadable load ps

/-- the whole `paths` step: `none` = fall through to the rest of module resolution -/
def resolve {α} (join : Str → Str → Str) (load : Str → Option α) (base : Str) (sel : Selection) : Option α :=
  firstLoadable load ((locations sel).map (absolute join base))

end EsbuildModel.TsPathsSpec
