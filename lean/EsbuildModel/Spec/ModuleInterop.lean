/-
What the documentation says about mixing ES modules and CommonJS modules — written from Node's documentation
("Interoperability with CommonJS"), the Babel / TypeScript `__esModule` convention and ECMA-262 (module namespace
exotic objects, 10.4.6), not from esbuild's code.

1. `import d from 'cjs'` in Node: the default export is `module.exports` itself, whatever it is.  Named imports exist
   only as far as a static analysis finds them; they are NOT required.
2. Babel / TypeScript convention (`_interopRequireDefault`, `esModuleInterop`): a CommonJS module that was compiled
   from an ES module marks its exports with `__esModule`; an importer that follows the convention then takes
   `exports.default` as the default export, otherwise the whole `exports`.  A bundler that supports both uses
   rule 1 when the importer is "in node mode" (a `.mjs` / `.mts` file or `"type": "module"`), else rule 2.
3. `require()` of an ES module in a bundler yields an object with one property per export, reading the LIVE
   binding (a getter), enumerable, plus the marker `__esModule: true` (not enumerable so that it is no export).
4. A module namespace object (ECMA-262 10.4.6): every export is an own property, enumerable, reading the live
   binding; [[Set]] always returns false; the keys are sorted.  DIFFERENCES of the bundled object that replaces
   it, stated here so that nobody relies on them: it is an ordinary object (keys in creation order, not
   sorted; its descriptors are accessors `{get, set: undefined, enumerable, configurable: false}` instead of
   `{value, writable: true, enumerable: true, configurable: false}`; it is extensible; its prototype is that of
   the CommonJS exports object or %Object.prototype%, not null; no @@toStringTag).
-/
namespace EsbuildModel.ModuleInterop

/-- where the default import of a CommonJS module comes from -/
inductive DefaultSource where
  | wholeExports        -- `module.exports`
  | defaultProperty     -- `module.exports.default`, read when it is used
deriving DecidableEq, Repr

/-- rules 1 and 2.  `exportsTruthy`: `module.exports` is not undefined / null / false / 0 / "" (only then can it be
asked for `__esModule`); `flag`: `module.exports.__esModule` is truthy. -/
def defaultSource (nodeMode exportsTruthy flag : Bool) : DefaultSource :=
  if nodeMode then .wholeExports
  else if exportsTruthy && flag then .defaultProperty
  else .wholeExports

/-- the documented table, row by row -/
theorem table :
    defaultSource true true true = .wholeExports ∧ defaultSource true true false = .wholeExports ∧
    defaultSource true false true = .wholeExports ∧ defaultSource true false false = .wholeExports ∧
    defaultSource false true true = .defaultProperty ∧ defaultSource false true false = .wholeExports ∧
    defaultSource false false true = .wholeExports ∧ defaultSource false false false = .wholeExports := by
  decide

/-- what [[Set]] on an own accessor property without setter, or on an own data property that is not writable,
answers (OrdinarySet, ECMA-262 10.1.9.2 steps 2.a and 5-6): false — the assignment is ignored by sloppy code and a
TypeError in strict code -/
inductive OwnKind where
  | dataWritable | dataReadOnly | accessorWithSetter | accessorNoSetter
deriving DecidableEq, Repr

def assignmentRefused : OwnKind → Bool
  | .dataReadOnly => true
  | .accessorNoSetter => true
  | _ => false

end EsbuildModel.ModuleInterop
