import EsbuildModel.Spec.Unicode
/-
RFC 8259 §8.1: a JSON text exchanged between systems is encoded in UTF-8.  `utf8Text t` is the byte sequence of a
text `t` (a list of Unicode scalar values).
-/
namespace EsbuildModel.Spec.Json

def utf8Text (t : List Char) : List Nat := t.flatMap (fun c => Unicode.utf8 c.toNat)

end EsbuildModel.Spec.Json
