/-
Independent specification: when may two tokens of the expression fragment be written next to each other without white
space? From the lexical grammar of ECMA-262 §12: the input is cut into tokens by taking the LONGEST possible token at
each position ("maximal munch", §12 intro); `//` and `/*` open comments (§12.4); `<!--` opens a single-line HTML-like
comment in scripts (Annex B.1.1); a NumericLiteral must not be followed at once by an IdentifierStart or a digit
(§12.9.3), and a decimal integer followed by `.` continues the literal.
-/
import EsbuildModel.Spec.ExprGrammar

namespace EsbuildModel.JsExpr

/-- every Punctuator of §12.8 (with `?.`, `=>`, `...`, braces, `;`, `}`), and the comment openers -/
def lexTable : List (List Char) :=
  [['>', '>', '>', '='],
   ['.', '.', '.'],
   ['=', '=', '='],
   ['!', '=', '='],
   ['*', '*', '='],
   ['<', '<', '='],
   ['>', '>', '='],
   ['>', '>', '>'],
   ['&', '&', '='],
   ['|', '|', '='],
   ['?', '?', '='],
   ['=', '>'],
   ['=', '='],
   ['!', '='],
   ['<', '='],
   ['>', '='],
   ['&', '&'],
   ['|', '|'],
   ['?', '?'],
   ['?', '.'],
   ['+', '+'],
   ['-', '-'],
   ['+', '='],
   ['-', '='],
   ['*', '='],
   ['/', '='],
   ['%', '='],
   ['&', '='],
   ['|', '='],
   ['^', '='],
   ['<', '<'],
   ['>', '>'],
   ['*', '*'],
   ['/', '/'],
   ['/', '*'],
   ['{'],
   ['}'],
   ['('],
   [')'],
   ['['],
   [']'],
   ['.'],
   [';'],
   [','],
   ['<'],
   ['>'],
   ['+'],
   ['-'],
   ['*'],
   ['/'],
   ['%'],
   ['&'],
   ['|'],
   ['^'],
   ['!'],
   ['~'],
   ['?'],
   [':'],
   ['=']]

/-- the characters of a punctuator / reserved word (`P.text` as a character list, see `P.chars_text`) -/
def P.chars : P → List Char
  | .lparen => ['(']
  | .rparen => [')']
  | .lbrack => ['[']
  | .rbrack => [']']
  | .dot => ['.']
  | .question => ['?']
  | .colon => [':']
  | .comma => [',']
  | .plus => ['+']
  | .minus => ['-']
  | .star => ['*']
  | .slash => ['/']
  | .percent => ['%']
  | .starstar => ['*', '*']
  | .lt => ['<']
  | .le => ['<', '=']
  | .gt => ['>']
  | .ge => ['>', '=']
  | .shl => ['<', '<']
  | .shr => ['>', '>']
  | .ushr => ['>', '>', '>']
  | .eq => ['=', '=']
  | .ne => ['!', '=']
  | .seq => ['=', '=', '=']
  | .sne => ['!', '=', '=']
  | .amp => ['&']
  | .bar => ['|']
  | .caret => ['^']
  | .ampamp => ['&', '&']
  | .barbar => ['|', '|']
  | .qq => ['?', '?']
  | .tilde => ['~']
  | .bang => ['!']
  | .plusplus => ['+', '+']
  | .minusminus => ['-', '-']
  | .assign => ['=']
  | .plusEq => ['+', '=']
  | .minusEq => ['-', '=']
  | .starEq => ['*', '=']
  | .slashEq => ['/', '=']
  | .percentEq => ['%', '=']
  | .starstarEq => ['*', '*', '=']
  | .shlEq => ['<', '<', '=']
  | .shrEq => ['>', '>', '=']
  | .ushrEq => ['>', '>', '>', '=']
  | .barEq => ['|', '=']
  | .ampEq => ['&', '=']
  | .caretEq => ['^', '=']
  | .qqEq => ['?', '?', '=']
  | .barbarEq => ['|', '|', '=']
  | .ampampEq => ['&', '&', '=']
  | .kIn => ['i', 'n']
  | .kInstanceof => ['i', 'n', 's', 't', 'a', 'n', 'c', 'e', 'o', 'f']
  | .kTypeof => ['t', 'y', 'p', 'e', 'o', 'f']
  | .kVoid => ['v', 'o', 'i', 'd']
  | .kDelete => ['d', 'e', 'l', 'e', 't', 'e']
  | .kNew => ['n', 'e', 'w']

theorem P.chars_text : ∀ x ∈ P.all, String.ofList x.chars = x.text := by decide +kernel

def isPrefixOf : List Char → List Char → Bool
  | [], _ => true
  | _ :: _, [] => false
  | a :: as, b :: bs => a == b && isPrefixOf as bs

/-- the longest entry of the table that starts the input (the table is listed longest first) -/
def munchOne (input : List Char) : List (List Char) → Option (List Char)
  | [] => none
  | p :: rest => if isPrefixOf p input then some p else munchOne input rest

/-- cut a run of punctuator characters into tokens, longest first; `none` if some character starts no punctuator -/
def lexPunct : Nat → List Char → Option (List (List Char))
  | _, [] => some []
  | 0, _ => none
  | fuel + 1, input =>
    match munchOne input lexTable with
    | none => none
    | some p =>
      match lexPunct fuel (input.drop p.length) with
      | some more => some (p :: more)
      | none => none

def P.isWord : P → Bool
  | .kIn | .kInstanceof | .kTypeof | .kVoid | .kDelete | .kNew => true
  | _ => false

/-- identifier names, reserved words and numeric literals: made of identifier characters -/
def Tok.isWord : Tok → Bool
  | .ident _ | .num _ => true
  | .p x => x.isWord
  | .other _ => false

/-- `a` directly followed by `b` is NOT read back as the two tokens `a`, `b` -/
def glue (a b : Tok) : Bool :=
  if a.isWord && b.isWord then true
  else match a, b with
    | .num _, .p .dot => true
    | .p .dot, .num _ => true
    | .p x, .p y =>
      if x.isWord || y.isWord then false
      else lexPunct 8 (x.chars ++ y.chars) != some [x.chars, y.chars]
    | _, _ => false

/-- three tokens that, written without white space, contain the comment opener `<!--` -/
def glue3 (a b c : Tok) : Bool := a == .p .lt && b == .p .bang && c == .p .minusminus

end EsbuildModel.JsExpr
