/-
What "the text of a multi-line comment without its indentation" is, written over BYTES only (no decoder, no
indices, nothing from esbuild's code).

* Line terminators are those of ECMA-262 11.3 (`LineTerminatorSequence`: LF, CR not followed by LF, LS, PS, CR LF)
  in their UTF-8 form: `0A`, `0D`, `0D 0A`, `E2 80 A8`, `E2 80 A9`.  UTF-8 is self-synchronising: these byte
  patterns occur in a byte string exactly where a decoder that replaces every ill-formed sequence by ONE
  U+FFFD per byte (Go) sees the corresponding code points; that is a theorem about the model, not part of
  this file.
* `splitLines s`: the maximal terminator-free pieces of `s`, in order (always at least one, `[[]]` for `""`).
* `wsLen l`: number of leading space / tab bytes of a line.
* `dedent col text`: the comment starts at column `col` of its line.  Every line after the first loses the same
  number `k` of leading bytes, where `k` is the largest number that is at most `col` and at most the number of
  leading spaces / tabs of EVERY later line (blank lines count as lines); the lines are joined by LF.
-/
namespace EsbuildModel.Spec.CommentIndent

/-- length of the line terminator sequence `s` starts with, 0 if it starts with none -/
def termLen : List Nat → Nat
  | 0x0A :: _ => 1
  | 0x0D :: 0x0A :: _ => 2
  | 0x0D :: _ => 1
  | 0xE2 :: 0x80 :: 0xA8 :: _ => 3
  | 0xE2 :: 0x80 :: 0xA9 :: _ => 3
  | _ => 0

/-- put the bytes `c` in front of the first line -/
def consHead (c : List Nat) : List (List Nat) → List (List Nat)
  | [] => [c]
  | m :: ms => (c ++ m) :: ms

/-- lines of `s` after skipping `k` bytes (the rest of a terminator sequence) -/
def splitSkip : Nat → List Nat → List (List Nat)
  | _, [] => [[]]
  | k + 1, _ :: rest => splitSkip k rest
  | 0, b :: rest =>
    if termLen (b :: rest) = 0 then consHead [b] (splitSkip 0 rest)
    else [] :: splitSkip (termLen (b :: rest) - 1) rest

def splitLines (s : List Nat) : List (List Nat) := splitSkip 0 s

/-- no line terminator sequence starts anywhere in `l` -/
def termFree : List Nat → Bool
  | [] => true
  | b :: rest => termLen (b :: rest) == 0 && termFree rest

def isWs (b : Nat) : Bool := b == 0x20 || b == 0x09

/-- number of leading space / tab bytes -/
def wsLen (l : List Nat) : Nat := (l.takeWhile isWs).length

/-- the largest `k ≤ col` with `k ≤ wsLen l` for every later line `l` -/
def commonIndent (col : Nat) : List (List Nat) → Nat
  | [] => col
  | l :: ls => commonIndent (min col (wsLen l)) ls

/-- lines joined by LF -/
def joinLF : List (List Nat) → List Nat
  | [] => []
  | l :: ls => l ++ ls.flatMap (fun m => 0x0A :: m)

def dedentLines (col : Nat) : List (List Nat) → List (List Nat)
  | [] => []
  | first :: later => first :: later.map (List.drop (commonIndent col later))

def dedent (col : Nat) (text : List Nat) : List Nat := joinLF (dedentLines col (splitLines text))

/-- `text` starts with `/*`, ends with `*/` (not overlapping) and `*/` occurs nowhere earlier:
a complete multi-line comment token of JavaScript and of CSS -/
def IsComment (text : List Nat) : Prop :=
  ∃ body, text = [0x2F, 0x2A] ++ body ++ [0x2A, 0x2F] ∧ ¬ [0x2A, 0x2F] <:+: body ++ [0x2A]

/-! sanity checks of the definitions -/
example : splitLines [] = [[]] := by decide
example : splitLines [0x61, 0x0D, 0x0A, 0x62] = [[0x61], [0x62]] := by decide
example : splitLines [0x61, 0x0A, 0x0D, 0x62] = [[0x61], [], [0x62]] := by decide
example : splitLines [0x0D, 0x0D, 0x0A, 0xE2, 0x80, 0xA8, 0x62, 0x0A] = [[], [], [], [0x62], []] := by decide
example : splitLines [0xE2, 0x80, 0xAA, 0xE2, 0x80] = [[0xE2, 0x80, 0xAA, 0xE2, 0x80]] := by decide
-- `/*\n    a\n\n      b*/` at column 4: the blank line keeps everything where it is
example : dedent 4 [0x2F, 0x2A, 0x0A, 0x20, 0x20, 0x20, 0x20, 0x61, 0x0A, 0x0A, 0x20, 0x20, 0x20, 0x20, 0x62]
    = [0x2F, 0x2A, 0x0A, 0x20, 0x20, 0x20, 0x20, 0x61, 0x0A, 0x0A, 0x20, 0x20, 0x20, 0x20, 0x62] := by decide
-- `/*\n    a\n      b` at column 4 and at column 2
example : dedent 4 [0x2F, 0x2A, 0x0A, 0x20, 0x20, 0x20, 0x20, 0x61, 0x0D, 0x0A, 0x20, 0x20, 0x20, 0x20, 0x20, 0x20, 0x62]
    = [0x2F, 0x2A, 0x0A, 0x61, 0x0A, 0x20, 0x20, 0x62] := by decide
example : dedent 2 [0x2F, 0x2A, 0x0A, 0x20, 0x20, 0x20, 0x20, 0x61, 0x0D, 0x0A, 0x20, 0x20, 0x20, 0x20, 0x20, 0x20, 0x62]
    = [0x2F, 0x2A, 0x0A, 0x20, 0x20, 0x61, 0x0A, 0x20, 0x20, 0x20, 0x20, 0x62] := by decide

end EsbuildModel.Spec.CommentIndent
