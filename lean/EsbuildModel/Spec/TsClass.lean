/-
A small class language and its run-time meaning, written from the language definitions and not from esbuild's code.

* ECMA-262 (ES2022) class evaluation: ClassDefinitionEvaluation (heritage first, then the static elements in order),
  [[Construct]] of base and derived constructors (a base constructor allocates `this`, runs InitializeInstanceElements =
  the field definitions in order with CreateDataPropertyOrThrow = *define* semantics, and only then evaluates the
  parameter defaults and the body; in a derived constructor `this` is unbound until `super(...)` returns, the fields
  are defined right when it returns, a second `super()` throws a ReferenceError after the base constructor has run
  again, a derived constructor that finishes with `this` unbound throws, an object returned from a constructor
  replaces the instance), ordinary [[Set]] for `this.x = v` (an own data property is overwritten in place, otherwise a
  setter found on the prototype chain of new.target is called, otherwise the property is appended).

* TypeScript.  `useDefineForClassFields` (TSConfig reference; TypeScript 3.7 release notes "The useDefineForClassFields
  Flag and The declare Property Modifier"): with the flag OFF a field `x = e` is the assignment `this.x = e` in the
  constructor and a field without initialiser emits nothing; with the flag ON fields are initialised with
  Object.defineProperty and "are always initialized to undefined, even if they have no initializer"; a `declare` field
  never emits anything.  Parameter properties (Handbook, Classes, "Parameter Properties": the parameter becomes "a class
  property with the same name and value"): tsc (transformers/ts.ts transformConstructorBody, then
  transformers/classFields.ts) puts the parameter-property assignments right after the `super(...)` call (at the start of
  the body of a base class), BEFORE the property initialisers it moves into the constructor.  When the fields stay native
  class fields (flag ON and target ≥ ES2022) tsc declares `x;` for every parameter property in front of the other fields
  and keeps the assignment `this.x = x` after `super()`; then the initialisers run before the assignments (that is why tsc
  reports TS2729 for `y = this.x` there).  tsc requires `super()` to be a root-level statement of such a constructor
  (TS2401); the meaning below is the evident generalisation "immediately after super() returns" for every position.

One syntax serves as source language and as the language of what esbuild emits: the emitted-only forms are marked; their
meaning is that of the JavaScript text esbuild prints (`__publicField` = runtime.go `__defNormalProp`, the `__super` arrow).

Values: `undefined`, numbers, opaque objects with identity.  Events: probe calls `p(k)`, setter calls, the static own
properties of every class once it is defined, and the own properties of every object `new` returns.
-/
namespace EsbuildModel.TsClass

inductive Val where
  | undef
  | num (n : Nat)
  | obj (id : Nat)
deriving DecidableEq, Repr, Inhabited

abbrev Props := List (Nat × Val)

inductive Event where
  | probe (k : Nat)
  | setter (x : Nat) (v : Val)
  | cls (statics : Props)
  | made (v : Val) (props : Props)
deriving DecidableEq, Repr

mutual
inductive Expr where
  | num (n : Nat)
  | undef
  | probe (k : Nat)                                   -- p(k): event, value k
  | param (i : Nat)                                   -- the i-th parameter of the enclosing constructor
  | allArgs                                           -- emitted: `...arguments` as the argument list of super / the shim
  | thisGet (x : Nat)                                 -- this.x
  | assignThis (x : Nat) (e : Expr)                   -- this.x = e
  | defineThis (x : Nat) (hasInit : Bool) (e : Expr)  -- emitted: __publicField(this, "x"[, e])
  | superCall (a : Expr)                              -- super(a)
  | shimCall (i : Nat) (a : Expr)                     -- emitted: __super_i(a)
  | seq (a b : Expr)                                  -- a, b
  | cond (c a b : Expr)                               -- c ? a : b
  | arrow (b : Expr)                                  -- (() => b)()
  | newC (c : Class) (a : Expr)                       -- new (class …)(a)
inductive Stmt where
  | expr (e : Expr)
  | retVoid
  | retVal (e : Expr)
  | throw_ (e : Expr)
  | ifS (c : Expr) (t f : Stmts)
  | shimDecl (i : Nat) (ins : Stmts)                  -- emitted: var __super_i = (...args) => { super(...args); ins; return this }
inductive Stmts where
  | nil
  | cons (s : Stmt) (r : Stmts)
/-- constructor parameters `a0, a1, …`; a parameter property of index i is the property with key `propKey i` -/
inductive Params where
  | nil
  | cons (isProp : Bool) (hasD : Bool) (d : Expr) (r : Params)
inductive Ctor where
  | none
  | some (ps : Params) (body : Stmts)
/-- `extends (pre, class …)`; `pre = undef` stands for a heritage without a prefix expression -/
inductive Base where
  | none
  | some (pre : Expr) (c : Class)
inductive Members where
  | nil
  | field (x : Nat) (hasInit : Bool) (init : Expr) (declare : Bool) (r : Members)
  | sfield (x : Nat) (hasInit : Bool) (init : Expr) (r : Members)
  | sblock (e : Expr) (r : Members)                   -- static { e; }
  | sassign (x : Nat) (e : Expr) (r : Members)        -- emitted: static { this.x = e; }
/-- emitted: what follows a class expression whose static members were moved out: `(_a = class …, <afters>, _a)` -/
inductive Afters where
  | nil
  | define (x : Nat) (hasInit : Bool) (e : Expr) (r : Afters)   -- __publicField(_a, "x"[, e])
  | assign (x : Nat) (e : Expr) (r : Afters)                    -- _a.x = e
  | expr (e : Expr) (r : Afters)
/-- `setters`: the names x for which the class has `set x(v) { log }` -/
inductive Class where
  | mk (base : Base) (setters : List Nat) (ctor : Ctor) (ms : Members) (after : Afters)
end

def propKey (i : Nat) : Nat := 100 + i

def Stmts.append : Stmts → Stmts → Stmts
  | .nil, q => q
  | .cons s r, q => .cons s (r.append q)

/-- the TypeScript settings the meaning of a SOURCE class depends on; `native` = the target has class fields (≥ ES2022) -/
structure Mode where
  useDefine : Bool
  native : Bool
deriving DecidableEq, Repr

/-- plain JavaScript: fields are native class fields -/
def Mode.js : Mode := ⟨true, true⟩
/-- fields stay native class fields -/
def Mode.nat (m : Mode) : Bool := m.useDefine && m.native

-- ---------------------------------------------------------------- state

structure St where
  trace : List Event
  heap : List Props
deriving DecidableEq, Repr

def St.empty : St := ⟨[], []⟩
def St.log (s : St) (e : Event) : St := { s with trace := s.trace ++ [e] }
def St.alloc (s : St) : Nat × St := (s.heap.length, { s with heap := s.heap ++ [[]] })
def St.props (s : St) (id : Nat) : Props := (s.heap[id]?).getD []

def hasKey (x : Nat) : Props → Bool
  | [] => false
  | (k, _) :: r => k == x || hasKey x r

def getKey (x : Nat) : Props → Val
  | [] => .undef
  | (k, v) :: r => if k == x then v else getKey x r

/-- CreateDataProperty on an ordinary object: an existing key keeps its place -/
def upsert (x : Nat) (v : Val) : Props → Props
  | [] => [(x, v)]
  | (k, w) :: r => if k == x then (k, v) :: r else (k, w) :: upsert x v r

def modifyAt (f : Props → Props) : List Props → Nat → List Props
  | [], _ => []
  | p :: r, 0 => f p :: r
  | p :: r, n + 1 => p :: modifyAt f r n

/-- define semantics -/
def St.define (s : St) (id x : Nat) (v : Val) : St := { s with heap := modifyAt (upsert x v) s.heap id }

/-- assign semantics (ordinary [[Set]] with the receiver = the object): `setters` are the accessor names on the
prototype chain of new.target -/
def St.assign (setters : List Nat) (s : St) (id x : Nat) (v : Val) : St :=
  if hasKey x (s.props id) then s.define id x v
  else if setters.contains x then s.log (.setter x v)
  else s.define id x v

/-- `__publicField(obj, "x", v)` as runtime.go spells it: `key in obj ? Object.defineProperty(obj, key, {enumerable,
configurable, writable, value}) : obj[key] = value`; the value of the call is `obj` or `value` -/
def St.publicField (setters : List Nat) (s : St) (id x : Nat) (v : Val) : Val × St :=
  if hasKey x (s.props id) || setters.contains x then (.obj id, s.define id x v)
  else (v, s.assign setters id x v)

inductive Res (α : Type) where
  | ok (a : α) (s : St)
  | threw (s : St)
deriving Repr

def Res.bind {α β : Type} (r : Res α) (f : α → St → Res β) : Res β :=
  match r with
  | .ok a s => f a s
  | .threw s => .threw s

def truthy : Val → Bool
  | .undef => false
  | .num n => n != 0
  | .obj _ => true

/-- what `__super_i(v)` does, given the current binding of `this` -/
abbrev Shim := Val → Option Nat → St → Res (Val × Option Nat)

/-- the part of a constructor activation that expressions cannot change -/
structure Env where
  rawArg : Val
  params : List Val
  shims : List (Nat × Shim)

def Env.empty : Env := ⟨.undef, [], []⟩

def lookupShim (i : Nat) : List (Nat × Shim) → Option Shim
  | [] => none
  | (j, k) :: r => if j == i then some k else lookupShim i r

/-- the class-level context of a constructor activation -/
structure Ctx where
  /-- [[Construct]] of the parent class with new.target passed on; `none`: the class has no heritage -/
  superOp : Option (Val → St → Res Nat)
  /-- what happens when `super()` has returned and `this` is bound: field definitions, and for a TypeScript source
  class the parameter properties (it reads the parameter values) -/
  onBind : List Val → Nat → St → Res Unit
  setters : List Nat

def Ctx.top : Ctx := ⟨none, fun _ _ s => .ok () s, []⟩
/-- the context field initialisers and static initialisers are evaluated in: `super()` is not available -/
def Ctx.fieldCtx (setters : List Nat) : Ctx := ⟨none, fun _ _ s => .ok () s, setters⟩

/-- `super(v)` -/
def superSem (C : Ctx) (params : List Val) (v : Val) (t : Option Nat) (s : St) : Res (Val × Option Nat) :=
  match C.superOp with
  | none => .threw s
  | some op => (op v s).bind fun id s1 =>
    match t with
    | some _ => .threw s1
    | none => (C.onBind params id s1).bind fun _ s2 => .ok (.obj id, some id) s2

inductive Compl where
  | normal
  | ret (v : Option Val)
deriving DecidableEq, Repr

def Base.setters : Base → List Nat
  | .none => []
  | .some _ (.mk b ss _ _ _) => ss ++ b.setters

/-- the accessor names on the prototype chain of instances of the class -/
def Class.allSetters : Class → List Nat
  | .mk b ss _ _ _ => ss ++ b.setters

/-- how the result of a base-class constructor body becomes the result of `new` -/
def finishRoot (c : Compl) (id : Nat) (s : St) : Res Nat :=
  match c with
  | .ret (some (.obj j)) => .ok j s
  | _ => .ok id s

def finishDerived (c : Compl) (t : Option Nat) (s : St) : Res Nat :=
  match c with
  | .ret (some (.obj j)) => .ok j s
  | .ret (some (.num _)) => .threw s
  | _ => match t with
    | some id => .ok id s
    | none => .threw s

def Ctor.params : Ctor → Params
  | .none => .nil
  | .some ps _ => ps

/-- native mode: tsc declares `a_i;` for every parameter property in front of the other fields -/
def ppDeclare : Params → Nat → Nat → St → St
  | .nil, _, _, s => s
  | .cons isProp _ _ r, i, id, s =>
    ppDeclare r (i + 1) id (if isProp then s.define id (propKey i) .undef else s)

/-- the parameter-property initialisations, in parameter order; a parameter that has no value yet (`super()` called from
a parameter default) is in its temporal dead zone -/
def ppInit (define : Bool) (setters : List Nat) (vals : List Val) : Params → Nat → Nat → St → Res Unit
  | .nil, _, _, s => .ok () s
  | .cons isProp _ _ r, i, id, s =>
    if isProp then
      match vals[i]? with
      | none => .threw s
      | some v => ppInit define setters vals r (i + 1) id (if define then s.define id (propKey i) v else s.assign setters id (propKey i) v)
    else ppInit define setters vals r (i + 1) id s

mutual
def evalE (m : Mode) : Expr → Ctx → Env → Option Nat → St → Res (Val × Option Nat)
  | .num n, _, _, t, s => .ok (.num n, t) s
  | .undef, _, _, t, s => .ok (.undef, t) s
  | .probe k, _, _, t, s => .ok (.num k, t) (s.log (.probe k))
  | .param i, _, env, t, s =>
    match env.params[i]? with
    | some v => .ok (v, t) s
    | none => .threw s
  | .allArgs, _, env, t, s => .ok (env.rawArg, t) s
  | .thisGet x, _, _, t, s =>
    match t with
    | none => .threw s
    | some id => .ok (getKey x (s.props id), t) s
  | .assignThis x e, C, env, t, s =>
    match t with
    | none => .threw s
    | some id => (evalE m e C env t s).bind fun r s1 => .ok r (s1.assign C.setters id x r.1)
  | .defineThis x hasInit e, C, env, t, s =>
    match t with
    | none => .threw s
    | some id =>
      if hasInit then
        (evalE m e C env t s).bind fun r s1 => .ok ((s1.publicField C.setters id x r.1).1, r.2) (s1.publicField C.setters id x r.1).2
      else .ok ((s.publicField C.setters id x .undef).1, t) (s.publicField C.setters id x .undef).2
  | .superCall a, C, env, t, s =>
    (evalE m a C env t s).bind fun r s1 => superSem C env.params r.1 r.2 s1
  | .shimCall i a, C, env, t, s =>
    -- the callee reference is evaluated first: an unresolvable `__super_i` throws before the arguments are evaluated
    match lookupShim i env.shims with
    | none => .threw s
    | some k => (evalE m a C env t s).bind fun r s1 => k r.1 r.2 s1
  | .seq a b, C, env, t, s =>
    (evalE m a C env t s).bind fun r s1 => evalE m b C env r.2 s1
  | .cond c a b, C, env, t, s =>
    (evalE m c C env t s).bind fun r s1 =>
      if truthy r.1 then evalE m a C env r.2 s1 else evalE m b C env r.2 s1
  | .arrow b, C, env, t, s => evalE m b C env t s
  | .newC c a, C, env, t, s =>
    (defineClass m c C env t s).bind fun t1 s1 =>
    (evalE m a C env t1 s1).bind fun r s2 =>
    (construct m c c.allSetters r.1 s2).bind fun id s3 =>
      .ok (.obj id, r.2) (s3.log (.made (.obj id) (s3.props id)))

def evalStmt (m : Mode) : Stmt → Ctx → Env → Option Nat → St → Res (Compl × Option Nat)
  | .expr e, C, env, t, s => (evalE m e C env t s).bind fun r s1 => .ok (.normal, r.2) s1
  | .retVoid, _, _, t, s => .ok (.ret none, t) s
  | .retVal e, C, env, t, s => (evalE m e C env t s).bind fun r s1 => .ok (.ret (some r.1), r.2) s1
  | .throw_ e, C, env, t, s => (evalE m e C env t s).bind fun _ s1 => .threw s1
  | .ifS c th el, C, env, t, s =>
    (evalE m c C env t s).bind fun r s1 =>
      if truthy r.1 then evalStmts m th C env r.2 s1 else evalStmts m el C env r.2 s1
  | .shimDecl _ _, _, _, t, s => .ok (.normal, t) s   -- the declaration is handled by evalStmts (it binds for what follows)

def evalStmts (m : Mode) : Stmts → Ctx → Env → Option Nat → St → Res (Compl × Option Nat)
  | .nil, _, _, t, s => .ok (.normal, t) s
  | .cons (.shimDecl i ins) r, C, env, t, s =>
    -- (...args) => { super(...args); ins; return this }
    let k : Shim := fun v t0 s0 =>
      (superSem C [] v t0 s0).bind fun r1 s1 =>
      (evalStmts m ins C { env with shims := [] } r1.2 s1).bind fun r2 s2 =>
        match r2.1 with
        | .ret v => .ok (v.getD .undef, r2.2) s2
        | .normal =>
          match r2.2 with
          | some id => .ok (.obj id, r2.2) s2
          | none => .threw s2
    evalStmts m r C { env with shims := (i, k) :: env.shims } t s
  | .cons st r, C, env, t, s =>
    (evalStmt m st C env t s).bind fun r1 s1 =>
      match r1.1 with
      | .normal => evalStmts m r C env r1.2 s1
      | .ret v => .ok (.ret v, r1.2) s1

/-- FunctionDeclarationInstantiation for the parameters: the first one receives the argument, a parameter whose value is
undefined evaluates its default; returns the parameter values -/
def evalParams (m : Mode) : Params → Nat → Ctx → Env → Option Nat → St → Res (List Val × Option Nat)
  | .nil, _, _, env, t, s => .ok (env.params, t) s
  | .cons _ hasD d r, i, C, env, t, s =>
    let v0 := if i == 0 then env.rawArg else Val.undef
    if hasD && v0 == .undef then
      (evalE m d C env t s).bind fun r1 s1 => evalParams m r (i + 1) C { env with params := env.params ++ [r1.1] } r1.2 s1
    else evalParams m r (i + 1) C { env with params := env.params ++ [v0] } t s

/-- the instance fields in order; `define`: every field is defined (without initialiser: `undefined`); otherwise only
the fields with an initialiser are assigned.  `declare` fields never do anything. -/
def fieldsInit (m : Mode) (define : Bool) : Members → List Nat → Nat → St → Res Unit
  | .nil, _, _, s => .ok () s
  | .field x hasInit init declare r, S, id, s =>
    if declare then fieldsInit m define r S id s
    else if hasInit then
      (evalE m init (Ctx.fieldCtx S) Env.empty (some id) s).bind fun r1 s1 =>
        fieldsInit m define r S id (if define then s1.define id x r1.1 else s1.assign S id x r1.1)
    else if define then fieldsInit m define r S id (s.define id x .undef)
    else fieldsInit m define r S id s
  | .sfield _ _ _ r, S, id, s => fieldsInit m define r S id s
  | .sblock _ r, S, id, s => fieldsInit m define r S id s
  | .sassign _ _ r, S, id, s => fieldsInit m define r S id s

/-- the static elements of the class body in order; the result is the list of static own properties -/
def staticInit (m : Mode) : Members → Props → St → Res Props
  | .nil, ps, s => .ok ps s
  | .field _ _ _ _ r, ps, s => staticInit m r ps s
  | .sfield x hasInit init r, ps, s =>
    if hasInit then
      (evalE m init (Ctx.fieldCtx []) Env.empty none s).bind fun r1 s1 => staticInit m r (upsert x r1.1 ps) s1
    else if m.useDefine then staticInit m r (upsert x .undef ps) s
    else staticInit m r ps s
  | .sblock e r, ps, s =>
    (evalE m e (Ctx.fieldCtx []) Env.empty none s).bind fun _ s1 => staticInit m r ps s1
  | .sassign x e r, ps, s =>
    (evalE m e (Ctx.fieldCtx []) Env.empty none s).bind fun r1 s1 => staticInit m r (upsert x r1.1 ps) s1

def afterInit (m : Mode) : Afters → Props → St → Res Props
  | .nil, ps, s => .ok ps s
  | .define x hasInit e r, ps, s =>
    if hasInit then
      (evalE m e (Ctx.fieldCtx []) Env.empty none s).bind fun r1 s1 => afterInit m r (upsert x r1.1 ps) s1
    else afterInit m r (upsert x .undef ps) s
  | .assign x e r, ps, s =>
    (evalE m e (Ctx.fieldCtx []) Env.empty none s).bind fun r1 s1 => afterInit m r (upsert x r1.1 ps) s1
  | .expr e r, ps, s =>
    (evalE m e (Ctx.fieldCtx []) Env.empty none s).bind fun _ s1 => afterInit m r ps s1

/-- ClassHeritage: the prefix expression belongs to the code AROUND the class -/
def defineBase (m : Mode) : Base → Ctx → Env → Option Nat → St → Res (Option Nat)
  | .none, _, _, t, s => .ok t s
  | .some pre c, C, env, t, s =>
    (evalE m pre C env t s).bind fun r s1 => defineClass m c C env r.2 s1

/-- ClassDefinitionEvaluation; returns the binding of `this` of the surrounding code -/
def defineClass (m : Mode) : Class → Ctx → Env → Option Nat → St → Res (Option Nat)
  | .mk base _ _ ms after, C, env, t, s =>
    (defineBase m base C env t s).bind fun t1 s1 =>
    (staticInit m ms [] s1).bind fun ps s2 =>
    (afterInit m after ps s2).bind fun ps' s3 => .ok t1 (s3.log (.cls ps'))

def superOpOf (m : Mode) : Base → List Nat → Option (Val → St → Res Nat)
  | .none, _ => none
  | .some _ c, S => some (fun v s => construct m c S v s)

/-- [[Construct]] with new.target's accessor names `S`; the result is the id of the object `new` evaluates to -/
def construct (m : Mode) : Class → List Nat → Val → St → Res Nat
  | .mk base _ ctor ms _, S, arg, s =>
    let onBind : List Val → Nat → St → Res Unit := fun vals id s0 =>
      if m.nat then
        (fieldsInit m true ms S id (ppDeclare ctor.params 0 id s0)).bind fun _ s1 =>
          ppInit false S vals ctor.params 0 id s1
      else
        (ppInit m.useDefine S vals ctor.params 0 id s0).bind fun _ s1 =>
          fieldsInit m m.useDefine ms S id s1
    let C : Ctx := ⟨superOpOf m base S, onBind, S⟩
    match ctor with
    | .none =>
      match base with
      | .none => (onBind [] s.alloc.1 s.alloc.2).bind fun _ s1 => .ok s.alloc.1 s1
      | .some _ b => (construct m b S arg s).bind fun id s1 => (onBind [] id s1).bind fun _ s2 => .ok id s2
    | .some ps body =>
      match base with
      | .none =>
        let id := s.alloc.1
        let s0 := s.alloc.2
        -- InitializeInstanceElements comes before the parameters are instantiated
        (if m.nat then fieldsInit m true ms S id (ppDeclare ps 0 id s0) else .ok () s0).bind fun _ s1 =>
        (evalParams m ps 0 C ⟨arg, [], []⟩ (some id) s1).bind fun r s2 =>
        (if m.nat then ppInit false S r.1 ps 0 id s2
         else (ppInit m.useDefine S r.1 ps 0 id s2).bind fun _ s3 => fieldsInit m m.useDefine ms S id s3).bind fun _ s4 =>
        (evalStmts m body C ⟨arg, r.1, []⟩ r.2 s4).bind fun r2 s5 => finishRoot r2.1 id s5
      | .some _ _ =>
        (evalParams m ps 0 C ⟨arg, [], []⟩ none s).bind fun r s1 =>
        (evalStmts m body C ⟨arg, r.1, []⟩ r.2 s1).bind fun r2 s2 => finishDerived r2.1 r2.2 s2
end

/-- a program is an expression evaluated at top level -/
def run (m : Mode) (e : Expr) : Res (Val × Option Nat) := evalE m e Ctx.top Env.empty none St.empty

end EsbuildModel.TsClass
