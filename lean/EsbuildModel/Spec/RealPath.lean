/-
POSIX pathname resolution and realpath(3) on a finite file tree with symbolic links — an INDEPENDENT
specification (IEEE Std 1003.1, XBD 4.13 "Pathname Resolution", and realpath(3): "derive, from the pathname
pointed to by file_name, an absolute pathname that resolves to the same directory entry, whose resolution does
not involve '.', '..', or symbolic links").  Written without looking at esbuild's code.

A file system is a finite table of directory entries.  Every entry says: in directory `dir` (an absolute path
WITHOUT links, "." or "..", i.e. the position of the directory in the tree) there is a name `name` which is a
regular file, a directory, or a symbolic link with the given contents (absolute or relative).  The root is a
directory.  The ORDER of the table is the order in which the operating system lists a directory (readdir).

Pathname resolution is a RELATION, so a cycle of links simply has no resolution (ELOOP) and nothing has to be
said about link budgets here: `Resolves t cur rest r n` = starting in the directory at `cur`, the remaining
components `rest` lead to the entry at `r`, expanding `n` symbolic links on the way.
-/
namespace EsbuildModel.PosixFS

/-- a file name (one path component); characters as a list so that `decide` can evaluate examples -/
abbrev Name := List Char
/-- an absolute path as the list of its components from the root; `[]` is "/" -/
abbrev Path := List Name

def dotN : Name := ['.']
def dotdotN : Name := ['.', '.']

inductive Node where
  | file
  | dir
  /-- symbolic link; `abs` = the contents start with "/", `target` = the components of the contents
      (a trailing slash counts as a final "." component, XBD 4.13) -/
  | link (abs : Bool) (target : List Name)
  deriving DecidableEq, Repr

def Node.isLink : Node → Bool
  | .link _ _ => true
  | _ => false

structure Entry where
  dir : Path
  name : Name
  node : Node
  deriving DecidableEq, Repr

structure Tree where
  entries : List Entry
  deriving Repr

/-- split "/a/b/c" into ("/a/b", "c"); the root has no last component -/
def splitLast : Path → Option (Path × Name)
  | [] => none
  | [b] => some ([], b)
  | a :: rest => match splitLast rest with
    | some (d, b) => some (a :: d, b)
    | none => none

/-- what is AT the position `p` of the tree (no link is followed: `p` is a position, not a pathname) -/
def Tree.raw (t : Tree) (p : Path) : Option Node :=
  match splitLast p with
  | none => some .dir
  | some (d, b) => (t.entries.find? (fun e => e.dir = d ∧ e.name = b)).map (·.node)

/-- the names in the directory at position `d`, in listing order -/
def Tree.children (t : Tree) (d : Path) : List Name :=
  (t.entries.filter (fun e => e.dir = d)).map (·.name)

def Tree.isDir (t : Tree) (p : Path) : Prop := t.raw p = some .dir

/-- the table describes a tree: every entry lies in a directory; "." and ".." are not entry names -/
def Tree.WF (t : Tree) : Prop :=
  ∀ e ∈ t.entries, t.raw e.dir = some .dir ∧ e.name ≠ dotN ∧ e.name ≠ dotdotN

instance (t : Tree) : Decidable t.WF := by unfold Tree.WF; exact inferInstance

/-- **pathname resolution** (XBD 4.13).  `cur` is the position of the directory reached so far. -/
inductive Resolves (t : Tree) : Path → List Name → Path → Nat → Prop where
  /-- no component left: the pathname resolves to the entry reached -/
  | done (cur : Path) : Resolves t cur [] cur 0
  /-- "." refers to the directory itself (which must be a directory: ENOTDIR otherwise) -/
  | dot {cur rest r n} : t.raw cur = some .dir → Resolves t cur rest r n → Resolves t cur (dotN :: rest) r n
  /-- ".." refers to the parent directory; the parent of the root is the root -/
  | dotdot {cur rest r n} : t.raw cur = some .dir → Resolves t cur.dropLast rest r n →
      Resolves t cur (dotdotN :: rest) r n
  /-- a name that is a file or a directory: continue from it (a file followed by more components fails at
      the next step, because every step needs a directory) -/
  | step {cur c rest r n nd} : c ≠ dotN → c ≠ dotdotN → t.raw cur = some .dir →
      t.raw (cur ++ [c]) = some nd → nd.isLink = false →
      Resolves t (cur ++ [c]) rest r n → Resolves t cur (c :: rest) r n
  /-- a symbolic link: its contents are prefixed to the remaining pathname; resolution continues from the
      root if the contents are absolute, else from the directory containing the link -/
  | link {cur c rest r n abs tgt} : c ≠ dotN → c ≠ dotdotN → t.raw cur = some .dir →
      t.raw (cur ++ [c]) = some (.link abs tgt) →
      Resolves t (if abs then [] else cur) (tgt ++ rest) r n → Resolves t cur (c :: rest) r (n + 1)

/-- **realpath(3)** of the absolute pathname with components `p` -/
def RealPath (t : Tree) (p : List Name) (r : Path) : Prop := ∃ n, Resolves t [] p r n

/-- a pathname is clean when it has no "." / ".." component (esbuild only handles `Join`ed paths) -/
def CleanPath (p : List Name) : Prop := ∀ c ∈ p, c ≠ dotN ∧ c ≠ dotdotN

instance (p : List Name) : Decidable (CleanPath p) := by unfold CleanPath; exact inferInstance

end EsbuildModel.PosixFS
