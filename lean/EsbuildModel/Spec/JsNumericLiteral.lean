import EsbuildModel.Spec.JsNumber
/-
Independent specification of the FULL NumericLiteral grammar of ECMA-262 (§12.9.3 "Numeric Literals" and
Annex B.1.1 "HTML-like / legacy" numeric forms), written from the standard, not from esbuild's code:

  NumericLiteral ::
      DecimalLiteral | DecimalBigIntegerLiteral | NonDecimalIntegerLiteral[+Sep]
    | NonDecimalIntegerLiteral[+Sep] BigIntLiteralSuffix | LegacyOctalIntegerLiteral
  DecimalBigIntegerLiteral :: `0n` | NonZeroDigit DecimalDigits[+Sep]? `n` | NonZeroDigit `_` DecimalDigits[+Sep] `n`
  DecimalLiteral ::
      DecimalIntegerLiteral `.` DecimalDigits[+Sep]? ExponentPart[+Sep]?
    | `.` DecimalDigits[+Sep] ExponentPart[+Sep]?
    | DecimalIntegerLiteral ExponentPart[+Sep]?
  DecimalIntegerLiteral :: `0` | NonZeroDigit | NonZeroDigit `_`? DecimalDigits[+Sep] | NonOctalDecimalIntegerLiteral
  DecimalDigits[Sep] :: DecimalDigit | DecimalDigits DecimalDigit | [+Sep] DecimalDigits `_` DecimalDigit
  ExponentPart[Sep] :: (`e`|`E`) (`+`|`-`)? DecimalDigits[?Sep]
  NonDecimalIntegerLiteral[Sep] :: `0b`/`0B` BinaryDigits | `0o`/`0O` OctalDigits | `0x`/`0X` HexDigits   (digits with `_`)
  LegacyOctalIntegerLiteral :: `0` OctalDigit | LegacyOctalIntegerLiteral OctalDigit
  NonOctalDecimalIntegerLiteral :: `0` NonOctalDigit | LegacyOctalLikeDecimalIntegerLiteral NonOctalDigit
                                 | NonOctalDecimalIntegerLiteral DecimalDigit
      (= `0`, then at least one decimal digit, at least one of them 8 or 9; no separators)

A literal is given as a derivation (`Lit`: which production, with the digit strings), `Lit.render` is the text the
derivation derives, `Lit.valid` says the digit strings obey the productions, `Lit.mv` is the mathematical value MV
(separators are ignored: "the MV of … NumericLiteralSeparator … is the MV of … without it").  The decimal formula is
the one of `Spec/JsNumber.lean` (`DecParts.mv`).  `IsNumber t v` / `IsBigInt t v`: text t is a NumericLiteral that is
a Number (resp. BigInt) literal whose MV is v.  The legacy forms are the ones strict mode code forbids
(§12.9.3.1 Static Semantics: Early Errors) — `Lit.isLegacy`.
-/
namespace EsbuildModel.Spec.NumLit
open EsbuildModel.Spec.Num

def isOctDigit (c : Char) : Bool := 48 ≤ c.toNat && c.toNat ≤ 55
def isBinDigit (c : Char) : Bool := c.toNat == 48 || c.toNat == 49
def isHexDigit (c : Char) : Bool := (hexVal? c).isSome

/-- `(_? D)*` -/
def sepTail (isD : Char → Bool) : List Char → Bool
  | [] => true
  | c :: r =>
    if c = '_' then
      match r with
      | [] => false
      | d :: r' => isD d && sepTail isD r'
    else isD c && sepTail isD r

/-- Digits[+Sep] :: `D (_? D)*` — digits with single separators strictly between digits -/
def sepDigits (isD : Char → Bool) : List Char → Bool
  | [] => false
  | c :: r => isD c && sepTail isD r

/-- the digits without the separators -/
def strip (l : List Char) : List Char := l.filter (fun c => c != '_')

/-- MV of a digit string in radix b (digits assumed valid for b; `hexVal?` covers 0-9a-fA-F) -/
def radixMV (b : Nat) (ds : List Char) : Nat := ds.foldl (fun a c => a * b + (hexVal? c).getD 0) 0

inductive Radix | bin | oct | hex
  deriving DecidableEq, Repr

def Radix.base : Radix → Nat
  | .bin => 2
  | .oct => 8
  | .hex => 16

def Radix.isDigit : Radix → Char → Bool
  | .bin => isBinDigit
  | .oct => isOctDigit
  | .hex => isHexDigit

/-- the letter after the leading `0` -/
def Radix.letter : Radix → Bool → Char
  | .bin, false => 'b'
  | .bin, true => 'B'
  | .oct, false => 'o'
  | .oct, true => 'O'
  | .hex, false => 'x'
  | .hex, true => 'X'

/-- ExponentPart[+Sep] with its digit string (separators included) -/
structure ExpS where
  upper : Bool
  sign : Sign
  digits : List Char
  deriving DecidableEq, Repr

/-- a derivation of NumericLiteral -/
inductive Lit
  /-- DecimalLiteral: the DecimalIntegerLiteral text ([] for the `.5` production), the fraction digits after the
  dot when a dot is present, the exponent part -/
  | dec (int : List Char) (frac : Option (List Char)) (exp : Option ExpS)
  /-- LegacyOctalIntegerLiteral: `0` followed by these octal digits -/
  | legacyOctal (digits : List Char)
  /-- NonDecimalIntegerLiteral[+Sep] -/
  | nonDec (r : Radix) (upper : Bool) (digits : List Char)
  /-- DecimalBigIntegerLiteral (digits before the `n`) -/
  | bigDec (digits : List Char)
  /-- NonDecimalIntegerLiteral[+Sep] BigIntLiteralSuffix -/
  | bigNonDec (r : Radix) (upper : Bool) (digits : List Char)
  deriving DecidableEq, Repr

def expSText : Option ExpS → List Char
  | none => []
  | some x => (if x.upper then 'E' else 'e') :: (x.sign.text ++ x.digits)

def Lit.render : Lit → List Char
  | .dec i f e => i ++ (fracText f ++ expSText e)
  | .legacyOctal ds => '0' :: ds
  | .nonDec r u ds => '0' :: r.letter u :: ds
  | .bigDec ds => ds ++ ['n']
  | .bigNonDec r u ds => '0' :: r.letter u :: (ds ++ ['n'])

/-- NonOctalDecimalIntegerLiteral -/
def nonOctalDec : List Char → Bool
  | c :: r => c == '0' && !r.isEmpty && r.all Num.isDigit && r.any (fun d => d == '8' || d == '9')
  | [] => false

/-- `0` | NonZeroDigit | NonZeroDigit `_`? DecimalDigits[+Sep] -/
def plainDecInt : List Char → Bool
  | [] => false
  | c :: r => if c = '0' then r.isEmpty else sepDigits Num.isDigit (c :: r)

/-- DecimalIntegerLiteral -/
def decIntOk (i : List Char) : Bool := plainDecInt i || nonOctalDec i

def expSOk : Option ExpS → Bool
  | none => true
  | some x => sepDigits Num.isDigit x.digits

def Lit.valid : Lit → Bool
  | .dec i f e =>
    (match i, f with
     | [], some f => sepDigits Num.isDigit f
     | [], none => false
     | i, none => decIntOk i
     | i, some f => decIntOk i && (f.isEmpty || sepDigits Num.isDigit f)) && expSOk e
  | .legacyOctal ds => !ds.isEmpty && ds.all isOctDigit
  | .nonDec r _ ds => sepDigits r.isDigit ds
  | .bigDec ds => plainDecInt ds
  | .bigNonDec r _ ds => sepDigits r.isDigit ds

def Lit.isBig : Lit → Bool
  | .bigDec _ => true
  | .bigNonDec .. => true
  | _ => false

/-- the forms that strict mode code must not contain: LegacyOctalIntegerLiteral and a DecimalLiteral whose
DecimalIntegerLiteral is a NonOctalDecimalIntegerLiteral -/
def Lit.isLegacy : Lit → Bool
  | .legacyOctal _ => true
  | .dec i _ _ => nonOctalDec i
  | _ => false

def stripExp : Option ExpS → Option ExpPart
  | none => none
  | some x => some ⟨x.upper, x.sign, strip x.digits⟩

/-- MV -/
def Lit.mv : Lit → Rat
  | .dec i f e => (DecParts.mk (strip i) (f.map strip) (stripExp e)).mv
  | .legacyOctal ds => (radixMV 8 ds : Nat)
  | .nonDec r _ ds => (radixMV r.base (strip ds) : Nat)
  | .bigDec ds => (digitsMV (strip ds) : Nat)
  | .bigNonDec r _ ds => (radixMV r.base (strip ds) : Nat)

/-- text `t` is a NumericLiteral denoting the Number with mathematical value `v` (before rounding to a double);
`legacy`: it is one of the forms forbidden in strict mode code -/
def IsNumber (t : List Char) (v : Rat) (legacy : Bool) : Prop :=
  ∃ l : Lit, l.valid = true ∧ l.isBig = false ∧ l.render = t ∧ l.mv = v ∧ l.isLegacy = legacy

/-- text `t` is a BigInt literal with mathematical value `v` -/
def IsBigInt (t : List Char) (v : Rat) : Prop :=
  ∃ l : Lit, l.valid = true ∧ l.isBig = true ∧ l.render = t ∧ l.mv = v

end EsbuildModel.Spec.NumLit
