/-
Independent specification of numeric-literal VALUES (written from the standards, not from esbuild's code):

* ECMA-262 §12.9.3 "Numeric Literals": the grammar of `DecimalLiteral` / `HexIntegerLiteral` (strict-mode
  subset: no legacy octal, no numeric separators, no BigInt suffix — esbuild's number printer emits none of
  them) and the mathematical value MV of such a literal, as an exact rational (`Rat`, Lean core).
* CSS Syntax Level 3 §4.3.12 "consume a number" (which texts are a <number-token>) and §4.3.13 "convert a
  string to a number" (its value `s·(i + f·10^-d)·10^(t·e)`).
* the output grammar of Go's `strconv.FormatFloat(x,'g',-1,64)` for finite positive x (`ffShape`), which is the
  TRUSTED input of the number printer (strconv/ftoa.go: `%e` form `d[.ddd]e±dd` when exp < -4 || exp >= 21,
  else `%f` form `ddd[.ddd]`).  `ffShape` is deliberately a superset of what FormatFloat can produce.
-/
namespace EsbuildModel.Spec.Num

def isDigit (c : Char) : Bool := 48 ≤ c.toNat && c.toNat ≤ 57

/-- MV of a DecimalDigit -/
def digitVal (c : Char) : Nat := c.toNat - 48

/-- MV of DecimalDigits: `MV(DecimalDigits DecimalDigit) = MV(DecimalDigits) × 10 + MV(DecimalDigit)`; empty ↦ 0 -/
def digitsMV (ds : List Char) : Nat := ds.foldl (fun a c => a * 10 + digitVal c) 0

def hexVal? (c : Char) : Option Nat :=
  if 48 ≤ c.toNat ∧ c.toNat ≤ 57 then some (c.toNat - 48)
  else if 97 ≤ c.toNat ∧ c.toNat ≤ 102 then some (c.toNat - 87)
  else if 65 ≤ c.toNat ∧ c.toNat ≤ 70 then some (c.toNat - 55)
  else none

/-- MV of HexDigits (`none` when some character is not a hex digit) -/
def hexDigitsMV? (ds : List Char) : Option Nat :=
  ds.foldl (fun a c => match a, hexVal? c with
    | some a, some d => some (a * 16 + d)
    | _, _ => none) (some 0)

inductive Sign | none | plus | minus
  deriving DecidableEq, Repr

/-- ExponentPart: `e`/`E`, optional sign, DecimalDigits -/
structure ExpPart where
  upper : Bool
  sign : Sign
  digits : List Char
  deriving DecidableEq, Repr

/-- the three pieces of a decimal literal text: digits before the dot, `some f` when a dot is present
(f = the digits after it, possibly none), and the exponent part -/
structure DecParts where
  int : List Char
  frac : Option (List Char)
  exp : Option ExpPart
  deriving DecidableEq, Repr

def Sign.text : Sign → List Char
  | .none => []
  | .plus => ['+']
  | .minus => ['-']

def fracText : Option (List Char) → List Char
  | none => []
  | some f => '.' :: f

def expText : Option ExpPart → List Char
  | none => []
  | some x => (if x.upper then 'E' else 'e') :: (x.sign.text ++ x.digits)

/-- the text a `DecParts` stands for -/
def DecParts.render (p : DecParts) : List Char := p.int ++ (fracText p.frac ++ expText p.exp)

/-- ExponentPart? at the end of the text; `none` = the rest is neither empty nor an exponent part -/
def parseExp : List Char → Option (Option ExpPart)
  | [] => some none
  | c :: r =>
    if c = 'e' ∨ c = 'E' then
      match r with
      | [] => none
      | s :: ds =>
        if s = '+' then (if ds ≠ [] ∧ ds.all isDigit then some (some ⟨c = 'E', .plus, ds⟩) else none)
        else if s = '-' then (if ds ≠ [] ∧ ds.all isDigit then some (some ⟨c = 'E', .minus, ds⟩) else none)
        else (if (s :: ds).all isDigit then some (some ⟨c = 'E', .none, s :: ds⟩) else none)
    else none

/-- split `digits* [ '.' digits* ] [ (e|E) [+-] digits+ ]`; `none` when the text has another shape -/
def parseDec (t : List Char) : Option DecParts :=
  match t.dropWhile isDigit with
  | '.' :: r =>
    (parseExp (r.dropWhile isDigit)).map fun e => ⟨t.takeWhile isDigit, some (r.takeWhile isDigit), e⟩
  | r => (parseExp r).map fun e => ⟨t.takeWhile isDigit, none, e⟩

/-- value of the SignedInteger of the exponent part (0 when absent) -/
def expVal : Option ExpPart → Int
  | none => 0
  | some x => if x.sign = .minus then -(digitsMV x.digits : Int) else (digitsMV x.digits : Int)

/-- `(MV(int) + MV(frac) × 10^-n) × 10^e`, n = number of fraction digits (ECMA-262 §12.9.3, the same
formula is CSS Syntax §4.3.13 without the sign) -/
def DecParts.mv (p : DecParts) : Rat :=
  ((digitsMV p.int : Rat) + (digitsMV (p.frac.getD []) : Rat) * (10 : Rat) ^ (-((p.frac.getD []).length : Int)))
    * (10 : Rat) ^ (expVal p.exp)

/-! ## ECMAScript -/

/-- DecimalIntegerLiteral :: `0` | NonZeroDigit DecimalDigits? -/
def jsIntOk : List Char → Bool
  | [] => false
  | [c] => isDigit c
  | c :: _ => c != '0'

/-- DecimalLiteral :: DecimalIntegerLiteral `.` DecimalDigits? ExponentPart? | `.` DecimalDigits ExponentPart?
| DecimalIntegerLiteral ExponentPart? -/
def DecParts.jsValid (p : DecParts) : Bool :=
  match p.int, p.frac with
  | [], some f => !f.isEmpty
  | [], none => false
  | i, _ => jsIntOk i

/-- HexIntegerLiteral :: `0x` HexDigits | `0X` HexDigits -/
def hexMV? : List Char → Option Nat
  | '0' :: x :: h :: hs => if x = 'x' ∨ x = 'X' then hexDigitsMV? (h :: hs) else none
  | _ => none

/-- `MV t = some v`: t is a NumericLiteral (decimal or hex) and v is its mathematical value -/
def MV (t : List Char) : Option Rat :=
  match parseDec t with
  | some p => if p.jsValid then some p.mv else none
  | none => (hexMV? t).map fun n => (n : Rat)

def isNumericLiteral (t : List Char) : Bool := (MV t).isSome

/-! ## CSS -/

/-- the text after the optional sign is a CSS number: at least one digit before the exponent, and a dot is
followed by at least one digit (CSS Syntax 3 §4.3.12; leading zeros are allowed) -/
def DecParts.cssValid (p : DecParts) : Bool :=
  match p.frac with
  | none => !p.int.isEmpty
  | some f => !f.isEmpty

/-- split an optional sign off: (isNegative, rest) -/
def cssSign : List Char → Bool × List Char
  | c :: r => if c = '-' then (true, r) else if c = '+' then (false, r) else (false, c :: r)
  | [] => (false, [])

/-- `cssValue t = some v`: t is the text of a CSS <number-token> and v is its value -/
def cssValue (t : List Char) : Option Rat :=
  match parseDec (cssSign t).2 with
  | some p => if p.cssValid then some (if (cssSign t).1 then -p.mv else p.mv) else none
  | none => none

def isCssNumber (t : List Char) : Bool := (cssValue t).isSome

/-! ## Output grammar of `strconv.FormatFloat(x,'g',-1,64)` (superset) -/

def allZero (l : List Char) : Bool := l.all (· == '0')

/-- * `%f` form: `int[.frac]`, int = "0" or without leading zero, frac non-empty, and "0.000" does not occur
    (x ≠ 0);
  * `%e` form: `int[.frac]e±ddd`, int starts with a non-zero digit (FormatFloat: exactly one digit), a
    lower-case `e`, an explicit sign, exponent value 1…999 (FormatFloat on float64: 5…324, at least 2 digits). -/
def ffOk (p : DecParts) : Bool :=
  jsIntOk p.int &&
  (match p.frac with | none => true | some f => !f.isEmpty) &&
  (match p.exp with
   | none => !(p.int == ['0'] && allZero (p.frac.getD []) && p.frac.isSome)
   | some x => !x.upper && x.sign != .none && p.int.head? != some '0'
        && decide (0 < digitsMV x.digits) && decide (digitsMV x.digits < 1000))

def ffShape (t : List Char) : Bool :=
  match parseDec t with
  | some p => ffOk p
  | none => false

end EsbuildModel.Spec.Num
