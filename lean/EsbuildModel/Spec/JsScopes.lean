/-
ECMA-262 static semantics of declarations and identifier resolution, for a fragment of JavaScript, written from the
standard (ES2023: 8.2 Scope Analysis, 14.2.1 / 14.15.1 / 15.2.1 / 16.1.1 / 16.2.1 Early Errors, 10.2.11
FunctionDeclarationInstantiation, 16.1.7 GlobalDeclarationInstantiation, Annex B.3.2 Block-Level Function
Declarations Web Legacy Compatibility Semantics, B.3.4 VariableStatements in Catch Blocks) without reference to
esbuild.

The fragment: `var` / `let` / `const` / `class` declarations of one name, function declarations (plain, or generator /
async), blocks, `try … catch`, function expressions (optionally named), arrow functions, identifier references;
functions have simple parameter lists (identifiers only); code is a script or a module, sloppy or strict ("use strict"
directives at the top of the program or of a function body).  `for` / `switch` scopes behave like blocks here.

What the spec answers:
* `Program.earlyError` — is there an early error caused by conflicting declarations?  (Duplicate parameter names are NOT
  included: esbuild checks them in a routine that is not modelled.)
* `Program.walk` — for every declaration occurrence the bindings it declares, for every identifier reference the
  binding it resolves to.  A binding is (environment, name); environments are identified by the position of the
  construct that creates them.  Occurrences are listed in source order, except that the name of a function
  declaration comes after the function's parameters and body (the order in which a one-pass parser meets the
  declarations when it declares a function once it knows the function has a body).
-/
namespace EsbuildModel.JsScopes

abbrev Name := Nat
/-- the name "arguments" -/
def argumentsName : Name := 0

inductive LexKind where
  | let_ | const_ | class_
deriving DecidableEq, Repr

inductive CatchParam where
  | none
  | ident (n : Name)
  | pattern (ns : List Name)
deriving Repr

inductive Stmt where
  /-- `var n` -/
  | var_ (n : Name)
  /-- `let n` / `const n = …` / `class n {}` -/
  | lex (k : LexKind) (n : Name)
  /-- `function n(params) { body }`; `gen`: generator or async function; `strict`: the body starts with "use strict" -/
  | fn (n : Name) (gen : Bool) (params : List Name) (strict : Bool) (body : List Stmt)
  /-- `n;` -/
  | ref (n : Name)
  /-- `{ … }` -/
  | block (b : List Stmt)
  /-- `try { b } catch (c) { h }` -/
  | try_ (b : List Stmt) (c : CatchParam) (h : List Stmt)
  /-- `(function n?(params) { body });` -/
  | fnExpr (n : Option Name) (params : List Name) (strict : Bool) (body : List Stmt)
  /-- `((params) => { body });` -/
  | arrow (params : List Name) (body : List Stmt)
deriving Repr

structure Program where
  /-- ECMAScript module (otherwise a script) -/
  module : Bool
  /-- "use strict" at the top -/
  strict : Bool
  body : List Stmt
deriving Repr

def CatchParam.bound : CatchParam → List Name
  | .none => []
  | .ident n => [n]
  | .pattern ns => ns

def CatchParam.isPattern : CatchParam → Bool
  | .pattern _ => true
  | _ => false

-- 8.2 static semantics ---------------------------------------------------------------------------------------

mutual
/-- VarDeclaredNames of a statement (function boundaries are not crossed; function declarations are not var
declarations in a statement list that is not the top level of a function or script) -/
def Stmt.varNames : Stmt → List Name
  | .var_ n => [n]
  | .block b => varNamesL b
  | .try_ b _ h => varNamesL b ++ varNamesL h
  | _ => []
def varNamesL : List Stmt → List Name
  | [] => []
  | s :: ss => s.varNames ++ varNamesL ss
end

/-- LexicallyDeclaredNames of the statement list of a Block: let, const, class and function declarations -/
def lexNames : List Stmt → List Name
  | [] => []
  | .lex _ n :: ss => n :: lexNames ss
  | .fn n _ _ _ _ :: ss => n :: lexNames ss
  | _ :: ss => lexNames ss

/-- TopLevelLexicallyDeclaredNames (function bodies and scripts): let, const, class -/
def topLexNames : List Stmt → List Name
  | [] => []
  | .lex _ n :: ss => n :: topLexNames ss
  | _ :: ss => topLexNames ss

/-- the function declarations at the top level of a function body or script (TopLevelVarDeclaredNames treats them
like var declarations) -/
def topFnNames : List Stmt → List Name
  | [] => []
  | .fn n _ _ _ _ :: ss => n :: topFnNames ss
  | _ :: ss => topFnNames ss

/-- the names declared by plain (not generator, not async) function declarations directly in the list -/
def plainFnNames : List Stmt → List Name
  | [] => []
  | .fn n false _ _ _ :: ss => n :: plainFnNames ss
  | _ :: ss => plainFnNames ss

def hasDup : List Name → Bool
  | [] => false
  | n :: ns => ns.contains n || hasDup ns

def inter (a b : List Name) : Bool := a.any (fun n => b.contains n)

-- Annex B.3.2 (B.3.3 in ES2015–ES2021) ---------------------------------------------------------------------------

mutual
/-- B.3.2.1: the names F of plain function declarations f directly contained in a Block (in sloppy code) for which
"replacing f with a VariableStatement that has F as a BindingIdentifier would not produce any Early Errors".
`blocked` = the names for which `var F` at this place is an early error because an enclosing block or a destructuring
catch parameter (inside the function) declares F lexically. -/
def Stmt.annexB (blocked : List Name) : Stmt → List Name
  | .block b => annexBBlock blocked b
  | .try_ b c h =>
    annexBBlock blocked b ++ annexBBlock (if c.isPattern then blocked ++ c.bound else blocked) h
  | _ => []
/-- the statement list of a block: its own function declarations (the block's other lexical declarations count
against them), then the nested blocks -/
def annexBBlock (blocked : List Name) (b : List Stmt) : List Name :=
  (plainFnNames b).filter (fun n => !blocked.contains n && (lexNames b).count n == 1) ++ annexBList (blocked ++ lexNames b) b
def annexBList (blocked : List Name) : List Stmt → List Name
  | [] => []
  | s :: ss => s.annexB blocked ++ annexBList blocked ss
end

/-- B.3.2.1 for a function: additionally F is not a parameter name; B.3.2.2 for a script (no parameters) -/
def annexBFn (params : List Name) (body : List Stmt) : List Name :=
  (annexBList (topLexNames body) body).filter (fun n => !params.contains n)

-- Early errors ------------------------------------------------------------------------------------------------

/-- 14.2.1 + B.3.2.4: duplicate entries of LexicallyDeclaredNames, unless the code is sloppy and the duplicates are only
bound by (plain) function declarations -/
def dupLex (strict : Bool) (b : List Stmt) : Bool :=
  (lexNames b).any (fun n => (lexNames b).count n ≥ 2 && (strict || (plainFnNames b).count n ≠ (lexNames b).count n))

mutual
def Stmt.earlyError (strict : Bool) : Stmt → Bool
  | .block b => blockError strict b
  | .try_ b c h =>
    blockError strict b ||
      -- 14.15.1 + B.3.4
      hasDup c.bound || inter c.bound (lexNames h) || (c.isPattern && inter c.bound (varNamesL h)) || blockError strict h
  | .fn _ _ params us body => fnError (strict || us) params body
  | .fnExpr _ params us body => fnError (strict || us) params body
  | .arrow params body => fnError strict params body
  | _ => false
/-- 14.2.1 Block -/
def blockError (strict : Bool) (b : List Stmt) : Bool :=
  dupLex strict b || inter (lexNames b) (varNamesL b) || listError strict b
/-- 15.2.1 function bodies: LexicallyDeclaredNames = the top-level let/const/class; VarDeclaredNames = var anywhere +
top-level functions; parameters against the lexical names -/
def fnError (strict : Bool) (params : List Name) (body : List Stmt) : Bool :=
  hasDup (topLexNames body) || inter (topLexNames body) (varNamesL body ++ topFnNames body) ||
    inter params (topLexNames body) || listError strict body
def listError (strict : Bool) : List Stmt → Bool
  | [] => false
  | s :: ss => s.earlyError strict || listError strict ss
end

/-- 16.1.1 Script / 16.2.1.1 Module (in a module function declarations are lexical) -/
def Program.earlyError (p : Program) : Bool :=
  if p.module then
    hasDup (lexNames p.body) || inter (lexNames p.body) (varNamesL p.body) || listError true p.body
  else fnError p.strict [] p.body

-- Two places where esbuild accepts a program that has an early error (hypotheses of Props/C15Lookup.lean) --------

/-- the names declared by `var` statements directly in the list -/
def topVarNames : List Stmt → List Name
  | [] => []
  | .var_ n :: ss => n :: topVarNames ss
  | _ :: ss => topVarNames ss

mutual
/-- some function (not an arrow) declares `arguments` with `var` directly in its body and also with let / const / class
at the top level of its body -/
def Stmt.argumentsClash : Stmt → Bool
  | .block b => argumentsClashL b
  | .try_ b _ h => argumentsClashL b || argumentsClashL h
  | .fn _ _ _ _ body =>
    ((topVarNames body).contains argumentsName && (topLexNames body).contains argumentsName) || argumentsClashL body
  | .fnExpr _ _ _ body =>
    ((topVarNames body).contains argumentsName && (topLexNames body).contains argumentsName) || argumentsClashL body
  | .arrow _ body => argumentsClashL body
  | _ => false
def argumentsClashL : List Stmt → Bool
  | [] => false
  | s :: ss => s.argumentsClash || argumentsClashL ss
end

mutual
/-- some block declares two plain functions with the same name (sloppy code allows it, B.3.2.4; read literally,
B.3.2.1 then gives neither of them a var binding, while engines give them one) -/
def Stmt.dupBlockFn : Stmt → Bool
  | .block b => hasDup (plainFnNames b) || dupBlockFnL b
  | .try_ b _ h => hasDup (plainFnNames b) || dupBlockFnL b || hasDup (plainFnNames h) || dupBlockFnL h
  | .fn _ _ _ _ body => dupBlockFnL body
  | .fnExpr _ _ _ body => dupBlockFnL body
  | .arrow _ body => dupBlockFnL body
  | _ => false
def dupBlockFnL : List Stmt → Bool
  | [] => false
  | s :: ss => s.dupBlockFn || dupBlockFnL ss
end

mutual
/-- some plain function declaration in a block has the name of a simple catch parameter of an enclosing catch clause of
the same function (`cps`) -/
def Stmt.catchFnClash (cps : List Name) : Stmt → Bool
  | .block b => (plainFnNames b).any cps.contains || catchFnClashL cps b
  | .try_ b c h =>
    (plainFnNames b).any cps.contains || catchFnClashL cps b ||
      (plainFnNames h).any (match c with | .ident n => n :: cps | _ => cps).contains ||
      catchFnClashL (match c with | .ident n => n :: cps | _ => cps) h
  | .fn _ _ _ _ body => catchFnClashL [] body
  | .fnExpr _ _ _ body => catchFnClashL [] body
  | .arrow _ body => catchFnClashL [] body
  | _ => false
def catchFnClashL (cps : List Name) : List Stmt → Bool
  | [] => false
  | s :: ss => s.catchFnClash cps || catchFnClashL cps ss
end

mutual
/-- the names of the plain function declarations in blocks nested in the statement (not crossing functions) -/
def Stmt.blockFnNames : Stmt → List Name
  | .block b => plainFnNames b ++ blockFnNamesL b
  | .try_ b _ h => plainFnNames b ++ blockFnNamesL b ++ plainFnNames h ++ blockFnNamesL h
  | _ => []
def blockFnNamesL : List Stmt → List Name
  | [] => []
  | s :: ss => s.blockFnNames ++ blockFnNamesL ss
end

/-- a function with a block-level function declaration named "arguments", or with `var arguments` directly in its body
next to a top-level function declaration named "arguments", or with a block-level function declaration named like a
parameter that the body declares again (with `var` anywhere in the body, or with a function at its top level) -/
def fnBlockFnClash (isArrow : Bool) (params : List Name) (body : List Stmt) : Bool :=
  (!isArrow && (blockFnNamesL body).contains argumentsName) ||
  (!isArrow && (topVarNames body).contains argumentsName && (topFnNames body).contains argumentsName) ||
    (blockFnNamesL body).any (fun n => params.contains n && (varNamesL body ++ topFnNames body).contains n)

mutual
def Stmt.blockFnClash : Stmt → Bool
  | .block b => blockFnClashL b
  | .try_ b _ h => blockFnClashL b || blockFnClashL h
  | .fn _ _ params _ body => fnBlockFnClash false params body || blockFnClashL body
  | .fnExpr _ params _ body => fnBlockFnClash false params body || blockFnClashL body
  | .arrow params body => fnBlockFnClash true params body || blockFnClashL body
  | _ => false
def blockFnClashL : List Stmt → Bool
  | [] => false
  | s :: ss => s.blockFnClash || blockFnClashL ss
end

/-- a module declares a name with a top-level function declaration and with `var` -/
def Program.moduleFnVarClash (p : Program) : Bool :=
  p.module && inter (topFnNames p.body) (varNamesL p.body)

-- Environments and bindings ---------------------------------------------------------------------------------------

inductive EnvTag where
  /-- the declarative environment of a Block / of the top-level lexical declarations of a function, script or module -/
  | lexical
  /-- the variable environment of a function (parameters, vars, top-level functions, "arguments") or of a script / module -/
  | variable
  /-- the environment that holds the name of a named function expression -/
  | fnName
  /-- the environment of a catch clause -/
  | catch_
deriving DecidableEq, Repr

/-- an environment is identified by the position (child indices from the program) of the construct that creates it -/
structure EnvId where
  path : List Nat
  tag : EnvTag
deriving DecidableEq, Repr

/-- a binding -/
structure Binding where
  env : EnvId
  name : Name
deriving DecidableEq, Repr

/-- an environment record: its identity and the names it binds -/
structure Env where
  id : EnvId
  names : List Name
deriving Repr

/-- ResolveBinding: the innermost environment of the chain that binds the name (none = unresolvable, a global) -/
def resolve (n : Name) : List Env → Option Binding
  | [] => none
  | e :: es => if e.names.contains n then some ⟨e.id, n⟩ else resolve n es

/-- what the walk collects, both in the order described at the top of the file -/
structure Walk where
  /-- for every declaration occurrence: the bindings it declares -/
  decls : List (List Binding)
  /-- for every identifier reference: the binding it resolves to -/
  refs : List (Option Binding)
deriving Repr

def Walk.append (a b : Walk) : Walk := ⟨a.decls ++ b.decls, a.refs ++ b.refs⟩
def Walk.empty : Walk := ⟨[], []⟩

/-- the environments of a function (10.2.11): the top-level lexical declarations, then parameters + vars + top-level
functions + Annex B functions + "arguments" (not for arrows), then the function expression's own name -/
def fnEnvs (path : List Nat) (strict isArrow : Bool) (name : Option Name) (params : List Name) (body : List Stmt) :
    List Env :=
  [⟨⟨path, .lexical⟩, topLexNames body⟩,
   ⟨⟨path, .variable⟩, params ++ varNamesL body ++ topFnNames body ++ (if strict then [] else annexBFn params body)
      ++ (if isArrow then [] else [argumentsName])⟩] ++
  (match name with | some n => [⟨⟨path, .fnName⟩, [n]⟩] | none => [])

/-- where a statement stands, for the walk: the environment chain, the variable environment of the closest function /
script / module, the environment that receives lexical declarations made here, and what B.3.2 needs to decide whether a
function declaration made here also gets a var binding: `blocked` = the names for which `var F` at this place is an
early error because of an enclosing block or destructuring catch parameter, `curLex` = LexicallyDeclaredNames of the
statement list the statement is in, `params` = the parameter names of the closest function -/
structure Ctx where
  strict : Bool
  envs : List Env
  varEnv : EnvId
  lexEnv : EnvId
  blocked : List Name
  curLex : List Name
  params : List Name
  /-- the statement is at the top level of a function or script: function declarations are var declarations -/
  top : Bool
  /-- the statement is at the top level of a module: function declarations are lexical declarations of the module -/
  topIsModule : Bool

/-- B.3.2.1: does the function declaration `function n` made here get a var binding? -/
def Ctx.hoistable (c : Ctx) (gen : Bool) (n : Name) : Bool :=
  !gen && !c.strict && !c.blocked.contains n && c.curLex.count n == 1 && !c.params.contains n

/-- the context of the statement list of a block nested here (`extra` = the names of a destructuring catch parameter) -/
def Ctx.enterBlock (c : Ctx) (path : List Nat) (extra : List Name) (newEnvs : List Env) (b : List Stmt) : Ctx :=
  { c with envs := ⟨⟨path, .lexical⟩, lexNames b⟩ :: newEnvs, lexEnv := ⟨path, .lexical⟩,
           blocked := (if c.top then c.blocked else c.blocked ++ c.curLex) ++ extra, curLex := lexNames b,
           top := false, topIsModule := false }

/-- the context of the statements of a function body -/
def fnCtx (path : List Nat) (strict isArrow : Bool) (name : Option Name) (params : List Name) (body : List Stmt)
    (envs : List Env) : Ctx :=
  ⟨strict, fnEnvs path strict isArrow name params body ++ envs, ⟨path, .variable⟩, ⟨path, .lexical⟩,
    topLexNames body, [], params, true, false⟩

/-- a function: the optional name of a function expression, the parameters, then the body -/
def fnWalk (path : List Nat) (name : Option Name) (params : List Name) (bodyWalk : Walk) : Walk :=
  let nameDecl : List (List Binding) := match name with | some n => [[⟨⟨path, .fnName⟩, n⟩]] | none => []
  (⟨nameDecl ++ params.map (fun n => [⟨⟨path, .variable⟩, n⟩]), []⟩ : Walk).append bodyWalk

mutual
/-- `path` = position of the statement -/
def Stmt.walk (path : List Nat) (c : Ctx) : Stmt → Walk
  | .var_ n => ⟨[[⟨c.varEnv, n⟩]], []⟩
  | .lex _ n => ⟨[[⟨c.lexEnv, n⟩]], []⟩
  | .ref n => ⟨[], [resolve n c.envs]⟩
  | .fn n gen params us body =>
    let inner := fnWalk path none params
      (walkList path 0 (fnCtx path (c.strict || us) false none params body c.envs) body)
    let own : List Binding :=
      if c.top then (if c.topIsModule then [⟨c.lexEnv, n⟩] else [⟨c.varEnv, n⟩])
      else if c.hoistable gen n then [⟨c.lexEnv, n⟩, ⟨c.varEnv, n⟩]
      else [⟨c.lexEnv, n⟩]
    inner.append ⟨[own], []⟩
  | .fnExpr n params us body =>
    fnWalk path n params (walkList path 0 (fnCtx path (c.strict || us) false n params body c.envs) body)
  | .arrow params body =>
    fnWalk path none params (walkList path 0 (fnCtx path c.strict true none params body c.envs) body)
  | .block b => walkList path 0 (c.enterBlock path [] c.envs b) b
  | .try_ b cp h =>
    let ec : Env := ⟨⟨path ++ [1], .catch_⟩, cp.bound⟩
    (walkList (path ++ [0]) 0 (c.enterBlock (path ++ [0]) [] c.envs b) b).append
      ((⟨cp.bound.map (fun n => [⟨ec.id, n⟩]), []⟩ : Walk).append
        (walkList (path ++ [1, 0]) 0
          (c.enterBlock (path ++ [1, 0]) (if cp.isPattern then cp.bound else []) (ec :: c.envs) h) h))
def walkList (path : List Nat) (i : Nat) (c : Ctx) : List Stmt → Walk
  | [] => Walk.empty
  | s :: ss => (s.walk (path ++ [i]) c).append (walkList path (i + 1) c ss)
end

/-- the whole program: a module has one environment for lexical declarations (with the function declarations) and var
declarations; a script has the global lexical declarations and the global var names (16.1.7, with B.3.2.2) -/
def Program.walk (p : Program) : Walk :=
  let strict := p.module || p.strict
  let lexE : Env := ⟨⟨[], .lexical⟩, if p.module then lexNames p.body else topLexNames p.body⟩
  let varE : Env := ⟨⟨[], .variable⟩, varNamesL p.body ++
    (if p.module then [] else topFnNames p.body ++ (if strict then [] else annexBFn [] p.body))⟩
  walkList [] 0 ⟨strict, [lexE, varE], varE.id, lexE.id, lexE.names, [], [], true, p.module⟩ p.body

-- The fragment of the partial lookup theorem (Props/C15Lookup.lean) ------------------------------------------------------

def CatchParam.avoids (c : CatchParam) (n : Name) : Bool := c.bound.all (· != n)

mutual
/-- "flat" statements: `var` and function declarations stand only at the top level of a function / script / module (so
nothing is hoisted out of a block), there is no class declaration, and nothing declares the name `arguments`
(references to `arguments` are allowed) -/
def Stmt.flat (top : Bool) : Stmt → Bool
  | .var_ n => top && n != argumentsName
  | .lex k n => k != .class_ && n != argumentsName
  | .fn n _ params _ body => top && n != argumentsName && params.all (· != argumentsName) && flatL true body
  | .ref _ => true
  | .block b => flatL false b
  | .try_ b c h => flatL false b && c.avoids argumentsName && flatL false h
  | .fnExpr n params _ body =>
    (match n with | some n => n != argumentsName | none => true) && params.all (· != argumentsName) && flatL true body
  | .arrow params body => params.all (· != argumentsName) && flatL true body
def flatL (top : Bool) : List Stmt → Bool
  | [] => true
  | s :: ss => s.flat top && flatL top ss
end

def Program.flat (p : Program) : Bool := flatL true p.body

end EsbuildModel.JsScopes
