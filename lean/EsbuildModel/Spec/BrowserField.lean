/-
Specification of the object form of the package.json `browser` field, written from
github.com/defunctzombie/package-browser-field-spec ("Replace specific files", "Ignore a module") and from
the behaviour of Browserify / Webpack that bundlers are expected to reproduce — NOT from esbuild's code.

My reading, as explicit rules.  The map belongs to the nearest enclosing package.json that has one (the
"scope"); `exts` is the bundler's list of implicit extensions in priority order.

  F1  A key is either a module name ("pkg", "pkg/sub") or a file path relative to the package.json directory
      ("./lib/x.js").  A value is a replacement (module name or relative file path) or `false` = ignore:
      the request is then satisfied by an empty module.
  F2  LOOK-UP IS BY NAME, FIRST MATCH WINS over an ordered list of candidate names for the request; the map is
      never consulted in any other way (no prefix or pattern matching), so the order of its entries is irrelevant.
  F3  A name `p` is tried as written, then with each implicit extension appended (in their order), then as a
      directory: `p/index` (normalised; if `p` was written relative, the `./` is kept), then `p/index` with each
      implicit extension.  (Webpack: "./ext.js" is found by the request "./ext", "./no-ext" is not found by
      "./no-ext.js".)
  F4  A request that designates a FILE (after joining it with the importing directory) is named by its path
      relative to the scope directory, `rel`.  Candidates: F3 of `rel` (bundlers accept keys without the
      leading "./"), and — when `rel` does not already start with "./", "../" or "/" — F3 of "./" ++ rel.
      The scope directory itself (rel = ".") is never remapped.
  F5  A request that is a MODULE NAME `n` is looked up as F3 of `n`; and, only when the importing file lies in
      the same package as the scope (no `node_modules` directory in between), also as the relative file
      "./" ++ (importing directory relative to the scope) ++ "/" ++ n and its directory index — WITHOUT
      implicit extensions (Browserify lets `require('pkg')` match "./pkg" but not "./pkg.js").
  F6  The map applies only when building for the browser.

`join` (path join with normalisation, Go's `path.Join`) is a parameter shared with the implementation.
-/
namespace EsbuildModel.BrowserFieldSpec

abbrev Str := List Char

/-- a name that is neither absolute nor explicitly relative ("bare") -/
def isBare (p : Str) : Bool :=
  !(['/'].isPrefixOf p) && !(['.', '/'].isPrefixOf p) && !(['.', '.', '/'].isPrefixOf p) && p != ['.'] && p != ['.', '.']

/-- F3: `p` then `p` with every implicit extension -/
def withExts (exts : List Str) (p : Str) : List Str := p :: exts.map (p ++ ·)

/-- F3: the directory index of `p` -/
def indexOf (join : Str → Str → Str) (p : Str) : Str :=
  let q := join p ['i', 'n', 'd', 'e', 'x']
  if isBare q && !isBare p then '.' :: '/' :: q else q

/-- F3 with implicit extensions -/
def forms (join : Str → Str → Str) (exts : List Str) (p : Str) : List Str :=
  withExts exts p ++ withExts exts (indexOf join p)

/-- F3 without implicit extensions -/
def formsNoExt (join : Str → Str → Str) (p : Str) : List Str := [p, indexOf join p]

/-- F4: candidates for a file whose path relative to the scope directory is `rel` -/
def fileCandidates (join : Str → Str → Str) (exts : List Str) (rel : Str) : List Str :=
  if rel = ['.'] then []
  else forms join exts rel ++ (if isBare rel then forms join exts ('.' :: '/' :: rel) else [])

/-- F5: candidates for the module name `n`; `between` = the directory names from the scope down to the
importing directory -/
def moduleCandidates (join : Str → Str → Str) (exts : List Str) (between : List Str) (n : Str) : List Str :=
  if n = ['.'] then []
  else
    forms join exts n ++
      (if isBare n && !between.contains "node_modules".toList then
        formsNoExt join ('.' :: '/' :: (between.foldr (fun d acc => d ++ '/' :: acc) n))
      else [])

/-- F2: the first candidate that is a key of the map, with its value (`none` = false = ignore) -/
def firstPresent (m : List (Str × Option Str)) : List Str → Option (Str × Option Str)
  | [] => none
  | k :: ks =>
    match m.find? (·.1 = k) with
    | some kv => some (k, kv.2)
    | none => firstPresent m ks

end EsbuildModel.BrowserFieldSpec
