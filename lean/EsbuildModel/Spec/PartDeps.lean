/-
Specification of the dependency edges between the parts (groups of top-level statements) of the modules of a bundle,
written from what tree shaking needs and from ECMAScript module semantics, not from esbuild's code.

A bundler that removes a part may only do so if no part it keeps can observe the removal.  A kept part observes a
removed one when, executing it, it can read, call or assign a binding that the removed part declares or initialises
(after all redeclarations of one variable have been identified, `var x; var x`, and after every import has been
resolved to the binding of the module that finally exports it, ECMA-262 ResolveExport), including the bindings a
bundler introduces itself: the namespace object of a module, the function that evaluates a lazily evaluated module.
It also observes the removal of the statements through which an import it uses was forwarded (`export … from`,
`export * from`, the import statement itself): those carry the request to evaluate the forwarding and the final module
(ECMA-262 InnerModuleEvaluation runs the requested modules of every module on the path).

So every edge of `Needs` must be a dependency edge (`Sound`), and for tree shaking to be worth anything every
dependency edge should be one of these (`Precise`).  The set of kept parts must be closed under the edges (`Closed`);
then no kept part refers to a binding whose declaration was dropped (`no_dangling`).
-/
namespace EsbuildModel.Spec.PartDeps

/-- a part: (module, index of the part in the module) -/
structure PartId where
  file : Nat
  idx : Nat
deriving DecidableEq, Repr

/-- what the bundled program says about its parts; `β` = bindings (one per variable, after merging redeclarations and
resolving imports) -/
structure Program (β : Type) where
  /-- executing the part can read, call or assign the binding -/
  refers : PartId → β → Prop
  /-- the part declares or initialises the binding -/
  declares : PartId → β → Prop
  /-- `forwards p q`: an import that part `p` uses reaches its binding through statement (part) `q` -/
  forwards : PartId → PartId → Prop

def Needs {β : Type} (pr : Program β) (p q : PartId) : Prop :=
  (∃ b, pr.refers p b ∧ pr.declares q b) ∨ pr.forwards p q

def Sound {β : Type} (pr : Program β) (dep : PartId → PartId → Prop) : Prop := ∀ p q, Needs pr p q → dep p q

def Precise {β : Type} (pr : Program β) (dep : PartId → PartId → Prop) : Prop := ∀ p q, dep p q → Needs pr p q

def Closed (dep : PartId → PartId → Prop) (live : PartId → Prop) : Prop := ∀ p q, live p → dep p q → live q

/-- with sound edges and a closed set of kept parts, a kept part never refers to a binding one of whose declaring
parts was dropped, and the statements that forward its imports are kept -/
theorem no_dangling {β : Type} (pr : Program β) (dep : PartId → PartId → Prop) (live : PartId → Prop)
    (hs : Sound pr dep) (hc : Closed dep live) (p q : PartId) (hp : live p) (hn : Needs pr p q) : live q :=
  hc p q hp (hs p q hn)

end EsbuildModel.Spec.PartDeps
