/-
Source Map v3 (ECMA-426, "Source Map Revision 3 Proposal") — the `mappings` field.

Written from the format description, NOT from esbuild's code:

* `mappings` is a string. Lines of the generated file are separated by `;`, the segments of a line by `,`.
* A segment is a sequence of 1, 4 or 5 base64-VLQ numbers:
    1. generated column, relative to the previous segment of the SAME line (every line starts again at 0);
    2. index into `sources`, relative to the previous occurrence of this field (anywhere before);
    3. original line, relative to the previous occurrence;
    4. original column, relative to the previous occurrence;
    5. index into `names`, relative to the previous occurrence.
* base64-VLQ: every character stands for a 6-bit digit of the RFC 4648 alphabet; bit 5 (value 32) says that
  another digit follows, bits 0–4 carry data, least significant group first; the least significant bit of the
  assembled number is the sign, the remaining bits the magnitude.

The decoder below is a character-at-a-time state machine (so it is structurally recursive and total). It answers
`none` for anything that is not a well-formed `mappings` string (a character outside the alphabet, a number cut
off by a separator or by the end of input, a segment with 2, 3 or more than 5 fields). Empty segments are skipped.
-/
namespace EsbuildModel.Spec.SourceMapV3

/-- the optional "original" part of a segment (fields 2–5) -/
structure Orig where
  src : Int
  line : Int
  col : Int
  name : Option Int
deriving DecidableEq, Repr

/-- a decoded segment with ABSOLUTE coordinates -/
structure Seg where
  genLine : Nat
  genCol : Int
  orig : Option Orig
deriving DecidableEq, Repr

/-- value of a base64 character (RFC 4648 §4: `A–Z a–z 0–9 + /`) -/
def b64 (c : Nat) : Option Nat :=
  if 65 ≤ c ∧ c ≤ 90 then some (c - 65)
  else if 97 ≤ c ∧ c ≤ 122 then some (c - 97 + 26)
  else if 48 ≤ c ∧ c ≤ 57 then some (c - 48 + 52)
  else if c = 43 then some 62
  else if c = 47 then some 63
  else none

/-- sign-magnitude reading of an assembled VLQ number: the lowest bit is the sign -/
def signed (n : Nat) : Int :=
  if n % 2 = 1 then -((n / 2 : Nat) : Int) else ((n / 2 : Nat) : Int)

/-- decoder state: the absolute coordinates reached so far, the fields of the segment being read and the
number being read (`acc = some (value so far, weight of the next digit group)`) -/
structure St where
  line : Nat := 0
  col : Int := 0
  src : Int := 0
  oline : Int := 0
  ocol : Int := 0
  name : Int := 0
  fields : List Int := []
  acc : Option (Nat × Nat) := none
deriving DecidableEq, Repr

/-- a separator or the end of input closes the current segment -/
def endSeg (s : St) : Option (St × List Seg) :=
  match s.acc with
  | some _ => none
  | none =>
    match s.fields with
    | [] => some (s, [])
    | [c] =>
      let col := s.col + c
      some ({ s with col := col, fields := [] }, [⟨s.line, col, none⟩])
    | [c, a, l, o] =>
      let col := s.col + c
      let src := s.src + a
      let oline := s.oline + l
      let ocol := s.ocol + o
      some ({ s with col := col, src := src, oline := oline, ocol := ocol, fields := [] },
        [⟨s.line, col, some ⟨src, oline, ocol, none⟩⟩])
    | [c, a, l, o, n] =>
      let col := s.col + c
      let src := s.src + a
      let oline := s.oline + l
      let ocol := s.ocol + o
      let name := s.name + n
      some ({ s with col := col, src := src, oline := oline, ocol := ocol, name := name, fields := [] },
        [⟨s.line, col, some ⟨src, oline, ocol, some name⟩⟩])
    | _ => none

/-- one character -/
def step (s : St) (c : Nat) : Option (St × List Seg) :=
  if c = 59 then -- ';'
    match endSeg s with
    | none => none
    | some (s', out) => some ({ s' with line := s'.line + 1, col := 0 }, out)
  else if c = 44 then -- ','
    endSeg s
  else
    match b64 c with
    | none => none
    | some d =>
      let vw := s.acc.getD (0, 1)
      let v := vw.1 + (d % 32) * vw.2
      if d < 32 then some ({ s with fields := s.fields ++ [signed v], acc := none }, [])
      else some ({ s with acc := some (v, vw.2 * 32) }, [])

/-- all characters; returns the final state and the segments completed on the way -/
def run (s : St) : List Nat → Option (St × List Seg)
  | [] => some (s, [])
  | c :: cs =>
    match step s c with
    | none => none
    | some (s1, o1) =>
      match run s1 cs with
      | none => none
      | some (s2, o2) => some (s2, o1 ++ o2)

/-- decode a whole `mappings` string (given as bytes) into the list of absolute segments -/
def decode (bytes : List Nat) : Option (List Seg) :=
  match run {} bytes with
  | none => none
  | some (s, o) =>
    match endSeg s with
    | none => none
    | some (_, o') => some (o ++ o')

/-! ### Vocabulary used to state the properties (still independent of esbuild) -/

/-- A `mappings` string denotes a sequence of line breaks and segments; `col` is absolute within its line. -/
inductive Ev where
  | nl
  | seg (col : Int) (orig : Option Orig)
deriving DecidableEq, Repr

/-- the absolute segments denoted by an event sequence that starts on generated line `line` -/
def segsOf (line : Nat) : List Ev → List Seg
  | [] => []
  | .nl :: es => segsOf (line + 1) es
  | .seg col orig :: es => ⟨line, col, orig⟩ :: segsOf line es

/-- position in a text: `LineColumnOffset` of the generated code -/
structure LineCol where
  lines : Int := 0
  columns : Int := 0
deriving DecidableEq, Repr

/-- advancing a position by the extent of a piece of text: a piece without line break adds columns,
otherwise it adds lines and its last line's length is the new column -/
def LineCol.add (a b : LineCol) : LineCol :=
  if b.lines = 0 then ⟨a.lines, a.columns + b.columns⟩ else ⟨a.lines + b.lines, b.columns⟩

/-- generated positions in non-decreasing order (line first, then column) -/
def genLE (a b : Seg) : Prop := a.genLine < b.genLine ∨ (a.genLine = b.genLine ∧ a.genCol ≤ b.genCol)

instance : DecidableRel genLE := fun a b => by unfold genLE; infer_instance

def SortedGen (l : List Seg) : Prop := l.Pairwise genLE

instance (l : List Seg) : Decidable (SortedGen l) := by unfold SortedGen; infer_instance

/-- moving a segment of a file that was mapped on its own to its place in a joined file: the file's text starts at
`(line, col)` of the joined output, its sources start at index `src` of the joined `sources`, its names at
index `name` of the joined `names`. Only the file's first line is shifted horizontally. -/
def place (line : Nat) (col src name : Int) (s : Seg) : Seg :=
  { genLine := s.genLine + line
    genCol := if s.genLine = 0 then s.genCol + col else s.genCol
    orig := s.orig.map fun o => { o with src := o.src + src, name := o.name.map (· + name) } }

end EsbuildModel.Spec.SourceMapV3
