/-
TypeScript's semantics of namespaces and enums, written from the language rules, not from esbuild:

* which namespaces exist at run time (checker `getModuleInstanceState`: a namespace is NOT instantiated iff it
  contains only interfaces / type aliases and non-instantiated namespaces);
* declaration merging (binder `declareModuleMember`: declarations with the same name in the same container
  share one symbol; the container of an EXPORTED member of a namespace block is the namespace symbol's
  `exports` table, shared by all blocks, the container of any other declaration is the block's own `locals`);
* name resolution of a bare identifier (checker `resolveName`): in a namespace block first the block's own
  declarations, then the exports of the merged symbol that are module members (variables, functions,
  namespaces, enums — not enum members); in an enum body the members of the merged enum symbol only; then the
  name of the namespace/enum itself (the emitted function parameter, language specification 10.7); then the
  enclosing block, finally the module scope and the globals;
* the run-time object graph (language specification 9.4 / 10.7 code generation): a block works on the object
  held by `Outer.N || (Outer.N = {})` for an exported block, `N || (N = {})` otherwise; exported variables
  ARE properties of that object, exported functions are copied to it at the place of their declaration, an
  enum member sets `E[name] = value` and, unless its value is a string constant or its initialiser is
  syntactically a string (transformer `isSyntacticallyString`), the reverse mapping `E[value] = name`;
* constant enum members (handbook "constant enum expressions"): no initialiser after a numeric constant,
  literals, `+`, references to PREVIOUSLY DEFINED constant members of this or another enum.

`Err.early`: the run read an enum member through a path TypeScript resolves statically before the member was
initialised (error TS2450 / TS2651 territory, but not diagnosed inside functions).  TypeScript's own output
reads the property there; runs that end this way are excluded from the theorems about inlined constants.
-/
import EsbuildModel.Spec.TsNsSyntax
namespace EsbuildModel.TsNs.Spec
open EsbuildModel.TsNs

/-! ### instantiation -/

mutual
def instantiatedM : Member → Bool
  | .typeOnly _ => false
  | .ns _ _ _ body => instantiatedL body
  | _ => true
def instantiatedL : List Member → Bool
  | [] => false
  | m :: rest => instantiatedM m || instantiatedL rest
end

/-! ### merged symbols -/

inductive Entity where
  | local_ (scope : Path) (name : String)
  | member (parent : Entity) (name : String)
deriving Repr, DecidableEq, Inhabited

def entityFor (π : Path) (pe : Option Entity) (exported : Bool) (name : String) : Entity :=
  match pe, exported with
  | some E, true => .member E name
  | _, _ => .local_ π name

structure Block where
  path : Path
  entity : Entity
  name : String
  isEnum : Bool
  body : List Member
  values : List (String × Option Expr)
deriving Inhabited

mutual
def blocksM (π : Path) (pe : Option Entity) (i : Nat) : Member → List Block
  | .ns exported _ name body =>
      let ent := entityFor π pe exported name
      { path := i :: π, entity := ent, name := name, isEnum := false, body := body, values := [] }
        :: blocksL (i :: π) (some ent) 0 body
  | .enum_ exported name vals =>
      [{ path := i :: π, entity := entityFor π pe exported name, name := name, isEnum := true, body := [], values := vals }]
  | _ => []
def blocksL (π : Path) (pe : Option Entity) (i : Nat) : List Member → List Block
  | [] => []
  | m :: rest => blocksM π pe i m ++ blocksL π pe (i + 1) rest
end

def blocks (P : Program) : List Block := blocksL [] none 0 P

def findBlock (bs : List Block) (π : Path) : Option Block :=
  match bs with
  | [] => none
  | b :: rest => if b.path = π then some b else findBlock rest π

/-- what a block contributes to the `exports` table of its symbol -/
structure Export where
  name : String
  isEnumMember : Bool
  nsLike : Bool        -- an instantiated namespace or an enum
deriving Repr, DecidableEq, Inhabited

def exportsOfMember : Member → List Export
  | .local_ _ true name _ => [⟨name, false, false⟩]
  | .func true name _ => [⟨name, false, false⟩]
  | .ns true _ name body => if instantiatedL body then [⟨name, false, true⟩] else []
  | .enum_ true name _ => [⟨name, false, true⟩]
  | .importEq name _ _ => [⟨name, false, false⟩]
  | _ => []

def exportsOfBlock (b : Block) : List Export :=
  if b.isEnum then b.values.map (fun v => ⟨v.1, true, false⟩)
  else b.body.flatMap exportsOfMember

def exportsOf (bs : List Block) (E : Entity) : List Export :=
  (bs.filter (fun b => b.entity = E)).flatMap exportsOfBlock

def findExport (xs : List Export) (name : String) (enumMember : Bool) : Option Export :=
  xs.find? (fun x => x.name = name ∧ x.isEnumMember = enumMember)

/-! ### name resolution -/

inductive Decl where
  | exportedVar      -- `export var/let/const x`, `export import x = …`: a property of the namespace object
  | binding          -- a binding of the block: local variable, function, namespace / enum name
deriving Repr, DecidableEq

def declOfMember (x : String) : Member → Option Decl
  | .local_ _ exported name _ => if name = x then some (if exported then .exportedVar else .binding) else none
  | .func _ name _ => if name = x then some .binding else none
  | .ns _ _ name body => if name = x ∧ instantiatedL body then some .binding else none
  | .enum_ _ name _ => if name = x then some .binding else none
  | .importEq name _ _ => if name = x then some .exportedVar else none
  | _ => none

def ownDecl (body : List Member) (x : String) : Option Decl :=
  match body with
  | [] => none
  | m :: rest => match declOfMember x m with
    | some d => some d
    | none => ownDecl rest x

inductive Desig where
  | local_ (scope : Path) (name : String)     -- the binding `name` of block `scope`
  | member (scope : Path) (name : String)     -- property `name` of the object block `scope` works on
  | inst (scope : Path)                       -- the object block `scope` works on
  | global (name : String)
deriving Repr, DecidableEq, Inhabited

def resolve (P : Program) (bs : List Block) : Path → String → Desig
  | [], x => if (ownDecl P x).isSome then .local_ [] x else .global x
  | i :: π, x =>
    match findBlock bs (i :: π) with
    | none => resolve P bs π x
    | some b =>
      if b.isEnum then
        if (findExport (exportsOf bs b.entity) x true).isSome then .member (i :: π) x
        else if x = b.name then .inst (i :: π)
        else resolve P bs π x
      else
        match ownDecl b.body x with
        | some .exportedVar => .member (i :: π) x
        | some .binding => .local_ (i :: π) x
        | none =>
          if (findExport (exportsOf bs b.entity) x false).isSome then .member (i :: π) x
          else if x = b.name then .inst (i :: π)
          else resolve P bs π x

/-! ### static paths to namespaces and enum members -/

def bodyAt (P : Program) (bs : List Block) (π : Path) : List Member :=
  match π with
  | [] => P
  | _ => match findBlock bs π with
    | some b => b.body
    | none => []

def entityAt (bs : List Block) (π : Path) : Option Entity :=
  match π with
  | [] => none
  | _ => (findBlock bs π).map (·.entity)

/-- is `x` declared in the member list as an instantiated namespace or an enum, and exported? -/
def nsLikeDecl (body : List Member) (x : String) : Option Bool :=
  match body with
  | [] => none
  | .ns exported _ name b :: rest => if name = x ∧ instantiatedL b then some exported else nsLikeDecl rest x
  | .enum_ exported name _ :: rest => if name = x then some exported else nsLikeDecl rest x
  | _ :: rest => nsLikeDecl rest x

def staticEntity (P : Program) (bs : List Block) (π : Path) : Expr → Option Entity
  | .id x =>
    match resolve P bs π x with
    | .local_ ρ y =>
      match nsLikeDecl (bodyAt P bs ρ) y with
      | some exported => some (entityFor ρ (entityAt bs ρ) exported y)
      | none => none
    | .inst ρ => entityAt bs ρ
    | .member ρ y =>
      match entityAt bs ρ with
      | some E => match findExport (exportsOf bs E) y false with
        | some ex => if ex.nsLike then some (.member E y) else none
        | none => none
      | none => none
    | .global _ => none
  | .dot e y =>
    match staticEntity P bs π e with
    | some E => match findExport (exportsOf bs E) y false with
      | some ex => if ex.nsLike then some (.member E y) else none
      | none => none
    | none => none
  | _ => none

/-- the enum member (symbol, name) an expression statically denotes -/
def enumMemberPath (P : Program) (bs : List Block) (π : Path) : Expr → Option (Entity × String)
  | .id x =>
    match resolve P bs π x with
    | .member ρ y =>
      match findBlock bs ρ with
      | some b => if b.isEnum then some (b.entity, y) else none
      | none => none
    | _ => none
  | .dot e y =>
    match staticEntity P bs π e with
    | some E => if (findExport (exportsOf bs E) y true).isSome then some (E, y) else none
    | none => none
  | _ => none

/-! ### constant enum members (static) -/

/-- constant members: symbol and name (for references), the declaring block (for the definition itself), value -/
abbrev ConstTable := List ((Entity × String) × Path × Value)

def lookupConst (t : ConstTable) (k : Entity × String) : Option Value :=
  match t with
  | [] => none
  | (k', _, v) :: rest => if k' = k then some v else lookupConst rest k

/-- the constant value of the member `name` declared in block `π` -/
def lookupConstAt (t : ConstTable) (π : Path) (name : String) : Option Value :=
  match t with
  | [] => none
  | (k', π', v) :: rest => if k'.2 = name ∧ π' = π then some v else lookupConstAt rest π name

/-- checker `evaluate` on the expression forms of the model -/
def constEval (P : Program) (bs : List Block) (t : ConstTable) (π : Path) : Expr → Option Value
  | .num n => some (.num n)
  | .str s => some (.str s)
  | .add a b =>
    match constEval P bs t π a, constEval P bs t π b with
    | some x, some y => addV x y
    | _, _ => none
  | .id x =>
    match enumMemberPath P bs π (.id x) with
    | some k => lookupConst t k
    | none => none
  | .dot e y =>
    match enumMemberPath P bs π (.dot e y) with
    | some k => lookupConst t k
    | none => none
  | _ => none

/-- members of one enum declaration, in order; `auto`: the value a member without initialiser gets -/
def constMembers (P : Program) (bs : List Block) (E : Entity) (π : Path) :
    List (String × Option Expr) → Option Int → ConstTable → ConstTable
  | [], _, t => t
  | (m, none) :: rest, some n, t => constMembers P bs E π rest (some (n + 1)) (t ++ [((E, m), π, .num n)])
  | (_, none) :: rest, none, t => constMembers P bs E π rest none t
  | (m, some e) :: rest, _, t =>
    match constEval P bs t π e with
    | some (.num n) => constMembers P bs E π rest (some (n + 1)) (t ++ [((E, m), π, .num n)])
    | some (.str s) => constMembers P bs E π rest none (t ++ [((E, m), π, .str s)])
    | _ => constMembers P bs E π rest none t

def constBlocks (P : Program) (bs : List Block) : List Block → ConstTable → ConstTable
  | [], t => t
  | b :: rest, t =>
    if b.isEnum then constBlocks P bs rest (constMembers P bs b.entity b.path b.values (some 0) t)
    else constBlocks P bs rest t

/-- all constant enum members of the program, enum declarations taken in textual order -/
def constTable (P : Program) : ConstTable := constBlocks P (blocks P) (blocks P) []

/-- transformer `isSyntacticallyString` -/
def syntacticallyString : Expr → Bool
  | .str _ => true
  | .add a b => syntacticallyString a || syntacticallyString b
  | _ => false

end EsbuildModel.TsNs.Spec

namespace EsbuildModel.TsNs.Spec
open EsbuildModel.TsNs

/-! ### run-time semantics -/

structure Cfg where
  P : Program
  bs : List Block
  ct : ConstTable
  /-- the target has `let`: the binding of a nested namespace / enum name is `let`, otherwise `var` -/
  letConst : Bool

def Cfg.of (P : Program) (letConst : Bool) : Cfg :=
  { P := P, bs := blocks P, ct := constTable P, letConst := letConst }

/-- read of a property through a path that statically denotes an enum member: the property has to be there
    (and to hold the constant, if the member is a constant one); otherwise the run is outside the domain -/
def readMember (o : Value) (k : String) (expect : Option Value) : M Value := fun s =>
  match o with
  | .obj id =>
    match s.heap[id]? with
    | some ob =>
      match lookupProp ob k with
      | some v =>
        match expect with
        | some w => if v = w then .ok v s else .err .early s
        | none => .ok v s
      | none => .err .early s
    | none => .err .early s
  | _ => .err .early s

def evalS (c : Cfg) (call : Path → String → M Value) (π : Path) : Expr → M Value
  | .num n => pure (.num n)
  | .str s => pure (.str s)
  | .id x =>
    match resolve c.P c.bs π x with
    | .local_ ρ y => readLoc (.var ρ y)
    | .member ρ y =>
      match enumMemberPath c.P c.bs π (.id x) with
      | some k => fun s =>
        match readLoc (.inst ρ) s with
        | .ok o s' => readMember o y (lookupConst c.ct k) s'
        | .err _ s' => .err .early s'
      | none => do
        let o ← readLoc (.inst ρ)
        getProp o y
    | .inst ρ => readLoc (.inst ρ)
    | .global y => readLoc (.global y)
  | .dot e p =>
    match enumMemberPath c.P c.bs π (.dot e p) with
    | some k => fun s =>
      match evalS c call π e s with
      | .ok o s' => readMember o p (lookupConst c.ct k) s'
      | .err _ s' => .err .early s'
    | none => do
      let o ← evalS c call π e
      getProp o p
  | .add a b => do
    let x ← evalS c call π a
    let y ← evalS c call π b
    match addV x y with
    | some v => pure v
    | none => fail .stuck
  | .probe tag e => do
    let v ← evalS c call π e
    logProbe tag v
    pure v
  | .call f => do
    let fv ← evalS c call π f
    match fv with
    | .fn sc name => call sc name
    | _ => fail .type_

/-- declarations instantiated when a block body (or the module) is entered -/
def hoistMember (c : Cfg) (π : Path) : Member → M Unit
  | .local_ .var false name _ => declareVar (.var π name)
  | .local_ _ false name _ => declareTdz (.var π name)
  | .func _ name _ => initLoc (.var π name) (.fn π name)
  | .ns _ _ name body =>
    if instantiatedL body then
      (if π = [] ∨ !c.letConst then declareVar (.var π name) else declareTdz (.var π name))
    else pure ()
  | .enum_ _ name _ => if π = [] ∨ !c.letConst then declareVar (.var π name) else declareTdz (.var π name)
  | _ => pure ()

def hoistMembers (c : Cfg) (π : Path) : List Member → M Unit
  | [] => pure ()
  | m :: rest => do hoistMember c π m; hoistMembers c π rest

/-- the object a namespace / enum block works on (10.7): `first`: this is the first block of the name here -/
def enterBlock (c : Cfg) (π : Path) (exported : Bool) (name : String) (first : Bool) : M Value := do
  if first ∧ π ≠ [] ∧ c.letConst then initLoc (.var π name) .undef else pure ()
  if exported ∧ π ≠ [] then do
    let outer ← readLoc (.inst π)
    let cur ← getProp outer name
    let o ← (if truthy cur then pure cur else do
      let o ← alloc
      setProp outer name o
      pure o)
    assignLoc (.var π name) o
    pure o
  else do
    let cur ← readLoc (.var π name)
    if truthy cur then pure cur else do
      let o ← alloc
      assignLoc (.var π name) o
      pure o

def execEnumMembers (c : Cfg) (call : Path → String → M Value) (π : Path) (E : Entity) (o : Value) :
    List (String × Option Expr) → M Unit
  | [] => pure ()
  | (m, init) :: rest => do
    match lookupConstAt c.ct π m with
    | some (.num n) => do
      setProp o m (.num n)
      setProp o (toString n) (.str m)
    | some (.str s) => setProp o m (.str s)
    | some _ => fail .stuck
    | none => do
      let v ← (match init with
        | some e => evalS c call π e
        | none => pure .undef)
      setProp o m v
      if (init.map syntacticallyString).getD false then pure () else
        match toKey v with
        | some k => setProp o k (.str m)
        | none => fail .stuck
    execEnumMembers c call π E o rest

mutual
def execM (c : Cfg) (call : Path → String → M Value) (π : Path) (i : Nat) (seen : List String) : Member → M Unit
  | .local_ kind exported name init =>
    if exported then
      match init with
      | some e => do
        let v ← evalS c call π e
        let o ← readLoc (.inst π)
        setProp o name v
      | none => pure ()
    else
      match init with
      | some e => do
        let v ← evalS c call π e
        initLoc (.var π name) v
      | none =>
        match kind with
        | .var => pure ()
        | _ => initLoc (.var π name) .undef
  | .func exported name _ =>
    if exported then do
      let o ← readLoc (.inst π)
      setProp o name (.fn π name)
    else pure ()
  | .ns exported _ name body =>
    if instantiatedL body then do
      let o ← enterBlock c π exported name (!seen.contains name)
      initLoc (.inst (i :: π)) o
      hoistMembers c (i :: π) body
      execL c call (i :: π) 0 [] body
    else pure ()
  | .enum_ exported name vals => do
    let o ← enterBlock c π exported name (!seen.contains name)
    initLoc (.inst (i :: π)) o
    execEnumMembers c call (i :: π) (entityFor π (entityAt c.bs π) exported name) o vals
  | .expr e => do
    let _ ← evalS c call π e
    pure ()
  | .importEq name head path => do
    let v ← evalS c call π (path.foldl Expr.dot (.id head))
    let o ← readLoc (.inst π)
    setProp o name v
  | .typeOnly _ => pure ()
  | .declareFn => pure ()

def execL (c : Cfg) (call : Path → String → M Value) (π : Path) (i : Nat) (seen : List String) : List Member → M Unit
  | [] => pure ()
  | m :: rest => do
    execM c call π i seen m
    execL c call π (i + 1) (match m with
      | .ns _ _ name body => if instantiatedL body then name :: seen else seen
      | .enum_ _ name _ => name :: seen
      | _ => seen) rest
end

def findFunc (body : List Member) (name : String) : Option Expr :=
  match body with
  | [] => none
  | .func _ n e :: rest => if n = name then some e else findFunc rest name
  | _ :: rest => findFunc rest name

def callS (c : Cfg) : Nat → Path → String → M Value
  | 0 => fun _ _ => fail .fuel
  | fuel + 1 => fun sc name =>
    match findFunc (bodyAt c.P c.bs sc) name with
    | some e => evalS c (callS c fuel) sc e
    | none => fail .stuck

def run (letConst : Bool) (fuel : Nat) (P : Program) : Res Unit :=
  let c := Cfg.of P letConst
  (do hoistMembers c [] P; execL c (callS c fuel) [] 0 [] P) State.empty

end EsbuildModel.TsNs.Spec
