/-
Scope trees and the notions the renaming property C15 is stated with, written without reference to how esbuild
walks the tree: which symbols a scope declares, when two declarations are "visible together" (one is declared in
the scope of the other or in a scope that encloses it), and the shape condition on hoisted copies.

A symbol is a number (the inner index of its `ast.Ref`).  A scope lists the symbols it declares as members,
as generated symbols and, for a label scope, its label.
-/
namespace EsbuildModel.Slots

/-- js_ast.Scope reduced to symbol references: inner indices of the members (in map order, i.e. any order), of
the generated symbols, of the label (none = no label) and the child scopes. -/
structure Scope where
  members : List Nat
  generated : List Nat
  label : Option Nat
  children : List Scope

/-- the symbols a scope declares, for the minifier: members, generated symbols and the label -/
def declA (sc : Scope) : List Nat := sc.members ++ sc.generated ++ sc.label.toList
/-- the symbols a scope declares, for the number renamer (labels are never renamed by it) -/
def declB (sc : Scope) : List Nat := sc.members ++ sc.generated

mutual
/-- every symbol declared in the scope or in a scope nested inside it (`d` says what a scope declares) -/
def Scope.all (d : Scope → List Nat) : Scope → List Nat
  | ⟨m, g, l, ch⟩ => d ⟨m, g, l, ch⟩ ++ allList d ch
def allList (d : Scope → List Nat) : List Scope → List Nat
  | [] => []
  | c :: cs => c.all d ++ allList d cs
end

mutual
/-- the labels of all label scopes of the tree -/
def Scope.labels : Scope → List Nat
  | ⟨_, _, l, ch⟩ => l.toList ++ labelsList ch
def labelsList : List Scope → List Nat
  | [] => []
  | c :: cs => c.labels ++ labelsList cs
end

mutual
/-- the scope reached from `sc` by the path `p` (child indices from the top) -/
def Scope.sub? : Scope → List Nat → Option Scope
  | sc, [] => some sc
  | ⟨_, _, _, ch⟩, i :: p => subList? ch i p
def subList? : List Scope → Nat → List Nat → Option Scope
  | [], _, _ => none
  | c :: _, 0, p => c.sub? p
  | _ :: cs, i + 1, p => subList? cs i p
end

/-- `Vis d sc s t`: inside the tree `sc`, symbol `s` is declared in some scope S and symbol `t` is declared in S
itself or in a scope between `sc` and S (both included) — so at the declaration of `s`, `t` is in scope.
(Props/C15Slots.lean `visible_iff_paths`: T at some path `p`, S at a path `p ++ q` extending it.) -/
inductive Vis (d : Scope → List Nat) : Scope → Nat → Nat → Prop
  | here {sc : Scope} {s t : Nat} : s ∈ d sc → t ∈ d sc → Vis d sc s t
  | inner {sc c : Scope} {s t : Nat} : c ∈ sc.children → t ∈ d sc → s ∈ c.all d → Vis d sc s t
  | deeper {sc c : Scope} {s t : Nat} : c ∈ sc.children → Vis d c s t → Vis d sc s t

mutual
/-- The shape of hoisted copies the renamer relies on (`ctx` = symbols declared in enclosing scopes, including
the top-level symbols): a symbol may be declared in several scopes (a hoisted `var` is a member of every scope
between its declaration and the function scope), but whenever it is declared inside two different children of
a scope it is also declared in that scope or in a scope enclosing it.  Equivalently: among the scopes declaring
a symbol there is one that encloses all the others. -/
def Scope.WF (d : Scope → List Nat) (ctx : List Nat) : Scope → Prop
  | ⟨m, g, l, ch⟩ => WFList d (ctx ++ d ⟨m, g, l, ch⟩) ch
def WFList (d : Scope → List Nat) (ctx : List Nat) : List Scope → Prop
  | [] => True
  | c :: cs => c.WF d ctx ∧ WFList d ctx cs ∧ ∀ s, s ∈ c.all d → s ∈ allList d cs → s ∈ ctx
end

/-- the tree as the number renamer sees it: the top-level symbols are the members of a scope whose children are the nested scopes -/
abbrev rootScope (topLevel : List Nat) (scopes : List Scope) : Scope := ⟨topLevel, [], none, scopes⟩

end EsbuildModel.Slots
