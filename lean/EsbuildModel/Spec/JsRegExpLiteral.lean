/-
Specification: the LEXICAL grammar of regular-expression literals, ECMA-262 §12.9.5 "Regular Expression Literals",
transcribed production by production (left-recursive lists as in the standard), the early errors on the flags
(§13.2.7.2 IsValidRegularExpressionLiteral steps 2–4 and §22.2.3.4 ParsePattern: each of `d g i m s u v y` at most once,
nothing else, not both `u` and `v`), the evaluation of a literal (§13.2.7.3: RegExpCreate(CodePointsToString(BodyText),
CodePointsToString(FlagText))), and the part of the Pattern grammar (§22.2.1) that is needed to say WHERE a syntax feature
occurs: a pattern is a sequence of character classes `[ … ]`, escapes `\c` and other characters.

Written without looking at esbuild's code.  A text is a list of code points.  `U` is the Unicode property ID_Continue
(a parameter: the standard refers to the Unicode Character Database).
-/
namespace EsbuildModel.Spec.JsRegExpLiteral

/-- LineTerminator :: <LF> <CR> <LS> <PS> (§12.3) -/
def IsLineTerminator (c : Nat) : Prop := c = 0x0A ∨ c = 0x0D ∨ c = 0x2028 ∨ c = 0x2029

instance (c : Nat) : Decidable (IsLineTerminator c) := by unfold IsLineTerminator; exact inferInstance

/-- RegularExpressionNonTerminator :: SourceCharacter but not LineTerminator -/
def NonTerminator (c : Nat) : Prop := ¬ IsLineTerminator c

/-- RegularExpressionBackslashSequence :: `\` RegularExpressionNonTerminator -/
inductive BackslashSequence : List Nat → Prop
  | mk (c : Nat) : NonTerminator c → BackslashSequence [0x5C, c]

/-- RegularExpressionClassChar :: RegularExpressionNonTerminator but not one of `]` or `\` | RegularExpressionBackslashSequence -/
inductive ClassChar : List Nat → Prop
  | plain (c : Nat) : NonTerminator c → c ≠ 0x5D → c ≠ 0x5C → ClassChar [c]
  | esc (s : List Nat) : BackslashSequence s → ClassChar s

/-- RegularExpressionClassChars :: [empty] | RegularExpressionClassChars RegularExpressionClassChar -/
inductive ClassChars : List Nat → Prop
  | empty : ClassChars []
  | snoc (a b : List Nat) : ClassChars a → ClassChar b → ClassChars (a ++ b)

/-- RegularExpressionClass :: `[` RegularExpressionClassChars `]` -/
inductive Class : List Nat → Prop
  | mk (s : List Nat) : ClassChars s → Class (0x5B :: s ++ [0x5D])

/-- RegularExpressionChar :: RegularExpressionNonTerminator but not one of `\` or `/` or `[`
  | RegularExpressionBackslashSequence | RegularExpressionClass -/
inductive Char : List Nat → Prop
  | plain (c : Nat) : NonTerminator c → c ≠ 0x5C → c ≠ 0x2F → c ≠ 0x5B → Char [c]
  | esc (s : List Nat) : BackslashSequence s → Char s
  | cls (s : List Nat) : Class s → Char s

/-- RegularExpressionFirstChar :: RegularExpressionNonTerminator but not one of `*` or `\` or `/` or `[`
  | RegularExpressionBackslashSequence | RegularExpressionClass -/
inductive FirstChar : List Nat → Prop
  | plain (c : Nat) : NonTerminator c → c ≠ 0x2A → c ≠ 0x5C → c ≠ 0x2F → c ≠ 0x5B → FirstChar [c]
  | esc (s : List Nat) : BackslashSequence s → FirstChar s
  | cls (s : List Nat) : Class s → FirstChar s

/-- RegularExpressionChars :: [empty] | RegularExpressionChars RegularExpressionChar -/
inductive Chars : List Nat → Prop
  | empty : Chars []
  | snoc (a b : List Nat) : Chars a → Char b → Chars (a ++ b)

/-- RegularExpressionBody :: RegularExpressionFirstChar RegularExpressionChars -/
inductive Body : List Nat → Prop
  | mk (f cs : List Nat) : FirstChar f → Chars cs → Body (f ++ cs)

/-- IdentifierPartChar :: UnicodeIDContinue | `$` | <ZWNJ> | <ZWJ> (§12.7) -/
def IdentifierPartChar (U : Nat → Bool) (c : Nat) : Prop := U c = true ∨ c = 0x24 ∨ c = 0x200C ∨ c = 0x200D

/-- RegularExpressionFlags :: [empty] | RegularExpressionFlags IdentifierPartChar -/
inductive Flags (U : Nat → Bool) : List Nat → Prop
  | empty : Flags U []
  | snoc (a : List Nat) (c : Nat) : Flags U a → IdentifierPartChar U c → Flags U (a ++ [c])

/-- RegularExpressionLiteral :: `/` RegularExpressionBody `/` RegularExpressionFlags -/
inductive Literal (U : Nat → Bool) : List Nat → Prop
  | mk (body flags : List Nat) : Body body → Flags U flags → Literal U (0x2F :: body ++ 0x2F :: flags)

/-- The token that the lexical goal InputElementRegExp yields at the start of `text` when it is a regular-expression
literal: a RegularExpressionLiteral `/body/flags` that is a prefix of the text and cannot be extended (§12: "the longest
possible sequence of code points"; the body ends at the `/`, so extending means one more IdentifierPartChar). -/
def TokenAt (U : Nat → Bool) (text body flags : List Nat) : Prop :=
  Body body ∧ Flags U flags ∧
  ∃ rest, text = 0x2F :: body ++ 0x2F :: flags ++ rest ∧ ∀ c, rest.head? = some c → ¬ IdentifierPartChar U c

/-- d g i m s u v y -/
def flagLetters : List Nat := [0x64, 0x67, 0x69, 0x6D, 0x73, 0x75, 0x76, 0x79]

/-- §13.2.7.2 steps 2–4 with §22.2.3.4: no code point other than `d g i m s u v y`, none more than once, and not both
`u` and `v` -/
def FlagsValid (flags : List Nat) : Prop :=
  (∀ c ∈ flags, c ∈ flagLetters) ∧ flags.Nodup ∧ ¬ (0x75 ∈ flags ∧ 0x76 ∈ flags)

/-- UTF16EncodeCodePoint (§11.1.1) -/
def utf16EncodeCodePoint (cp : Nat) : List Nat :=
  if cp ≤ 0xFFFF then [cp] else [(cp - 0x10000) / 0x400 + 0xD800, (cp - 0x10000) % 0x400 + 0xDC00]

/-- CodePointsToString (§11.1.2) -/
def codePointsToString (text : List Nat) : List Nat := text.flatMap utf16EncodeCodePoint

/-- §13.2.7.3 Evaluation of `/body/flags`: RegExpCreate(pattern, flags) with these two Strings — the same abstract
operation that `new RegExp(P, F)` (§22.2.4.1, P a String, F a String or undefined = the empty String) performs -/
def evaluationArguments (body flags : List Nat) : List Nat × List Nat :=
  (codePointsToString body, codePointsToString flags)

/-! ### surface structure of a Pattern (§22.2.1)

Atom :: `\` AtomEscape | CharacterClass | `(` … ; CharacterClass :: `[` ClassContents `]`;
ClassAtomNoDash :: SourceCharacter but not one of `\` or `]` or `-` | `\` ClassEscape.  For locating features only three
kinds of items matter: an escape (two characters), a class (with its own atoms) and any other single character. -/

inductive ClassAtom
  | chr (c : Nat)
  | esc (c : Nat)
  deriving DecidableEq, Repr

inductive Item
  | chr (c : Nat)
  | esc (c : Nat)
  | cls (atoms : List ClassAtom)
  deriving DecidableEq, Repr

def ClassAtom.text : ClassAtom → List Nat
  | .chr c => [c]
  | .esc c => [0x5C, c]

def Item.text : Item → List Nat
  | .chr c => [c]
  | .esc c => [0x5C, c]
  | .cls atoms => 0x5B :: atoms.flatMap ClassAtom.text ++ [0x5D]

def ClassAtom.WF : ClassAtom → Prop
  | .chr c => c ≠ 0x5C ∧ c ≠ 0x5D
  | .esc _ => True

def Item.WF : Item → Prop
  | .chr c => c ≠ 0x5C ∧ c ≠ 0x5B
  | .esc _ => True
  | .cls atoms => ∀ a ∈ atoms, a.WF

/-- `items` is the reading of the pattern text `pat` -/
def Reads (pat : List Nat) (items : List Item) : Prop :=
  pat = items.flatMap Item.text ∧ ∀ it ∈ items, it.WF

/-- Assertion :: `(?<=` Disjunction `)` | `(?<!` Disjunction `)` : the four characters as items outside any class -/
def HasLookbehind (items : List Item) : Prop :=
  ∃ a b x, (x = 0x3D ∨ x = 0x21) ∧ items = a ++ [.chr 0x28, .chr 0x3F, .chr 0x3C, .chr x] ++ b

/-- GroupSpecifier :: `?` GroupName, GroupName :: `<` RegExpIdentifierName `>` : `(?<` not followed by `=` or `!` -/
def HasNamedGroup (items : List Item) : Prop :=
  ∃ a b, items = a ++ [.chr 0x28, .chr 0x3F, .chr 0x3C] ++ b ∧ b.head? ≠ some (.chr 0x3D) ∧ b.head? ≠ some (.chr 0x21)

/-- CharacterClassEscape[+UnicodeMode] :: `p{` … `}` | `P{` … `}` — as an AtomEscape or as a ClassEscape -/
def HasPropertyEscape (items : List Item) : Prop :=
  (∃ x, (x = 0x70 ∨ x = 0x50) ∧ Item.esc x ∈ items) ∨
  (∃ atoms x, (x = 0x70 ∨ x = 0x50) ∧ Item.cls atoms ∈ items ∧ ClassAtom.esc x ∈ atoms)

end EsbuildModel.Spec.JsRegExpLiteral
