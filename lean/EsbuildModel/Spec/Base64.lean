/- RFC 4648 §4 base-64 alphabet (what the Source Map v3 format prescribes for VLQ digits). -/
namespace EsbuildModel.Spec
def rfc4648 : List Nat :=
  (List.range 26).map (· + 65) ++ (List.range 26).map (· + 97) ++ (List.range 10).map (· + 48) ++ [43, 47]
end EsbuildModel.Spec
