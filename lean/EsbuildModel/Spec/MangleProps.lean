/-
What the callers of linker.mangleProps guarantee about its inputs, and the vocabulary of the C15 property-mangling
theorems. Written from the parser (js_parser.symbolForMangledProp / isMangledProp), the bundler and pkg/api, not
from mangleProps itself.

* js_parser: a property name becomes a mangle candidate in a file when `isMangledProp` accepts it (it matches
  `--mangle-props`, is not `__proto__` / `constructor` / `prototype`, does not match `--reserve-props`); the
  occurrences are dotted accesses, property keys, class members, JSX attribute names, `/* @__KEY__ */` strings and,
  with `--mangle-quoted` only, quoted keys and `x['y']`. Every name that `isMangledProp` rejects is recorded in
  the file's `ReservedProps`. (A quoted name without `--mangle-quoted` is recorded NOWHERE; see the remark on
  quoted names in Props/C15MangleProps.lean.) For each candidate name of a file `symbolForMangledProp` creates
  ONE symbol of that file (kind SymbolMangledProp, OriginalName = the name, no link, no flags) and stores it in
  `MangledProps[name]`; each live use increments its use count.
* graph / bundler: `ReachableFiles` lists a source index at most once; `StableSourceIndices` is a permutation.
* pkg/api cloneMangleCache: a cache value is a string or `false`; a Go map has every key once.
-/
import EsbuildModel.Impl.MangleProps
namespace EsbuildModel.MangleProps

/-- the files whose tables mangleProps reads: JavaScript, not the runtime -/
def active (f : File) : Bool := f.src != 0 && f.isJS

def activeFiles (I : Input) : List File := I.reachable.filter active

/-- property `n` occurs in a file of the link and is represented there by symbol `r` -/
def Occurs (I : Input) (n : Name) (r : Ref) : Prop := ∃ f ∈ activeFiles I, (n, r) ∈ f.mangled

structure WF (I : Input) : Prop where
  /-- ReachableFiles lists a file once -/
  srcNodup : ((activeFiles I).map (·.src)).Nodup
  /-- MangledProps is a Go map: each key once -/
  keysNodup : ∀ f ∈ activeFiles I, (f.mangled.map (·.1)).Nodup
  /-- symbolForMangledProp: a symbol of this file, named like the key, not linked, no flags -/
  sym : ∀ f ∈ activeFiles I, ∀ e ∈ f.mangled,
    e.2.src = f.src ∧ ∃ c, getSym I.syms e.2 = some ⟨e.1, none, c, false⟩
  /-- StableSourceIndices covers every file -/
  stable : ∀ f ∈ activeFiles I, f.src < I.stable.length
  /-- the cache is a Go map … -/
  cacheKeys : ∀ c, I.cache = some c → (c.map (·.1)).Nodup
  /-- … whose values passed cloneMangleCache -/
  cacheVals : ∀ c, I.cache = some c → ∀ p ∈ c, p.2 ≠ CVal.other

/-- StableSourceIndices is injective (it is a permutation of the reachable files in esbuild) -/
def StableInj (I : Input) : Prop :=
  ∀ (s t v : Nat), I.stable[s]? = some v → I.stable[t]? = some v → s = t

/-- the same file with its two Go maps traversed in another order -/
structure FileEquiv (f g : File) : Prop where
  src : f.src = g.src
  isJS : f.isJS = g.isJS
  reserved : f.reserved.Perm g.reserved
  mangled : f.mangled.Perm g.mangled
  freq : f.freq = g.freq

inductive FilesEquiv : List File → List File → Prop
  | nil : FilesEquiv [] []
  | cons {f g : File} {fs gs : List File} : FileEquiv f g → FilesEquiv fs gs → FilesEquiv (f :: fs) (g :: gs)

def cachePerm : Option Cache → Option Cache → Prop
  | none, none => True
  | some c, some d => c.Perm d
  | _, _ => False

/-- the same link with every Go map (the two tables of each file, the mangle cache) traversed in another order;
the order of the files, the symbol table and the stable indices are the same -/
structure MapOrderEquiv (I J : Input) : Prop where
  files : FilesEquiv I.reachable J.reachable
  syms : I.syms = J.syms
  stable : I.stable = J.stable
  cache : cachePerm I.cache J.cache

/-- the name a cache entry stands for: `false` keeps the key -/
def target (p : Name × CVal) : Name :=
  match p.2 with
  | .str s => s
  | _ => p.1

/-- a cache that maps different keys to different names (every cache written by mangleProps itself is one:
`cacheInj_preserved`) -/
def CacheInj (c : Cache) : Prop := ∀ p ∈ c, ∀ q ∈ c, p.1 ≠ q.1 → target p ≠ target q

/-- the entries of the cache (a nil map has none) -/
def cacheList (I : Input) : Cache :=
  match I.cache with
  | none => []
  | some c => c

def lookupC (c : Option Cache) (n : Name) : Option CVal :=
  match c with
  | none => none
  | some c => c.lookup n

/-- the table entries of the link in processing order -/
def entriesOf (fs : List File) : List (Name × Ref) := (fs.filter active).flatMap (·.mangled)

def cnt (S0 : SymMap) (r : Ref) : Nat :=
  match getSym S0 r with
  | some s => s.count
  | none => 0

/-- the use count of the representative after merging the symbols `refs` (uint32 additions, in order) -/
def total (S0 : SymMap) : List Ref → Nat
  | [] => 0
  | r :: rs => rs.foldl (fun acc x => (acc + cnt S0 x) % u32) (cnt S0 r)

/-- the symbols of property `n`, in processing order -/
def refsOf (n : Name) (es : List (Name × Ref)) : List Ref := (es.filter (fun e => n == e.1)).map (·.2)

/-- the merged use count of property `n` -/
def totalOf (I : Input) (n : Name) : Nat := total I.syms (refsOf n (entriesOf I.reachable))

/-- no two properties of the link have the same merged use count -/
def NoTies (I : Input) : Prop :=
  ∀ n₁ r₁ n₂ r₂, Occurs I n₁ r₁ → Occurs I n₂ r₂ → n₁ ≠ n₂ → totalOf I n₁ ≠ totalOf I n₂

/-- the same link with its files reachable in another order (and whatever stable indices) -/
structure FileOrderEquiv (I J : Input) : Prop where
  files : I.reachable.Perm J.reachable
  syms : I.syms = J.syms
  cache : I.cache = J.cache

end EsbuildModel.MangleProps
