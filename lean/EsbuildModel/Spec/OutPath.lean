/-
An independent path algebra for property C17 (where do output files go), written without looking at
esbuild's code.

* POSIX pathname resolution without symbolic links (IEEE Std 1003.1, 4.13 "Pathname Resolution"): a
  pathname is a sequence of components separated by '/'; an empty component and "." name the current
  directory, ".." names the parent, and the parent of the root is the root.
* An absolute path in normal form is the list of names from the root.  `Inside d p` (d is p or an ancestor
  of p) is "d is a prefix of p" – segment-wise, so `/a/bc` is not inside `/a/b`.
* The documented meaning of the options (comments in esbuild's `internal/config/config.go` and
  `pkg/api/api.go`, and the API documentation): an output file is written to `outdir` joined with a path
  that is obtained from the name template by replacing `[dir]` (the directory of the entry point relative
  to `outbase`), `[name]` (its file name without extension), `[hash]` and `[ext]`; `outbase` defaults to
  the lowest common ancestor directory of all entry points.
-/
namespace EsbuildModel.Spec.OutPath

abbrev Name := List Char

/-- a name a directory entry can have -/
def ValidName (n : Name) : Prop := n ≠ [] ∧ '/' ∉ n ∧ n ≠ ['.'] ∧ n ≠ ['.', '.']

instance (n : Name) : Decidable (ValidName n) := by unfold ValidName; infer_instance

/-- absolute path in normal form: the names from the root (`[]` is the root) -/
abbrev AbsPath := List Name

/-- resolution of one pathname component from directory `cur` -/
def step (cur : AbsPath) (component : List Char) : AbsPath :=
  if component = [] ∨ component = ['.'] then cur
  else if component = ['.', '.'] then cur.dropLast
  else cur ++ [component]

/-- resolution of a sequence of components starting in `cur` -/
def resolve (cur : AbsPath) (components : List (List Char)) : AbsPath := components.foldl step cur

/-- the text of an absolute path in normal form -/
def render : AbsPath → List Char
  | [] => ['/']
  | p => (p.map fun n => '/' :: n).flatten

/-- the components of a pathname (the text between the separators) -/
def components : List Char → List (List Char)
  | [] => [[]]
  | c :: cs =>
    if c = '/' then [] :: components cs
    else
      match components cs with
      | [] => [[c]]
      | x :: xs => (c :: x) :: xs

/-- the directory named by an absolute pathname -/
def denote (path : List Char) : AbsPath := resolve [] (components path)

/-- `d` is `p` or one of its ancestors -/
def Inside (d p : AbsPath) : Prop := d <+: p

instance (d p : AbsPath) : Decidable (Inside d p) := by unfold Inside; infer_instance

/-- longest common prefix of two paths = their lowest common ancestor -/
def lca2 : AbsPath → AbsPath → AbsPath
  | a :: as, b :: bs => if a = b then a :: lca2 as bs else []
  | _, _ => []

/-- lowest common ancestor of a non-empty family of directories -/
def lcaAll : List AbsPath → AbsPath
  | [] => []
  | d :: ds => ds.foldl lca2 d

/-- the relative path from `base` to `target`: how many times up, then which names down -/
def relative (base target : AbsPath) : Nat × List Name :=
  let c := lca2 base target
  (base.length - c.length, target.drop c.length)

/-- the documented meaning of a name template: reading left to right, every placeholder is replaced by its
value and all other text is kept.  `skip` counts the characters of a placeholder just replaced that are
still to be passed over. -/
def expandFrom (dir name hash ext : List Char) : Nat → List Char → List Char
  | _, [] => []
  | skip + 1, _ :: cs => expandFrom dir name hash ext skip cs
  | 0, c :: cs =>
    if "[dir]".toList.isPrefixOf (c :: cs) then dir ++ expandFrom dir name hash ext 4 cs
    else if "[name]".toList.isPrefixOf (c :: cs) then name ++ expandFrom dir name hash ext 5 cs
    else if "[hash]".toList.isPrefixOf (c :: cs) then hash ++ expandFrom dir name hash ext 5 cs
    else if "[ext]".toList.isPrefixOf (c :: cs) then ext ++ expandFrom dir name hash ext 4 cs
    else c :: expandFrom dir name hash ext 0 cs

def expand (dir name hash ext template : List Char) : List Char := expandFrom dir name hash ext 0 template

end EsbuildModel.Spec.OutPath
