/-
Specification: the String Value (SV) / Template Value (TV, cooked) of the *body* of a JavaScript
string or template literal (ECMA-262 §12.9.4, §12.9.6), as a function from source characters (code
points) to UTF-16 code units. `none` = the text is not a valid body for that kind of literal (an
unescaped quote or line terminator, `${` in a template, a malformed or legacy-octal escape).
-/
namespace EsbuildModel.Spec.JsString

def hexVal? (c : Nat) : Option Nat :=
  if 48 ≤ c ∧ c ≤ 57 then some (c - 48)
  else if 65 ≤ c ∧ c ≤ 70 then some (c - 55)
  else if 97 ≤ c ∧ c ≤ 102 then some (c - 87)
  else none

/-- UTF-16 encoding of a code point (lone surrogates are kept as they are) -/
def utf16 (cp : Nat) : List Nat :=
  if cp < 65536 then [cp]
  else [55296 + (cp - 65536) / 1024, 56320 + (cp - 65536) % 1024]

/-- `\u{H…}`: reads hex digits up to `}`; value must be ≤ 0x10FFFF and at least one digit -/
def braceHex : Nat → Nat → Bool → List Nat → Option (Nat × List Nat)
  | 0, _, _, _ => none
  | _ + 1, _, _, [] => none
  | fuel + 1, acc, any, c :: rest =>
    if c = 125 then (if any ∧ acc ≤ 1114111 then some (acc, rest) else none)
    else match hexVal? c with
      | none => none
      | some d => if acc * 16 + d > 1114111 then none else braceHex fuel (acc * 16 + d) true rest

def isLineTerminator (c : Nat) : Bool := c = 10 || c = 13 || c = 8232 || c = 8233

/-- one step of the decoder: (code units produced, remaining source) -/
def step (quote : Nat) : List Nat → Option (List Nat × List Nat)
  | [] => none
  | 92 :: rest =>                       -- backslash
    match rest with
    | [] => none
    | 13 :: 10 :: r => some ([], r)     -- line continuation \<CR><LF>
    | c :: r =>
      if isLineTerminator c then some ([], r)        -- line continuation
      else if c = 48 then                            -- \0 not followed by a decimal digit
        match r with
        | d :: _ => if 48 ≤ d ∧ d ≤ 57 then none else some ([0], r)
        | [] => some ([0], r)
      else if 49 ≤ c ∧ c ≤ 57 then none              -- legacy octal / \8 \9: not allowed (strict, templates)
      else if c = 98 then some ([8], r)
      else if c = 102 then some ([12], r)
      else if c = 110 then some ([10], r)
      else if c = 114 then some ([13], r)
      else if c = 116 then some ([9], r)
      else if c = 118 then some ([11], r)
      else if c = 120 then                           -- \xHH
        match r with
        | a :: b :: r' => match hexVal? a, hexVal? b with
          | some x, some y => some ([x * 16 + y], r')
          | _, _ => none
        | _ => none
      else if c = 117 then                           -- \uHHHH or \u{H…}
        match r with
        | 123 :: r' => match braceHex (r'.length + 1) 0 false r' with
          | some (cp, r'') => some (utf16 cp, r'')
          | none => none
        | a :: b :: c' :: d :: r' => match hexVal? a, hexVal? b, hexVal? c', hexVal? d with
          | some w, some x, some y, some z => some ([((w * 16 + x) * 16 + y) * 16 + z], r')
          | _, _, _, _ => none
        | _ => none
      else some (utf16 c, r)                         -- NonEscapeCharacter: itself
  | c :: rest =>
    if c = quote then none                            -- unescaped closing quote
    else if quote ≠ 96 ∧ (c = 10 ∨ c = 13) then none  -- unescaped line terminator in '…' "…"
    else if quote = 96 ∧ c = 13 then                  -- templates normalise CR and CRLF to LF
      match rest with
      | 10 :: r => some ([10], r)
      | _ => some ([10], rest)
    else if quote = 96 ∧ c = 36 then                  -- `${` would start a substitution
      match rest with
      | 123 :: _ => none
      | _ => some ([36], rest)
    else some (utf16 c, rest)

/-- decode the whole body; `fuel` ≥ number of characters suffices -/
def decode (quote : Nat) : Nat → List Nat → Option (List Nat)
  | _, [] => some []
  | 0, _ :: _ => none
  | fuel + 1, src =>
    match step quote src with
    | none => none
    | some (units, rest) =>
      match decode quote fuel rest with
      | none => none
      | some more => some (units ++ more)

end EsbuildModel.Spec.JsString
