/-
ECMA-262 (2024), 16.2.1.7 Source Text Module Records — the two concrete methods that decide WHICH BINDING an
import names, transcribed from the specification text (not from esbuild):

  16.2.1.7.2.1  GetExportedNames ( [ exportStarSet ] )
  16.2.1.7.2.2  ResolveExport ( exportName [ , resolveSet ] )

plus the places where the specification consumes them: 16.2.1.7.3.1 InitializeEnvironment (every indirect export
and every import must resolve to a ResolvedBinding Record, otherwise a SyntaxError is thrown at link time) and
10.4.6.12 / 16.2.1.10 GetModuleNamespace (the [[Exports]] of a namespace object are the exported names that
resolve to a binding).

A module graph is a finite table of module records; `GetImportedModule(module, request)` is already resolved,
i.e. a [[ModuleRequest]] is the index of the requested module in the table.  Both methods take a *mutable* List
argument (`exportStarSet`, `resolveSet`) that is shared by all recursive calls and never rolled back; the
transcription threads it through as a returned value.  Recursion is by fuel; `none` means "out of fuel or a
request for a module that is not in the table" and `Lemmas/EsModules.lean` proves that with the fuel used by
`getExportedNames` / `resolveExport` below it never happens on a well-formed table.
-/
namespace EsbuildModel.Spec.EsModules

abbrev Name := String
abbrev ModuleId := Nat
/-- a module-local binding ([[LocalName]]); only its identity matters -/
abbrev BindingId := Nat

/-- [[ImportName]] of an ExportEntry / ImportEntry: a String, or `all` (`export * as ns from`) respectively
`namespace-object` (`import * as ns from`) -/
inductive ImportName where
  | name (n : Name)
  | all
deriving DecidableEq, Repr

/-- ExportEntry with [[ModuleRequest]] = null: `export {localName as exportName}`, `export let exportName`, … -/
structure LocalExport where
  exportName : Name
  localName : BindingId
deriving DecidableEq, Repr

/-- ExportEntry with a [[ModuleRequest]] and an [[ExportName]]: `export {importName as exportName} from`,
`export * as exportName from` (importName = all), and `import {importName as x} from; export {x as exportName}`
(16.2.1.7.1 ParseModule step 10.a.ii.3 turns the last form into an indirect entry) -/
structure IndirectExport where
  exportName : Name
  moduleRequest : ModuleId
  importName : ImportName
deriving DecidableEq, Repr

/-- ImportEntry Record -/
structure ImportEntry where
  moduleRequest : ModuleId
  importName : ImportName
  localName : BindingId
deriving DecidableEq, Repr

structure ModuleRecord where
  importEntries : List ImportEntry
  localExportEntries : List LocalExport
  indirectExportEntries : List IndirectExport
  /-- `export * from` entries: only their [[ModuleRequest]] matters -/
  starExportEntries : List ModuleId
deriving DecidableEq, Repr

abbrev Table := List ModuleRecord

/-- [[BindingName]] of a ResolvedBinding Record: a String (here: the binding's identity) or `namespace` -/
inductive BindingName where
  | name (b : BindingId)
  | namespace
deriving DecidableEq, Repr

structure ResolvedBinding where
  module : ModuleId
  bindingName : BindingName
deriving DecidableEq, Repr

/-- result of ResolveExport: a ResolvedBinding Record, null, or ambiguous -/
inductive Resolution where
  | binding (b : ResolvedBinding)
  | null
  | ambiguous
deriving DecidableEq, Repr

/-! ## GetExportedNames -/

/-- step 7.c: "For each element n of starNames: if n is not "default", then if exportedNames does not contain n,
append n to exportedNames" -/
def addStarNames : List Name → List Name → List Name
  | exported, [] => exported
  | exported, n :: ns =>
    if n ≠ "default" ∧ ¬ exported.contains n then addStarNames (exported ++ [n]) ns
    else addStarNames exported ns

/-- step 7, the loop over [[StarExportEntries]]; `f` is the recursive call `requestedModule.GetExportedNames(exportStarSet)` -/
def starNamesLoop (f : ModuleId → List ModuleId → Option (List Name × List ModuleId)) :
    List ModuleId → List Name → List ModuleId → Option (List Name × List ModuleId)
  | [], exported, set => some (exported, set)
  | e :: es, exported, set =>
    match f e set with
    | none => none
    | some (starNames, set') => starNamesLoop f es (addStarNames exported starNames) set'

def getExportedNamesAux (t : Table) : Nat → ModuleId → List ModuleId → Option (List Name × List ModuleId)
  | 0, _, _ => none
  | fuel + 1, m, exportStarSet =>
    match t[m]? with
    | none => none
    | some module =>
      -- 2. If exportStarSet contains module, return a new empty List (the starting point of an `export *` circularity)
      if exportStarSet.contains m then some ([], exportStarSet)
      else
        -- 3. Append module to exportStarSet.
        let exportStarSet := exportStarSet ++ [m]
        -- 4.–6. the [[ExportName]]s of the local and of the indirect export entries
        let exportedNames := module.localExportEntries.map (·.exportName) ++ module.indirectExportEntries.map (·.exportName)
        -- 7. the star export entries
        starNamesLoop (getExportedNamesAux t fuel) module.starExportEntries exportedNames exportStarSet

/-- `module.GetExportedNames()` with a fresh exportStarSet -/
def getExportedNames (t : Table) (m : ModuleId) : Option (List Name) :=
  (getExportedNamesAux t (t.length + 1) m []).map (·.1)

/-! ## ResolveExport -/

/-- step 8, the loop over [[StarExportEntries]]; `f` is `importedModule.ResolveExport(exportName, resolveSet)` -/
def starResolveLoop (f : ModuleId → List (ModuleId × Name) → Option (Resolution × List (ModuleId × Name))) :
    List ModuleId → Resolution → List (ModuleId × Name) → Option (Resolution × List (ModuleId × Name))
  | [], starResolution, set => some (starResolution, set)
  | e :: es, starResolution, set =>
    match f e set with
    | none => none
    -- 8.c If resolution is ambiguous, return ambiguous.
    | some (.ambiguous, set') => some (.ambiguous, set')
    -- 8.d If resolution is not null …
    | some (.null, set') => starResolveLoop f es starResolution set'
    | some (.binding r, set') =>
      match starResolution with
      -- 8.d.ii If starResolution is null, set starResolution to resolution.
      | .null => starResolveLoop f es (.binding r) set'
      -- 8.d.iii "there is more than one * import that includes the requested name": different module, or different
      -- binding name (namespace vs. String, or two different Strings) → ambiguous
      | .binding s =>
        if r.module ≠ s.module ∨ r.bindingName ≠ s.bindingName then some (.ambiguous, set')
        else starResolveLoop f es starResolution set'
      | .ambiguous => some (.ambiguous, set')

def resolveExportAux (t : Table) : Nat → ModuleId → Name → List (ModuleId × Name) →
    Option (Resolution × List (ModuleId × Name))
  | 0, _, _, _ => none
  | fuel + 1, m, exportName, resolveSet =>
    match t[m]? with
    | none => none
    | some module =>
      -- 2. a circular import request: return null
      if resolveSet.contains (m, exportName) then some (.null, resolveSet)
      else
        -- 3. Append the Record { [[Module]]: module, [[ExportName]]: exportName } to resolveSet.
        let resolveSet := resolveSet ++ [(m, exportName)]
        -- 4. local export entries: "module provides the direct binding for this export"
        match module.localExportEntries.find? (·.exportName = exportName) with
        | some e => some (.binding ⟨m, .name e.localName⟩, resolveSet)
        | none =>
          -- 5. indirect export entries
          match module.indirectExportEntries.find? (·.exportName = exportName) with
          | some e =>
            match e.importName with
            -- 5.a.ii "module does not provide the direct binding for this export" but re-exports a namespace object
            | .all => if e.moduleRequest < t.length then some (.binding ⟨e.moduleRequest, .namespace⟩, resolveSet) else none
            -- 5.a.iii "module imports a specific binding for this export"
            | .name importName => resolveExportAux t fuel e.moduleRequest importName resolveSet
          | none =>
            -- 6. "A default export cannot be provided by an export * from "mod" declaration."
            if exportName = "default" then some (.null, resolveSet)
            else
              -- 7.–9.
              starResolveLoop (fun e set => resolveExportAux t fuel e exportName set) module.starExportEntries .null resolveSet

/-- how many different (module, export name) requests one ResolveExport can make: the requested name, and the
[[ImportName]] of every indirect export entry, in every module -/
def resolveFuel (t : Table) : Nat :=
  t.length * (1 + (t.map (·.indirectExportEntries.length)).sum) + 1

/-- `module.ResolveExport(exportName)` with a fresh resolveSet -/
def resolveExport (t : Table) (m : ModuleId) (exportName : Name) : Option Resolution :=
  (resolveExportAux t (resolveFuel t) m exportName []).map (·.1)

/-! ## What the specification does with them -/

/-- 16.2.1.7.3.1 InitializeEnvironment step 7: what an import entry of module `m` is bound to -/
def resolveImport (t : Table) (ie : ImportEntry) : Option Resolution :=
  match ie.importName with
  | .all => if ie.moduleRequest < t.length then some (.binding ⟨ie.moduleRequest, .namespace⟩) else none
  | .name n => resolveExport t ie.moduleRequest n

/-- GetModuleNamespace steps 3.b–c: the exported names that resolve to a ResolvedBinding Record -/
def namespaceExports (t : Table) (m : ModuleId) : Option (List Name) :=
  match getExportedNames t m with
  | none => none
  | some names =>
    names.foldr (fun n acc =>
      match acc, resolveExport t m n with
      | some l, some (.binding _) => some (n :: l)
      | some l, some _ => some l
      | _, _ => none) (some [])

/-- every [[ModuleRequest]] names a module of the table -/
def WellFormed (t : Table) : Prop :=
  ∀ module ∈ t,
    (∀ e ∈ module.indirectExportEntries, e.moduleRequest < t.length) ∧
    (∀ e ∈ module.starExportEntries, e < t.length) ∧
    (∀ e ∈ module.importEntries, e.moduleRequest < t.length)

end EsbuildModel.Spec.EsModules
