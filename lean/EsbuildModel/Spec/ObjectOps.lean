/-
Values, property keys, objects and the ECMA-262 abstract operations that object literals with spread and
destructuring with rest are made of (ES2023 §7.1.1 ToPrimitive, §7.1.19 ToPropertyKey, §7.3.3 GetV,
§7.3.5/7.3.7 CreateDataProperty(OrThrow), §7.3.26 CopyDataProperties, §10.1.11 OrdinaryOwnPropertyKeys).
Written from the language specification, not from esbuild's code.

Two kinds of objects:

* objects the program under consideration creates itself with an object literal, a spread or a rest: these are
  VALUES here (`Val.rcd`): a prototype, the own string-keyed properties in creation order and the own
  symbol-keyed properties in creation order ([[OwnPropertyKeys]] = strings, then symbols).  Such an object is
  referenced by nobody else while it is being built, so nothing is lost by treating it as a value.  Its accessor
  properties hold the numbers of getter / setter functions; calling a getter is an event answered by the world.
  ASSUMPTION: keys defined by object literals are not array indices ("0", "1", …; JavaScript lists those first,
  in ascending order).
* every other object (`Val.obj id`) belongs to the WORLD, as in Impl/Lower2.lean: the world says which own keys
  it has (`strKeys`, `symKeys`: in [[OwnPropertyKeys]] order), which of them are enumerable, and answers every
  property read (`Ev.get`: a getter may run).  What the world says may depend on everything that happened
  before (the trace), so properties can appear, disappear and change.  These are ordinary objects, not
  Proxies: looking at keys and attributes is not an event.

The world also answers calls of the probe functions (`Ev.call`), calls of getters that were defined in a literal
(`Ev.getter`), and ToPrimitive of an object (`Ev.toPrim`), and it may reassign the user's variables while doing so.
-/
namespace EsbuildModel.Lower3

inductive Slot (α : Type) where
  | data (v : α)
  | acc (g s : Option Nat)      -- accessor property: number of the getter, number of the setter
deriving Repr

inductive Val where
  | undef
  | null
  | num (n : Int)
  | str (s : String)
  | sym (id : Nat)
  | obj (id : Nat)
  /-- an object made by the program itself.  `proto = .undef` stands for %Object.prototype%, `.null` for no
  prototype, anything else is the object given by `__proto__: v` -/
  | rcd (proto : Val) (strs : List (String × Slot Val)) (syms : List (Nat × Slot Val))
deriving Repr

mutual
def Val.beq : Val → Val → Bool
  | .undef, .undef => true
  | .null, .null => true
  | .num a, .num b => a == b
  | .str a, .str b => a == b
  | .sym a, .sym b => a == b
  | .obj a, .obj b => a == b
  | .rcd p ss ys, .rcd p' ss' ys' => Val.beq p p' && beqS ss ss' && beqY ys ys'
  | _, _ => false
termination_by structural a => a
def beqS : List (String × Slot Val) → List (String × Slot Val) → Bool
  | [], [] => true
  | (k, s) :: r, (k', s') :: r' => k == k' && beqSl s s' && beqS r r'
  | _, _ => false
termination_by structural a => a
def beqY : List (Nat × Slot Val) → List (Nat × Slot Val) → Bool
  | [], [] => true
  | (k, s) :: r, (k', s') :: r' => k == k' && beqSl s s' && beqY r r'
  | _, _ => false
termination_by structural a => a
def beqSl : Slot Val → Slot Val → Bool
  | .data v, .data v' => Val.beq v v'
  | .acc g s, .acc g' s' => g == g' && s == s'
  | _, _ => false
termination_by structural a => a
end

mutual
theorem Val.beq_eq : ∀ a b : Val, Val.beq a b = true → a = b
  | .undef, b => by cases b <;> simp [Val.beq]
  | .null, b => by cases b <;> simp [Val.beq]
  | .num a, b => by cases b <;> simp [Val.beq]
  | .str a, b => by cases b <;> simp [Val.beq]
  | .sym a, b => by cases b <;> simp [Val.beq]
  | .obj a, b => by cases b <;> simp [Val.beq]
  | .rcd p ss ys, b => by
    cases b with
    | rcd p' ss' ys' =>
      simp only [Val.beq, Bool.and_eq_true]
      intro h
      rw [Val.beq_eq p p' h.1.1, beqS_eq ss ss' h.1.2, beqY_eq ys ys' h.2]
    | _ => simp [Val.beq]
theorem beqS_eq : ∀ a b : List (String × Slot Val), beqS a b = true → a = b
  | [], b => by cases b <;> simp [beqS]
  | (k, s) :: r, b => by
    cases b with
    | nil => simp [beqS]
    | cons x r' =>
      obtain ⟨k', s'⟩ := x
      simp only [beqS, Bool.and_eq_true, beq_iff_eq]
      intro h
      rw [h.1.1, beqSl_eq s s' h.1.2, beqS_eq r r' h.2]
theorem beqY_eq : ∀ a b : List (Nat × Slot Val), beqY a b = true → a = b
  | [], b => by cases b <;> simp [beqY]
  | (k, s) :: r, b => by
    cases b with
    | nil => simp [beqY]
    | cons x r' =>
      obtain ⟨k', s'⟩ := x
      simp only [beqY, Bool.and_eq_true, beq_iff_eq]
      intro h
      rw [h.1.1, beqSl_eq s s' h.1.2, beqY_eq r r' h.2]
theorem beqSl_eq : ∀ a b : Slot Val, beqSl a b = true → a = b
  | .data v, b => by
    cases b with
    | data v' => simp only [beqSl]; intro h; rw [Val.beq_eq v v' h]
    | acc _ _ => simp [beqSl]
  | .acc g s, b => by cases b <;> simp [beqSl]
end

mutual
theorem Val.beq_refl : ∀ a : Val, Val.beq a a = true
  | .undef => by simp [Val.beq]
  | .null => by simp [Val.beq]
  | .num a => by simp [Val.beq]
  | .str a => by simp [Val.beq]
  | .sym a => by simp [Val.beq]
  | .obj a => by simp [Val.beq]
  | .rcd p ss ys => by simp [Val.beq, Val.beq_refl p, beqS_refl ss, beqY_refl ys]
theorem beqS_refl : ∀ a : List (String × Slot Val), beqS a a = true
  | [] => by simp [beqS]
  | (k, s) :: r => by simp [beqS, beqSl_refl s, beqS_refl r]
theorem beqY_refl : ∀ a : List (Nat × Slot Val), beqY a a = true
  | [] => by simp [beqY]
  | (k, s) :: r => by simp [beqY, beqSl_refl s, beqY_refl r]
theorem beqSl_refl : ∀ a : Slot Val, beqSl a a = true
  | .data v => by simp [beqSl, Val.beq_refl v]
  | .acc g s => by simp [beqSl]
end

instance : DecidableEq Val := fun a b =>
  if h : Val.beq a b = true then isTrue (Val.beq_eq a b h)
  else isFalse (fun e => h (e ▸ Val.beq_refl a))

instance : DecidableEq (Slot Val) := fun a b =>
  if h : beqSl a b = true then isTrue (beqSl_eq a b h)
  else isFalse (fun e => h (e ▸ beqSl_refl a))

def Val.nullish : Val → Bool
  | .undef => true
  | .null => true
  | _ => false

/-- Type(v) is Object -/
def Val.isObject : Val → Bool
  | .obj _ => true
  | .rcd _ _ _ => true
  | _ => false

/-- a property key: a string or a symbol -/
inductive Key where
  | str (s : String)
  | sym (id : Nat)
deriving DecidableEq, Repr

def Key.toVal : Key → Val
  | .str s => .str s
  | .sym j => .sym j

inductive Hint where
  | string
  | default
deriving DecidableEq, Repr

/-- the situations the model does not follow any further (each one is a recorded finding about the lowering;
see Props/C05ObjRest.lean); only reported when the evaluators run with `guard = true` -/
inductive Hz where
  | objectKey          -- a computed key of a pattern that ends with a rest element is an object
  | protoKey           -- the object a rest element copies from has an own enumerable key "__proto__"
  | nullRest           -- a pattern consisting of a rest element only is matched against undefined / null
  | keyReread          -- a variable used as computed key of a pattern with rest has another value when the rest is taken
  | protoAfterSpread   -- `__proto__: v` with v an object or null after a spread in an object literal
  | accessorSplit      -- a getter (setter) after a spread completes a setter (getter) defined before that spread
deriving DecidableEq, Repr

inductive Exc where
  | typeError          -- thrown by the language itself
  | host (v : Val)     -- thrown by the world (a function, a getter, toString …)
  | outside (z : Hz)   -- see `Hz`
  | illFormed          -- a runtime helper applied to something the lowering never passes: unreachable
deriving DecidableEq, Repr

inductive Ev where
  | call (f : Nat) (arg : Val)          -- probe function f(arg)
  | get (o : Nat) (k : Key)             -- [[Get]] on an object of the world
  | getter (g : Nat) (this : Val)       -- the getter number g (defined in a literal of the program) is called
  | toPrim (hint : Hint) (o : Val)      -- ToPrimitive of an object
deriving DecidableEq, Repr

abbrev Trace := List Ev
abbrev Env := Nat → Val

inductive HRes where
  | ret (v : Val)
  | throw (v : Val)
deriving DecidableEq, Repr

structure World where
  /-- answer to an event given the events so far and the user's variables; also the user's variables afterwards -/
  host : Ev → Trace → Env → HRes × Env
  /-- own string keys of an object of the world, in [[OwnPropertyKeys]] order, after the given history -/
  strKeys : Nat → Trace → List String
  /-- own symbol keys -/
  symKeys : Nat → Trace → List Nat
  /-- [[Enumerable]] of an own property -/
  enumerable : Nat → Key → Trace → Bool

structure H where
  tr : Trace
  env : Env

/-- result of a step: a value of type α or an exception -/
inductive R (α : Type) where
  | ok (a : α)
  | err (x : Exc)
deriving Repr

abbrev Res := R Val

instance {α : Type} [DecidableEq α] : DecidableEq (R α) := fun a b =>
  match a, b with
  | .ok x, .ok y => if h : x = y then isTrue (h ▸ rfl) else isFalse (fun e => h (by cases e; rfl))
  | .err x, .err y => if h : x = y then isTrue (h ▸ rfl) else isFalse (fun e => h (by cases e; rfl))
  | .ok _, .err _ => isFalse (fun e => by cases e)
  | .err _, .ok _ => isFalse (fun e => by cases e)

/-- sequencing: stop at the first exception -/
def bindR {α β σ : Type} (r : R α × σ) (f : α → σ → R β × σ) : R β × σ :=
  match r with
  | (.err x, s) => (.err x, s)
  | (.ok v, s) => f v s

def upd (f : Nat → Val) (k : Nat) (v : Val) : Nat → Val := fun j => if j = k then v else f j

def doEv (w : World) (ev : Ev) (h : H) : Res × H :=
  match w.host ev h.tr h.env with
  | (.ret v, env') => (.ok v, ⟨h.tr ++ [ev], env'⟩)
  | (.throw v, env') => (.err (.host v), ⟨h.tr ++ [ev], env'⟩)

-- ---------------------------------------------------------------- ordered property lists

/-- the slot stored under a key -/
def alGet {κ σ : Type} [DecidableEq κ] : List (κ × σ) → κ → Option σ
  | [], _ => none
  | (k', s) :: r, k => if k' = k then some s else alGet r k

/-- store a slot under a key: an existing key keeps its position, a new key goes to the end -/
def alSet {κ σ : Type} [DecidableEq κ] : List (κ × σ) → κ → σ → List (κ × σ)
  | [], k, s => [(k, s)]
  | (k', s') :: r, k, s => if k' = k then (k, s) :: r else (k', s') :: alSet r k s

/-- an object made by the program (the contents of `Val.rcd`) -/
structure Rec where
  proto : Val
  strs : List (String × Slot Val)
  syms : List (Nat × Slot Val)
deriving Repr, DecidableEq

def Rec.toVal (r : Rec) : Val := .rcd r.proto r.strs r.syms

def Val.asRec : Val → Option Rec
  | .rcd p ss ys => some ⟨p, ss, ys⟩
  | _ => none

/-- OrdinaryObjectCreate(%Object.prototype%) -/
def Rec.empty : Rec := ⟨.undef, [], []⟩

def Rec.get (r : Rec) : Key → Option (Slot Val)
  | .str s => alGet r.strs s
  | .sym j => alGet r.syms j

/-- [[DefineOwnProperty]] with a complete descriptor on an extensible object whose properties are all
configurable: the property is created (at the end of its class) or replaced (in place) -/
def Rec.define (r : Rec) (k : Key) (sl : Slot Val) : Rec :=
  match k with
  | .str s => { r with strs := alSet r.strs s sl }
  | .sym j => { r with syms := alSet r.syms j sl }

/-- CreateDataPropertyOrThrow(obj, k, v) on such an object -/
def Rec.createData (r : Rec) (k : Key) (v : Val) : Rec := r.define k (.data v)

/-- `get k() {…}` in an object literal: DefinePropertyOrThrow with { [[Get]], [[Enumerable]]: true,
[[Configurable]]: true }; the [[Set]] of an existing accessor property is kept because the descriptor has no
[[Set]] field -/
def Rec.defGetter (r : Rec) (k : Key) (g : Nat) : Rec :=
  match r.get k with
  | some (.acc _ s) => r.define k (.acc (some g) s)
  | _ => r.define k (.acc (some g) none)

def Rec.defSetter (r : Rec) (k : Key) (f : Nat) : Rec :=
  match r.get k with
  | some (.acc g _) => r.define k (.acc g (some f))
  | _ => r.define k (.acc none (some f))

/-- the own properties of ToObject(v) that can be enumerated without asking the world, in
[[OwnPropertyKeys]] order: string-keyed ones … -/
def Val.strEntries : Val → List (Key × Slot Val)
  | .rcd _ ss _ => ss.map fun p => (.str p.1, p.2)
  | .str s => (List.range s.length).map fun i => (.str (toString i), .data (.str (String.singleton (s.toList.getD i ' '))))
  | _ => []

/-- … and symbol-keyed ones -/
def Val.symEntries : Val → List (Key × Slot Val)
  | .rcd _ _ ys => ys.map fun p => (.sym p.1, p.2)
  | _ => []

def Val.entries (v : Val) : List (Key × Slot Val) := v.strEntries ++ v.symEntries

-- ---------------------------------------------------------------- conversions

/-- where the prototype chain of an object made by the program ends: `.undef` (%Object.prototype%), `.null`, or
an object of the world -/
def Val.chainEnd : Val → Val
  | .rcd p _ _ => p.chainEnd
  | v => v

/-- ToPrimitive.  An object of the world: an event (its Symbol.toPrimitive / toString / valueOf run; a result
that is again an object is a TypeError).  An object made by the program has no conversion methods of its own
(ASSUMPTION: its keys are not names of properties of %Object.prototype%), so what happens depends on where its
prototype chain ends: %Object.prototype%: "[object Object]"; null: TypeError; an object of the world: that
object's methods are found, an event.  Anything else is a primitive already. -/
def toPrim (w : World) (hint : Hint) (v : Val) (h : H) : Res × H :=
  let ev := bindR (doEv w (.toPrim hint v) h) fun p h1 => if p.isObject then (.err .typeError, h1) else (.ok p, h1)
  match v with
  | .obj _ => ev
  | .rcd p _ _ =>
    match p.chainEnd with
    | .null => (.err .typeError, h)
    | .obj _ => ev
    | _ => (.ok (.str "[object Object]"), h)
  | v => (.ok v, h)

/-- ToString of a primitive that is not a symbol -/
def primStr : Val → String
  | .undef => "undefined"
  | .null => "null"
  | .num n => toString n
  | .str s => s
  | _ => ""

/-- ToPropertyKey of a primitive -/
def primKey : Val → Key
  | .sym j => .sym j
  | v => .str (primStr v)

/-- ToPropertyKey: ToPrimitive with hint string, then a symbol stays, anything else goes through ToString -/
def toPropertyKey (w : World) (v : Val) (h : H) : R Key × H :=
  bindR (toPrim w .string v h) fun p h1 => (.ok (primKey p), h1)

-- ---------------------------------------------------------------- reading properties

/-- the value of a property found on `this` or on its prototype chain -/
def slotGet (w : World) (this : Val) (sl : Slot Val) (h : H) : Res × H :=
  match sl with
  | .data v => (.ok v, h)
  | .acc (some g) _ => doEv w (.getter g this) h
  | .acc none _ => (.ok .undef, h)

/-- O.[[Get]](k, receiver) for an ordinary object: own property, else the prototype.  ASSUMPTION: the keys
used are not names of properties of %Object.prototype% (the end of the chain answers undefined). -/
def getFrom (w : World) (recv : Val) : Val → Key → H → Res × H
  | .rcd p ss ys, k, h =>
    match (Rec.mk p ss ys).get k with
    | some sl => slotGet w recv sl h
    | none => getFrom w recv p k h
  | .obj o, k, h => doEv w (.get o k) h
  | _, _, h => (.ok .undef, h)

/-- a String value: "length" and the characters -/
def strGet (s : String) : Key → Val
  | .str ks =>
    if ks = "length" then .num s.length
    else match ks.toNat? with
      | some i => if toString i = ks ∧ i < s.length then .str (String.singleton (s.toList.getD i ' ')) else .undef
      | none => .undef
  | .sym _ => .undef

/-- GetV(v, k); ASSUMPTION: not the name of a property of a built-in prototype -/
def getV (w : World) (v : Val) (k : Key) (h : H) : Res × H :=
  match v with
  | .undef => (.err .typeError, h)
  | .null => (.err .typeError, h)
  | .str s => (.ok (strGet s k), h)
  | .num _ => (.ok .undef, h)
  | .sym _ => (.ok .undef, h)
  | v => getFrom w v v k h

-- ---------------------------------------------------------------- CopyDataProperties

/-- the world object has the own property now -/
def isOwn (w : World) (o : Nat) (k : Key) (tr : Trace) : Bool :=
  match k with
  | .str s => (w.strKeys o tr).contains s
  | .sym j => (w.symKeys o tr).contains j

/-- … and it is enumerable -/
def ownEnum (w : World) (o : Nat) (k : Key) (tr : Trace) : Bool :=
  isOwn w o k tr && w.enumerable o k tr

/-- copy from an object whose properties are known: for every entry that is not skipped, read the value
(a getter may run) and put it on the target -/
def copyEntries (w : World) (this : Val) (skip : Key → Bool) (stop : Key → Option Hz) (put : Rec → Key → Val → Rec) :
    List (Key × Slot Val) → Rec → H → R Rec × H
  | [], t, h => (.ok t, h)
  | (k, sl) :: r, t, h =>
    if skip k then copyEntries w this skip stop put r t h
    else match stop k with
      | some z => (.err (.outside z), h)
      | none => bindR (slotGet w this sl h) fun v h1 => copyEntries w this skip stop put r (put t k v) h1

/-- copy from an object of the world: the list of keys was taken before; whether a key is copied is decided when
its turn comes -/
def copyWorld (w : World) (o : Nat) (guard : Key → Trace → Bool) (stop : Key → Option Hz) (put : Rec → Key → Val → Rec) :
    List Key → Rec → H → R Rec × H
  | [], t, h => (.ok t, h)
  | k :: r, t, h =>
    if guard k h.tr then
      match stop k with
      | some z => (.err (.outside z), h)
      | none => bindR (doEv w (.get o k) h) fun v h1 => copyWorld w o guard stop put r (put t k v) h1
    else copyWorld w o guard stop put r t h

/-- CopyDataProperties(target, source, excluded): nothing for undefined and null; keys = from.[[OwnPropertyKeys]]();
for each key that is not excluded: desc = from.[[GetOwnProperty]](key); if desc is not undefined and enumerable:
Get(from, key), CreateDataPropertyOrThrow(target, key, value).  With `guard` and `forRest` the model stops at an
own enumerable "__proto__" (`Hz.protoKey`). -/
def copyDataProps (w : World) (guard forRest : Bool) (src : Val) (excl : List Key) (t : Rec) (h : H) : R Rec × H :=
  let stop : Key → Option Hz := fun k => if guard && forRest && k == .str "__proto__" then some .protoKey else none
  match src with
  | .obj o =>
    copyWorld w o (fun k tr => !excl.contains k && ownEnum w o k tr) stop Rec.createData
      ((w.strKeys o h.tr).map .str ++ (w.symKeys o h.tr).map .sym) t h
  | v => copyEntries w v (fun k => excl.contains k) stop Rec.createData v.entries t h

/-- property reads (getters of objects of the world) neither add, remove nor reconfigure properties of objects
of the world.  The helpers esbuild's output uses look at the keys at other moments than the language does
(symbol keys are listed after the string-keyed getters ran; for-in checks enumerability when the loop starts,
the language when the key's turn comes), so this is needed. -/
def Quiet (w : World) : Prop :=
  ∀ (o : Nat) (tr : Trace) (o' : Nat) (k : Key),
    w.strKeys o (tr ++ [.get o' k]) = w.strKeys o tr ∧ w.symKeys o (tr ++ [.get o' k]) = w.symKeys o tr ∧
    ∀ key, w.enumerable o key (tr ++ [.get o' k]) = w.enumerable o key tr

end EsbuildModel.Lower3
