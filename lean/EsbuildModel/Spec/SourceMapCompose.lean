/-
Source maps as partial functions, and their composition. Written from what a source map MEANS to its consumers
(ECMA-426 and the lookup rule of Mozilla's `source-map` library, `originalPositionFor` with the default
`GREATEST_LOWER_BOUND` bias), not from esbuild's code.

A map is a list of entries ordered by generated position. Looking up a generated position (line, column) answers
the LAST entry of the list whose generated position is at or before the queried one — provided that entry lies on
the queried line (a mapping never extends over a line break); otherwise the position is unmapped.

If a file was produced by tool A (map `a`: intermediate → original) and is then processed by tool B
(map `b`: final → intermediate), the composed map sends a final position to where `a` sends the intermediate
position that `b` gives: every entry of `b` whose target is mapped by `a` yields one entry; entries whose target
`a` does not map disappear (the position becomes unmapped). The name of a composed entry is the original name if
`a` knows one, else the name `b` recorded.
-/
namespace EsbuildModel.Spec.SourceMapCompose

/-- one entry: generated position → source (an index or a name, `σ`), original position, optional name (`ν`) -/
structure Entry (σ ν : Type) where
  gline : Int
  gcol : Int
  source : σ
  oline : Int
  ocol : Int
  name : Option ν
deriving DecidableEq, Repr

/-- position (l1, c1) is at or before (l2, c2) -/
def posLE (l1 c1 l2 c2 : Int) : Bool := decide (l1 < l2) || (decide (l1 = l2) && decide (c1 ≤ c2))

/-- the last entry of the list at or before (line, col) -/
def lastLE {σ ν : Type} (line col : Int) : List (Entry σ ν) → Option (Entry σ ν)
  | [] => none
  | e :: rest =>
    match lastLE line col rest with
    | some e' => some e'
    | none => if posLE e.gline e.gcol line col then some e else none

/-- the meaning of a map as a partial function on generated positions -/
def lookup {σ ν : Type} (m : List (Entry σ ν)) (line col : Int) : Option (Entry σ ν) :=
  match lastLE line col m with
  | some e => if e.gline = line then some e else none
  | none => none

/-- an entry of the second tool: final position → position in the intermediate file, optional name -/
structure Step (ν : Type) where
  gline : Int
  gcol : Int
  iline : Int
  icol : Int
  name : Option ν
deriving DecidableEq, Repr

/-- composition: `b` after `a` -/
def compose {σ ν : Type} (b : List (Step ν)) (a : List (Entry σ ν)) : List (Entry σ ν) :=
  b.filterMap fun s =>
    (lookup a s.iline s.icol).map fun e =>
      { gline := s.gline, gcol := s.gcol, source := e.source, oline := e.oline, ocol := e.ocol,
        name := match e.name with
          | some n => some n
          | none => s.name }

end EsbuildModel.Spec.SourceMapCompose
