/-!
# SPEC: how a version is SPELLED in `--target=` / `engines` (written from esbuild's documentation, not from its code)

"All version numbers passed to esbuild must be in the format X, X.Y, or X.Y.Z where X, Y, and Z are non-negative
integers", optionally followed by a semver pre-release tag: a hyphen and dot-separated identifiers made of ASCII
alphanumerics (semver.org §9, without the hyphen inside identifiers, which esbuild's documentation does not allow).
-/
namespace EsbuildModel.Spec.TargetText

abbrev Text := List Char

def joinDot : List Text → Text
  | [] => []
  | [a] => a
  | a :: b :: r => a ++ '.' :: joinDot (b :: r)

/-- a non-empty string of ASCII digits -/
def Digits (d : Text) : Prop := d ≠ [] ∧ ∀ c ∈ d, c.isDigit = true

/-- `-id.id.id` -/
def PreTag (p : Text) : Prop :=
  ∃ ids : List Text, ids ≠ [] ∧ (∀ i ∈ ids, i ≠ [] ∧ ∀ c ∈ i, c.isAlphanum = true) ∧ p = '-' :: joinDot ids

/-- the spelling of a version: 1–3 digit strings and an optional pre-release tag -/
structure Spelling where
  x : Text
  y : Option Text
  z : Option Text
  pre : Option Text

def Spelling.WellFormed (s : Spelling) : Prop :=
  Digits s.x ∧ (∀ y, s.y = some y → Digits y) ∧ (∀ z, s.z = some z → Digits z ∧ s.y ≠ none) ∧ (∀ p, s.pre = some p → PreTag p)

def dotted : Option Text → Text
  | none => []
  | some d => '.' :: d

def Spelling.text (s : Spelling) : Text := s.x ++ dotted s.y ++ dotted s.z ++ s.pre.getD []

/-- the decimal value of a digit string -/
def value (d : Text) : Nat := d.foldl (fun a c => a * 10 + (c.toNat - '0'.toNat)) 0

end EsbuildModel.Spec.TargetText
