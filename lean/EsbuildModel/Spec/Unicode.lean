/-
The Unicode encoding forms UTF-8 and UTF-16 for scalar values, transcribed from The Unicode Standard, chapter 3
(D76 scalar value, Table 3-5 UTF-16 bit distribution, Table 3-6 UTF-8 bit distribution), written with division and
remainder instead of bit patterns and without looking at esbuild's or Go's code.
-/
namespace EsbuildModel.Spec.Unicode

/-- D76: any code point except the surrogate code points -/
def IsScalar (cp : Nat) : Prop := cp ≤ 0x10FFFF ∧ ¬ (0xD800 ≤ cp ∧ cp ≤ 0xDFFF)

instance (cp : Nat) : Decidable (IsScalar cp) := by unfold IsScalar; exact inferInstance

/-- Table 3-6 (the same bit distribution applied to a surrogate code point is WTF-8's "generalized UTF-8") -/
def utf8 (cp : Nat) : List Nat :=
  if cp ≤ 0x7F then [cp]
  else if cp ≤ 0x7FF then [0xC0 + cp / 64, 0x80 + cp % 64]
  else if cp ≤ 0xFFFF then [0xE0 + cp / 4096, 0x80 + cp / 64 % 64, 0x80 + cp % 64]
  else [0xF0 + cp / 262144, 0x80 + cp / 4096 % 64, 0x80 + cp / 64 % 64, 0x80 + cp % 64]

/-- Table 3-5 -/
def utf16 (cp : Nat) : List Nat :=
  if cp ≤ 0xFFFF then [cp] else [0xD800 + (cp - 0x10000) / 1024, 0xDC00 + (cp - 0x10000) % 1024]

end EsbuildModel.Spec.Unicode
