/-
Specification (written from CSS Cascading and Inheritance Level 5, not from esbuild's code):

* §2 "Importing Style Sheets: the @import rule": an `@import` rule stands for the rules of the imported style
  sheet inserted at that point ("as if its contents were written there"); a style sheet imported several times
  is inserted several times.  `@import url layer(L) supports(S) media;` wraps the contents like
  `@media media { @supports S { @layer L { … } } }` (§2.1 conditional imports; the layer is only declared when the
  enclosing conditions hold, §6.4.3 / §6.4.4.1); `layer` without a name is a fresh anonymous layer.
* §6.1 cascade sorting order, restricted to one origin (author) and no transitions/animations: importance
  (important beats normal), then cascade layers, then specificity, then order of appearance (last wins).
* §6.4 cascade layers: layers are ordered by the order in which they are first declared; nested layers are grouped
  within their parent and come BEFORE the parent's own unlayered-in-that-layer rules; rules outside any layer form
  the implicit last layer.  For normal declarations the LAST layer wins, for important declarations the order of
  layers is reversed (§6.4.2: "the layer order is inverted for important rules").
* The specification says nothing about import cycles; browsers ignore an `@import` of a style sheet that is already
  in its own import chain (WebKit `StyleRuleImport::requestStyleSheet`), which is what `unfold` does.

The first part of the file is the SYNTAX of the inputs (files with top-level `@import` rules with conditions,
`@layer` statements and style rules), shared with the model `Impl/CssImport.lean`.
-/
namespace EsbuildModel.Spec.CssCascade

-- ------------------------------------------------------------------ syntax

/-- a layer name `a.b.c` -/
abbrev LayerName := List String

/-- the `layer` / `layer(a.b)` keyword of an `@import` rule -/
inductive LayerTok
  | anon
  | named (n : LayerName)
  deriving DecidableEq, Repr

/-- the conditions of one `@import` rule; media query lists and supports conditions are abstract identifiers -/
structure Cond where
  layer : Option LayerTok
  supports : Option Nat
  media : Option Nat
  deriving DecidableEq, Repr

inductive Target
  | file (i : Nat)
  | ext (p : Nat)       -- a URL that is not part of the bundle
  deriving DecidableEq, Repr

/-- one top-level `@import`; `cond = none`: no condition at all -/
structure Import where
  target : Target
  cond : Option Cond
  deriving DecidableEq, Repr

/-- the statements of a file after its `@import` rules -/
inductive Stmt
  | layers (names : List LayerName)     -- `@layer a, b.c;`
  | rule (id : Nat) (own : LayerName)   -- style rule number `id`; inside `@layer own { … }` when `own ≠ []`
  deriving DecidableEq, Repr

/-- a style sheet: `@layer` statements, then `@import` rules, then everything else
(CSS ignores `@import` rules that come after any other rule) -/
structure File where
  pre : List LayerName
  imports : List Import
  body : List Stmt
  deriving DecidableEq, Repr

abbrev Graph := List File

-- ------------------------------------------------------------------ flattened style sheets

/-- a segment of a layer path; an anonymous layer is identified by the place that created it -/
inductive Seg
  | named (s : String)
  | anon (id : List Nat)
  deriving DecidableEq, Repr

/-- `[]`: outside every layer -/
abbrev Layer := List Seg

inductive Atom
  | media (q : Nat)
  | supports (s : Nat)
  deriving DecidableEq, Repr

/-- which media queries / supports conditions are true for the user agent -/
structure Env where
  media : Nat → Bool
  supports : Nat → Bool

def Atom.holds (env : Env) : Atom → Bool
  | .media q => env.media q
  | .supports s => env.supports s

/-- one declaration of a style rule (a rule with several declarations is several of these) -/
structure Decl where
  sel : Nat          -- the selector, opaque
  prop : Nat
  value : Nat
  important : Bool
  deriving DecidableEq, Repr

inductive Item
  | declare (conds : List Atom) (l : Layer)           -- `@layer l;` or the opening of `@layer l {`
  | rule (conds : List Atom) (l : Layer) (d : Decl)
  deriving DecidableEq, Repr

def Item.conds : Item → List Atom
  | .declare cs _ => cs
  | .rule cs _ _ => cs

def Item.active (env : Env) (it : Item) : Bool := it.conds.all (Atom.holds env)

/-- put an item inside `@media`/`@supports` conditions and a layer -/
def Item.under (atoms : List Atom) (l : Layer) : Item → Item
  | .declare cs l' => .declare (atoms ++ cs) (l ++ l')
  | .rule cs l' d => .rule (atoms ++ cs) (l ++ l') d

-- ------------------------------------------------------------------ layer order

/-- the non-empty prefixes of a layer path, shortest first: declaring `a.b` declares `a`, then `a.b` -/
def prefixes : Layer → List Layer
  | [] => []
  | s :: l => [s] :: (prefixes l).map (s :: ·)

def addLayer (acc : List Layer) (l : Layer) : List Layer := if l ∈ acc then acc else acc ++ [l]

/-- the list of declared layers after one more declaration -/
def addLayers (acc : List Layer) (l : Layer) : List Layer := (prefixes l).foldl addLayer acc

/-- the layers an item declares in this environment -/
def Item.declares (env : Env) : Item → Option Layer
  | .declare cs l => if cs.all (Atom.holds env) then some l else none
  | .rule _ _ _ => none

/-- layers in order of first declaration, starting from `acc` -/
def layerOrderFrom (env : Env) (acc : List Layer) (items : List Item) : List Layer :=
  (items.filterMap (Item.declares env)).foldl addLayers acc

def layerOrder (env : Env) (items : List Item) : List Layer := layerOrderFrom env [] items

/-- position of every ancestor-or-self among the declared layers -/
def layerKey (order : List Layer) (l : Layer) : List Nat := (prefixes l).map (order.idxOf ·)

/-- `keyLe k₁ k₂`: for NORMAL declarations a layer with key `k₁` is at most as strong as one with key `k₂`.
Siblings: later declared is stronger; a layer's own rules (the key ends) are stronger than all its sub-layers. -/
def keyLe : List Nat → List Nat → Bool
  | _, [] => true
  | [], _ :: _ => false
  | a :: as, b :: bs => a < b || (a == b && keyLe as bs)

-- ------------------------------------------------------------------ the cascade for one element and one property

/-- a declaration that applies: what the sorting looks at, and its value -/
structure Cand where
  important : Bool
  key : List Nat
  spec : Nat
  value : Nat
  deriving DecidableEq, Repr

/-- `c₁.le c₂`: `c₂` wins against `c₁` when it comes later (importance, layers, specificity) -/
def Cand.le (c₁ c₂ : Cand) : Bool :=
  if c₁.important != c₂.important then c₂.important
  else if c₁.key == c₂.key then c₁.spec ≤ c₂.spec
  else if c₁.important then keyLe c₂.key c₁.key else keyLe c₁.key c₂.key

def pick (best : Option Cand) (c : Cand) : Option Cand :=
  match best with
  | none => some c
  | some b => if b.le c then some c else some b

/-- the last of the strongest candidates -/
def best (cs : List Cand) : Option Cand := cs.foldl pick none

/-- `matcher sel = some specificity` when selector `sel` matches the element -/
abbrev Matcher := Nat → Option Nat

def Item.cand (env : Env) (m : Matcher) (prop : Nat) (order : List Layer) : Item → Option Cand
  | .declare _ _ => none
  | .rule cs l d =>
    if cs.all (Atom.holds env) ∧ d.prop = prop then
      match m d.sel with
      | some spec => some ⟨d.important, layerKey order l, spec, d.value⟩
      | none => none
    else none

def cands (env : Env) (m : Matcher) (prop : Nat) (order : List Layer) (items : List Item) : List Cand :=
  items.filterMap (Item.cand env m prop order)

/-- the cascaded value of property `prop` for the element described by `m` (`none`: no declaration applies) -/
def winner (env : Env) (m : Matcher) (prop : Nat) (items : List Item) : Option Nat :=
  (best (cands env m prop (layerOrder env items) items)).map (·.value)

/-- two style sheets are the same for the cascade -/
def SameCascade (a b : List Item) : Prop := ∀ env m prop, winner env m prop a = winner env m prop b

-- ------------------------------------------------------------------ @import

def condAtoms (c : Cond) : List Atom :=
  (match c.media with | some q => [Atom.media q] | none => []) ++
  (match c.supports with | some s => [Atom.supports s] | none => [])

/-- the layer an import condition puts the contents in; `id` names this place (for `layer` without a name) -/
def condLayer (c : Cond) (id : List Nat) : Layer :=
  match c.layer with
  | none => []
  | some .anon => [Seg.anon id]
  | some (.named n) => n.map Seg.named

/-- `@media … { @supports … { @layer … { items } } }` -/
def wrap (c : Cond) (id : List Nat) (items : List Item) : List Item :=
  (if condLayer c id = [] then [] else [Item.declare (condAtoms c) (condLayer c id)]) ++
  items.map (Item.under (condAtoms c) (condLayer c id))

/-- the items of the statements after the imports -/
def stmtItems (decl : Nat → Decl) : Stmt → List Item
  | .layers ns => ns.map (fun n => Item.declare [] (n.map Seg.named))
  | .rule id own =>
    (if own = [] then [] else [Item.declare [] (own.map Seg.named)]) ++ [Item.rule [] (own.map Seg.named) (decl id)]

/-- an import tree: a style sheet whose `@import` rules carry the imported sheet -/
inductive Sheet
  | nil
  | layers (names : List LayerName) (rest : Sheet)
  | stmt (s : Stmt) (rest : Sheet)
  | import (c : Option Cond) (sub : Sheet) (rest : Sheet)
  | external (c : Option Cond) (p : Nat) (rest : Sheet)

def wrapOpt (c : Option Cond) (id : List Nat) (items : List Item) : List Item :=
  match c with
  | none => items
  | some c => wrap c id items

/-- §2: the imported rules are inserted at the place of the `@import`.
`ext p`: the (already flattened) contents of external style sheet `p`; `here`/`k`: where we are, for anonymous layers -/
def flatten (decl : Nat → Decl) (ext : Nat → List Item) : List Nat → Nat → Sheet → List Item
  | _, _, .nil => []
  | h, k, .layers ns rest => ns.map (fun n => Item.declare [] (n.map Seg.named)) ++ flatten decl ext h (k + 1) rest
  | h, k, .stmt s rest => stmtItems decl s ++ flatten decl ext h (k + 1) rest
  | h, k, .import c sub rest =>
    wrapOpt c (h ++ [k]) (flatten decl ext (h ++ [k]) 0 sub) ++ flatten decl ext h (k + 1) rest
  | h, k, .external c p rest => wrapOpt c (h ++ [k]) (ext p) ++ flatten decl ext h (k + 1) rest

def bodySheet : List Stmt → Sheet
  | [] => .nil
  | s :: rest => .stmt s (bodySheet rest)

/-- the `@import` rules of one file; `sub j`: the tree of file `j`, `none` when `j` is already in the import chain -/
def importsSheet (sub : Nat → Option Sheet) : List Import → Sheet → Sheet
  | [], rest => rest
  | im :: ims, rest =>
    match im.target with
    | .file j =>
      match sub j with
      | some s => .import im.cond s (importsSheet sub ims rest)
      | none => importsSheet sub ims rest
    | .ext p => .external im.cond p (importsSheet sub ims rest)

/-- the import tree a browser loads for file `src` reached through the import chain `chain` -/
def unfold (g : Graph) : Nat → List Nat → Nat → Sheet
  | 0, _, _ => .nil
  | fuel + 1, chain, src =>
    match g[src]? with
    | none => .nil
    | some f =>
      .layers f.pre (importsSheet
        (fun j => if (chain ++ [src]).contains j then none else some (unfold g fuel (chain ++ [src]) j))
        f.imports (bodySheet f.body))

end EsbuildModel.Spec.CssCascade
