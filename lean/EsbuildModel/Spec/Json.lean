import EsbuildModel.Spec.JsNumericLiteral
import EsbuildModel.Spec.Unicode
import EsbuildModel.Util.F64Arith
/-
Independent specification of JSON texts and their values, written from RFC 8259 / ECMA-404 (the json.org "McKeeman
form", which fixes where white space goes: `element = ws value ws`) and ECMA-262 §25.5.1 `JSON.parse`, not from
esbuild's code.

    json      = element
    value     = object | array | string | number | "true" | "false" | "null"
    object    = '{' ws '}' | '{' members '}'          members  = member | member ',' members
    member    = ws string ws ':' element
    array     = '[' ws ']' | '[' elements ']'         elements = element | element ',' elements
    element   = ws value ws
    string    = '"' characters '"'
    character = '0020' . '10FFFF' - '"' - '\' | '\' escape
    escape    = '"' | '\' | '/' | 'b' | 'f' | 'n' | 'r' | 't' | 'u' hex hex hex hex
    number    = integer fraction exponent              integer  = ['-'] (digit | onenine digits)
    fraction  = "" | '.' digits                        exponent = "" | ('E'|'e') ['+'|'-'] digits
    ws        = "" | ('0020' | '000A' | '000D' | '0009') ws

A text is a list of Unicode scalar values (`List Char`).  A derivation is a tree (`Doc`, `Val`, `Elems`, `Members`,
`SChar`, `JNum`, `Sep`): `render` is the text it derives, `ok d` says that it obeys the productions of dialect `d`,
`value` is what `JSON.parse` returns for it.  `rfc8259` is the dialect with every extension switched off — the
grammar above, nothing else.  The other switches exist to state EXACTLY which superset a lenient reader accepts:
extra white space code points, `//` and `/* */` comments, HTML-like comments (ECMA-262 Annex B.1.1: `<!--` and, at
the start of a line, `-->`), a trailing comma, an integer part `0` followed by digits starting with 8 or 9, the
escapes `\8` `\9`, and the JavaScript lexical forms of numbers (any ECMA-262 NumericLiteral that is not a BigInt,
with white space or comments after the minus sign) and of string escapes.

Values.  Numbers: the mathematical value of the decimal text (exact rational, `Spec.NumLit.Lit.mv`), rounded by a
function `R : Rat → F64` (IEEE-754 roundTiesToEven, the `𝔽` of ECMA-262 — a parameter, as in `Props/C01LexNum`), negated
when the text starts with `-` (so `-0` is −0).  Strings: UTF-16 code units; a `\uXXXX` escape is the code unit XXXX
(surrogate halves are kept as they are).  Objects: own properties in creation order; a later duplicate key replaces
the VALUE of the earlier property (CreateDataProperty), `__proto__` is an ordinary key.
-/
namespace EsbuildModel.Spec.Json
open EsbuildModel.Spec

/-! ## values -/

inductive JsVal where
  | null
  | bool (b : Bool)
  | num (v : F64)
  | str (u : List Nat)
  | arr (items : List JsVal)
  /-- own enumerable data properties in creation order; `protoSet`: the [[Prototype]] is not %Object.prototype%
  (never the case for a value of `JSON.parse`) -/
  | obj (props : List (List Nat × JsVal)) (protoSet : Bool)
  deriving Repr

/-- CreateDataProperty on an ordinary object: an existing key keeps its place and gets the new value -/
def setProp (props : List (List Nat × JsVal)) (k : List Nat) (v : JsVal) : List (List Nat × JsVal) :=
  if props.any (fun p => p.1 == k) then props.map (fun p => if p.1 == k then (k, v) else p)
  else props ++ [(k, v)]

/-! ## dialects -/

structure Dialect where
  /-- white space code points besides U+0020, U+0009, U+000A, U+000D -/
  extraWs : Char → Bool
  lineComments : Bool
  blockComments : Bool
  htmlComments : Bool
  trailingCommas : Bool
  /-- integer part `0` `8|9` digits* -/
  leadingZero89 : Bool
  /-- `\8`, `\9` (the digit itself) -/
  escape89 : Bool
  /-- JavaScript NumericLiteral forms (hex, octal, binary, separators, `.5`, `5.`, legacy octal), white space and
  comments between `-` and the digits -/
  jsNumbers : Bool
  /-- JavaScript escapes `\v`, `\xHH`, `\u{…}`, octal, line continuations, identity escapes; raw control characters -/
  jsStrings : Bool

def rfc8259 : Dialect := ⟨fun _ => false, false, false, false, false, false, false, false, false⟩

/-! ## white space and comments -/

/-- ECMA-262 LineTerminator -/
def isLT (c : Char) : Bool := c == '\n' || c == '\r' || c.toNat == 0x2028 || c.toNat == 0x2029

def isRfcWs (c : Char) : Bool := c == ' ' || c == '\t' || c == '\n' || c == '\r'

inductive SepItem where
  | ws (c : Char)
  /-- `//` body -/
  | line (body : List Char)
  /-- `/*` body `*/` -/
  | block (body : List Char)
  /-- `<!--` body -/
  | htmlOpen (body : List Char)
  /-- `-->` body -/
  | htmlClose (body : List Char)
  deriving DecidableEq, Repr

abbrev Sep := List SepItem

def SepItem.render : SepItem → List Char
  | .ws c => [c]
  | .line b => '/' :: '/' :: b
  | .block b => '/' :: '*' :: (b ++ ['*', '/'])
  | .htmlOpen b => '<' :: '!' :: '-' :: '-' :: b
  | .htmlClose b => '-' :: '-' :: '>' :: b

def Sep.render (s : Sep) : List Char := s.flatMap SepItem.render

/-- the text contains `*/` -/
def hasStarSlash : List Char → Bool
  | a :: b :: t => (a == '*' && b == '/') || hasStarSlash (b :: t)
  | _ => false

/-- a single-line comment extends to the end of its line: the next item is a line terminator, or the comment is the
last thing of the whole text -/
def lineEndOk (final : Bool) : Sep → Bool
  | [] => final
  | .ws c :: _ => isLT c
  | _ => false

/-- `nl`: a line terminator has been seen since the previous token (or nothing precedes in the text);
`final`: this is the white space at the end of the text -/
def Sep.ok (d : Dialect) (final : Bool) : Bool → Sep → Bool
  | _, [] => true
  | nl, .ws c :: t => (isRfcWs c || d.extraWs c) && Sep.ok d final (nl || isLT c) t
  | nl, .line b :: t => d.lineComments && !b.any isLT && lineEndOk final t && Sep.ok d final nl t
  | nl, .block b :: t => d.blockComments && !hasStarSlash b && Sep.ok d final (nl || b.any isLT) t
  | nl, .htmlOpen b :: t => d.htmlComments && !b.any isLT && lineEndOk final t && Sep.ok d final nl t
  | nl, .htmlClose b :: t => d.htmlComments && nl && !b.any isLT && lineEndOk final t && Sep.ok d final nl t

/-! ## strings -/

def isHexDigit (c : Char) : Bool := (Num.hexVal? c).isSome
def hexD (c : Char) : Nat := (Num.hexVal? c).getD 0

inductive SChar where
  /-- an unescaped character -/
  | lit (c : Char)
  /-- `\` followed by one of `" \ / b f n r t` (and, in some dialects, other single characters) -/
  | esc (c : Char)
  /-- `\uXXXX` -/
  | u (a b c d : Char)
  /-- `\xHH` (JavaScript) -/
  | x (a b : Char)
  /-- `\u{H…}` (JavaScript) -/
  | ubrace (ds : List Char)
  /-- legacy octal escape `\d`, `\dd`, `\ddd` (JavaScript, sloppy mode) -/
  | oct (ds : List Char)
  /-- LineContinuation: `\` LineTerminatorSequence (JavaScript); contributes nothing -/
  | cont (lt : List Char)
  deriving DecidableEq, Repr

def SChar.render : SChar → List Char
  | .lit c => [c]
  | .esc c => ['\\', c]
  | .u a b c d => ['\\', 'u', a, b, c, d]
  | .x a b => ['\\', 'x', a, b]
  | .ubrace ds => '\\' :: 'u' :: '{' :: (ds ++ ['}'])
  | .oct ds => '\\' :: ds
  | .cont lt => '\\' :: lt

def hexMV (ds : List Char) : Nat := ds.foldl (fun a c => a * 16 + hexD c) 0
def octMV (ds : List Char) : Nat := ds.foldl (fun a c => a * 8 + (c.toNat - 48)) 0
def isOctDigit (c : Char) : Bool := 48 ≤ c.toNat && c.toNat ≤ 55

/-- the characters RFC 8259 allows after a backslash (besides `u`), with the code unit they stand for -/
def rfcEscape (c : Char) : Option Nat :=
  if c = '"' then some 0x22 else if c = '\\' then some 0x5C else if c = '/' then some 0x2F
  else if c = 'b' then some 8 else if c = 'f' then some 12 else if c = 'n' then some 10
  else if c = 'r' then some 13 else if c = 't' then some 9 else none

/-- the characters that start another production after a backslash in JavaScript (so `\c` is not an identity escape) -/
def jsEscapeLead (c : Char) : Bool :=
  c == 'u' || c == 'x' || c == 'v' || (48 ≤ c.toNat && c.toNat ≤ 57) || isLT c

/-- `lookahead`: the next character of the body (for the octal escapes, which take as many digits as they can) -/
def SChar.ok (d : Dialect) (next : Option Char) : SChar → Bool
  | .lit c =>
    c != '"' && c != '\\' && (if d.jsStrings then !(c == '\n' || c == '\r') else decide (c.toNat ≥ 0x20))
  | .esc c =>
    (rfcEscape c).isSome || (d.escape89 && (c == '8' || c == '9')) ||
    (d.jsStrings && (c == 'v' || c == '8' || c == '9' || !jsEscapeLead c))
  | .u a b c e => isHexDigit a && isHexDigit b && isHexDigit c && isHexDigit e
  | .x a b => d.jsStrings && isHexDigit a && isHexDigit b
  | .ubrace ds => d.jsStrings && !ds.isEmpty && ds.all isHexDigit && decide (hexMV ds ≤ 0x10FFFF)
  | .oct ds =>
    -- OctalDigit [lookahead ∉ OctalDigit] | ZeroToThree OctalDigit [lookahead ∉ OctalDigit] |
    -- FourToSeven OctalDigit | ZeroToThree OctalDigit OctalDigit
    d.jsStrings && ds.all isOctDigit &&
    (match ds with
     | [_] => !(next.map isOctDigit).getD false
     | [a, _] => decide (a.toNat ≥ 52) || !(next.map isOctDigit).getD false
     | [a, _, _] => decide (a.toNat ≤ 51)
     | _ => false)
  | .cont lt =>
    d.jsStrings && (lt = ['\n'] || lt = ['\r', '\n'] || lt = [Char.ofNat 0x2028] || lt = [Char.ofNat 0x2029] ||
      (lt = ['\r'] && next != some '\n'))

def SChar.units : SChar → List Nat
  | .lit c => Unicode.utf16 c.toNat
  | .esc c => [(rfcEscape c).getD (if c = 'v' then 11 else c.toNat)].flatMap Unicode.utf16
  | .u a b c d => [((hexD a * 16 + hexD b) * 16 + hexD c) * 16 + hexD d]
  | .x a b => [hexD a * 16 + hexD b]
  | .ubrace ds => Unicode.utf16 (hexMV ds)
  | .oct ds => [octMV ds]
  | .cont _ => []

def strRender (cs : List SChar) : List Char := cs.flatMap SChar.render
def strUnits (cs : List SChar) : List Nat := cs.flatMap SChar.units

/-- the first character of what follows item `i` in the body (`none` at the closing quote) -/
def strOk (d : Dialect) : List SChar → Bool
  | [] => true
  | c :: t => c.ok d ((strRender t).head?) && strOk d t

/-! ## numbers -/

/-- `number = ['-'] …`: the sign, what stands between the sign and the digits (nothing in RFC 8259), and the digits as
a derivation of an ECMA-262 NumericLiteral (`Lit.dec int frac exp` for the RFC forms) -/
structure JNum where
  neg : Bool
  gap : Sep
  lit : NumLit.Lit
  deriving Repr

def allDigits (l : List Char) : Bool := l.all Num.isDigit

/-- `integer` without the sign: `digit | onenine digits` -/
def rfcInt : List Char → Bool
  | [] => false
  | [c] => Num.isDigit c
  | c :: t => Num.isDigit c && c != '0' && allDigits t

/-- `0` `8|9` digits* -/
def zero89Int : List Char → Bool
  | a :: b :: t => a == '0' && (b == '8' || b == '9') && allDigits t
  | _ => false

/-- `fraction`: absent or `.` digits (at least one) -/
def rfcFrac : Option (List Char) → Bool
  | none => true
  | some f => !f.isEmpty && allDigits f

/-- `exponent`: absent or `e|E` sign? digits (at least one) -/
def rfcExp : Option NumLit.ExpS → Bool
  | none => true
  | some x => !x.digits.isEmpty && allDigits x.digits

/-- the digits of an RFC 8259 number (dialect switch `leadingZero89` aside) -/
def rfcLit (d : Dialect) : NumLit.Lit → Bool
  | .dec i f e => (rfcInt i || (d.leadingZero89 && zero89Int i)) && rfcFrac f && rfcExp e
  | _ => false

/-- a NumericLiteral whose integer part is `0` followed by an octal digit and more decimal digits (`0789`) cannot
carry a fraction or an exponent in one token for a reader that commits to "legacy octal" after `0` + octal digit;
`Props/C01LexNum` proves that this is the only NumericLiteral form esbuild's lexer does not take as one token -/
def legacyIntWithTail : NumLit.Lit → Bool
  | .dec (a :: b :: _) f e => a == '0' && isOctDigit b && (f.isSome || e.isSome)
  | _ => false

def JNum.ok (d : Dialect) (n : JNum) : Bool :=
  (rfcLit d n.lit && n.gap.isEmpty) ||
  (d.jsNumbers && n.lit.valid && !n.lit.isBig && !legacyIntWithTail n.lit && (n.gap.isEmpty || (n.neg && Sep.ok d false false n.gap)))

def JNum.render (n : JNum) : List Char :=
  (if n.neg then ['-'] else []) ++ (Sep.render n.gap ++ n.lit.render)

/-- 𝔽(MV), negated for a leading minus sign -/
def JNum.value (R : Rat → F64) (n : JNum) : F64 :=
  if n.neg then F64.neg (R n.lit.mv) else R n.lit.mv

/-! ## values, arrays, objects, texts -/

mutual
inductive Val where
  | null
  | tt
  | ff
  | num (n : JNum)
  | str (cs : List SChar)
  /-- `'[' ws ']'` -/
  | arr0 (s : Sep)
  /-- `'[' elements ']'` -/
  | arr (es : Elems)
  /-- `'{' ws '}'` -/
  | obj0 (s : Sep)
  /-- `'{' members '}'` -/
  | obj (ms : Members)
/-- `elements = element | element ',' elements`, `element = ws value ws`; `trailing = some s`: `,` s in front of the
closing bracket (dialect switch) -/
inductive Elems where
  | last (s1 : Sep) (v : Val) (s2 : Sep) (trailing : Option Sep)
  | cons (s1 : Sep) (v : Val) (s2 : Sep) (rest : Elems)
/-- `members = member | member ',' members`, `member = ws string ws ':' ws value ws` -/
inductive Members where
  | last (s1 : Sep) (k : List SChar) (s2 s3 : Sep) (v : Val) (s4 : Sep) (trailing : Option Sep)
  | cons (s1 : Sep) (k : List SChar) (s2 s3 : Sep) (v : Val) (s4 : Sep) (rest : Members)
end

def trailingRender : Option Sep → List Char
  | none => []
  | some s => ',' :: Sep.render s

def trailingOk (d : Dialect) : Option Sep → Bool
  | none => true
  | some s => d.trailingCommas && Sep.ok d false false s

def strTok (cs : List SChar) : List Char := '"' :: (strRender cs ++ ['"'])

mutual
def Val.render : Val → List Char
  | .null => ['n', 'u', 'l', 'l']
  | .tt => ['t', 'r', 'u', 'e']
  | .ff => ['f', 'a', 'l', 's', 'e']
  | .num n => n.render
  | .str cs => strTok cs
  | .arr0 s => '[' :: (Sep.render s ++ [']'])
  | .arr es => '[' :: (es.render ++ [']'])
  | .obj0 s => '{' :: (Sep.render s ++ ['}'])
  | .obj ms => '{' :: (ms.render ++ ['}'])
def Elems.render : Elems → List Char
  | .last s1 v s2 tr => Sep.render s1 ++ (v.render ++ (Sep.render s2 ++ trailingRender tr))
  | .cons s1 v s2 rest => Sep.render s1 ++ (v.render ++ (Sep.render s2 ++ (',' :: rest.render)))
def Members.render : Members → List Char
  | .last s1 k s2 s3 v s4 tr =>
    Sep.render s1 ++ (strTok k ++ (Sep.render s2 ++ (':' :: (Sep.render s3 ++ (v.render ++ (Sep.render s4 ++ trailingRender tr))))))
  | .cons s1 k s2 s3 v s4 rest =>
    Sep.render s1 ++ (strTok k ++ (Sep.render s2 ++ (':' :: (Sep.render s3 ++ (v.render ++ (Sep.render s4 ++ (',' :: rest.render)))))))
end

mutual
def Val.ok (d : Dialect) : Val → Bool
  | .null => true
  | .tt => true
  | .ff => true
  | .num n => n.ok d
  | .str cs => strOk d cs
  | .arr0 s => Sep.ok d false false s
  | .arr es => es.ok d
  | .obj0 s => Sep.ok d false false s
  | .obj ms => ms.ok d
def Elems.ok (d : Dialect) : Elems → Bool
  | .last s1 v s2 tr => Sep.ok d false false s1 && v.ok d && Sep.ok d false false s2 && trailingOk d tr
  | .cons s1 v s2 rest => Sep.ok d false false s1 && v.ok d && Sep.ok d false false s2 && rest.ok d
def Members.ok (d : Dialect) : Members → Bool
  | .last s1 k s2 s3 v s4 tr =>
    Sep.ok d false false s1 && strOk d k && Sep.ok d false false s2 && Sep.ok d false false s3 && v.ok d &&
      Sep.ok d false false s4 && trailingOk d tr
  | .cons s1 k s2 s3 v s4 rest =>
    Sep.ok d false false s1 && strOk d k && Sep.ok d false false s2 && Sep.ok d false false s3 && v.ok d &&
      Sep.ok d false false s4 && rest.ok d
end

mutual
/-- ECMA-262 §25.5.1: the value `JSON.parse` returns (no reviver) -/
def Val.value (R : Rat → F64) : Val → JsVal
  | .null => .null
  | .tt => .bool true
  | .ff => .bool false
  | .num n => .num (n.value R)
  | .str cs => .str (strUnits cs)
  | .arr0 _ => .arr []
  | .arr es => .arr (es.values R)
  | .obj0 _ => .obj [] false
  | .obj ms => .obj (ms.props R []) false
def Elems.values (R : Rat → F64) : Elems → List JsVal
  | .last _ v _ _ => [v.value R]
  | .cons _ v _ rest => v.value R :: rest.values R
/-- the members are defined in source order on the object created so far -/
def Members.props (R : Rat → F64) : Members → List (List Nat × JsVal) → List (List Nat × JsVal)
  | .last _ k _ _ v _ _, acc => setProp acc (strUnits k) (v.value R)
  | .cons _ k _ _ v _ rest, acc => rest.props R (setProp acc (strUnits k) (v.value R))
end

/-- `json = element = ws value ws` -/
structure Doc where
  s1 : Sep
  v : Val
  s2 : Sep

def Doc.render (t : Doc) : List Char := Sep.render t.s1 ++ (t.v.render ++ Sep.render t.s2)
def Doc.ok (d : Dialect) (t : Doc) : Bool := Sep.ok d false true t.s1 && t.v.ok d && Sep.ok d true false t.s2

/-- `text` is a JSON text of dialect `d` whose value is `v` -/
def Parses (d : Dialect) (R : Rat → F64) (text : List Char) (v : JsVal) : Prop :=
  ∃ t : Doc, t.ok d = true ∧ t.render = text ∧ t.v.value R = v

/-- `text` is a JSON text of dialect `d` -/
def Valid (d : Dialect) (text : List Char) : Prop := ∃ t : Doc, t.ok d = true ∧ t.render = text

end EsbuildModel.Spec.Json
