/-
Specification (written from CSS Cascading and Inheritance Level 5 §6 "Cascade Sorting Order" and §6.4 "Cascade
Layers", CSS Conditional Rules 3 §2, Selectors 4 §4.1/§17 and CSS Syntax 3 §5.4.x/§9 – not from esbuild's code):
the cascade of the declarations of ONE origin (author style sheets), without transitions and animations, for the
rule structure of a style sheet.

* A style sheet is a list of rules.  A style rule is a selector LIST and a declaration list.  A selector is
  abstract: which elements it matches, its specificity, and whether the user agent understands it.  Selectors 4
  §4.1: "if any selector of a (non-forgiving) selector list is invalid, the whole list is invalid", and CSS Syntax:
  a style rule whose selector list is invalid is dropped entirely.
* Conditional group rules (`@media`, `@supports`) contain rules that apply only when the condition holds in the
  environment; conditions of nested group rules all have to hold.
* `@layer name { … }` puts its rules into the named layer (nested blocks and dotted names give nested layers; a block
  without a name is a layer of its own that nothing else can refer to: it carries an identity here);
  `@layer a, b;` only declares layers.  Layers are ordered by the position of their FIRST declaration (§6.4.3),
  counted only in rules whose conditions hold (§6.4.3 example 31: "if the first media query matches … then the
  layout layer will come first"), sub-layers are grouped inside their parent and come before the parent's own
  rules; rules outside every layer come last.  For normal declarations later = stronger; for `!important`
  declarations the layer order is reversed.
* For an element and a property the winning declaration is the one with the greatest
  (importance, layer strength, specificity, order of appearance) among the declarations of the applicable style
  rules that match the element; the specificity of a rule for an element is the greatest specificity among the
  selectors of its list that match (Selectors 4 §17).
-/
namespace EsbuildModel.Spec.RuleCascade

/-- specificity (a, b, c), compared lexicographically -/
structure Specificity where
  a : Nat
  b : Nat
  c : Nat
  deriving DecidableEq, Repr

def Specificity.le (x y : Specificity) : Bool :=
  x.a < y.a || (x.a == y.a && (x.b < y.b || (x.b == y.b && x.c ≤ y.c)))

structure Selector (Elem : Type) where
  applies : Elem → Bool
  spec : Specificity
  /-- the user agent can parse this selector -/
  understood : Bool

/-- A declaration as the cascade sees it: `sets p` is the value it gives to the (longhand) property `p`;
`none`: it does not set `p`, or the user agent rejected the declaration. -/
structure Decl (Pr Val : Type) where
  sets : Pr → Option Val
  important : Bool

/-- one step of a layer name; every anonymous layer block has its own identity -/
inductive Seg
  | named (s : String)
  | anon (id : Nat)
  deriving DecidableEq, Repr

/-- full name of a layer, outermost first; `[]` = outside every layer -/
abbrev LayerPath := List Seg

inductive SRule (Elem Env Pr Val : Type)
  | style (sels : List (Selector Elem)) (decls : List (Decl Pr Val))
  | group (cond : Env → Bool) (body : List (SRule Elem Env Pr Val))       -- @media, @supports
  | layerBlock (name : LayerPath) (body : List (SRule Elem Env Pr Val))   -- @layer name { … }
  | layerStmt (names : List LayerPath)                                      -- @layer a, b;
  | inert                                    -- takes no part in the cascade of element styles (@keyframes, @font-face, comments, invalid rules …)

variable {Elem Env Pr Val : Type}

/-! ### which layers are declared, in which order -/

/-- the layers that naming `name` inside the layer `ctx` declares: `ctx.n1`, `ctx.n1.n2`, … (outermost first) -/
def declares (ctx : LayerPath) : LayerPath → List LayerPath
  | [] => []
  | s :: rest => (ctx ++ [s]) :: declares (ctx ++ [s]) rest

mutual
/-- layer declarations of a rule in document order (with repetitions), inside layer `ctx`, in environment `env` -/
def declaredRule (env : Env) (ctx : LayerPath) : SRule Elem Env Pr Val → List LayerPath
  | .style _ _ => []
  | .group cond body => if cond env then declaredRules env ctx body else []
  | .layerBlock name body => declares ctx name ++ declaredRules env (ctx ++ name) body
  | .layerStmt names => names.flatMap (declares ctx)
  | .inert => []
def declaredRules (env : Env) (ctx : LayerPath) : List (SRule Elem Env Pr Val) → List LayerPath
  | [] => []
  | r :: rest => declaredRule env ctx r ++ declaredRules env ctx rest
end

/-- direct sub-layers of `parent`, in order of first declaration -/
def subLayers (declared : List LayerPath) (parent : LayerPath) : List LayerPath :=
  (declared.filter (fun l => l.length == parent.length + 1 && parent.isPrefixOf l)).eraseDups

/-- layers from weakest to strongest for normal declarations: the sub-layers of a layer (each with its own
sub-layers) come before the layer's own rules; the root `[]` (unlayered rules) is last -/
def strengthOrder (declared : List LayerPath) : Nat → LayerPath → List LayerPath
  | 0, l => [l]
  | depth + 1, l => (subLayers declared l).flatMap (strengthOrder declared depth) ++ [l]

def maxDepth (declared : List LayerPath) : Nat := declared.foldl (fun m l => max m l.length) 0

/-- strength of a layer for declarations of the given importance (greater = wins) -/
def layerStrength (declared : List LayerPath) (important : Bool) (l : LayerPath) : Nat :=
  let order := strengthOrder declared (maxDepth declared + 1) []
  if important then order.length - order.idxOf l else order.idxOf l

/-! ### candidate declarations -/

/-- a declaration that applies to the element and sets the property, in order of appearance -/
structure Cand (Val : Type) where
  important : Bool
  layer : LayerPath
  spec : Specificity
  value : Val

def maxSpec : List Specificity → Option Specificity
  | [] => none
  | s :: rest =>
    match maxSpec rest with
    | none => some s
    | some m => if s.le m then some m else some s

/-- specificity with which a selector list applies to `e` (`none`: it does not match) -/
def listSpec (sels : List (Selector Elem)) (e : Elem) : Option Specificity :=
  maxSpec ((sels.filter (fun s => s.applies e)).map (·.spec))

mutual
def candsRule (env : Env) (e : Elem) (p : Pr) (ctx : LayerPath) : SRule Elem Env Pr Val → List (Cand Val)
  | .style sels decls =>
    if sels.all (·.understood) then
      match listSpec sels e with
      | some sp => decls.filterMap (fun d => (d.sets p).map (fun v => ⟨d.important, ctx, sp, v⟩))
      | none => []
    else []
  | .group cond body => if cond env then candsRules env e p ctx body else []
  | .layerBlock name body => candsRules env e p (ctx ++ name) body
  | .layerStmt _ => []
  | .inert => []
def candsRules (env : Env) (e : Elem) (p : Pr) (ctx : LayerPath) : List (SRule Elem Env Pr Val) → List (Cand Val)
  | [] => []
  | r :: rest => candsRule env e p ctx r ++ candsRules env e p ctx rest
end

/-! ### cascade sorting -/

/-- the sorting key without the order of appearance -/
structure Prio where
  important : Bool
  layer : Nat
  spec : Specificity
  deriving DecidableEq, Repr

def Prio.le (x y : Prio) : Bool :=
  (!x.important && y.important) ||
    (x.important == y.important && (x.layer < y.layer || (x.layer == y.layer && x.spec.le y.spec)))

/-- of two results the later one wins unless the earlier one has strictly greater priority -/
def later (a b : Option (Prio × Val)) : Option (Prio × Val) :=
  match a, b with
  | none, b => b
  | a, none => a
  | some x, some y => if x.1.le y.1 then some y else some x

def prioOf (strength : Bool → LayerPath → Nat) (c : Cand Val) : Prio :=
  ⟨c.important, strength c.important c.layer, c.spec⟩

/-- the winning candidate of a list in order of appearance (with its priority) -/
def best (strength : Bool → LayerPath → Nat) (cs : List (Cand Val)) : Option (Prio × Val) :=
  cs.foldl (fun acc c => later acc (some (prioOf strength c, c.value))) none

/-- the cascaded value of property `p` on element `e` in environment `env` (`none`: no declaration applies) -/
def winner (sheet : List (SRule Elem Env Pr Val)) (env : Env) (e : Elem) (p : Pr) : Option Val :=
  (best (layerStrength (declaredRules env [] sheet)) (candsRules env e p [] sheet)).map (·.2)

end EsbuildModel.Spec.RuleCascade
