/-
A small regular-expression language: the fragment of Go's `regexp` (RE2 syntax, `syntax.Perl` flags) that
esbuild's glob translators can emit, specified without looking at esbuild's code.

  text      := alternatives of concatenations of items          a|b   ab
  item      := atom, optionally followed by ONE `*`
  atom      := `(?:` text `)`   non-capturing group
             | `[^/]`           any code point except U+002F (negated classes DO match `\n`: flag ClassNL)
             | `.`              any code point except U+000A (flag DotNL is off)
             | `^`              empty, only at the beginning of the text (flag OneLine: not after `\n`)
             | `$`              empty, only at the end of the text
             | `\` p            the ASCII non-alphanumeric code point p, literally (parseEscape: "escaped
                                non-word characters are always themselves")
             | c                any code point that is not one of  \ . + * ? ( ) | [ ] { } ^ $   (the list
                                `specialBytes` of regexp.QuoteMeta), literally
  everything else (`+`, `?`, `{n}`, classes other than `[^/]`, capturing groups, flags, `\d`, `**`, …) is
  outside the fragment: `parse` answers `none`.

Code points are naturals.  A regexp works on code points, not bytes: Go decodes the pattern (which must be valid
UTF-8, otherwise `regexp.Compile` fails) and the subject (every ill-formed byte is the code point U+FFFD of
width 1); that layer is in `Impl/Glob.lean`.

MEANING (denotational).  Because of `^` and `$` the meaning of a regexp is not a set of words but a set of
words-in-context: `Den re l w r` says that `re` can match the word `w` when `l` is everything before it and `r`
everything after it in the subject.  `regexp.MatchString` is an unanchored search: `Matches re s` holds iff
some factor of `s` is matched in its context.  (Leftmost-first preference only decides WHICH match is
reported, never WHETHER there is one.)

EXECUTABLE matcher: `run re (l, r)` lists the states reachable by matching `re` at the split `(l, r)`;
`matchString` tries every split.  `Lemmas/MiniRegex.lean` proves `matchString re s = true ↔ Matches re s`.
-/
namespace EsbuildModel.Spec.MiniRegex

inductive Re where
  | eps
  | chr (c : Nat)
  | dot
  | notSlash
  | bol
  | eol
  | seq (a b : Re)
  | alt (a b : Re)
  | star (a : Re)
  deriving DecidableEq, Repr, Inhabited

/-- `n`-fold concatenation of a meaning `D`, each factor seen in its own context -/
def Pow (D : List Nat → List Nat → List Nat → Prop) : Nat → List Nat → List Nat → List Nat → Prop
  | 0, _, w, _ => w = []
  | n + 1, l, w, r => ∃ w1 w2, w = w1 ++ w2 ∧ D l w1 (w2 ++ r) ∧ Pow D n (l ++ w1) w2 r

/-- the meaning of a regexp: `Den re l w r` = "`re` matches `w` between `l` and `r`" -/
def Den : Re → List Nat → List Nat → List Nat → Prop
  | .eps, _, w, _ => w = []
  | .chr c, _, w, _ => w = [c]
  | .dot, _, w, _ => ∃ c, c ≠ 10 ∧ w = [c]
  | .notSlash, _, w, _ => ∃ c, c ≠ 47 ∧ w = [c]
  | .bol, l, w, _ => l = [] ∧ w = []
  | .eol, _, w, r => r = [] ∧ w = []
  | .seq a b, l, w, r => ∃ w1 w2, w = w1 ++ w2 ∧ Den a l w1 (w2 ++ r) ∧ Den b (l ++ w1) w2 r
  | .alt a b, l, w, r => Den a l w r ∨ Den b l w r
  | .star a, l, w, r => ∃ n, Pow (Den a) n l w r

/-- `regexp.MatchString`: some factor of the subject is matched -/
def Matches (re : Re) (s : List Nat) : Prop := ∃ l w r, s = l ++ w ++ r ∧ Den re l w r

/-! ## concrete syntax -/

/-- lexical items of the fragment -/
inductive RTok where
  | lit (c : Nat)
  | dot | notSlash | bol | eol
  | opn      -- `(?:`
  | cls      -- `)`
  | bar      -- `|`
  | rep      -- `*`
  deriving DecidableEq, Repr

/-- the bytes `regexp.QuoteMeta` escapes = the code points with a syntactic role:  \ . + * ? ( ) | [ ] { } ^ $ -/
def isMeta (c : Nat) : Bool :=
  c = 92 || c = 46 || c = 43 || c = 42 || c = 63 || c = 40 || c = 41 || c = 124 ||
  c = 91 || c = 93 || c = 123 || c = 125 || c = 94 || c = 36

/-- `isalnum` of regexp/syntax -/
def isAlnum (c : Nat) : Bool := (48 ≤ c && c ≤ 57) || (65 ≤ c && c ≤ 90) || (97 ≤ c && c ≤ 122)

/-- what may follow a backslash in the fragment: an ASCII non-word character -/
def isEscapable (c : Nat) : Bool := c < 128 && !isAlnum c

def consTok (t : RTok) (r : Option (List RTok)) : Option (List RTok) := r.map (t :: ·)

/-- code points → lexical items; `none` = outside the fragment -/
def lex : List Nat → Option (List RTok)
  | [] => some []
  | c :: rest =>
    if c = 92 then
      match rest with
      | d :: rest' => if isEscapable d then consTok (.lit d) (lex rest') else none
      | [] => none
    else if c = 40 then
      match rest with
      | 63 :: 58 :: rest' => consTok .opn (lex rest')
      | _ => none
    else if c = 91 then
      match rest with
      | 94 :: 47 :: 93 :: rest' => consTok .notSlash (lex rest')
      | _ => none
    else if c = 46 then consTok .dot (lex rest)
    else if c = 94 then consTok .bol (lex rest)
    else if c = 36 then consTok .eol (lex rest)
    else if c = 41 then consTok .cls (lex rest)
    else if c = 124 then consTok .bar (lex rest)
    else if c = 42 then
      match rest with
      | 42 :: _ => none                    -- `**`: "invalid nested repetition operator"
      | _ => consTok .rep (lex rest)
    else if isMeta c then none            -- + ? ] { }
    else consTok (.lit c) (lex rest)

/-- concatenation of a list of items (right nested, `eps` at the end) -/
def catOf : List Re → Re
  | [] => .eps
  | x :: xs => .seq x (catOf xs)

/-- alternation of a non-empty list -/
def altOf : Re → List Re → Re
  | x, [] => x
  | x, y :: ys => .alt x (altOf y ys)

/-- one open group of the parser: finished alternatives (latest first) and the items of the current
concatenation (latest first) -/
structure Frame where
  alts : List Re
  cur : List Re
  deriving Repr

/-- the regexp of a finished frame -/
def Frame.close (f : Frame) : Re :=
  match (catOf f.cur.reverse :: f.alts).reverse with
  | [] => .eps
  | x :: xs => altOf x xs

def Frame.push (f : Frame) (a : Re) : Frame := { f with cur := a :: f.cur }

/-- one step of the (stack) parser; the head of the stack is the innermost open group -/
def pstep (st : Option (List Frame)) (t : RTok) : Option (List Frame) :=
  match st with
  | none => none
  | some [] => none
  | some (f :: fs) =>
    match t with
    | .lit c => some (f.push (.chr c) :: fs)
    | .dot => some (f.push .dot :: fs)
    | .notSlash => some (f.push .notSlash :: fs)
    | .bol => some (f.push .bol :: fs)
    | .eol => some (f.push .eol :: fs)
    | .opn => some ({ alts := [], cur := [] } :: f :: fs)
    | .bar => some ({ alts := catOf f.cur.reverse :: f.alts, cur := [] } :: fs)
    | .cls =>
      match fs with
      | [] => none                                     -- unmatched `)`
      | g :: gs => some (g.push f.close :: gs)
    | .rep =>
      match f.cur with
      | [] => none                                     -- missing argument to `*`
      | x :: xs => some ({ f with cur := .star x :: xs } :: fs)

def parseToks (ts : List RTok) : Option Re :=
  match ts.foldl pstep (some [{ alts := [], cur := [] }]) with
  | some [f] => some f.close
  | _ => none                                          -- missing `)` or an earlier error

/-- code points of a regexp text → regexp; `none` = outside the fragment (or not a regexp at all) -/
def parse (text : List Nat) : Option Re :=
  match lex text with
  | none => none
  | some ts => parseToks ts

/-! ## executable matcher -/

/-- a position in the subject: what is before it, what is after it -/
abbrev St := List Nat × List Nat

def dedup (l : List St) : List St := l.foldr (fun x acc => if x ∈ acc then acc else x :: acc) []

/-- consume one code point satisfying `p` -/
def step1 (p : Nat → Bool) : St → List St
  | (l, c :: r) => if p c then [(l ++ [c], r)] else []
  | (_, []) => []

/-- zero or more rounds of `f`; a round that does not advance is dropped (it cannot reach anything new);
`fuel` = what is left of the subject, so every advancing chain fits -/
def starRun (f : St → List St) : Nat → St → List St
  | 0, s => [s]
  | n + 1, s => s :: ((f s).filter (fun t => decide (t.2.length < s.2.length))).flatMap (starRun f n)

/-- all positions reachable by matching `re` from a position -/
def run : Re → St → List St
  | .eps, s => [s]
  | .chr c, s => step1 (· == c) s
  | .dot, s => step1 (· != 10) s
  | .notSlash, s => step1 (· != 47) s
  | .bol, s => if s.1.isEmpty then [s] else []
  | .eol, s => if s.2.isEmpty then [s] else []
  | .seq a b, s => dedup ((run a s).flatMap (run b))
  | .alt a b, s => dedup (run a s ++ run b s)
  | .star a, s => dedup (starRun (run a) s.2.length s)

/-- every split of the subject -/
def splits : List Nat → List Nat → List St
  | l, [] => [(l, [])]
  | l, c :: r => (l, c :: r) :: splits (l ++ [c]) r

/-- `regexp.MatchString` -/
def matchString (re : Re) (s : List Nat) : Bool := (splits [] s).any (fun st => !(run re st).isEmpty)

end EsbuildModel.Spec.MiniRegex
