import EsbuildModel.Spec.Unicode
/-!
# What a JSX text child and a JSX attribute string denote

JSX itself (facebook.github.io/jsx) only gives the grammar; the MEANING of JSXText is fixed by the two reference
compilers that React documents, Babel (`cleanJSXElementLiteralChild` in @babel/types, entities decoded by the
tokenizer's `jsxReadEntity`) and TypeScript (`fixupWhitespaceAndDecodeEntities` / `decodeEntities` in
transformers/jsx.ts). Written from that behaviour, without looking at esbuild's code:

* the text is split into lines at every line terminator;
* every line but the first loses its leading white space, every line but the last its trailing white space
  (a line that is both first and last is kept as it is);
* lines that became empty are dropped, the remaining ones are joined with exactly one U+0020;
* character references are decoded AFTER the trimming, line by line, so that `&#32;` is never trimmed;
* the result is a string of UTF-16 code units (a JavaScript string value).

The two compilers disagree on details, which are parameters here: the class `ws` of white space that is trimmed
(Babel: space and tab; TypeScript: every single-line white space) — `isSpaceTab`, `isEcmaWhiteSpace` — and the list
of entity names `names` (HTML 4 set + `apos`).

A character reference is `&` *body* `;` where *body* contains no `;` and is `#` decimal-digits, `#x` hex-digits (lower
case `x` only, at least one digit), or a known name. It denotes a code point, written in UTF-16 (a surrogate pair above
U+FFFF; a surrogate code point as itself, as `String.fromCharCode` does). A numeric reference above U+10FFFF denotes
nothing (both reference compilers reject the program; here the text is left alone, like any other non-reference).
Everything else, including `&` without a matching reference, is literal text.
-/
namespace EsbuildModel.Spec.JsxText
open EsbuildModel.Spec.Unicode (utf16)

/-- source text: Unicode code points -/
abbrev Text := List Nat

/-! ### character references -/

def isDecDigit (c : Nat) : Bool := decide (48 ≤ c) && decide (c ≤ 57)

def isHexDigit (c : Nat) : Bool :=
  isDecDigit c || (decide (97 ≤ c) && decide (c ≤ 102)) || (decide (65 ≤ c) && decide (c ≤ 70))

/-- value of one (hexa)decimal digit -/
def digitValue (c : Nat) : Nat :=
  if c ≤ 57 then c - 48 else if 97 ≤ c then c - 87 else c - 55

/-- positional value, most significant digit first -/
def numeral (base : Nat) (ds : Text) : Nat := ds.foldl (fun acc c => acc * base + digitValue c) 0

/-- code point denoted by a numeral, if it is one -/
def numericRef (base : Nat) (isDigit : Nat → Bool) (ds : Text) : Option Nat :=
  if ds ≠ [] ∧ ds.all isDigit ∧ numeral base ds ≤ 0x10FFFF then some (numeral base ds) else none

/-- the code point denoted by `&body;` (`none`: not a character reference) -/
def charRef (names : Text → Option Nat) (body : Text) : Option Nat :=
  match body with
  | [] => none
  | 35 :: 120 :: ds => numericRef 16 isHexDigit ds -- "#x"
  | 35 :: ds => numericRef 10 isDecDigit ds -- "#"
  | _ => names body

/-- `s = body ++ ';' :: after` with no `;` in `body` -/
def splitSemi : Text → Option (Text × Text)
  | [] => none
  | c :: cs =>
    if c = 59 then some ([], cs)
    else match splitSemi cs with
      | some (body, after) => some (c :: body, after)
      | none => none

/-- left-to-right replacement of every character reference; `fuel` ≥ length of the text -/
def decodeGo (names : Text → Option Nat) : Nat → Text → List Nat
  | _, [] => []
  | 0, _ :: _ => []
  | fuel + 1, c :: rest =>
    let ref : Option (Nat × Text) :=
      if c = 38 then
        match splitSemi rest with
        | some (body, after) => (charRef names body).map (·, after)
        | none => none
      else none
    match ref with
    | some (cp, after) => utf16 cp ++ decodeGo names fuel after
    | none => utf16 c ++ decodeGo names fuel rest

/-- the UTF-16 string denoted by a piece of JSX text or by the inside of a JSX attribute string -/
def decodeEntities (names : Text → Option Nat) (text : Text) : List Nat := decodeGo names text.length text

/-! ### white space and lines -/

/-- ECMA-262 LineTerminator: LF, CR, LS, PS -/
def isLineTerminator (c : Nat) : Bool := c == 0x000A || c == 0x000D || c == 0x2028 || c == 0x2029

/-- Unicode general category Zs (Space_Separator), Unicode 15 -/
def isSpaceSeparator (c : Nat) : Bool :=
  c == 0x0020 || c == 0x00A0 || c == 0x1680 || (decide (0x2000 ≤ c) && decide (c ≤ 0x200A)) || c == 0x202F ||
  c == 0x205F || c == 0x3000

/-- ECMA-262 WhiteSpace: TAB, VT, FF, ZWNBSP and USP (any Zs) — the TypeScript reading "white space on one line" -/
def isEcmaWhiteSpace (c : Nat) : Bool :=
  c == 0x0009 || c == 0x000B || c == 0x000C || c == 0xFEFF || isSpaceSeparator c

/-- the Babel reading: only space and tab are trimmed -/
def isSpaceTab (c : Nat) : Bool := c == 0x0020 || c == 0x0009

/-- the lines of a text (always at least one; CR LF gives an empty line in between, which is dropped later) -/
def splitLines : Text → List Text
  | [] => [[]]
  | c :: cs =>
    if isLineTerminator c then [] :: splitLines cs
    else match splitLines cs with
      | l :: ls => (c :: l) :: ls
      | [] => [[c]]

def trimStart (ws : Nat → Bool) (l : Text) : Text := l.dropWhile ws

/-- remove the longest suffix of white space -/
def trimEnd (ws : Nat → Bool) : Text → Text
  | [] => []
  | c :: l =>
    match trimEnd ws l with
    | [] => if ws c then [] else [c]
    | t => c :: t

/-- the lines after the first one: all lose their leading white space, all but the last their trailing one -/
def trimFollowing (ws : Nat → Bool) : List Text → List Text
  | [] => []
  | [last] => [trimStart ws last]
  | l :: ls => trimEnd ws (trimStart ws l) :: trimFollowing ws ls

def trimLines (ws : Nat → Bool) : List Text → List Text
  | [] => []
  | [only] => [only]
  | first :: more => trimEnd ws first :: trimFollowing ws more

/-- join with one space -/
def joinSpace : List (List Nat) → List Nat
  | [] => []
  | [x] => x
  | x :: xs => x ++ 32 :: joinSpace xs

/-- the line structure alone, for any reading `dec` of a trimmed line -/
def jsxTextValueWith (ws : Nat → Bool) (dec : Text → List Nat) (text : Text) : List Nat :=
  joinSpace (((trimLines ws (splitLines text)).filter (fun l => !l.isEmpty)).map dec)

/-- the string value of a JSX text child; `[]` means that the child does not exist -/
def jsxTextValue (ws : Nat → Bool) (names : Text → Option Nat) (text : Text) : List Nat :=
  jsxTextValueWith ws (decodeEntities names) text

/-- the string value of a JSX attribute string `"…"` / `'…'`: character references and nothing else — no backslash
escapes, no line continuation, no white-space normalisation -/
def jsxAttrValue (names : Text → Option Nat) (inside : Text) : List Nat := decodeEntities names inside

end EsbuildModel.Spec.JsxText
