import EsbuildModel.Util.F64Arith
import EsbuildModel.Impl.ToInt32
/-
What ECMA-262 (2023 edition, section numbers below) assigns to operators applied to primitive values, written
from the specification text and not from esbuild's code.

Numbers are exact dyadic values (`F64`), strings are lists of UTF-16 code units, BigInts are integers.
The arithmetic that ECMA-262 delegates to IEEE 754-2019 (`+ - * /`) and the "implementation-approximated"
result of `**` on ordinary operands are PARAMETERS (`Ieee`): Go and JavaScript use the same IEEE operations.
Everything else (special values of `**` and `%`, the exact remainder, integer conversions, shifts, bit operators,
comparisons, equality, typeof, ToBoolean, ToNumber/ToString on the modelled fragment) is defined here.

`Option` results: `none` means "outside the modelled fragment" (a TypeError, an operand combination that needs
ToPrimitive on arbitrary objects, a number whose decimal expansion is not modelled …), never a value.
-/
namespace EsbuildModel.Spec.JsArith
open EsbuildModel F64

/-- IEEE 754 binary64 operations shared by the language and by the Go implementation (trusted base), and the
two string conversions that only loose equality between a String and a Number / BigInt consults (esbuild never
folds those; they are parameters so that the specification of `==` is total on primitives) -/
structure Params extends F64.Arith where
  -- `pow`: 6.1.6.1.3 step 13, "an implementation-approximated Number value representing the result of raising
  -- ℝ(base) to the ℝ(exponent) power"; only consulted for finite non-zero base and finite non-zero exponent
  /-- 7.1.4.1.1 StringToNumber, total -/
  stringToNumber : List Nat → F64
  /-- 7.1.14 StringToBigInt (`none` = undefined) -/
  stringToBigInt : List Nat → Option Int

-- ---------------------------------------------------------------- values

/-- the few object shapes esbuild's literal folding looks at (standard prototypes assumed unmodified) -/
inductive ObjKind
  | regexp (text : List Nat)     -- a RegExp literal, `text` = its source text `/…/flags`
  | array0                       -- `[]`
  | object0                      -- `{}`
  | func                         -- a function or arrow function expression
  deriving DecidableEq, Repr

inductive Value
  | undef
  | null
  | bool (b : Bool)
  | num (f : F64)
  | str (s : List Nat)
  | bigint (v : Int)
  | obj (k : ObjKind)
  deriving DecidableEq, Repr

def ascii (s : String) : List Nat := s.toList.map Char.toNat

-- ---------------------------------------------------------------- 7.1.2 ToBoolean, 13.5.3 typeof

def toBoolean : Value → Bool
  | .undef => false
  | .null => false
  | .bool b => b
  | .num f => !(isZero f || isNaN f)        -- "If argument is +0𝔽, -0𝔽, or NaN, return false"
  | .str s => !s.isEmpty
  | .bigint v => v != 0
  | .obj _ => true

def typeof : Value → List Nat
  | .undef => ascii "undefined"
  | .null => ascii "object"
  | .bool _ => ascii "boolean"
  | .num _ => ascii "number"
  | .str _ => ascii "string"
  | .bigint _ => ascii "bigint"
  | .obj .func => ascii "function"        -- has [[Call]]
  | .obj _ => ascii "object"

-- ---------------------------------------------------------------- decimal digits

/-- the code units of the decimal representation of a natural number -/
def decimal (v : Nat) : List Nat := (Nat.toDigits 10 v).map Char.toNat

/-- MV of a DecimalDigits production (12.9.3 / 7.1.4.1.1): positional value; `none` if a unit is not a digit -/
def digitsValueFrom (acc : Nat) : List Nat → Option Nat
  | [] => some acc
  | c :: cs => if 48 ≤ c ∧ c ≤ 57 then digitsValueFrom (acc * 10 + (c - 48)) cs else none

def digitsValue : List Nat → Option Nat
  | [] => none
  | ds => digitsValueFrom 0 ds

-- ---------------------------------------------------------------- 6.1.6.1.20 Number::toString (radix 10)

/-- NaN, ±0, ±∞ and integers below 2^53 in magnitude: for an integer x with k ≤ n ≤ 21 the result is "the k
digits of the decimal representation of s followed by n−k occurrences of 0", i.e. the decimal representation
of x itself. Other numbers: not modelled. -/
def numberToString : F64 → Option (List Nat)
  | .nan => some (ascii "NaN")
  | .inf false => some (ascii "Infinity")
  | .inf true => some (ascii "-Infinity")          -- step 3: "-" followed by toString(−x)
  | .fin neg m e =>
    if m = 0 then some (ascii "0")
    else if isIntegral m e && decide (truncAbs m e < 2 ^ 53) then
      some ((if neg then [45] else []) ++ decimal (truncAbs m e))
    else none

-- ---------------------------------------------------------------- 7.1.4.1.1 StringToNumber (fragment)

/-- the empty string is +0; `DecimalDigits`, `+DecimalDigits`, `-DecimalDigits` below 2^53 are their
mathematical value ("-0" is −0); a string whose first code unit is `[` or `/` cannot be parsed as a
StringNumericLiteral (which starts with white space, a digit, a sign, `.` or `I`) and gives NaN.
Everything else (fractions, exponents, white space, non-decimal prefixes, large values): not modelled. -/
def decimalLiteral (neg : Bool) (ds : List Nat) : Option F64 :=
  match digitsValue ds with
  | some v => if v < 2 ^ 53 then some (.fin neg v 0) else none
  | none => none

def stringToNumber : List Nat → Option F64
  | [] => some zero
  | c :: ds =>
    if c = 45 then decimalLiteral true ds              -- "-" DecimalDigits
    else if c = 43 then decimalLiteral false ds        -- "+" DecimalDigits
    else if c = 91 ∨ c = 47 then some .nan             -- "[" or "/"
    else decimalLiteral false (c :: ds)                -- DecimalDigits

-- ---------------------------------------------------------------- 7.1.1 ToPrimitive for the modelled objects

/-- OrdinaryToPrimitive with unmodified prototypes: `valueOf` returns the object, `toString` gives
`Array.prototype.join` of no elements, "[object Object]", the RegExp source text; the text of a function is
implementation-defined → none -/
def objToPrimitive : ObjKind → Option (List Nat)
  | .regexp t => some t
  | .array0 => some []
  | .object0 => some (ascii "[object Object]")
  | .func => none

/-- 7.1.4 ToNumber -/
def toNumber : Value → Option F64
  | .undef => some .nan
  | .null => some zero
  | .bool b => some (if b then one else zero)
  | .num f => some f
  | .str s => stringToNumber s
  | .bigint _ => none                     -- throws a TypeError
  | .obj k => match objToPrimitive k with
      | some s => stringToNumber s
      | none => none

/-- 7.1.17 ToString -/
def toString : Value → Option (List Nat)
  | .undef => some (ascii "undefined")
  | .null => some (ascii "null")
  | .bool b => some (ascii (if b then "true" else "false"))
  | .num f => numberToString f
  | .str s => some s
  | .bigint v => some ((if v < 0 then [45] else []) ++ decimal v.natAbs)   -- 6.1.6.2.21 BigInt::toString
  | .obj k => objToPrimitive k

-- ---------------------------------------------------------------- BigInt literals (12.9.3)

def digitOfRadix (radix : Nat) (c : Nat) : Option Nat :=
  let d : Option Nat :=
    if 48 ≤ c ∧ c ≤ 57 then some (c - 48)
    else if 97 ≤ c ∧ c ≤ 102 then some (c - 87)
    else if 65 ≤ c ∧ c ≤ 70 then some (c - 55)
    else none
  match d with
  | some d => if d < radix then some d else none
  | none => none

def radixValueFrom (radix : Nat) (acc : Nat) : List Nat → Option Nat
  | [] => some acc
  | c :: cs => match digitOfRadix radix c with
    | some d => radixValueFrom radix (acc * radix + d) cs
    | none => none

def radixValue (radix : Nat) : List Nat → Option Nat
  | [] => none
  | ds => radixValueFrom radix 0 ds

/-- NumericValue of a BigInt literal given as its text without the `n` suffix and without separators:
`0`, NonZeroDigit DecimalDigits, `0x…`, `0o…`, `0b…` (either case). `none`: not a BigInt literal. -/
def bigintLiteralValue : List Nat → Option Nat
  | [] => none
  | c :: rest =>
    if c = 48 then
      match rest with
      | [] => some 0                                   -- `0n`
      | p :: ds =>
        if p = 120 ∨ p = 88 then radixValue 16 ds      -- 0x 0X
        else if p = 111 ∨ p = 79 then radixValue 8 ds  -- 0o 0O
        else if p = 98 ∨ p = 66 then radixValue 2 ds   -- 0b 0B
        else none
    else radixValue 10 (c :: rest)                     -- NonZeroDigit DecimalDigits

-- ---------------------------------------------------------------- 6.1.6.1 Number operations

abbrev negZero : F64 := .fin true 0 0

/-- 6.1.6.1.1 Number::unaryMinus -/
def unaryMinus : F64 → F64
  | .nan => .nan
  | f => neg f

/-- exponent > +0𝔽 (also true for +∞), exponent < −0𝔽 (also true for −∞) -/
def gtZero : F64 → Bool
  | .nan => false
  | .inf n => !n
  | .fin n m _ => !n && m != 0

def ltZero : F64 → Bool
  | .nan => false
  | .inf n => n
  | .fin n m _ => n && m != 0

/-- "exponent is an odd integral Number" -/
def isOddInteger : F64 → Bool
  | .fin _ m e => isIntegral m e && truncAbs m e % 2 == 1
  | _ => false

/-- 6.1.6.1.3 Number::exponentiate (base, exponent), step numbers of ECMA-262 2023 -/
def exponentiate (P : Params) (base exponent : F64) : F64 :=
  if isNaN exponent then .nan                                            -- 1
  else if isZero exponent then one                                       -- 2
  else match base with
  | .nan => .nan                                                         -- 3
  | .inf false => if gtZero exponent then .inf false else zero           -- 4
  | .inf true =>                                                         -- 5
    if gtZero exponent then (if isOddInteger exponent then .inf true else .inf false)
    else (if isOddInteger exponent then negZero else zero)
  | .fin bneg m e =>
    if m = 0 then
      if !bneg then (if gtZero exponent then zero else .inf false)       -- 6
      else if gtZero exponent then (if isOddInteger exponent then negZero else zero)   -- 7.a
      else (if isOddInteger exponent then .inf true else .inf false)                   -- 7.b
    else match exponent with
      | .inf false =>                                                    -- 9
        if ieeeLt one (.fin false m e) then .inf false
        else if ieeeEq (.fin false m e) one then .nan
        else zero
      | .inf true =>                                                     -- 10
        if ieeeLt one (.fin false m e) then zero
        else if ieeeEq (.fin false m e) one then .nan
        else .inf false
      | _ =>
        if bneg && !isInteger exponent then .nan                         -- 12
        else P.pow base exponent                                         -- 13

/-- 6.1.6.1.6 Number::remainder (n, d): the result is exact ("r = ℝ(n) − (ℝ(d) × q) where q is an integer
that is negative iff n and d have opposite sign, and whose magnitude is as large as possible without exceeding
the magnitude of ℝ(n)/ℝ(d)", i.e. truncating division), computed in units of 2^min(en, ed) -/
def remainder : F64 → F64 → F64
  | .nan, _ => .nan                                                      -- 1
  | _, .nan => .nan
  | .inf _, _ => .nan                                                    -- 2
  | .fin nn mn en, .inf _ => .fin nn mn en                               -- 3
  | .fin nn mn en, .fin nd md ed =>
    if md = 0 then .nan                                                  -- 4
    else if mn = 0 then .fin nn mn en                                    -- 5
    else
      let e0 := min en ed
      let N := scaled nn mn en e0
      let D := scaled nd md ed e0
      let q := Int.tdiv N D                                              -- truncate(ℝ(n) / ℝ(d))
      let r := N - D * q                                                 -- 7
      if r = 0 then .fin nn 0 e0                                         -- 8: −0 if n < −0, else +0
      else .fin (decide (r < 0)) r.natAbs e0                             -- 9

/-- the 32-bit two's complement bit string of an integer, read as a natural number below 2^32 -/
def toBits32 (i : Int) : Nat := (i % 4294967296).toNat

/-- the integer represented by a 32-bit two's complement bit string -/
def ofBits32 (n : Nat) : Int := if n ≥ 2147483648 then (n : Int) - 4294967296 else (n : Int)

/-- "shiftCount be ℝ(rnum) modulo 32" with rnum = ToUint32(y) -/
def shiftCount (y : F64) : Nat := (ToInt32.specU y % 32).toNat

/-- 6.1.6.1.9 Number::leftShift: shift the bit string of ToInt32(x) left, keep 32 bits -/
def leftShift (x y : F64) : F64 :=
  ofInt (ofBits32 ((toBits32 (ToInt32.spec x) * 2 ^ shiftCount y) % 4294967296))

/-- 6.1.6.1.10 Number::signedRightShift: sign-extending shift = floor division by 2^shiftCount -/
def signedRightShift (x y : F64) : F64 :=
  ofInt (ToInt32.spec x / ((2 ^ shiftCount y : Nat) : Int))

/-- 6.1.6.1.11 Number::unsignedRightShift: zero-filling shift of ToUint32(x) -/
def unsignedRightShift (x y : F64) : F64 :=
  ofInt (ToInt32.specU x / ((2 ^ shiftCount y : Nat) : Int))

/-- 6.1.6.1.17 NumberBitwiseOp on the bit strings of ToInt32(x), ToInt32(y) -/
def numberBitwise (op : Nat → Nat → Nat) (x y : F64) : F64 :=
  ofInt (ofBits32 (op (toBits32 (ToInt32.spec x)) (toBits32 (ToInt32.spec y))))

/-- 6.1.6.1.2 Number::bitwiseNOT: complement of every bit of ToInt32(x) -/
def bitwiseNOT (x : F64) : F64 :=
  ofInt (ofBits32 (4294967295 - toBits32 (ToInt32.spec x)))

/-- 6.1.6.1.12 Number::lessThan; `none` = undefined -/
def lessThan : F64 → F64 → Option Bool
  | .nan, _ => none                                                      -- 1
  | _, .nan => none                                                      -- 2
  | .inf a, .inf b => some (if a == b then false else a)                 -- 3; 6 (+∞,−∞ false); 7 (−∞,+∞ true)
  | .inf a, .fin .. => some a                                            -- 6: +∞ false; 9: −∞ true
  | .fin .., .inf b => some (!b)                                         -- 7: true; 8: false
  | .fin n1 m1 e1, .fin n2 m2 e2 => some (finLt n1 m1 e1 n2 m2 e2)       -- 3,4,5,11

/-- 6.1.6.1.13 Number::equal -/
def numberEqual : F64 → F64 → Bool
  | .nan, _ => false
  | _, .nan => false
  | .inf a, .inf b => a == b
  | .fin n1 m1 e1, .fin n2 m2 e2 => finEq n1 m1 e1 n2 m2 e2               -- same value, or +0 / −0
  | _, _ => false

/-- 7.2.13 IsLessThan step 3 for two Strings: the first differing code unit decides, a proper prefix is smaller -/
def stringLessThan : List Nat → List Nat → Bool
  | _, [] => false
  | [], _ :: _ => true
  | a :: as, b :: bs => if a < b then true else if b < a then false else stringLessThan as bs

/-- 7.2.13 IsLessThan on the modelled operand types; outer `none` = not modelled, inner `none` = undefined -/
def isLessThan : Value → Value → Option (Option Bool)
  | .str a, .str b => some (some (stringLessThan a b))
  | .num a, .num b => some (lessThan a b)
  | _, _ => none

-- ---------------------------------------------------------------- 7.2.15 IsStrictlyEqual, 7.2.14 IsLooselyEqual

/-- object identity is not modelled (`none`) -/
def strictlyEqual : Value → Value → Option Bool
  | .undef, .undef => some true
  | .null, .null => some true
  | .bool a, .bool b => some (a == b)
  | .num a, .num b => some (numberEqual a b)
  | .str a, .str b => some (a == b)
  | .bigint a, .bigint b => some (a == b)
  | .obj _, .obj _ => none
  | _, _ => some false

/-- 6.1.6.2.? / 7.2.14 step 13: a Number and a BigInt are equal iff the Number is finite and ℝ(x) = ℝ(y) -/
def numberEqualsBigInt (x : F64) (b : Int) : Bool :=
  match x with
  | .fin n m e => isIntegral m e && (truncInt (.fin n m e) == b)
  | _ => false

/-- 7.2.14 after both Boolean operands (steps 9, 10) were replaced by ToNumber -/
def looselyEqualNoBool (P : Params) : Value → Value → Option Bool
  | .undef, .null => some true                                           -- 2
  | .null, .undef => some true                                           -- 3
  | .num a, .str s => some (numberEqual a (P.stringToNumber s))          -- 5
  | .str s, .num a => some (numberEqual (P.stringToNumber s) a)          -- 6
  | .bigint a, .str s => some (match P.stringToBigInt s with | none => false | some n => a == n)   -- 7
  | .str s, .bigint a => some (match P.stringToBigInt s with | none => false | some n => a == n)   -- 8
  | .bigint b, .num a => some (numberEqualsBigInt a b)                   -- 13
  | .num a, .bigint b => some (numberEqualsBigInt a b)
  | .obj _, .obj _ => none                                               -- identity
  | .obj _, .undef => some false                                         -- 14
  | .obj _, .null => some false
  | .undef, .obj _ => some false
  | .null, .obj _ => some false
  | .obj _, _ => none                                                    -- 11, 12: ToPrimitive, not modelled
  | _, .obj _ => none
  | x, y => strictlyEqual x y                                            -- 1 (same type), else 14 (false)

def boolToNumber : Value → Value
  | .bool b => .num (if b then one else zero)
  | v => v

def looselyEqual (P : Params) : Value → Value → Option Bool
  | .bool a, .bool b => some (a == b)                                    -- 1
  | x, y => looselyEqualNoBool P (boolToNumber x) (boolToNumber y)       -- 9, 10, then the rest

-- ---------------------------------------------------------------- operators (13.5 – 13.13)

inductive BinOp
  | add | sub | mul | div | rem | pow
  | shl | shr | ushr | band | bor | bxor
  | lt | gt | le | ge
  | looseEq | strictEq | looseNe | strictNe
  | logicalAnd | logicalOr | nullish
  | other        -- `,` `in` `instanceof` and the assignment operators: never folded
  deriving DecidableEq, Repr

inductive UnOp
  | pos | neg | cpl | not | typeof | void
  deriving DecidableEq, Repr

/-- 13.10.1 for `<=` and `>=`: "If r is true or undefined, return false. Otherwise, return true." -/
def falseResult : Option Bool → Bool
  | some false => true
  | _ => false

/-- value of `l op r` on the modelled fragment (`none`: TypeError or operand types that are not modelled) -/
def binary (P : Params) : BinOp → Value → Value → Option Value
  | .add, .num a, .num b => some (.num (P.add a b))
  | .add, .str a, .str b => some (.str (a ++ b))
  | .sub, .num a, .num b => some (.num (P.sub a b))
  | .mul, .num a, .num b => some (.num (P.mul a b))
  | .div, .num a, .num b => some (.num (P.div a b))
  | .rem, .num a, .num b => some (.num (remainder a b))
  | .pow, .num a, .num b => some (.num (exponentiate P a b))
  | .shl, .num a, .num b => some (.num (leftShift a b))
  | .shr, .num a, .num b => some (.num (signedRightShift a b))
  | .ushr, .num a, .num b => some (.num (unsignedRightShift a b))
  | .band, .num a, .num b => some (.num (numberBitwise (· &&& ·) a b))
  | .bor, .num a, .num b => some (.num (numberBitwise (· ||| ·) a b))
  | .bxor, .num a, .num b => some (.num (numberBitwise (· ^^^ ·) a b))
  -- 13.10.1: `<` and `>` turn undefined into false; `<=` and `>=` are the negation of the swapped test
  | .lt, x, y => (isLessThan x y).map (fun r => .bool (r.getD false))
  | .gt, x, y => (isLessThan y x).map (fun r => .bool (r.getD false))
  | .le, x, y => (isLessThan y x).map (fun r => .bool (falseResult r))
  | .ge, x, y => (isLessThan x y).map (fun r => .bool (falseResult r))
  | .looseEq, x, y => (looselyEqual P x y).map .bool
  | .looseNe, x, y => (looselyEqual P x y).map (fun b => .bool (!b))
  | .strictEq, x, y => (strictlyEqual x y).map .bool
  | .strictNe, x, y => (strictlyEqual x y).map (fun b => .bool (!b))
  -- 13.13: the right operand is only evaluated when it is the result
  | .logicalAnd, x, y => some (if toBoolean x then y else x)
  | .logicalOr, x, y => some (if toBoolean x then x else y)
  | .nullish, x, y => some (if x = .undef ∨ x = .null then y else x)
  | _, _, _ => none

/-- value of `op v` (`none`: TypeError / not modelled) -/
def unary : UnOp → Value → Option Value
  | .pos, v => (toNumber v).map .num                                     -- 13.5.4 (BigInt: TypeError)
  | .neg, .bigint b => some (.bigint (-b))                               -- 13.5.5
  | .neg, v => (toNumber v).map (fun n => .num (unaryMinus n))
  | .cpl, .bigint b => some (.bigint (-b - 1))                           -- 13.5.6, BigInt::bitwiseNOT
  | .cpl, v => (toNumber v).map (fun n => .num (bitwiseNOT n))
  | .not, v => some (.bool (!toBoolean v))                               -- 13.5.7
  | .typeof, v => some (.str (typeof v))                                 -- 13.5.3
  | .void, _ => some .undef                                              -- 13.5.2

end EsbuildModel.Spec.JsArith
