/-!
# SPEC: the version line (written without looking at esbuild's code)

A version is `major.minor.patch`, ordered numerically component by component (semver.org §11.2); a pre-release version
has LOWER precedence than the associated normal version (§11.3): `1.0.0-alpha < 1.0.0`. A compatibility table knows only
releases; it says "supported from START (inclusive) up to END (exclusive), or for ever". What a table can tell about two
pre-releases of the same release is nothing, so they occupy the same point.
-/
namespace EsbuildModel.Spec.VersionLine

structure Pt where
  major : Nat
  minor : Nat
  patch : Nat
  /-- `false`: a pre-release of major.minor.patch -/
  rel : Bool
  deriving DecidableEq, Repr

/-- strict precedence -/
def Pt.lt (p q : Pt) : Prop :=
  p.major < q.major ∨ (p.major = q.major ∧ (p.minor < q.minor ∨ (p.minor = q.minor ∧
    (p.patch < q.patch ∨ (p.patch = q.patch ∧ p.rel = false ∧ q.rel = true)))))

def Pt.le (p q : Pt) : Prop := p.lt q ∨ p = q

instance (p q : Pt) : Decidable (p.lt q) := by unfold Pt.lt; exact inferInstance
instance (p q : Pt) : Decidable (p.le q) := by unfold Pt.le; exact inferInstance

/-- a range of a compatibility table: start inclusive, `stop = none` for "no end", else exclusive -/
def inRange (start : Pt) (stop : Option Pt) (p : Pt) : Prop :=
  start.le p ∧ match stop with
    | none => True
    | some e => p.lt e

end EsbuildModel.Spec.VersionLine
