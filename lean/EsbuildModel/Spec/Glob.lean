/-
The glob dialect of `package.json` "sideEffects" entries, specified without looking at esbuild's code.

READING.  webpack's documentation of `sideEffects` says the array "supports simple glob patterns to relevant
files" and that it uses glob-to-regexp (with `globstar`); esbuild's release notes promise the wildcards `*` and
`?` (and `**`).  The dialect written down here is the common core of those texts and of what a shell or
minimatch means by the same characters:

  * a path is a sequence of code points; `/` (U+002F) separates segments;
  * `*`   (a run of one or more `*` that is not a globstar) matches any run of non-`/` code points, possibly empty;
  * `?`   matches exactly one non-`/` code point;
  * `**`  is a GLOBSTAR when the run of two or more `*` is a whole segment of the pattern: it begins at the
          beginning of the pattern or right after `/`, and it ends at the end of the pattern or right before `/`:
            - `**/` (globstar and the slash after it) matches zero or more directories, i.e. a prefix of the
              rest of the path that is empty or ends with `/`;
            - a globstar that ends the pattern matches everything that is left (any depth);
  * every other code point matches itself, in particular `[ ] { } ( ) + . ^ $ | \` have no special meaning
    (esbuild documents only `*` and `?`; webpack's glob-to-regexp additionally reads `[a-z]` and `{a,b}` —
    that extension is NOT part of this dialect and is listed as a difference in the report);
  * the whole path must be matched.

`lex` classifies the pattern (one pass, remembering the pending run of `*`), `matchToks` is the matcher, by
structural recursion on the classified pattern with one structural loop over the path per wildcard.
-/
namespace EsbuildModel.Spec.Glob

inductive Tok where
  | lit (c : Nat)
  | one        -- `?`
  | star       -- `*`
  | dirs       -- `**/`
  | deep       -- final `**`
  deriving DecidableEq, Repr

def tokOf (c : Nat) : Tok := if c = 63 then .one else .lit c

/-- `lex segStart stars p`: `stars` = length of the run of `*` read just before `p`, `segStart` = whether that run
(or, when `stars = 0`, the position itself) begins a segment -/
def lex : Bool → Nat → List Nat → List Tok
  | _, 0, [] => []
  | b, n + 1, [] => if b && decide (n + 1 ≥ 2) then [.deep] else [.star]
  | b, n, c :: p =>
    if c = 42 then lex b (n + 1) p
    else if n = 0 then tokOf c :: lex (c = 47) 0 p
    else if b && decide (n ≥ 2) && c = 47 then .dirs :: lex true 0 p
    else .star :: tokOf c :: lex (c = 47) 0 p

/-- the pattern as a token list -/
def tokens (pattern : List Nat) : List Tok := lex true 0 pattern

/-- `*`: stop here, or take one more non-`/` code point -/
def starLoop (k : List Nat → Bool) : List Nat → Bool
  | [] => k []
  | x :: xs => k (x :: xs) || (x != 47 && starLoop k xs)

/-- `**/`: stop at a segment start (`b`), or take one more code point (a `/` makes the next position a segment start) -/
def dirsLoop (k : List Nat → Bool) : Bool → List Nat → Bool
  | b, [] => b && k []
  | b, x :: xs => (b && k (x :: xs)) || dirsLoop k (x == 47) xs

/-- final `**`: stop anywhere -/
def deepLoop (k : List Nat → Bool) : List Nat → Bool
  | [] => k []
  | x :: xs => k (x :: xs) || deepLoop k xs

def matchToks : List Tok → List Nat → Bool
  | [] => fun w => w.isEmpty
  | .lit c :: ts => fun w => match w with
    | x :: xs => x == c && matchToks ts xs
    | [] => false
  | .one :: ts => fun w => match w with
    | x :: xs => x != 47 && matchToks ts xs
    | [] => false
  | .star :: ts => starLoop (matchToks ts)
  | .dirs :: ts => dirsLoop (matchToks ts) true
  | .deep :: ts => deepLoop (matchToks ts)

/-- does the glob `pattern` name the path? -/
def globMatch (pattern path : List Nat) : Bool := matchToks (tokens pattern) path

end EsbuildModel.Spec.Glob
