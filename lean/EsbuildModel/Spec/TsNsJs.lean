/-
The JavaScript subset that compiled namespaces and enums live in, with its ECMA-262 semantics on the machine
state of Spec/TsNsSyntax.lean.  Independent of esbuild: this is what a JavaScript engine does with such a text.

Binders are storage locations (`Loc`): the programs under study instantiate every function scope at most once
(all closures are immediately invoked, declared functions have no parameters and no locals), so a lexical
binding and its location coincide.  Assumptions about the environment: the global `p` is the probe function
of the test harness (logs its second argument and returns it); property names are never inherited ones.

Evaluation order follows 13.15.2 (assignment: reference, then right-hand side, then PutValue — so the
TypeError for an undefined base and the ReferenceError for a binding in its temporal dead zone come AFTER the
right-hand side has run), 13.13 (`||`), 13.15.2 step for `||=` (GetValue first), 13.3.6 (call: callee, then
arguments), 10.2.11 FunctionDeclarationInstantiation (hoisting of `var`, `let`/`const`, functions).
-/
import EsbuildModel.Spec.TsNsSyntax
namespace EsbuildModel.TsNs

mutual
inductive JExpr where
  | num (n : Int)
  | str (s : String)
  | undef
  | var (l : Loc)
  | dot (e : JExpr) (name : String)
  | index (e : JExpr) (i : JExpr)
  | assign (lhs : JExpr) (rhs : JExpr)
  | or (a : JExpr) (b : JExpr)
  | orAssign (lhs : JExpr) (rhs : JExpr)
  | add (a : JExpr) (b : JExpr)
  | comma (a : JExpr) (b : JExpr)
  | emptyObj
  /-- `p("tag", e)` -/
  | probe (tag : String) (e : JExpr)
  /-- `f()` -/
  | call0 (f : JExpr)
  /-- `((param) => { body })(arg)` or `(function(param) { body })(arg)`; `pure`: `/* @__PURE__ */` -/
  | iife (arrow : Bool) (param : Loc) (body : List JStmt) (preferExpr : Bool) (arg : JExpr) (pure : Bool)
  /-- `e /* comment */` -/
  | inlined (e : JExpr) (comment : String)
inductive JStmt where
  /-- one declarator; `hasInit = false`: no initialiser (`init` is ignored) -/
  | local_ (kind : VarKind) (exported : Bool) (l : Loc) (hasInit : Bool) (init : JExpr)
  | expr (e : JExpr)
  | ret (e : JExpr)
  /-- `function l() { return body }` -/
  | func (l : Loc) (body : JExpr)
end

instance : Inhabited JExpr := ⟨.undef⟩
instance : Inhabited JStmt := ⟨.expr .undef⟩

/-- completion of a statement list: normal, or `return v` -/
abbrev Completion := Option Value

/-- hoisting at function entry (declarations of this body only; closures inside are separate functions) -/
def hoistStmt : JStmt → M Unit
  | .local_ .var _ l _ _ => declareVar l
  | .local_ _ _ l _ _ => declareTdz l
  | .func (.var sc name) _ => initLoc (.var sc name) (.fn sc name)
  | .func _ _ => fail .stuck
  | _ => pure ()

def hoistStmts : List JStmt → M Unit
  | [] => pure ()
  | s :: rest => do hoistStmt s; hoistStmts rest

mutual
/-- `call sc name`: the value of calling the declared function `name` of block `sc` (one level less fuel) -/
def evalJ (call : Path → String → M Value) : JExpr → M Value
  | .num n => pure (.num n)
  | .str s => pure (.str s)
  | .undef => pure .undef
  | .var l => readLoc l
  | .dot e name => do
      let o ← evalJ call e
      getProp o name
  | .index e i => do
      let o ← evalJ call e
      let k ← evalJ call i
      match toKey k with
      | some key => getProp o key
      | none => fail .stuck
  | .assign (.var l) rhs => do
      let v ← evalJ call rhs
      assignLoc l v
      pure v
  | .assign (.dot b name) rhs => do
      let o ← evalJ call b
      let v ← evalJ call rhs
      setProp o name v
      pure v
  | .assign (.index b i) rhs => do
      let o ← evalJ call b
      let k ← evalJ call i
      let v ← evalJ call rhs
      match toKey k with
      | some key => do setProp o key v; pure v
      | none => fail .stuck
  | .assign _ _ => fail .stuck
  | .or a b => do
      let x ← evalJ call a
      if truthy x then pure x else evalJ call b
  | .orAssign (.var l) rhs => do
      let x ← readLoc l
      if truthy x then pure x else do
        let v ← evalJ call rhs
        assignLoc l v
        pure v
  | .orAssign (.dot b name) rhs => do
      let o ← evalJ call b
      let x ← getProp o name
      if truthy x then pure x else do
        let v ← evalJ call rhs
        setProp o name v
        pure v
  | .orAssign _ _ => fail .stuck
  | .add a b => do
      let x ← evalJ call a
      let y ← evalJ call b
      match addV x y with
      | some v => pure v
      | none => fail .stuck
  | .comma a b => do
      let _ ← evalJ call a
      evalJ call b
  | .emptyObj => alloc
  | .probe tag e => do
      let v ← evalJ call e
      logProbe tag v
      pure v
  | .call0 f => do
      let fv ← evalJ call f
      match fv with
      | .fn sc name => call sc name
      | _ => fail .type_
  | .iife _ param body _ arg _ => do
      let a ← evalJ call arg
      initLoc param a
      hoistStmts body
      let c ← execJs call body
      pure (c.getD .undef)
  | .inlined e _ => evalJ call e

def execJ (call : Path → String → M Value) : JStmt → M Completion
  | .local_ kind _ l hasInit init =>
      if hasInit then do
        let v ← evalJ call init
        initLoc l v
        pure none
      else
        match kind with
        | .var => pure none
        | _ => do initLoc l .undef; pure none
  | .expr e => do
      let _ ← evalJ call e
      pure none
  | .ret e => do
      let v ← evalJ call e
      pure (some v)
  | .func _ _ => pure none

def execJs (call : Path → String → M Value) : List JStmt → M Completion
  | [] => pure none
  | s :: rest => do
      let c ← execJ call s
      match c with
      | some v => pure (some v)
      | none => execJs call rest
end

/-! ### declared functions of a program text -/

mutual
def funcsE : JExpr → List (Path × String × JExpr)
  | .dot e _ => funcsE e
  | .index e i => funcsE e ++ funcsE i
  | .assign a b => funcsE a ++ funcsE b
  | .or a b => funcsE a ++ funcsE b
  | .orAssign a b => funcsE a ++ funcsE b
  | .add a b => funcsE a ++ funcsE b
  | .comma a b => funcsE a ++ funcsE b
  | .probe _ e => funcsE e
  | .call0 f => funcsE f
  | .iife _ _ body _ arg _ => funcsE arg ++ funcsL body
  | .inlined e _ => funcsE e
  | _ => []
def funcsS : JStmt → List (Path × String × JExpr)
  | .local_ _ _ _ _ init => funcsE init
  | .expr e => funcsE e
  | .ret e => funcsE e
  | .func (.var sc name) body => [(sc, name, body)]
  | .func _ _ => []
def funcsL : List JStmt → List (Path × String × JExpr)
  | [] => []
  | s :: rest => funcsS s ++ funcsL rest
end

def lookupFunc (tbl : List (Path × String × JExpr)) (sc : Path) (name : String) : Option JExpr :=
  match tbl with
  | [] => none
  | (sc', name', body) :: rest => if sc' = sc ∧ name' = name then some body else lookupFunc rest sc name

/-- calling a declared function with `fuel` nested calls left -/
def callJ (tbl : List (Path × String × JExpr)) : Nat → Path → String → M Value
  | 0 => fun _ _ => fail .fuel
  | fuel + 1 => fun sc name =>
      match lookupFunc tbl sc name with
      | some body => evalJ (callJ tbl fuel) body
      | none => fail .stuck

/-- run a whole script (module level = one function body) -/
def runJs (fuel : Nat) (prog : List JStmt) : Res Completion :=
  (do hoistStmts prog; execJs (callJ (funcsL prog) fuel) prog) State.empty

end EsbuildModel.TsNs
