/-
CSS Syntax Module Level 3 (W3C Candidate Recommendation, 16 July 2019), §3.3 "Preprocessing the input stream" and
§4 "Tokenization", transcribed from the specification as functions on lists of code points, without looking at
esbuild's code.  Section numbers refer to that document.

The tokenizer of the specification has no options.  The record `Quirks` marks the four places where a second
reading is provided so that a deviating implementation can be described exactly; `Quirks.standard` (every flag
off) IS the specification, and every use of a flag below is visible as `if q.… then … else …`.

Conventions: the input stream is `List Nat` (code points), EOF is `[]`; "consume" = drop from the front;
"reconsume" = do not drop.  Every algorithm returns what it produced together with the remaining stream.
A parse error is not a result of tokenization (§3: "parse errors … the tokenizer recovers"), so it is not recorded.
Numeric tokens carry their representation (the code points consumed by §4.3.12) and the type flag; the numeric
value is a function of the representation (§4.3.13 "convert a string to a number") and is not needed here.
-/
namespace EsbuildModel.Spec.CssSyntax

/-- places where an implementation may be described as deviating (all `false` = the specification) -/
structure Quirks where
  /-- §4.3.12: the `.` of a number is consumed even when no digit follows it -/
  numberTrailingDot : Bool
  /-- §4.3.14: after consuming an escaped code point, one more code point is consumed unseen -/
  badUrlSkipsAfterEscape : Bool
  /-- §4.3.5: a string ended by EOF is returned as a `<bad-string-token>` -/
  eofStringIsBad : Bool
  /-- §4.3.5 + §4.3.7: inside a string, a hex escape does not consume a newline that follows it -/
  stringHexEscapeKeepsNewline : Bool
deriving DecidableEq, Repr

def Quirks.standard : Quirks := ⟨false, false, false, false⟩

/-! ### §3.3 Preprocessing the input stream -/

def isSurrogate (c : Nat) : Bool := decide (0xD800 ≤ c) && decide (c ≤ 0xDFFF)

/-- a single code point: CR and FF become LF, NULL and surrogates become U+FFFD -/
def preprocessOne (c : Nat) : Nat :=
  if c = 0x0D ∨ c = 0x0C then 0x0A else if c = 0 ∨ isSurrogate c then 0xFFFD else c

/-- "Replace any U+000D CARRIAGE RETURN (CR) code points, U+000C FORM FEED (FF) code points, or pairs of U+000D
CARRIAGE RETURN (CR) followed by U+000A LINE FEED (LF), by a single U+000A LINE FEED (LF) code point.
Replace any U+0000 NULL or surrogate code points with U+FFFD REPLACEMENT CHARACTER." -/
def preprocess : List Nat → List Nat
  | [] => []
  | [c] => [preprocessOne c]
  | c :: d :: t => if c = 0x0D ∧ d = 0x0A then 0x0A :: preprocess t else preprocessOne c :: preprocess (d :: t)

/-! ### §4.2 Definitions -/

def isDigit (c : Nat) : Bool := decide (0x30 ≤ c) && decide (c ≤ 0x39)
def isHexDigit (c : Nat) : Bool :=
  isDigit c || (decide (0x41 ≤ c) && decide (c ≤ 0x46)) || (decide (0x61 ≤ c) && decide (c ≤ 0x66))
def hexValue (c : Nat) : Nat := if isDigit c then c - 0x30 else if c ≤ 0x46 then c - 0x41 + 10 else c - 0x61 + 10
def isLetter (c : Nat) : Bool := (decide (0x41 ≤ c) && decide (c ≤ 0x5A)) || (decide (0x61 ≤ c) && decide (c ≤ 0x7A))
/-- "non-ASCII code point: a code point with a value equal to or greater than U+0080" -/
def isNonAscii (c : Nat) : Bool := decide (0x80 ≤ c)
/-- ident-start code point (called "name-start code point" in the 2019 text): a letter, a non-ASCII code point, or `_` -/
def isIdentStart (c : Nat) : Bool := isLetter c || isNonAscii c || c == 0x5F
/-- ident code point ("name code point"): an ident-start code point, a digit, or `-` -/
def isIdentCode (c : Nat) : Bool := isIdentStart c || isDigit c || c == 0x2D
def isNonPrintable (c : Nat) : Bool :=
  decide (c ≤ 0x08) || c == 0x0B || (decide (0x0E ≤ c) && decide (c ≤ 0x1F)) || c == 0x7F
/-- after preprocessing the only newline is U+000A -/
def isNewline (c : Nat) : Bool := c == 0x0A
def isWhitespace (c : Nat) : Bool := isNewline c || c == 0x09 || c == 0x20
def maxCodePoint : Nat := 0x10FFFF

/-! ### tokens (§4) -/

inductive NumType where
  | integer | number
deriving DecidableEq, Repr

inductive HashType where
  | id | unrestricted
deriving DecidableEq, Repr

inductive Token where
  | ident (value : List Nat)
  | function (value : List Nat)
  | atKeyword (value : List Nat)
  | hash (value : List Nat) (type : HashType)
  | string (value : List Nat)
  | badString
  | url (value : List Nat)
  | badUrl
  | delim (value : Nat)
  | number (repr : List Nat) (type : NumType)
  | percentage (repr : List Nat)
  | dimension (repr : List Nat) (type : NumType) (unit : List Nat)
  | whitespace
  | cdo | cdc | colon | semicolon | comma
  | lbracket | rbracket | lparen | rparen | lbrace | rbrace
deriving DecidableEq, Repr

/-! ### §4.3.7 Consume an escaped code point

"It assumes that the U+005C REVERSE SOLIDUS (\) has already been consumed and that the next input code point has
already been verified to be part of a valid escape." -/

/-- "Consume as many hex digits as possible, but no more than 5": value so far, digits still allowed -/
def hexDigits : Nat → Nat → List Nat → Nat × List Nat
  | 0, v, s => (v, s)
  | _ + 1, v, [] => (v, [])
  | k + 1, v, c :: t => if isHexDigit c then hexDigits k (v * 16 + hexValue c) t else (v, c :: t)

/-- "If the next input code point is whitespace, consume it as well."  `keepNewline`: the reading of quirk
`stringHexEscapeKeepsNewline` (only ever `true` inside strings) -/
def skipEscapeWhitespace (keepNewline : Bool) : List Nat → List Nat
  | [] => []
  | w :: u => if isWhitespace w && !(keepNewline && isNewline w) then u else w :: u

/-- "Interpret the hex digits as a hexadecimal number. If this number is zero, or is for a surrogate, or is greater
than the maximum allowed code point, return U+FFFD REPLACEMENT CHARACTER" -/
def escapeValue (v : Nat) : Nat := if v = 0 ∨ isSurrogate v ∨ v > maxCodePoint then 0xFFFD else v

def consumeEscaped (keepNewline : Bool) : List Nat → Nat × List Nat
  | [] => (0xFFFD, []) -- "EOF: This is a parse error. Return U+FFFD"
  | c :: t =>
    if isHexDigit c then
      (escapeValue (hexDigits 5 (hexValue c) t).1, skipEscapeWhitespace keepNewline (hexDigits 5 (hexValue c) t).2)
    else (c, t) -- "anything else: Return the current input code point."

/-! ### §4.3.8 – §4.3.10 the three checks -/

/-- §4.3.8 "Check if two code points are a valid escape" (EOF as second code point is not a newline) -/
def validEscape : List Nat → Bool
  | 0x5C :: [] => true
  | 0x5C :: d :: _ => !isNewline d
  | _ => false

/-- §4.3.9 "Check if three code points would start an ident sequence" -/
def wouldStartIdent : List Nat → Bool
  | [] => false
  | c :: t =>
    if c = 0x2D then
      match t with
      | [] => false
      | d :: _ => isIdentStart d || d == 0x2D || validEscape t
    else if isIdentStart c then true
    else if c = 0x5C then validEscape (c :: t)
    else false

/-- §4.3.10 "Check if three code points would start a number" -/
def wouldStartNumber : List Nat → Bool
  | [] => false
  | c :: t =>
    if c = 0x2B ∨ c = 0x2D then
      match t with
      | [] => false
      | d :: u => if isDigit d then true else if d = 0x2E then (match u with | e :: _ => isDigit e | [] => false) else false
    else if c = 0x2E then (match t with | d :: _ => isDigit d | [] => false)
    else isDigit c

theorem hexDigits_length (k v : Nat) (s : List Nat) : (hexDigits k v s).2.length ≤ s.length := by
  induction k generalizing v s with
  | zero => simp [hexDigits]
  | succ k ih =>
    cases s with
    | nil => simp [hexDigits]
    | cons c t =>
      simp only [hexDigits]; split
      · exact Nat.le_trans (ih _ t) (by simp)
      · simp

theorem skipEscapeWhitespace_length (b : Bool) (s : List Nat) : (skipEscapeWhitespace b s).length ≤ s.length := by
  cases s with
  | nil => simp [skipEscapeWhitespace]
  | cons w u => simp only [skipEscapeWhitespace]; split <;> simp

theorem consumeEscaped_length (b : Bool) (s : List Nat) : (consumeEscaped b s).2.length ≤ s.length := by
  cases s with
  | nil => simp [consumeEscaped]
  | cons c t =>
    simp only [consumeEscaped]
    split
    · have := hexDigits_length 5 (hexValue c) t
      have := skipEscapeWhitespace_length b (hexDigits 5 (hexValue c) t).2
      simp only [List.length_cons]; omega
    · simp

/-! ### §4.3.11 Consume an ident sequence ("consume a name") -/

def consumeIdentSeq (s : List Nat) : List Nat × List Nat :=
  match s with
  | [] => ([], [])
  | c :: t =>
    if isIdentCode c then (c :: (consumeIdentSeq t).1, (consumeIdentSeq t).2)
    else if validEscape (c :: t) then
      -- "Consume an escaped code point. Append the returned code point to result."
      ((consumeEscaped false t).1 :: (consumeIdentSeq (consumeEscaped false t).2).1,
       (consumeIdentSeq (consumeEscaped false t).2).2)
    else ([], c :: t) -- "anything else: Reconsume the current input code point. Return result."
termination_by s.length
decreasing_by
  · simp
  · have := consumeEscaped_length false t; simp only [List.length_cons]; omega

theorem consumeIdentSeq_length (s : List Nat) : (consumeIdentSeq s).2.length ≤ s.length := by
  fun_induction consumeIdentSeq s with
  | case1 => simp
  | case2 c t h ih => simp only [List.length_cons]; omega
  | case3 c t h1 h2 ih =>
    have := consumeEscaped_length false t
    simp only [List.length_cons]; omega
  | case4 => simp

/-! ### §4.3.12 Consume a number: representation, type flag, rest -/

def takeDigits : List Nat → List Nat × List Nat
  | [] => ([], [])
  | c :: t => if isDigit c then ((takeDigits t).1.cons c, (takeDigits t).2) else ([], c :: t)

theorem takeDigits_length (s : List Nat) : (takeDigits s).2.length ≤ s.length := by
  induction s with
  | nil => simp [takeDigits]
  | cons c t ih => simp only [takeDigits]; split <;> simp <;> omega

/-- step 2: an optional sign -/
def takeSign : List Nat → List Nat × List Nat
  | [] => ([], [])
  | c :: t => if c = 0x2B ∨ c = 0x2D then ([c], t) else ([], c :: t)

/-- step 4: "If the next 2 input code points are U+002E FULL STOP (.) followed by a digit" -/
def takeFraction (q : Quirks) : List Nat → Option (List Nat × List Nat)
  | 0x2E :: d :: t =>
    if isDigit d then some (0x2E :: d :: (takeDigits t).1, (takeDigits t).2)
    else if q.numberTrailingDot then some ([0x2E], d :: t) else none
  | [0x2E] => if q.numberTrailingDot then some ([0x2E], []) else none
  | _ => none

/-- step 5: "If the next 2 or 3 input code points are U+0045 (E) or U+0065 (e), optionally followed by U+002D (-)
or U+002B (+), followed by a digit" -/
def takeExponent : List Nat → Option (List Nat × List Nat)
  | e :: d :: t =>
    if e = 0x45 ∨ e = 0x65 then
      if isDigit d then some (e :: d :: (takeDigits t).1, (takeDigits t).2)
      else if d = 0x2B ∨ d = 0x2D then
        match t with
        | g :: u => if isDigit g then some (e :: d :: g :: (takeDigits u).1, (takeDigits u).2) else none
        | [] => none
      else none
    else none
  | _ => none

def consumeNumber (q : Quirks) (s : List Nat) : List Nat × NumType × List Nat :=
  -- steps 2–3: sign and integer part: `(takeSign s).1 ++ (takeDigits (takeSign s).2).1`
  match takeFraction q (takeDigits (takeSign s).2).2 with
  | some (frac, r2) =>
    (match takeExponent r2 with
     | some (ex, r3) => ((takeSign s).1 ++ (takeDigits (takeSign s).2).1 ++ frac ++ ex, .number, r3)
     | none => ((takeSign s).1 ++ (takeDigits (takeSign s).2).1 ++ frac, .number, r2))
  | none =>
    (match takeExponent (takeDigits (takeSign s).2).2 with
     | some (ex, r3) => ((takeSign s).1 ++ (takeDigits (takeSign s).2).1 ++ ex, .number, r3)
     | none => ((takeSign s).1 ++ (takeDigits (takeSign s).2).1, .integer, (takeDigits (takeSign s).2).2))

/-! ### §4.3.3 Consume a numeric token -/

def consumeNumeric (q : Quirks) (s : List Nat) : Token × List Nat :=
  if wouldStartIdent (consumeNumber q s).2.2 then
    (.dimension (consumeNumber q s).1 (consumeNumber q s).2.1 (consumeIdentSeq (consumeNumber q s).2.2).1,
     (consumeIdentSeq (consumeNumber q s).2.2).2)
  else
    match (consumeNumber q s).2.2 with
    | 0x25 :: t => (.percentage (consumeNumber q s).1, t)
    | r => (.number (consumeNumber q s).1 (consumeNumber q s).2.1, r)

/-! ### §4.3.14 Consume the remnants of a bad url -/

def consumeBadUrlRemnants (q : Quirks) (s : List Nat) : List Nat :=
  match s with
  | [] => [] -- EOF: return
  | c :: t =>
    if c = 0x29 then t -- ")": return
    else if validEscape (c :: t) then
      -- "Consume an escaped code point. This allows an escaped right parenthesis to be encountered without ending
      -- the <bad-url-token>."
      if q.badUrlSkipsAfterEscape then consumeBadUrlRemnants q ((consumeEscaped false t).2.drop 1)
      else consumeBadUrlRemnants q (consumeEscaped false t).2
    else consumeBadUrlRemnants q t -- "anything else: Do nothing."
termination_by s.length
decreasing_by
  · have := consumeEscaped_length false t; simp only [List.length_cons, List.length_drop]; omega
  · have := consumeEscaped_length false t; simp only [List.length_cons]; omega
  · simp

theorem consumeBadUrlRemnants_length (q : Quirks) (s : List Nat) : (consumeBadUrlRemnants q s).length ≤ s.length := by
  fun_induction consumeBadUrlRemnants q s with
  | case1 => simp
  | case2 => simp
  | case3 c t h1 h2 h3 ih =>
    have := consumeEscaped_length false t; simp only [List.length_cons, List.length_drop] at *; omega
  | case4 c t h1 h2 h3 ih =>
    have := consumeEscaped_length false t; simp only [List.length_cons] at *; omega
  | case5 c t h1 h2 ih => simp only [List.length_cons]; omega

/-! ### §4.3.6 Consume a url token (the `url(` has been consumed) -/

def dropWhitespace : List Nat → List Nat
  | [] => []
  | c :: t => if isWhitespace c then dropWhitespace t else c :: t

theorem dropWhitespace_length (s : List Nat) : (dropWhitespace s).length ≤ s.length := by
  induction s with
  | nil => simp [dropWhitespace]
  | cons c t ih => simp only [dropWhitespace]; split <;> simp <;> omega

/-- step 3, "Repeatedly consume the next input code point from the stream"; `acc` = the url's value, reversed -/
def urlLoop (q : Quirks) (acc : List Nat) (s : List Nat) : Token × List Nat :=
  match s with
  | [] => (.url acc.reverse, []) -- EOF: parse error, return the <url-token>
  | c :: t =>
    if c = 0x29 then (.url acc.reverse, t)
    else if isWhitespace c then
      -- "Consume as much whitespace as possible. If the next input code point is ")" or EOF, consume it and return
      -- the <url-token>; otherwise, consume the remnants of a bad url, create a <bad-url-token>, and return it."
      match dropWhitespace t with
      | [] => (.url acc.reverse, [])
      | d :: u => if d = 0x29 then (.url acc.reverse, u) else (.badUrl, consumeBadUrlRemnants q (d :: u))
    else if c = 0x22 ∨ c = 0x27 ∨ c = 0x28 ∨ isNonPrintable c then (.badUrl, consumeBadUrlRemnants q t)
    else if c = 0x5C then
      if validEscape (c :: t) then urlLoop q ((consumeEscaped false t).1 :: acc) (consumeEscaped false t).2
      else (.badUrl, consumeBadUrlRemnants q t)
    else urlLoop q (c :: acc) t
termination_by s.length
decreasing_by
  · have := consumeEscaped_length false t; simp only [List.length_cons]; omega
  · simp

/-- steps 1–2: "Consume as much whitespace as possible." -/
def consumeUrl (q : Quirks) (s : List Nat) : Token × List Nat := urlLoop q [] (dropWhitespace s)

/-! ### §4.3.5 Consume a string token; `acc` = the string's value, reversed -/

def stringLoop (q : Quirks) (ending : Nat) (acc : List Nat) (s : List Nat) : Token × List Nat :=
  match s with
  | [] => (if q.eofStringIsBad then .badString else .string acc.reverse, []) -- "EOF: This is a parse error. Return the <string-token>."
  | c :: t =>
    if c = ending then (.string acc.reverse, t)
    else if isNewline c then (.badString, c :: t) -- "Reconsume the current input code point, create a <bad-string-token>"
    else if c = 0x5C then
      match t with
      | [] => stringLoop q ending acc [] -- "If the next input code point is EOF, do nothing."
      | d :: u =>
        if isNewline d then stringLoop q ending acc u -- "if the next input code point is a newline, consume it"
        else -- "(the stream starts with a valid escape) consume an escaped code point and append the returned code point"
          stringLoop q ending ((consumeEscaped q.stringHexEscapeKeepsNewline (d :: u)).1 :: acc)
            (consumeEscaped q.stringHexEscapeKeepsNewline (d :: u)).2
    else stringLoop q ending (c :: acc) t
termination_by s.length
decreasing_by
  · simp
  · simp only [List.length_cons]; omega
  · have := consumeEscaped_length q.stringHexEscapeKeepsNewline (d :: u); simp only [List.length_cons] at *; omega
  · simp

/-! ### §4.3.4 Consume an ident-like token -/

def lowerAscii (c : Nat) : Nat := if 0x41 ≤ c ∧ c ≤ 0x5A then c + 0x20 else c

/-- "an ASCII case-insensitive match for "url"" -/
def isUrl (v : List Nat) : Bool := v.map lowerAscii == [0x75, 0x72, 0x6C]

/-- "While the next two input code points are whitespace, consume the next input code point." -/
def dropWhitespaceButOne : List Nat → List Nat
  | c :: d :: t => if isWhitespace c && isWhitespace d then dropWhitespaceButOne (d :: t) else c :: d :: t
  | s => s

/-- "If the next one or two input code points are U+0022, U+0027, or whitespace followed by U+0022 or U+0027" -/
def startsQuoted : List Nat → Bool
  | [] => false
  | c :: t =>
    c == 0x22 || c == 0x27 || (isWhitespace c && (match t with | d :: _ => d == 0x22 || d == 0x27 | [] => false))

def consumeIdentLike (q : Quirks) (s : List Nat) : Token × List Nat :=
  match (consumeIdentSeq s).2 with
  | 0x28 :: t =>
    if isUrl (consumeIdentSeq s).1 then
      if startsQuoted (dropWhitespaceButOne t) then (.function (consumeIdentSeq s).1, dropWhitespaceButOne t)
      else consumeUrl q (dropWhitespaceButOne t)
    else (.function (consumeIdentSeq s).1, t)
  | r => (.ident (consumeIdentSeq s).1, r)

/-! ### §4.3.2 Consume comments -/

/-- the stream after `/*`: "all following code points up to and including the first U+002A ASTERISK (*) followed by
U+002F SOLIDUS (/), or up to an EOF code point" -/
def afterComment : List Nat → List Nat
  | [] => []
  | [_] => []
  | c :: d :: t => if c = 0x2A ∧ d = 0x2F then t else afterComment (d :: t)

def startsComment : List Nat → Bool
  | 0x2F :: 0x2A :: _ => true
  | _ => false

/-! ### §4.3.1 Consume a token (comments have been consumed; the stream is not at EOF) -/

def singleCodePointToken (c : Nat) : Option Token :=
  if c = 0x28 then some .lparen else if c = 0x29 then some .rparen else if c = 0x2C then some .comma
  else if c = 0x3A then some .colon else if c = 0x3B then some .semicolon else if c = 0x5B then some .lbracket
  else if c = 0x5D then some .rbracket else if c = 0x7B then some .lbrace else if c = 0x7D then some .rbrace else none

/-- "the next input code point is an ident code point" -/
def nextIsIdentCode : List Nat → Bool
  | d :: _ => isIdentCode d
  | [] => false

def consumeToken (q : Quirks) (c : Nat) (t : List Nat) : Token × List Nat :=
  if isWhitespace c then (.whitespace, dropWhitespace t) -- "Consume as much whitespace as possible."
  else if c = 0x22 ∨ c = 0x27 then stringLoop q c [] t
  else if c = 0x23 then -- "#"
    if nextIsIdentCode t || validEscape t then
      (.hash (consumeIdentSeq t).1 (if wouldStartIdent t then .id else .unrestricted), (consumeIdentSeq t).2)
    else (.delim c, t)
  else if c = 0x2B then -- "+"
    if wouldStartNumber (c :: t) then consumeNumeric q (c :: t) else (.delim c, t)
  else if c = 0x2D then -- "-"
    if wouldStartNumber (c :: t) then consumeNumeric q (c :: t)
    else
      match t with
      | 0x2D :: 0x3E :: u => (.cdc, u)
      | _ => if wouldStartIdent (c :: t) then consumeIdentLike q (c :: t) else (.delim c, t)
  else if c = 0x2E then -- "."
    if wouldStartNumber (c :: t) then consumeNumeric q (c :: t) else (.delim c, t)
  else if c = 0x3C then -- "<"
    match t with
    | 0x21 :: 0x2D :: 0x2D :: u => (.cdo, u)
    | _ => (.delim c, t)
  else if c = 0x40 then -- "@"
    if wouldStartIdent t then (.atKeyword (consumeIdentSeq t).1, (consumeIdentSeq t).2) else (.delim c, t)
  else if c = 0x5C then -- "\"
    if validEscape (c :: t) then consumeIdentLike q (c :: t) else (.delim c, t)
  else if isDigit c then consumeNumeric q (c :: t)
  else if isIdentStart c then consumeIdentLike q (c :: t)
  else
    match singleCodePointToken c with
    | some tok => (tok, t)
    | none => (.delim c, t)

/-- `Tokenizes q s toks`: tokenizing the (preprocessed) stream `s` by repeatedly consuming a token until the
`<EOF-token>` yields exactly `toks` -/
inductive Tokenizes (q : Quirks) : List Nat → List Token → Prop
  | eof : Tokenizes q [] []
  | comment (t : List Nat) (toks : List Token) :
      Tokenizes q (afterComment t) toks → Tokenizes q (0x2F :: 0x2A :: t) toks
  | token (c : Nat) (t : List Nat) (tok : Token) (rest : List Nat) (toks : List Token) :
      startsComment (c :: t) = false → consumeToken q c t = (tok, rest) → Tokenizes q rest toks →
      Tokenizes q (c :: t) (tok :: toks)

end EsbuildModel.Spec.CssSyntax
