/-
CSS Values and Units 4, section 10 ("Mathematical expressions"): the internal representation of a
`calc()` expression is a CALCULATION TREE (10.10: Sum, Product, Negate, Invert nodes over leaves that are
numeric values `<number> <unit>` or opaque things such as non-math functions), and its meaning is the
number obtained by evaluating the tree once every unit has been resolved to a quantity.

This file is the independent side of property C12 for `calc()`: it says what a tree MEANS, as a function of
an environment that gives a quantity to one of each unit (`px ↦ 1`, `em ↦ 16`, `% ↦ 3.2`, …) and to
each opaque leaf.  Quantities live in an arbitrary FIELD (`Lean.Grind.Field`, core Lean; `Rat` is an
instance), i.e. this is the reading "equal as real-number expressions".  Division by zero has no value here
(`none`); CSS itself gives it an IEEE infinity, which a field does not have, so every statement made with
this spec is about trees whose evaluation never divides by zero.

Units are ASCII case-insensitive (CSS Values 4, 4.1: "unit identifiers are ASCII case-insensitive"), the empty
unit is a plain number.  Types (length / number / percentage) are not part of this spec: units are independent
indeterminates, which is the strongest reading — two trees that agree for EVERY assignment of quantities to
units agree in particular for the well-typed ones.
-/
namespace EsbuildModel.Spec.CssCalc

/-- calculation tree; `ν` numbers, `ω` opaque leaves; a unit is a byte string, `[]` = no unit -/
inductive Calc (ν ω : Type) where
  | sum (ts : List (Calc ν ω))
  | prod (ts : List (Calc ν ω))
  | neg (t : Calc ν ω)
  | inv (t : Calc ν ω)
  | num (unit : List Nat) (n : ν)
  | leaf (x : ω)

/-- ASCII lower case of one byte -/
def lowerByte (b : Nat) : Nat := if 65 ≤ b ∧ b ≤ 90 then b + 32 else b

/-- canonical (lower-case) spelling of a unit -/
def foldUnit (u : List Nat) : List Nat := u.map lowerByte

/-- quantities of units and of opaque leaves -/
structure Env (α ω : Type) where
  unit : List Nat → α
  leaf : ω → α

open Lean.Grind in
/-- quantity of one `u`; a plain number has the "unit" 1 -/
def unitVal {α ω} [Field α] (ρ : Env α ω) (u : List Nat) : α :=
  if u = [] then 1 else ρ.unit (foldUnit u)

section
open Lean.Grind
variable {α ω : Type} [Field α] [DecidableEq α] (ρ : Env α ω)

mutual
/-- the value of a calculation tree, `none` when a division by zero occurs -/
def value : Calc α ω → Option α
  | .sum ts => sumVals ts
  | .prod ts => prodVals ts
  | .neg t => (value t).map (fun v => -v)
  | .inv t =>
    match value t with
    | some v => if v = 0 then none else some v⁻¹
    | none => none
  | .num u n => some (n * unitVal ρ u)
  | .leaf x => some (ρ.leaf x)
def sumVals : List (Calc α ω) → Option α
  | [] => some 0
  | t :: ts =>
    match value t, sumVals ts with
    | some a, some b => some (a + b)
    | _, _ => none
def prodVals : List (Calc α ω) → Option α
  | [] => some 1
  | t :: ts =>
    match value t, prodVals ts with
    | some a, some b => some (a * b)
    | _, _ => none
end

end

end EsbuildModel.Spec.CssCalc
