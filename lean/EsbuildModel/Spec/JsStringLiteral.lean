import EsbuildModel.Spec.JsString
/-
Independent specification of the string-literal and template-literal TOKENS of ECMA-262, written from the standard
(§12.9.4 "String Literals" with the Annex-B productions that the main body now contains, §12.9.4.2 SV, §12.9.6
"Template Literal Lexical Components", §12.9.6.1 TV and TRV), not from esbuild's code.  Source text is a list of Unicode
code points (`SourceCharacter :: any Unicode code point`), values are lists of UTF-16 code units.

  StringLiteral :: `"` DoubleStringCharacters? `"` | `'` SingleStringCharacters? `'`
  DoubleStringCharacter :: SourceCharacter but not one of `"` or `\` or LineTerminator | <LS> | <PS>
                         | `\` EscapeSequence | LineContinuation
  LineContinuation :: `\` LineTerminatorSequence
  LineTerminatorSequence :: <LF> | <CR> [lookahead ≠ <LF>] | <LS> | <PS> | <CR> <LF>
  EscapeSequence :: CharacterEscapeSequence | `0` [lookahead ∉ DecimalDigit] | LegacyOctalEscapeSequence
                  | NonOctalDecimalEscapeSequence | HexEscapeSequence | UnicodeEscapeSequence
  CharacterEscapeSequence :: SingleEscapeCharacter | NonEscapeCharacter
  SingleEscapeCharacter :: one of `' " \ b f n r t v`
  NonEscapeCharacter :: SourceCharacter but not one of EscapeCharacter or LineTerminator
  EscapeCharacter :: SingleEscapeCharacter | DecimalDigit | `x` | `u`
  LegacyOctalEscapeSequence :: `0` [lookahead ∈ {8, 9}] | NonZeroOctalDigit [lookahead ∉ OctalDigit]
      | ZeroToThree OctalDigit [lookahead ∉ OctalDigit] | FourToSeven OctalDigit | ZeroToThree OctalDigit OctalDigit
  NonOctalDecimalEscapeSequence :: one of `8 9`
  HexEscapeSequence :: `x` HexDigit HexDigit
  UnicodeEscapeSequence :: `u` Hex4Digits | `u{` CodePoint `}`          (CodePoint: HexDigits with MV ≤ 0x10FFFF)

  NoSubstitutionTemplate :: ` TemplateCharacters? `      TemplateHead :: ` TemplateCharacters? `${`
  TemplateMiddle :: `}` TemplateCharacters? `${`          TemplateTail :: `}` TemplateCharacters? `
  TemplateCharacter :: `$` [lookahead ≠ `{`] | `\` TemplateEscapeSequence | `\` NotEscapeSequence | LineContinuation
      | LineTerminatorSequence | SourceCharacter but not one of ` or `\` or `$` or LineTerminator
  TemplateEscapeSequence :: CharacterEscapeSequence | `0` [lookahead ∉ DecimalDigit] | HexEscapeSequence | UnicodeEscapeSequence
  NotEscapeSequence :: `0` DecimalDigit | DecimalDigit but not `0` | `x` [lookahead ∉ HexDigit]
      | `x` HexDigit [lookahead ∉ HexDigit] | `u` [lookahead ∉ HexDigit] [lookahead ≠ `{`]
      | `u` HexDigit{1,2,3} [lookahead ∉ HexDigit] | `u{` [lookahead ∉ HexDigit] | `u{` NotCodePoint [lookahead ∉ HexDigit]
      | `u{` CodePoint [lookahead ∉ HexDigit] [lookahead ≠ `}`]

A literal is given as a DERIVATION (which alternative was used for every character, with its digits); `render` is the
text the derivation derives, `ok`/`valid` check the side conditions of the productions — the lookahead restrictions are
checked against the next character of the rendered text, the closing delimiter included —, `sv` / `tv` / `trv` are the
static semantics.  `hasLegacy`: the literal contains a LegacyOctalEscapeSequence or NonOctalDecimalEscapeSequence, which
§12.9.4.1 forbids in strict mode code.  The TV of a template is `none` ("undefined") as soon as one NotEscapeSequence occurs.
-/
namespace EsbuildModel.Spec.StrLit
open EsbuildModel.Spec.JsString (hexVal? utf16)

/-- SourceCharacter :: any Unicode code point -/
def isSourceChar (c : Nat) : Bool := c ≤ 0x10FFFF
/-- LineTerminator :: <LF> | <CR> | <LS> | <PS> -/
def isLineTerminator (c : Nat) : Bool := c = 0x0A || c = 0x0D || c = 0x2028 || c = 0x2029
def isDecimalDigit (c : Nat) : Bool := 0x30 ≤ c && c ≤ 0x39
def isOctalDigit (c : Nat) : Bool := 0x30 ≤ c && c ≤ 0x37
def isHexDigit (c : Nat) : Bool := (hexVal? c).isSome

/-- MV of a digit string in radix `b` (HexDigits / octal digits), most significant digit first -/
def digitsMV (b : Nat) (ds : List Nat) : Nat := ds.foldl (fun a c => a * b + (hexVal? c).getD 0) 0

/-- a lookahead restriction `[lookahead ∉ S]` holds at the end of the source text too -/
def lookNot (p : Nat → Bool) : Option Nat → Bool
  | none => true
  | some c => !p c
/-- `[lookahead ∈ S]` -/
def lookIn (p : Nat → Bool) : Option Nat → Bool
  | none => false
  | some c => p c

/-- LineTerminatorSequence -/
inductive LTS | lf | cr | ls | ps | crlf
  deriving DecidableEq, Repr

def LTS.render : LTS → List Nat
  | .lf => [0x0A]
  | .cr => [0x0D]
  | .ls => [0x2028]
  | .ps => [0x2029]
  | .crlf => [0x0D, 0x0A]

/-- `<CR> [lookahead ≠ <LF>]` -/
def LTS.look : LTS → Option Nat → Bool
  | .cr, nx => lookNot (· = 0x0A) nx
  | _, _ => true

/-- TRV (= TV) of LineTerminatorSequence: <CR> and <CR><LF> are normalised to <LF> -/
def LTS.trv : LTS → List Nat
  | .lf => [0x0A]
  | .cr => [0x0A]
  | .ls => [0x2028]
  | .ps => [0x2029]
  | .crlf => [0x0A]

/-- SingleEscapeCharacter with the code unit of Table "String Single Character Escape Sequences" -/
def singleEscape? (c : Nat) : Option Nat :=
  if c = 0x62 then some 0x08        -- b  BACKSPACE
  else if c = 0x74 then some 0x09   -- t  CHARACTER TABULATION
  else if c = 0x6E then some 0x0A   -- n  LINE FEED
  else if c = 0x76 then some 0x0B   -- v  LINE TABULATION
  else if c = 0x66 then some 0x0C   -- f  FORM FEED
  else if c = 0x72 then some 0x0D   -- r  CARRIAGE RETURN
  else if c = 0x22 then some 0x22   -- "
  else if c = 0x27 then some 0x27   -- '
  else if c = 0x5C then some 0x5C   -- \
  else none

def isEscapeCharacter (c : Nat) : Bool := (singleEscape? c).isSome || isDecimalDigit c || c = 0x78 || c = 0x75
def isNonEscapeCharacter (c : Nat) : Bool := isSourceChar c && !isEscapeCharacter c && !isLineTerminator c

/-- the escape sequences common to EscapeSequence and TemplateEscapeSequence (what follows the backslash) -/
inductive CEsc
  /-- CharacterEscapeSequence :: SingleEscapeCharacter -/
  | single (c : Nat)
  /-- CharacterEscapeSequence :: NonEscapeCharacter -/
  | nonEsc (c : Nat)
  /-- `0` [lookahead ∉ DecimalDigit] -/
  | nul
  /-- HexEscapeSequence :: `x` HexDigit HexDigit -/
  | hex (a b : Nat)
  /-- UnicodeEscapeSequence :: `u` Hex4Digits -/
  | u4 (a b c d : Nat)
  /-- UnicodeEscapeSequence :: `u{` CodePoint `}` -/
  | uBrace (ds : List Nat)
  deriving DecidableEq, Repr

def CEsc.render : CEsc → List Nat
  | .single c => [c]
  | .nonEsc c => [c]
  | .nul => [0x30]
  | .hex a b => [0x78, a, b]
  | .u4 a b c d => [0x75, a, b, c, d]
  | .uBrace ds => 0x75 :: 0x7B :: (ds ++ [0x7D])

/-- the side conditions of the productions that do not look at the context -/
def CEsc.wf : CEsc → Bool
  | .single c => (singleEscape? c).isSome
  | .nonEsc c => isNonEscapeCharacter c
  | .nul => true
  | .hex a b => isHexDigit a && isHexDigit b
  | .u4 a b c d => isHexDigit a && isHexDigit b && isHexDigit c && isHexDigit d
  | .uBrace ds => !ds.isEmpty && ds.all isHexDigit && digitsMV 16 ds ≤ 0x10FFFF

def CEsc.look : CEsc → Option Nat → Bool
  | .nul, nx => lookNot isDecimalDigit nx
  | _, _ => true

/-- SV (= TV) of the escape sequence -/
def CEsc.sv : CEsc → List Nat
  | .single c => [(singleEscape? c).getD 0]
  | .nonEsc c => utf16 c
  | .nul => [0]
  | .hex a b => [digitsMV 16 [a, b]]
  | .u4 a b c d => [digitsMV 16 [a, b, c, d]]
  | .uBrace ds => utf16 (digitsMV 16 ds)

/-! ## String literals -/

/-- LegacyOctalEscapeSequence (what follows the backslash) -/
inductive LegacyOctal
  /-- `0` [lookahead ∈ {8, 9}] -/
  | zero89
  /-- NonZeroOctalDigit [lookahead ∉ OctalDigit] -/
  | one (a : Nat)
  /-- ZeroToThree OctalDigit [lookahead ∉ OctalDigit] -/
  | two03 (a b : Nat)
  /-- FourToSeven OctalDigit -/
  | two47 (a b : Nat)
  /-- ZeroToThree OctalDigit OctalDigit -/
  | three (a b c : Nat)
  deriving DecidableEq, Repr

def LegacyOctal.render : LegacyOctal → List Nat
  | .zero89 => [0x30]
  | .one a => [a]
  | .two03 a b => [a, b]
  | .two47 a b => [a, b]
  | .three a b c => [a, b, c]

def LegacyOctal.wf : LegacyOctal → Bool
  | .zero89 => true
  | .one a => 0x31 ≤ a && a ≤ 0x37
  | .two03 a b => 0x30 ≤ a && a ≤ 0x33 && isOctalDigit b
  | .two47 a b => 0x34 ≤ a && a ≤ 0x37 && isOctalDigit b
  | .three a b c => 0x30 ≤ a && a ≤ 0x33 && isOctalDigit b && isOctalDigit c

def LegacyOctal.look : LegacyOctal → Option Nat → Bool
  | .zero89, nx => lookIn (fun c => c = 0x38 || c = 0x39) nx
  | .one _, nx => lookNot isOctalDigit nx
  | .two03 _ _, nx => lookNot isOctalDigit nx
  | _, _ => true

/-- one DoubleStringCharacter / SingleStringCharacter -/
inductive StrChar
  /-- SourceCharacter but not one of the quote or `\` or LineTerminator, or <LS>, or <PS> -/
  | plain (c : Nat)
  /-- `\` EscapeSequence, for the alternatives shared with templates -/
  | esc (e : CEsc)
  /-- `\` LegacyOctalEscapeSequence -/
  | octal (o : LegacyOctal)
  /-- `\` NonOctalDecimalEscapeSequence -/
  | nonOctal (c : Nat)
  /-- LineContinuation -/
  | cont (l : LTS)
  deriving DecidableEq, Repr

def StrChar.render : StrChar → List Nat
  | .plain c => [c]
  | .esc e => 0x5C :: e.render
  | .octal o => 0x5C :: o.render
  | .nonOctal c => [0x5C, c]
  | .cont l => 0x5C :: l.render

/-- side conditions; `q` = the quote character of the literal, `nx` = the next character of the source text -/
def StrChar.ok (q : Nat) : StrChar → Option Nat → Bool
  | .plain c, _ => isSourceChar c && c != q && c != 0x5C && c != 0x0A && c != 0x0D
  | .esc e, nx => e.wf && e.look nx
  | .octal o, nx => o.wf && o.look nx
  | .nonOctal c, _ => c = 0x38 || c = 0x39
  | .cont l, nx => l.look nx

/-- SV -/
def StrChar.sv : StrChar → List Nat
  | .plain c => utf16 c
  | .esc e => e.sv
  | .octal o => [digitsMV 8 o.render]
  | .nonOctal c => [c]
  | .cont _ => []

def StrChar.isLegacy : StrChar → Bool
  | .octal _ => true
  | .nonOctal _ => true
  | _ => false

def renderChars : List StrChar → List Nat
  | [] => []
  | x :: xs => x.render ++ renderChars xs

/-- every character obeys its production; `close` = the text that follows the characters (the closing quote) -/
def charsOK (q : Nat) (close : List Nat) : List StrChar → Bool
  | [] => true
  | x :: xs => x.ok q (renderChars xs ++ close).head? && charsOK q close xs

def svChars : List StrChar → List Nat
  | [] => []
  | x :: xs => x.sv ++ svChars xs

/-- a derivation of StringLiteral -/
structure StringLit where
  quote : Nat
  chars : List StrChar
  deriving DecidableEq, Repr

def StringLit.render (l : StringLit) : List Nat := l.quote :: (renderChars l.chars ++ [l.quote])
def StringLit.valid (l : StringLit) : Bool := (l.quote = 0x22 || l.quote = 0x27) && charsOK l.quote [l.quote] l.chars
def StringLit.sv (l : StringLit) : List Nat := svChars l.chars
def StringLit.hasLegacy (l : StringLit) : Bool := l.chars.any StrChar.isLegacy

/-- text `t` is a StringLiteral whose SV is `v`; `legacy`: it contains an escape that strict mode code forbids -/
def IsStringLiteral (t : List Nat) (v : List Nat) (legacy : Bool) : Prop :=
  ∃ l : StringLit, l.valid = true ∧ l.render = t ∧ l.sv = v ∧ l.hasLegacy = legacy

/-! ## Template literal tokens -/

/-- NotEscapeSequence (what follows the backslash) -/
inductive NotEsc
  /-- `0` DecimalDigit -/
  | zeroDigit (d : Nat)
  /-- DecimalDigit but not `0` -/
  | digit (d : Nat)
  /-- `x` [lookahead ∉ HexDigit]  and  `x` HexDigit [lookahead ∉ HexDigit]  (zero or one digit) -/
  | xShort (ds : List Nat)
  /-- `u` [lookahead ∉ HexDigit] [lookahead ≠ `{`]  and  `u` HexDigit{1,2,3} [lookahead ∉ HexDigit] -/
  | uShort (ds : List Nat)
  /-- `u{` [lookahead ∉ HexDigit] -/
  | uBraceEmpty
  /-- `u{` NotCodePoint [lookahead ∉ HexDigit] -/
  | uBraceNot (ds : List Nat)
  /-- `u{` CodePoint [lookahead ∉ HexDigit] [lookahead ≠ `}`] -/
  | uBraceOpen (ds : List Nat)
  deriving DecidableEq, Repr

def NotEsc.render : NotEsc → List Nat
  | .zeroDigit d => [0x30, d]
  | .digit d => [d]
  | .xShort ds => 0x78 :: ds
  | .uShort ds => 0x75 :: ds
  | .uBraceEmpty => [0x75, 0x7B]
  | .uBraceNot ds => 0x75 :: 0x7B :: ds
  | .uBraceOpen ds => 0x75 :: 0x7B :: ds

def NotEsc.wf : NotEsc → Bool
  | .zeroDigit d => isDecimalDigit d
  | .digit d => 0x31 ≤ d && d ≤ 0x39
  | .xShort ds => ds.length ≤ 1 && ds.all isHexDigit
  | .uShort ds => ds.length ≤ 3 && ds.all isHexDigit
  | .uBraceEmpty => true
  | .uBraceNot ds => !ds.isEmpty && ds.all isHexDigit && digitsMV 16 ds > 0x10FFFF
  | .uBraceOpen ds => !ds.isEmpty && ds.all isHexDigit && digitsMV 16 ds ≤ 0x10FFFF

def NotEsc.look : NotEsc → Option Nat → Bool
  | .zeroDigit _, _ => true
  | .digit _, _ => true
  | .xShort _, nx => lookNot isHexDigit nx
  | .uShort ds, nx => lookNot isHexDigit nx && (!ds.isEmpty || lookNot (· = 0x7B) nx)
  | .uBraceEmpty, nx => lookNot isHexDigit nx
  | .uBraceNot _, nx => lookNot isHexDigit nx
  | .uBraceOpen _, nx => lookNot isHexDigit nx && lookNot (· = 0x7D) nx

/-- one TemplateCharacter -/
inductive TplChar
  /-- `$` [lookahead ≠ `{`] -/
  | dollar
  /-- `\` TemplateEscapeSequence -/
  | esc (e : CEsc)
  /-- `\` NotEscapeSequence -/
  | notEsc (n : NotEsc)
  /-- LineContinuation -/
  | cont (l : LTS)
  /-- LineTerminatorSequence -/
  | lineTerm (l : LTS)
  /-- SourceCharacter but not one of the backtick or `\` or `$` or LineTerminator -/
  | plain (c : Nat)
  deriving DecidableEq, Repr

def TplChar.render : TplChar → List Nat
  | .dollar => [0x24]
  | .esc e => 0x5C :: e.render
  | .notEsc n => 0x5C :: n.render
  | .cont l => 0x5C :: l.render
  | .lineTerm l => l.render
  | .plain c => [c]

def TplChar.ok : TplChar → Option Nat → Bool
  | .dollar, nx => lookNot (· = 0x7B) nx
  | .esc e, nx => e.wf && e.look nx
  | .notEsc n, nx => n.wf && n.look nx
  | .cont l, nx => l.look nx
  | .lineTerm l, nx => l.look nx
  | .plain c, _ => isSourceChar c && c != 0x60 && c != 0x5C && c != 0x24 && !isLineTerminator c

/-- TV of one TemplateCharacter; `none` = undefined -/
def TplChar.tv : TplChar → Option (List Nat)
  | .dollar => some [0x24]
  | .esc e => some e.sv
  | .notEsc _ => none
  | .cont _ => some []
  | .lineTerm l => some l.trv
  | .plain c => some (utf16 c)

/-- TRV of one TemplateCharacter: the UTF-16 encoding of the source characters themselves, except that the
LineTerminatorSequences <CR> and <CR><LF> (alone or in a LineContinuation) contribute <LF> -/
def TplChar.trv : TplChar → List Nat
  | .dollar => [0x24]
  | .esc e => 0x5C :: e.render.flatMap utf16
  | .notEsc n => 0x5C :: n.render.flatMap utf16
  | .cont l => 0x5C :: l.trv
  | .lineTerm l => l.trv
  | .plain c => utf16 c

def renderTpl : List TplChar → List Nat
  | [] => []
  | x :: xs => x.render ++ renderTpl xs

def tplOK (close : List Nat) : List TplChar → Bool
  | [] => true
  | x :: xs => x.ok (renderTpl xs ++ close).head? && tplOK close xs

/-- TV of TemplateCharacters: undefined if the TV of any TemplateCharacter is undefined -/
def tvChars : List TplChar → Option (List Nat)
  | [] => some []
  | x :: xs =>
    match x.tv, tvChars xs with
    | some a, some b => some (a ++ b)
    | _, _ => none

def trvChars : List TplChar → List Nat
  | [] => []
  | x :: xs => x.trv ++ trvChars xs

inductive TplKind | noSubst | head | middle | tail
  deriving DecidableEq, Repr

def TplKind.opening : TplKind → List Nat
  | .noSubst => [0x60]
  | .head => [0x60]
  | .middle => [0x7D]
  | .tail => [0x7D]

def TplKind.closing : TplKind → List Nat
  | .noSubst => [0x60]
  | .head => [0x24, 0x7B]
  | .middle => [0x24, 0x7B]
  | .tail => [0x60]

/-- a derivation of NoSubstitutionTemplate / TemplateHead / TemplateMiddle / TemplateTail -/
structure TplTok where
  kind : TplKind
  chars : List TplChar
  deriving DecidableEq, Repr

def TplTok.render (t : TplTok) : List Nat := t.kind.opening ++ (renderTpl t.chars ++ t.kind.closing)
def TplTok.valid (t : TplTok) : Bool := tplOK t.kind.closing t.chars
def TplTok.tv (t : TplTok) : Option (List Nat) := tvChars t.chars
def TplTok.trv (t : TplTok) : List Nat := trvChars t.chars

/-- text `t` is a template token of kind `k` with cooked value `tv` (`none` = undefined) and raw value `trv` -/
def IsTemplateToken (t : List Nat) (k : TplKind) (tv : Option (List Nat)) (trv : List Nat) : Prop :=
  ∃ d : TplTok, d.valid = true ∧ d.kind = k ∧ d.render = t ∧ d.tv = tv ∧ d.trv = trv

end EsbuildModel.Spec.StrLit
