/-
Spec/MiniJS — a small JavaScript expression language with a big-step semantics, written from ECMA-262
(not from esbuild's code).  It is the reference against which the model of esbuild's expression helpers
(Impl/MiniJS.lean, the `--minify-syntax` rewrites of internal/js_ast/js_ast_helpers.go) is proved.

Choices (all stated in the work-package report as well):

* Values: undefined, null, booleans, numbers, strings, BigInts, symbols, objects (opaque identities).
* Numbers (`Num`): NaN, -0, the integers (`int 0` is +0) and ±Infinity.  Fractions are not represented; no
  modelled rewrite does arithmetic, so a fraction behaves like any non-zero integer.  Arithmetic on `Num`
  (negation, addition, `>>>`, `~`, `<`) is defined exactly on this carrier (integers are unbounded, i.e. no
  rounding above 2^53).
* Strings are lists of UTF-16 code units (`JStr`).
* The WORLD is everything outside the expression: host functions, property getters, `valueOf`/`toString` of
  objects, the current values of variables.  Every interaction that can run foreign code is an `Event`; the
  world answers it with a value or a thrown value, and the answer may depend on the whole history (`Trace`) of
  earlier events.  The trace therefore IS the world state: "same trace" = "same world".
* Variables: `read tr x` is the value of identifier `x` in the current state (`none` = unbound ⇒ ReferenceError;
  `typeof x` does not throw).  Reading has no effect (no getters on the global object, no TDZ), but host code may
  change variables, which is why `read` depends on the trace.  A constant environment is the special case where
  `read` ignores the trace.
* Language-defined pure conversions whose details are irrelevant here (StringToNumber, StringToBigInt,
  Number::toString, BigInt::toString, whether an object is callable) are fields of the world.
* `typeof` applied to an identifier does not throw only when the AST flag WasOriginallyTypeofIdentifier is set
  (see `typeofIdent?`).
* Not modelled: assignments, `this` (a method call `o.m()` does not pass `o` to the host), `in`/`instanceof`,
  object/array/function literals, template literals, optional chains, `document.all`.
-/
namespace EsbuildModel.MiniJS

abbrev JStr := List Nat

inductive Num where
  | nan
  | negZero
  | int (i : Int)
  | inf (neg : Bool)
deriving DecidableEq, Repr

inductive Val where
  | undef
  | null
  | bool (b : Bool)
  | num (n : Num)
  | str (s : JStr)
  | bigint (i : Int)
  | sym (k : Nat)
  | obj (k : Nat)
deriving DecidableEq, Repr

inductive Exn where
  | refErr (x : Nat)      -- ReferenceError: identifier x is not defined
  | typeErr               -- TypeError raised by the language itself
  | host (v : Val)        -- a value thrown by host code
deriving DecidableEq, Repr

inductive Hint where
  | default
  | number
deriving DecidableEq, Repr

inductive Event where
  | call (f : Val) (args : List Val)   -- a function is called
  | get (o : Val) (key : Val)          -- a property is read (may run a getter / proxy trap)
  | toPrim (o : Nat) (h : Hint)        -- ToPrimitive on an object (runs valueOf / toString / @@toPrimitive)
deriving DecidableEq, Repr

abbrev Trace := List Event

inductive Outcome where
  | ret (v : Val)
  | throw (v : Val)
deriving DecidableEq, Repr

structure World where
  step : Trace → Event → Outcome
  read : Trace → Nat → Option Val
  callable : Nat → Bool
  strToNum : JStr → Num
  strToBigInt : JStr → Option Int
  numToStr : Num → JStr
  bigToStr : Int → JStr

inductive Res (α : Type) where
  | val (v : α)
  | throw (e : Exn)
deriving DecidableEq, Repr

/-- sequencing: exceptions propagate, the trace is threaded -/
def bind {α β : Type} (r : Res α × Trace) (k : α → Trace → Res β × Trace) : Res β × Trace :=
  match r with
  | (.val v, tr) => k v tr
  | (.throw e, tr) => (.throw e, tr)

/-- ask the world; the event is appended to the trace whether it returns or throws -/
def World.interact (w : World) (ev : Event) (tr : Trace) : Res Val × Trace :=
  match w.step tr ev with
  | .ret v => (.val v, tr ++ [ev])
  | .throw v => (.throw (.host v), tr ++ [ev])

-- ---------------------------------------------------------------- strings used by the language itself

def sUndefined : JStr := [117, 110, 100, 101, 102, 105, 110, 101, 100]
def sObject : JStr := [111, 98, 106, 101, 99, 116]
def sBoolean : JStr := [98, 111, 111, 108, 101, 97, 110]
def sNumber : JStr := [110, 117, 109, 98, 101, 114]
def sString : JStr := [115, 116, 114, 105, 110, 103]
def sBigint : JStr := [98, 105, 103, 105, 110, 116]
def sSymbol : JStr := [115, 121, 109, 98, 111, 108]
def sFunction : JStr := [102, 117, 110, 99, 116, 105, 111, 110]
def sNull : JStr := [110, 117, 108, 108]
def sTrue : JStr := [116, 114, 117, 101]
def sFalse : JStr := [102, 97, 108, 115, 101]

-- ---------------------------------------------------------------- numbers

def Num.isNaN : Num → Bool
  | .nan => true
  | _ => false

def Num.isZero : Num → Bool
  | .negZero => true
  | .int i => i == 0
  | _ => false

/-- Number::equal -/
def Num.eq : Num → Num → Bool
  | .nan, _ => false
  | _, .nan => false
  | .negZero, y => y.isZero
  | x, .negZero => x.isZero
  | .int i, .int j => i == j
  | .inf a, .inf b => a == b
  | _, _ => false

def Num.neg : Num → Num
  | .nan => .nan
  | .negZero => .int 0
  | .int i => if i = 0 then .negZero else .int (-i)
  | .inf b => .inf (!b)

def Num.add : Num → Num → Num
  | .nan, _ => .nan
  | _, .nan => .nan
  | .inf a, .inf b => if a = b then .inf a else .nan
  | .inf a, _ => .inf a
  | _, .inf b => .inf b
  | .negZero, y => y
  | x, .negZero => x
  | .int i, .int j => .int (i + j)

def Num.sub (x y : Num) : Num := x.add y.neg

/-- Number::lessThan; `none` is "undefined" (a NaN operand) -/
def Num.lt : Num → Num → Option Bool
  | .nan, _ => none
  | _, .nan => none
  | .inf a, .inf b => some (a && !b)
  | .inf a, _ => some a
  | _, .inf b => some (!b)
  | .negZero, .negZero => some false
  | .negZero, .int j => some (decide (0 < j))
  | .int i, .negZero => some (decide (i < 0))
  | .int i, .int j => some (decide (i < j))

def Num.toUint32 : Num → Nat
  | .int i => (i % 4294967296).toNat
  | _ => 0

def Num.toInt32 (x : Num) : Int :=
  let u := x.toUint32
  if u < 2147483648 then (u : Int) else (u : Int) - 4294967296

def Num.ushr (x y : Num) : Num := .int ((x.toUint32 >>> (y.toUint32 % 32) : Nat) : Int)

def Num.cpl (x : Num) : Num := .int (-(x.toInt32) - 1)

/-- mathematical comparison BigInt = Number -/
def bigEqNum (i : Int) : Num → Bool
  | .int j => i == j
  | .negZero => i == 0
  | _ => false

/-- mathematical comparison BigInt < Number / Number < BigInt (`none` for NaN) -/
def bigLtNum (i : Int) : Num → Option Bool
  | .nan => none
  | .inf neg => some (!neg)
  | .negZero => some (decide (i < 0))
  | .int j => some (decide (i < j))

def numLtBig (x : Num) (j : Int) : Option Bool :=
  match x with
  | .nan => none
  | .inf neg => some neg
  | .negZero => some (decide (0 < j))
  | .int i => some (decide (i < j))

-- ---------------------------------------------------------------- values

def Val.nullish : Val → Bool
  | .undef => true
  | .null => true
  | _ => false

def Val.isObj : Val → Bool
  | .obj _ => true
  | _ => false

/-- ECMA-262 ToBoolean -/
def toBoolean : Val → Bool
  | .undef => false
  | .null => false
  | .bool b => b
  | .num n => !(n.isNaN || n.isZero)
  | .str s => !s.isEmpty
  | .bigint i => i != 0
  | .sym _ => true
  | .obj _ => true

/-- the `typeof` operator on a value -/
def typeofVal (w : World) : Val → JStr
  | .undef => sUndefined
  | .null => sObject
  | .bool _ => sBoolean
  | .num _ => sNumber
  | .str _ => sString
  | .bigint _ => sBigint
  | .sym _ => sSymbol
  | .obj k => if w.callable k then sFunction else sObject

/-- IsStrictlyEqual -/
def strictEq : Val → Val → Bool
  | .num x, .num y => x.eq y
  | a, b => a == b

/-- ToPrimitive: only objects run code; a non-primitive answer is a TypeError -/
def toPrimitive (w : World) (h : Hint) (v : Val) (tr : Trace) : Res Val × Trace :=
  match v with
  | .obj k =>
    match w.interact (.toPrim k h) tr with
    | (.val (.obj _), tr1) => (.throw .typeErr, tr1)
    | r => r
  | v => (.val v, tr)

/-- ToNumber on a primitive -/
def toNumber (w : World) : Val → Res Num
  | .undef => .val .nan
  | .null => .val (.int 0)
  | .bool b => .val (.int (if b then 1 else 0))
  | .num n => .val n
  | .str s => .val (w.strToNum s)
  | .bigint _ => .throw .typeErr
  | .sym _ => .throw .typeErr
  | .obj _ => .throw .typeErr      -- not reached: callers apply ToPrimitive first

inductive Numeric where
  | n (x : Num)
  | b (i : Int)
deriving DecidableEq, Repr

/-- ToNumeric on a primitive -/
def toNumeric (w : World) : Val → Res Numeric
  | .bigint i => .val (.b i)
  | v => match toNumber w v with
    | .val x => .val (.n x)
    | .throw e => .throw e

/-- ToString on a primitive -/
def toStr (w : World) : Val → Res JStr
  | .undef => .val sUndefined
  | .null => .val sNull
  | .bool b => .val (if b then sTrue else sFalse)
  | .num n => .val (w.numToStr n)
  | .str s => .val s
  | .bigint i => .val (w.bigToStr i)
  | .sym _ => .throw .typeErr
  | .obj _ => .throw .typeErr      -- not reached

def boolToNum : Val → Val
  | .bool b => .num (.int (if b then 1 else 0))
  | v => v

/-- IsLooselyEqual on two non-objects -/
def looseEqPrim (w : World) (a b : Val) : Bool :=
  match boolToNum a, boolToNum b with
  | .undef, .undef => true
  | .undef, .null => true
  | .null, .undef => true
  | .null, .null => true
  | .num x, .num y => x.eq y
  | .str s, .str t => s == t
  | .bigint i, .bigint j => i == j
  | .sym i, .sym j => i == j
  | .num x, .str s => x.eq (w.strToNum s)
  | .str s, .num x => (w.strToNum s).eq x
  | .bigint i, .str s => match w.strToBigInt s with
    | some j => i == j
    | none => false
  | .str s, .bigint i => match w.strToBigInt s with
    | some j => j == i
    | none => false
  | .bigint i, .num x => bigEqNum i x
  | .num x, .bigint i => bigEqNum i x
  | _, _ => false

/-- IsLooselyEqual -/
def looseEq (w : World) (a b : Val) (tr : Trace) : Res Bool × Trace :=
  match a, b with
  | .obj i, .obj j => (.val (i == j), tr)
  | .obj i, b =>
    if b.nullish then (.val false, tr)
    else bind (toPrimitive w .default (.obj i) tr) fun p tr1 => (.val (looseEqPrim w p b), tr1)
  | a, .obj j =>
    if a.nullish then (.val false, tr)
    else bind (toPrimitive w .default (.obj j) tr) fun p tr1 => (.val (looseEqPrim w a p), tr1)
  | a, b => (.val (looseEqPrim w a b), tr)

def liftRes {α : Type} (r : Res α) (tr : Trace) : Res α × Trace := (r, tr)

/-- lexicographic "is a proper prefix of or smaller at the first difference" on code units -/
def strLt : JStr → JStr → Bool
  | [], [] => false
  | [], _ :: _ => true
  | _ :: _, [] => false
  | a :: as, b :: bs => if a < b then true else if b < a then false else strLt as bs

/-- IsLessThan on two primitives; `none` = undefined -/
def primLess (w : World) (a b : Val) : Res (Option Bool) :=
  match a, b with
  | .str s, .str t => .val (some (strLt s t))
  | .bigint i, .str t => match w.strToBigInt t with
    | some j => .val (some (decide (i < j)))
    | none => .val none
  | .str s, .bigint j => match w.strToBigInt s with
    | some i => .val (some (decide (i < j)))
    | none => .val none
  | a, b =>
    match toNumeric w a with
    | .throw e => .throw e
    | .val na =>
      match toNumeric w b with
      | .throw e => .throw e
      | .val nb =>
        match na, nb with
        | .n x, .n y => .val (x.lt y)
        | .b i, .b j => .val (some (decide (i < j)))
        | .b i, .n y => .val (bigLtNum i y)
        | .n x, .b j => .val (numLtBig x j)

/-- the `+` operator on two primitives -/
def addPrim (w : World) (a b : Val) : Res Val :=
  match a, b with
  | .str s, b => match toStr w b with
    | .val t => .val (.str (s ++ t))
    | .throw e => .throw e
  | a, .str t => match toStr w a with
    | .val s => .val (.str (s ++ t))
    | .throw e => .throw e
  | a, b =>
    match toNumeric w a with
    | .throw e => .throw e
    | .val na =>
      match toNumeric w b with
      | .throw e => .throw e
      | .val nb =>
        match na, nb with
        | .n x, .n y => .val (.num (x.add y))
        | .b i, .b j => .val (.bigint (i + j))
        | _, _ => .throw .typeErr

/-- ToNumeric on any value: ToPrimitive (hint number) first -/
def toNumericV (w : World) (v : Val) (tr : Trace) : Res Numeric × Trace :=
  bind (toPrimitive w .number v tr) fun p tr1 => (toNumeric w p, tr1)

/-- numeric binary operators: operands are converted left to right, mixing BigInt and Number is a TypeError -/
def arith (w : World) (f : Num → Num → Num) (g : Int → Int → Res Val) (a b : Val) (tr : Trace) : Res Val × Trace :=
  bind (toNumericV w a tr) fun na tr1 =>
  bind (toNumericV w b tr1) fun nb tr2 =>
    match na, nb with
    | .n x, .n y => (.val (.num (f x y)), tr2)
    | .b i, .b j => (g i j, tr2)
    | _, _ => (.throw .typeErr, tr2)

-- ---------------------------------------------------------------- syntax

inductive UnOp where
  | not
  | neg
  | pos
  | cpl
  | void
  | typeof (wasOriginallyTypeofIdentifier : Bool)   -- see `typeofIdent?`
deriving DecidableEq, Repr

inductive BinOp where
  | and | or | nullish | comma
  | strictEq | strictNe | looseEq | looseNe
  | add | sub | ushr
  | lt | gt | le | ge
deriving DecidableEq, Repr

mutual
inductive Expr where
  | undef
  | null
  | bool (b : Bool)
  | num (n : Num)
  | str (s : JStr)
  | ident (x : Nat)
  | unary (op : UnOp) (e : Expr)
  | binary (op : BinOp) (a b : Expr)
  | cond (c y n : Expr)
  | call (f : Expr) (args : Args)
  | dot (o : Expr) (name : JStr)
  | index (o k : Expr)
inductive Args where
  | nil
  | cons (a : Expr) (rest : Args)
end

/-- `typeof x` with `x` an identifier reference never throws.  In esbuild's AST this is the node
`EUnary{Op: typeof, Value: EIdentifier, WasOriginallyTypeofIdentifier: true}`; the same node with the flag FALSE is
what is left of `typeof (0, x)` after the comma has been simplified away, and the printer prints it as
`typeof (0, x)` again (js_printer.go: "Never turn typeof (0, x) into typeof x"): it evaluates `x` as a value and
throws a ReferenceError when `x` is unbound.  The flag is therefore part of the meaning of the tree. -/
def typeofIdent? : UnOp → Expr → Option Nat
  | .typeof true, .ident x => some x
  | _, _ => none

def typeofRef (w : World) (tr : Trace) (x : Nat) : JStr :=
  match w.read tr x with
  | some v => typeofVal w v
  | none => sUndefined

def applyUnary (w : World) (op : UnOp) (v : Val) (tr : Trace) : Res Val × Trace :=
  match op with
  | .not => (.val (.bool (!toBoolean v)), tr)
  | .void => (.val .undef, tr)
  | .typeof _ => (.val (.str (typeofVal w v)), tr)
  | .pos =>
    bind (toPrimitive w .number v tr) fun p tr1 =>
      match toNumber w p with
      | .val n => (.val (.num n), tr1)
      | .throw e => (.throw e, tr1)
  | .neg =>
    bind (toNumericV w v tr) fun n tr1 =>
      match n with
      | .n x => (.val (.num x.neg), tr1)
      | .b i => (.val (.bigint (-i)), tr1)
  | .cpl =>
    bind (toNumericV w v tr) fun n tr1 =>
      match n with
      | .n x => (.val (.num x.cpl), tr1)
      | .b i => (.val (.bigint (-i - 1)), tr1)

/-- `&&`, `||`, `??`: the value of the left operand decides whether it is the result -/
def BinOp.short : BinOp → Val → Option Val
  | .and, v => if toBoolean v then none else some v
  | .or, v => if toBoolean v then some v else none
  | .nullish, v => if v.nullish then none else some v
  | _, _ => none

def relational (w : World) (swap : Bool) (want : Option Bool) (a b : Val) (tr : Trace) : Res Val × Trace :=
  bind (toPrimitive w .number a tr) fun pa tr1 =>
  bind (toPrimitive w .number b tr1) fun pb tr2 =>
    match (if swap then primLess w pb pa else primLess w pa pb) with
    | .throw e => (.throw e, tr2)
    | .val r => (.val (.bool (r == want)), tr2)

/-- both operands have been evaluated (and, for `&&`/`||`/`??`, the left one did not decide) -/
def applyBinary (w : World) (op : BinOp) (a b : Val) (tr : Trace) : Res Val × Trace :=
  match op with
  | .and => (.val b, tr)
  | .or => (.val b, tr)
  | .nullish => (.val b, tr)
  | .comma => (.val b, tr)
  | .strictEq => (.val (.bool (strictEq a b)), tr)
  | .strictNe => (.val (.bool (!strictEq a b)), tr)
  | .looseEq => bind (looseEq w a b tr) fun r tr1 => (.val (.bool r), tr1)
  | .looseNe => bind (looseEq w a b tr) fun r tr1 => (.val (.bool (!r)), tr1)
  | .add =>
    bind (toPrimitive w .default a tr) fun pa tr1 =>
    bind (toPrimitive w .default b tr1) fun pb tr2 => (addPrim w pa pb, tr2)
  | .sub => arith w Num.sub (fun i j => .val (.bigint (i - j))) a b tr
  | .ushr => arith w Num.ushr (fun _ _ => .throw .typeErr) a b tr
  | .lt => relational w false (some true) a b tr      -- a < b  : IsLessThan(a, b) is true
  | .gt => relational w true (some true) a b tr       -- a > b  : IsLessThan(b, a) is true
  | .le => relational w true (some false) a b tr      -- a <= b : IsLessThan(b, a) is false (not true, not undefined)
  | .ge => relational w false (some false) a b tr     -- a >= b : IsLessThan(a, b) is false

/-- property read `o[key]`: null/undefined base is a TypeError, everything else is up to the world -/
def getProp (w : World) (o key : Val) (tr : Trace) : Res Val × Trace :=
  if o.nullish then (.throw .typeErr, tr) else w.interact (.get o key) tr

mutual
/-- big-step evaluation: result (value or exception) and the trace after it -/
def eval (w : World) : Expr → Trace → Res Val × Trace
  | .undef, tr => (.val .undef, tr)
  | .null, tr => (.val .null, tr)
  | .bool b, tr => (.val (.bool b), tr)
  | .num n, tr => (.val (.num n), tr)
  | .str s, tr => (.val (.str s), tr)
  | .ident x, tr =>
    match w.read tr x with
    | some v => (.val v, tr)
    | none => (.throw (.refErr x), tr)
  | .unary op e, tr =>
    match typeofIdent? op e with
    | some x => (.val (.str (typeofRef w tr x)), tr)
    | none => bind (eval w e tr) (applyUnary w op)
  | .binary op a b, tr =>
    bind (eval w a tr) fun va tr1 =>
      match op.short va with
      | some r => (.val r, tr1)
      | none => bind (eval w b tr1) fun vb tr2 => applyBinary w op va vb tr2
  | .cond c y n, tr =>
    bind (eval w c tr) fun vc tr1 => if toBoolean vc then eval w y tr1 else eval w n tr1
  | .call f args, tr =>
    bind (eval w f tr) fun vf tr1 =>
    bind (evalArgs w args tr1) fun vs tr2 => w.interact (.call vf vs) tr2
  | .dot o name, tr =>
    bind (eval w o tr) fun vo tr1 => getProp w vo (.str name) tr1
  | .index o k, tr =>
    bind (eval w o tr) fun vo tr1 =>
    bind (eval w k tr1) fun vk tr2 => getProp w vo vk tr2
def evalArgs (w : World) : Args → Trace → Res (List Val) × Trace
  | .nil, tr => (.val [], tr)
  | .cons a rest, tr =>
    bind (eval w a tr) fun v tr1 =>
    bind (evalArgs w rest tr1) fun vs tr2 => (.val (v :: vs), tr2)
end

-- ---------------------------------------------------------------- observations used by the theorems

/-- what a boolean context (`if`, `!`, `&&` test …) observes: truthiness or the exception, and the trace -/
def truthRes : Res Val → Res Bool
  | .val v => .val (toBoolean v)
  | .throw e => .throw e

def evalBool (w : World) (e : Expr) (tr : Trace) : Res Bool × Trace :=
  ((eval w e tr).1 |> truthRes, (eval w e tr).2)

/-- what a context that discards the value observes: normal completion or the exception, and the trace -/
def unitRes : Res Val → Res Unit
  | .val _ => .val ()
  | .throw e => .throw e

def evalUnused (w : World) (e : Expr) (tr : Trace) : Res Unit × Trace :=
  ((eval w e tr).1 |> unitRes, (eval w e tr).2)

end EsbuildModel.MiniJS
