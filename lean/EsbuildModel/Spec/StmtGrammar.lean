/-
Independent specification: a statement grammar on top of `Spec/ExprGrammar.lean` (ECMA-262 §14 "Statements and
Declarations", §14.5 ExpressionStatement, §14.6 IfStatement, §14.7 iteration statements, §14.8–§14.10 / §14.14
continue / break / return / throw, §14.13 LabelledStatement, §14.3 declarations, §16.2.3 `export default`), as a
reference recursive-descent parser on tokens. Written from the specification, NOT from esbuild's parser or printer.

Concrete syntax is ASI-free: a statement that the grammar ends with `;` must be followed by `;`, or stand directly
before `}` or at the end of the input (the two rules of §12.10.1 that do not depend on a line terminator). The token
stream has no line terminators at all, so the newline rule of automatic semicolon insertion can never be used.

  Statement           : `;` | Block | IfStatement | loop | do Statement while ( Expression ) ; | LabelIdentifier : Statement
                      | return Expression? ; | throw Expression ; | break Label? ; | continue Label? ;
                      | (var | let | const) BindingList ; | export default [lookahead ∉ {function, async function, class}] AssignmentExpression ;
                      | [lookahead ∉ { `{`, function, async function, class, let [ }] Expression ;
  IfStatement         : if ( Expression ) Statement else Statement | if ( Expression ) Statement [lookahead ≠ else]
                        (the `else` belongs to the nearest `if`)
  loop heads          : for ( [lookahead ≠ let [] Expression[~In]? ; Expression? ; Expression? )
                      | for ( (var|let|const) BindingList[~In] ; Expression? ; Expression? )
                      | for ( [lookahead ≠ let [] LeftHandSideExpression in Expression )  | for ( (var|let|const) Binding in Expression )
                      | for await? ( [lookahead ∉ {let, async of}] LeftHandSideExpression of AssignmentExpression ) | for await? ( (var|let|const) Binding of … )
                      | while ( Expression )

Tokens: the expression tokens of `ExprGrammar`; statement words and `;` `{` `}` are `Tok.other`. The first six identifier
numbers are *atoms*, primary expressions whose first token matters at a statement start:
  0 the identifier `let` (it is also the keyword of LexicalDeclaration: the SAME token), 1 the identifier `async`,
  2 an object literal `{}`, 3 a function expression `function(){}`, 4 a class expression `class{}`,
  5 an async function expression `async function(){}`; identifiers from 6 on are ordinary names.
-/
import EsbuildModel.Spec.ExprGrammar

namespace EsbuildModel.JsStmt
open EsbuildModel.JsExpr

abbrev T (s : String) : Tok := .other s

def aLet : Nat := 0
def aAsync : Nat := 1
def aObj : Nat := 2
def aFn : Nat := 3
def aCls : Nat := 4
def aAsyncFn : Nat := 5
/-- ordinary names start here -/
def firstName : Nat := 6

inductive DeclKind | var | let_ | const
  deriving DecidableEq, Repr, Inhabited

/-- the keyword of a declaration; `let` is the identifier token `let` -/
def DeclKind.tok : DeclKind → Tok
  | .var => T "var" | .let_ => .ident aLet | .const => T "const"

abbrev Decl := Nat × Option Expr

inductive ForInit
  | none
  | expr (e : Expr)
  | decl (k : DeclKind) (ds : List Decl)

inductive ForHead
  | expr (e : Expr)
  | decl (k : DeclKind) (n : Nat)

inductive LoopHead
  | for_ (init : ForInit) (test upd : Option Expr)
  | forIn (h : ForHead) (v : Expr)
  | forOf (aw : Bool) (h : ForHead) (v : Expr)
  | while_ (t : Expr)

mutual
inductive Stmt
  | expr (e : Expr)
  | empty
  | block (body : Stmts)
  | ifThen (t : Expr) (yes : Stmt)
  | ifElse (t : Expr) (yes no : Stmt)
  | loop (h : LoopHead) (body : Stmt)
  | doWhile (body : Stmt) (t : Expr)
  | label (n : Nat) (body : Stmt)
  | ret (v : Option Expr)
  | throw_ (v : Expr)
  | brk (l : Option Nat)
  | cont (l : Option Nat)
  | local_ (k : DeclKind) (ds : List Decl)
  | exportDefault (e : Expr)
inductive Stmts
  | nil
  | cons (s : Stmt) (rest : Stmts)
end

/-! ### lookahead restrictions -/

/-- ExpressionStatement : [lookahead ∉ { `{`, function, async function, class, let [ }] -/
def exprStmtForbidden : List Tok → Bool
  | .ident n :: .p .lbrack :: _ => n == aLet || n == aObj || n == aFn || n == aCls || n == aAsyncFn
  | .ident n :: _ => n == aObj || n == aFn || n == aCls || n == aAsyncFn
  | _ => false

/-- export default [lookahead ∉ { function, async function, class }] -/
def exportDefaultForbidden : List Tok → Bool
  | .ident n :: _ => n == aFn || n == aCls || n == aAsyncFn
  | _ => false

/-- the statement terminator: `;`, or nothing directly before `}` / at the end of the input -/
def term : List Tok → Option (List Tok)
  | .other ";" :: r => some r
  | .other "}" :: r => some (.other "}" :: r)
  | [] => some []
  | _ => none

/-- BindingList after the keyword: `name (= AssignmentExpression[?In])?` separated by commas -/
def parseDecls (F : Nat) (io : Bool) : Nat → List Tok → Option (List Decl × List Tok)
  | 0, _ => none
  | g + 1, .ident n :: .p .assign :: r =>
    if n < firstName then none else
    match assignment F io r with
    | some (e, .p .comma :: r') =>
      match parseDecls F io g r' with
      | some (ds, r'') => some ((n, some e) :: ds, r'')
      | none => none
    | some (e, r') => some ([(n, some e)], r')
    | none => none
  | g + 1, .ident n :: .p .comma :: r =>
    if n < firstName then none else
    match parseDecls F io g r with
    | some (ds, r') => some ((n, none) :: ds, r')
    | none => none
  | _ + 1, .ident n :: r => if n < firstName then none else some ([(n, none)], r)
  | _ + 1, _ => none

/-- the keyword of a declaration at the head of the input; `let` only when a binding name follows -/
def declKeyword : List Tok → Option (DeclKind × List Tok)
  | .other "var" :: r => some (.var, r)
  | .other "const" :: r => some (.const, r)
  | .ident 0 :: .ident n :: r => some (.let_, .ident n :: r)
  | _ => none

/-- the two tokens `async of` -/
def startsAsyncOf : List Tok → Bool
  | .ident 1 :: .other "of" :: _ => true
  | _ => false

/-- `Expression? sep` -/
def optExpr (F : Nat) (sep : Tok) (ts : List Tok) : Option (Option Expr × List Tok) :=
  match ts with
  | [] => none
  | t :: r =>
    if t = sep then some (none, r) else
    match expression F true ts with
    | some (e, t' :: r') => if t' = sep then some (some e, r') else none
    | _ => none

/-- `; Expression? ; Expression? )` -/
def forTail (F : Nat) (init : ForInit) (ts : List Tok) : Option (LoopHead × List Tok) :=
  match ts with
  | .other ";" :: r =>
    match optExpr F (T ";") r with
    | some (test, r1) =>
      match optExpr F (.p .rparen) r1 with
      | some (upd, r2) => some (.for_ init test upd, r2)
      | none => none
    | none => none
  | _ => none

/-- what follows `for (` / `for await (` -/
def forHead (F : Nat) (aw : Bool) (ts : List Tok) : Option (LoopHead × List Tok) :=
  match declKeyword ts with
  | some (k, r) =>
    match r with
    | .ident n :: .p .kIn :: r' =>
      if n < firstName || aw then none else
      match expression F true r' with
      | some (v, .p .rparen :: r'') => some (.forIn (.decl k n) v, r'')
      | _ => none
    | .ident n :: .other "of" :: r' =>
      if n < firstName then none else
      match assignment F true r' with
      | some (v, .p .rparen :: r'') => some (.forOf aw (.decl k n) v, r'')
      | _ => none
    | _ =>
      if aw then none else
      match parseDecls F false (r.length + 1) r with
      | some (ds, r') => forTail F (.decl k ds) r'
      | none => none
  | none =>
    match ts with
    | .other ";" :: _ => if aw then none else forTail F .none ts
    | .ident 0 :: .p .lbrack :: _ => none                     -- [lookahead ≠ let []
    | _ =>
      match expression F false ts with
      | some (e, .other ";" :: r) => if aw then none else forTail F (.expr e) (T ";" :: r)
      | some (e, .p .kIn :: r) =>
        if aw || !e.simpleTarget then none else
        match expression F true r with
        | some (v, .p .rparen :: r') => some (.forIn (.expr e) v, r')
        | _ => none
      | some (e, .other "of" :: r) =>
        -- [lookahead ∉ {let, async of}]; `for await (async of` is allowed
        if !e.simpleTarget || ts.head? = some (.ident aLet) || (!aw && startsAsyncOf ts) then none else
        match assignment F true r with
        | some (v, .p .rparen :: r') => some (.forOf aw (.expr e) v, r')
        | _ => none
      | _ => none

/-- a loop head up to and including its `)` -/
def loopHead (F : Nat) : List Tok → Option (LoopHead × List Tok)
  | .other "for" :: .other "await" :: .p .lparen :: r => forHead F true r
  | .other "for" :: .p .lparen :: r => forHead F false r
  | .other "while" :: .p .lparen :: r =>
    match expression F true r with
    | some (t, .p .rparen :: r') => some (.while_ t, r')
    | _ => none
  | _ => none

/-- `break` / `continue` operand -/
def optLabel : List Tok → Option (Option Nat × List Tok)
  | .ident n :: r => if n < firstName then none else (term r).map fun r' => (some n, r')
  | r => (term r).map fun r' => (none, r')

mutual
/-- Statement; `F` is the budget of the expression parser, the first argument bounds the statement nesting -/
def parseStmt (F : Nat) : Nat → List Tok → Option (Stmt × List Tok)
  | 0, _ => none
  | g + 1, ts =>
    match ts with
    | .other ";" :: r => some (.empty, r)
    | .other "{" :: r =>
      match parseList F g r with
      | some (ss, .other "}" :: r') => some (.block ss, r')
      | _ => none
    | .other "if" :: .p .lparen :: r =>
      match expression F true r with
      | some (t, .p .rparen :: r1) =>
        match parseStmt F g r1 with
        | some (y, .other "else" :: r2) =>
          match parseStmt F g r2 with
          | some (n, r3) => some (.ifElse t y n, r3)
          | none => none
        | some (y, r2) => some (.ifThen t y, r2)
        | none => none
      | _ => none
    | .other "for" :: _ | .other "while" :: _ =>
      match loopHead F ts with
      | some (h, r) =>
        match parseStmt F g r with
        | some (b, r') => some (.loop h b, r')
        | none => none
      | none => none
    | .other "do" :: r =>
      match parseStmt F g r with
      | some (b, .other "while" :: .p .lparen :: r1) =>
        match expression F true r1 with
        | some (t, .p .rparen :: r2) => (term r2).map fun r3 => (.doWhile b t, r3)
        | _ => none
      | _ => none
    | .other "return" :: r =>
      match term r with
      | some r' => some (.ret none, r')
      | none =>
        match expression F true r with
        | some (e, r1) => (term r1).map fun r2 => (.ret (some e), r2)
        | none => none
    | .other "throw" :: r =>
      match expression F true r with
      | some (e, r1) => (term r1).map fun r2 => (.throw_ e, r2)
      | none => none
    | .other "break" :: r => (optLabel r).map fun (l, r') => (.brk l, r')
    | .other "continue" :: r => (optLabel r).map fun (l, r') => (.cont l, r')
    | .other "export" :: .other "default" :: r =>
      if exportDefaultForbidden r then none else
      match assignment F true r with
      | some (e, r1) => (term r1).map fun r2 => (.exportDefault e, r2)
      | none => none
    | .ident n :: .p .colon :: r =>
      if n < firstName then none else
      match parseStmt F g r with
      | some (b, r') => some (.label n b, r')
      | none => none
    | _ =>
      match declKeyword ts with
      | some (k, r) =>
        match parseDecls F true (r.length + 1) r with
        | some (ds, r1) => (term r1).map fun r2 => (.local_ k ds, r2)
        | none => none
      | none =>
        if exprStmtForbidden ts then none else
        match expression F true ts with
        | some (e, r1) => (term r1).map fun r2 => (.expr e, r2)
        | none => none
/-- StatementList up to (not including) a `}` or the end of the input -/
def parseList (F : Nat) : Nat → List Tok → Option (Stmts × List Tok)
  | 0, _ => none
  | g + 1, ts =>
    match ts with
    | [] => some (.nil, [])
    | .other "}" :: r => some (.nil, .other "}" :: r)
    | _ =>
      match parseStmt F g ts with
      | some (s, r) =>
        match parseList F g r with
        | some (ss, r') => some (.cons s ss, r')
        | none => none
      | none => none
end

/-- the whole token list is a StatementList -/
def parseProgram (ts : List Tok) : Option Stmts :=
  match parseList (2 * ts.length + 2) (2 * ts.length + 2) ts with
  | some (ss, []) => some ss
  | _ => none

/-! ### what a tree must satisfy to be derivable -/

def declOk (d : Decl) : Bool := decide (firstName ≤ d.1) && (match d.2 with | some e => e.wellFormed | none => true)

def optWf : Option Expr → Bool
  | some e => e.wellFormed
  | none => true

def ForInit.ok : ForInit → Bool
  | .none => true
  | .expr e => e.wellFormed
  | .decl _ ds => ds.all declOk && !ds.isEmpty

def ForHead.ok : ForHead → Bool
  | .expr e => e.wellFormed && e.simpleTarget
  | .decl _ n => decide (firstName ≤ n)

def LoopHead.ok : LoopHead → Bool
  | .for_ i t u => i.ok && optWf t && optWf u
  | .forIn h v => h.ok && v.wellFormed
  | .forOf _ h v => h.ok && v.wellFormed && !v.isComma
  | .while_ t => t.wellFormed

def optName : Option Nat → Bool
  | some n => decide (firstName ≤ n)
  | none => true

mutual
/-- the trees the grammar derives: well-formed expressions, names where names are required, non-empty binding lists,
no comma expression where an AssignmentExpression is required -/
def Stmt.ok : Stmt → Bool
  | .expr e => e.wellFormed
  | .empty => true
  | .block b => b.ok
  | .ifThen t y => t.wellFormed && y.ok
  | .ifElse t y n => t.wellFormed && y.ok && n.ok
  | .loop h b => h.ok && b.ok
  | .doWhile b t => b.ok && t.wellFormed
  | .label n b => decide (firstName ≤ n) && b.ok
  | .ret v => optWf v
  | .throw_ v => v.wellFormed
  | .brk l => optName l
  | .cont l => optName l
  | .local_ _ ds => ds.all declOk && !ds.isEmpty
  | .exportDefault e => e.wellFormed && !e.isComma
def Stmts.ok : Stmts → Bool
  | .nil => true
  | .cons s r => s.ok && r.ok
end

end EsbuildModel.JsStmt
