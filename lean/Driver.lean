import EsbuildModel.Impl.VlqBytes
import EsbuildModel.Impl.Pieces
import EsbuildModel.Impl.ToInt32
import EsbuildModel.Impl.Compat
import EsbuildModel.Impl.DataUrl
import EsbuildModel.Impl.Quote
import EsbuildModel.Impl.Exports
import EsbuildModel.Impl.CssHex
import EsbuildModel.Impl.Split
import EsbuildModel.Impl.Determinism
import EsbuildModel.Impl.Shake
import EsbuildModel.Impl.TsEnum
import EsbuildModel.Impl.Rename
import EsbuildModel.Impl.Writes
import EsbuildModel.Impl.SmSections
import EsbuildModel.Impl.Ctx
import EsbuildModel.Impl.Lower
import EsbuildModel.Impl.ChunkHash
import EsbuildModel.Impl.Order
import EsbuildModel.Impl.Stdio
import EsbuildModel.Impl.NumPrint
import EsbuildModel.Impl.Slots
import EsbuildModel.Impl.PkgExports
import EsbuildModel.Impl.SmJoin
import EsbuildModel.Impl.Shifts
import EsbuildModel.Impl.Lower2
import EsbuildModel.Impl.Fold
import EsbuildModel.Impl.PrecDriver
import EsbuildModel.Impl.Decoders
import EsbuildModel.Impl.CssBox
import EsbuildModel.Impl.MiniJS
import EsbuildModel.Impl.WatchDriver
import EsbuildModel.Impl.LexNum
import EsbuildModel.Impl.Metafile
import EsbuildModel.Impl.CssImport
import EsbuildModel.Impl.CssRules
import EsbuildModel.Impl.C14FactsDriver
import EsbuildModel.Impl.CrossChunkDriver
import EsbuildModel.Impl.ExportMatchDriver
import EsbuildModel.Impl.Lower3Wire
import EsbuildModel.Impl.IsoHash
import EsbuildModel.Impl.LineOffset
import EsbuildModel.Impl.WatchLoop
import EsbuildModel.Impl.MangleProps
import EsbuildModel.Impl.JsxText
import EsbuildModel.Impl.CjsWrapDriver
import EsbuildModel.Impl.OutPathsDriver
import EsbuildModel.Impl.StrLex
import EsbuildModel.Impl.ResolveWalk
import EsbuildModel.Impl.Glob
import EsbuildModel.Impl.PartDepsDriver
import EsbuildModel.Impl.ScopesSyntax
import EsbuildModel.Impl.JsonDriver
import EsbuildModel.Impl.CssLexDriver
import EsbuildModel.Impl.StdioAsync
import EsbuildModel.Impl.StmtPrintDriver
import EsbuildModel.Impl.InteropWire
import EsbuildModel.Impl.Calc
import EsbuildModel.Impl.SmChunkDriver
import EsbuildModel.Impl.TargetsDriver
import EsbuildModel.Impl.IdentLexDriver
import EsbuildModel.Impl.ChunkNamesDriver
import EsbuildModel.Impl.RegexLex
import EsbuildModel.Impl.CommentIndent
import EsbuildModel.Impl.RealPath
import EsbuildModel.Impl.AssetHashDriver
import EsbuildModel.Impl.MetaImports
import EsbuildModel.Impl.PrintKeyDriver
import EsbuildModel.Impl.FsCacheDriver
import EsbuildModel.Impl.PrivLower
import EsbuildModel.Impl.TsClassWire
import EsbuildModel.Impl.TsNsDriver
import EsbuildModel.Impl.CtxLockDriver
import EsbuildModel.Impl.ParWrites
import EsbuildModel.Impl.StmtMangleDriver

open EsbuildModel

def dispatch (kernel : String) (args : List String) : String :=
  match kernel with
  | "vlq" => Vlq.driver args
  | "pieces" => Pieces.driver args
  | "toint32" => ToInt32.driver args
  | "compat" => Compat.driver args
  | "dataurl" => DataUrl.driver args
  | "quote" => Quote.driver args
  | "exports" => Exports.driver args
  | "csshex" => CssHex.driver args
  | "split" => Split.driver args
  | "det" => Det.driver args
  | "shake" => Shake.driver args
  | "tsenum" => TsEnum.driver args
  | "rename" => Rename.driver args
  | "writes" => Writes.driver args
  | "smsections" => SmSections.driver args
  | "ctx" => Ctx.driver args
  | "lower" => Lower.driver args
  | "chunkhash" => ChunkHash.driver args
  | "order" => Order.driver args
  | "stdio" => Stdio.driver args
  | "numprint" => NumPrint.driver args
  | "slots" => Slots.driver args
  | "pkgexports" => PkgExports.driver args
  | "smjoin" => SmJoin.driver args
  | "shifts" => Shifts.driver args
  | "lower2" => Lower2.driver args
  | "lower2sem" => Lower2.semDriver args
  | "fold" => Fold.driver args
  | "prec" => Prec.driver args
  | "decoders" => Decoders.driver args
  | "cssbox" => CssBox.driver args
  | "minijs" => MiniJS.driver args
  | "watch" => Watch.driver args
  | "lexnum" => LexNum.driver args
  | "metafile" => Metafile.driver args
  | "cssimport" => CssImport.driver args
  | "cssrules" => CssRules.driver args
  | "c14facts" => C14FactsDriver.driver args
  | "crosschunk" => CrossChunk.driver args
  | "exportmatch" => ExportMatch.driver args
  | "objrest" => Lower3.driver args
  | "objrestsem" => Lower3.semDriver args
  | "objrestchk" => Lower3.chkDriver args
  | "isohash" => IsoHash.driver args
  | "lineoffset" => LineOffset.driver args
  | "watchloop" => WatchLoop.driver args
  | "mangleprops" => MangleProps.driver args
  | "jsxtext" => JsxText.driver args
  | "cjswrap" => CjsWrap.driver args
  | "outpaths" => OutPaths.driver args
  | "strlex" => StrLex.driver args
  | "tspaths" => ResolveWalk.driver args
  | "glob" => Glob.driver args
  | "partdeps" => PartDeps.driver args
  | "scope" => Scopes.driverAll args
  | "jsonrt" => Json.driver args
  | "csslex" => CssLex.driver args
  | "stdioasync" => StdioAsync.driver args
  | "stmtprint" => StmtPrintDriver.driver args
  | "interop" => Interop.driver args
  | "calc" => Calc.driver args
  | "smchunk" => SmChunk.driver args
  | "targets" => Targets.driver args
  | "identlex" => IdentLex.driver args
  | "chunknames" => ChunkNames.driver args
  | "regexlex" => RegexLex.driver args
  | "commentindent" => CommentIndent.driver args
  | "realpath" => RealPath.driver args
  | "assethash" => AssetHash.driver args
  | "metaimports" => MetaImports.driver args
  | "printkey" => PrintKey.driver args
  | "fscache" => FsCache.driver args
  | "privlower" => PrivLower.driver args
  | "privlowersem" => PrivLower.semDriver args
  | "tsclass" => TsClass.driver args
  | "tsclasssem" => TsClass.semDriver args
  | "tsns" => TsNs.Driver.driver args
  | "ctxlock" => CtxLock.driver args
  | "parwrites" => ParWrites.driver args
  | "stmtmangle" => MiniJS.stmtMangleDriver args
  | _ => "bad-kernel"

partial def loop (hin hout : IO.FS.Stream) : IO Unit := do
  let line ← hin.getLine
  if line.isEmpty then return ()
  let line := if line.endsWith "\n" then (line.dropEnd 1).toString else line
  match line.splitOn "\t" with
  | kernel :: args => hout.putStrLn (dispatch kernel args)
  | [] => hout.putStrLn "bad-line"
  loop hin hout

def main : IO Unit := do
  let hin ← IO.getStdin
  let hout ← IO.getStdout
  loop hin hout
  hout.flush
