module github.com/evanw/esbuild/verifharness

go 1.13

require github.com/evanw/esbuild v0.0.0

replace github.com/evanw/esbuild => /repo
