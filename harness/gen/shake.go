package gen

import (
	"fmt"
	"strings"
)

// Tree-shaking scenarios (C04): ES module graphs whose modules consist of top-level statements drawn from a
// table of templates. Most templates declare something that NOTHING uses; the interesting ones hide a side
// effect (a probe call) in a syntactic position the purity analysis has to look at. Whatever the tree shaker
// drops, the probe trace must stay the same as with --tree-shaking=false and as native execution.

type ShakeOpts struct {
	Modules   int
	Accessor  bool // use `static accessor` (not supported by Node 20: needs a lowered reference build)
	EmptyFunc bool // empty-function-inlining / mutated-function scenarios (need --minify-syntax to matter)
}

type shakeTpl struct {
	name string
	// id: unique identifier suffix; tag: probe tag prefix
	f func(id, tag string) string
	// effect: true if the statement has an observable effect although its binding is unused
	effect bool
}

func lit(s string) func(id, tag string) string {
	return func(id, tag string) string {
		return strings.ReplaceAll(strings.ReplaceAll(s, "#", id), "@", tag)
	}
}

var shakeTemplates = []shakeTpl{
	// ---- pure, unused: may disappear
	{"pure-const", lit("const u# = 1;"), false},
	{"pure-fn", lit("function u#() { p(\"@never\"); }"), false},
	{"pure-class", lit("class U# { m() { p(\"@never\"); } static s() { p(\"@never\"); } f = p; }"), false},
	{"pure-object", lit("const u# = { a: 1, b: [1, 2, \"x\"], c: { d: null }, m() { p(\"@never\"); }, get g() { p(\"@never\"); return 1; } };"), false},
	{"pure-template", lit("const u# = `x${1}y${\"s\"}`;"), false},
	{"pure-arrow", lit("const u# = (a = p(\"@never\")) => a;"), false},
	{"pure-default-param", lit("function u#(a = p(\"@never\"), { b = p(\"@never\") } = {}) { return a + b; }"), false},
	{"pure-typeof", lit("const u# = typeof notDefinedAnywhere#;"), false},
	{"pure-ops", lit("const u# = [1 + 2, !0, -1, void 0, 1 < 2, \"a\" + \"b\", 1 ? 2 : 3, null ?? 1, 0 || 1];"), false},
	{"pure-unused-export", lit("export const ue# = { k: [1, 2] };\nexport function uf#() { p(\"@never\"); }"), false},
	{"pure-instance-field", lit("class U# { f = p(\"@never\"); #g = p(\"@never\"); [\"k\"] = 1; }"), false},
	{"pure-async-fn", lit("const u# = async function () { p(\"@never\"); };\nfunction* ug#() { p(\"@never\"); }"), false},
	{"pure-regex-bigint", lit("const u# = [/x/g, 10n, 1.5, 0x10];"), false},
	{"pure-new-builtin", lit("const u# = [new Map(), new Set(), new WeakMap(), new Date(0), Symbol(\"s\"), new Array(3)];"), false},

	// ---- hidden effects: must stay
	{"getter-member", lit("const h# = { get x() { p(\"@getter\"); return 1; } }.x;"), true},
	{"getter-index", lit("const h# = OG#[\"x\"];"), true},
	{"getter-optional", lit("const h# = OG#?.x;"), true},
	{"computed-key-object", lit("const h# = { [p(\"@ck\")]: 1 };"), true},
	{"computed-key-object-tostring", lit("const h# = { [OT#]: 1 };"), true},
	{"computed-key-method", lit("class H# { [p(\"@cm\")]() {} }"), true},
	{"computed-key-static", lit("class H# { static [p(\"@cs\")] = 1; }"), true},
	{"computed-key-field", lit("class H# { [p(\"@cf\")] = 1; }"), true},
	{"computed-key-accessor-pair", lit("class H# { get [p(\"@cg\")]() { return 1; } set [p(\"@cs2\")](v) {} }"), true},
	{"computed-key-tostring-class", lit("class H# { [OT#]() {} }"), true},
	{"spread-array", lit("const h# = [...IT#];"), true},
	{"spread-object-getter", lit("const h# = { ...OG# };"), true},
	{"spread-call-arg", lit("const h# = Math.max(...IT#);"), true},
	{"template-hole-call", lit("const h# = `a${p(\"@th\")}b`;"), true},
	{"template-hole-tostring", lit("const h# = `a${OT#}b`;"), true},
	{"coerce-plus", lit("const h# = +OV#;"), true},
	{"coerce-minus", lit("const h# = -OV#;"), true},
	{"coerce-add", lit("const h# = OV# + 1;"), true},
	{"coerce-concat", lit("const h# = \"\" + OT#;"), true},
	{"coerce-compare", lit("const h# = OV# < 2;"), true},
	{"coerce-loose-eq", lit("const h# = OV# == 1;"), true},
	{"coerce-bitor", lit("const h# = OV# | 0;"), true},
	{"coerce-pow", lit("const h# = OV# ** 2;"), true},
	{"coerce-tilde", lit("const h# = ~OV#;"), true},
	{"coerce-inc", lit("let h# = OV#; h#++;"), true},
	{"coerce-key", lit("const h# = ({})[OT#];"), true},
	{"static-block", lit("class H# { static { p(\"@sb\"); } }"), true},
	{"static-field", lit("class H# { static f = p(\"@sf\"); }"), true},
	{"static-private-field", lit("class H# { static #f = p(\"@spf\"); }"), true},
	{"static-field-this", lit("class H# { static a = 1; static b = p(\"@sft\", this.a); }"), true},
	{"heritage-call", lit("class H# extends PC#(\"@her\") {}"), true},
	{"heritage-comma", lit("class H# extends (p(\"@her2\"), Object) {}"), true},
	{"class-expr-static", lit("const h# = class { static f = p(\"@cesf\"); };"), true},
	{"destructure-default", lit("const { a# = p(\"@dd\") } = {};"), true},
	{"destructure-array-default", lit("const [b# = p(\"@ad\")] = [];"), true},
	{"destructure-getter", lit("const { x: c# } = OG#;"), true},
	{"destructure-computed", lit("const { [p(\"@dk\")]: d# } = {};"), true},
	{"destructure-array-iter", lit("const [e#] = IT#;"), true},
	{"destructure-rest", lit("const { ...r# } = OG#;"), true},
	{"tagged-template", lit("const h# = TG#`a${1}b`;"), true},
	{"in-proxy", lit("const h# = \"x\" in PX#;"), true},
	{"instanceof-hook", lit("const h# = ({}) instanceof CI#;"), true},
	{"global-getter", lit("const h# = gget#;"), true},
	{"new-ctor", lit("const h# = new CT#();"), true},
	{"call", lit("const h# = PV#(\"@call\");"), true},
	{"iife", lit("const h# = (() => { p(\"@iife\"); return 1; })();"), true},
	{"async-iife", lit("const h# = (async () => { p(\"@aiife\"); })();"), true},
	{"array-elem", lit("const h# = [1, p(\"@ae\"), 3];"), true},
	{"object-value", lit("const h# = { a: { b: p(\"@ov\") } };"), true},
	{"unary-typeof-call", lit("const h# = typeof p(\"@tc\");"), true},
	{"void-call", lit("const h# = void p(\"@vc\");"), true},
	{"cond-taken", lit("const h# = true ? p(\"@ct\") : 0;"), true},
	{"cond-test", lit("const h# = p(\"@ctest\") ? 1 : 2;"), true},
	{"and-taken", lit("const h# = 1 && p(\"@la\");"), true},
	{"or-taken", lit("const h# = 0 || p(\"@lo\");"), true},
	{"nullish-taken", lit("const h# = null ?? p(\"@nc\");"), true},
	{"comma", lit("const h# = (p(\"@cm1\"), 2);"), true},
	{"and-not-taken", lit("const h# = 0 && p(\"@never\");"), false},
	{"unused-export-effect", lit("export const he# = p(\"@ue\");"), true},
	{"unused-export-class-static", lit("export class HE# { static f = p(\"@ues\"); }"), true},
	{"unused-default-export", lit("export default p(\"@ude\");"), true},
	{"var-in-if", lit("if (p(\"@if\")) var h# = p(\"@ifv\");"), true},
	{"for-in-proxy", lit("for (const k# in PX#) ;"), true},
	{"for-of-iter", lit("for (const v# of IT#) ;"), true},
	{"label-block", lit("l#: { p(\"@lb\"); break l#; }"), true},
	{"let-tdz-chain", lit("const h# = PV#(\"@c1\"), i# = h# + PV#(\"@c2\");"), true},
	{"assign-setter", lit("OG#.y = 1;"), true},
	{"delete-proxy", lit("delete PX#.z;"), true},
	{"new-target-fn", lit("function H#() { p(\"@nt\", new.target === undefined); }\nH#();"), true},
	{"getter-on-class", lit("class H# { static get x() { p(\"@sg\"); return 1; } }\nconst i# = H#.x;"), true},
	{"symbol-toprimitive", lit("const h# = `${OP#}`;"), true},
	{"array-hole-spread", lit("const h# = [, ...IT#];"), true},
	{"optional-call", lit("const h# = PV#?.(\"@oc\");"), true},
	{"chained-member-call", lit("const h# = OG#.m?.();"), true},
	{"json-stringify-tojson", lit("const h# = JSON.stringify(OJ#);"), true},
	{"object-keys-proxy", lit("const h# = Object.keys(PX#);"), true},
	{"string-method-coerce", lit("const h# = \"abc\".indexOf(OT#);"), true},
	{"math-coerce", lit("const h# = Math.abs(OV#);"), true},
	{"array-from-iter", lit("const h# = Array.from(IT#);"), true},
	{"number-ctor-coerce", lit("const h# = Number(OV#);"), true},
	{"string-ctor-coerce", lit("const h# = String(OT#);"), true},
	{"bool-ctor", lit("const h# = Boolean(OV#);"), false},
	{"symbol-desc-coerce", lit("const h# = Symbol(OT#);"), true},
	{"new-map-iter", lit("const h# = new Map(IT2#);"), true},
	{"new-set-iter", lit("const h# = new Set(IT#);"), true},
	{"weakmap-iter", lit("const h# = new WeakSet(IT3#);"), true},
	{"date-coerce", lit("const h# = new Date(OV#);"), true},
	{"regexp-coerce", lit("const h# = new RegExp(OT#);"), true},
	{"bigint-coerce", lit("const h# = BigInt(OV#);"), true},
	{"array-ctor-arg", lit("const h# = new Array(PV#(\"@aca\"));"), true},
	{"object-assign", lit("const h# = Object.assign({}, OG#);"), true},
	{"string-raw", lit("const h# = String.raw`a${OT#}`;"), true},
}

// helpers every module declares (live because the probes below use them or because they have effects).
// # is replaced by the module's id so that names never clash after bundling unless the renamer errs.
const shakeHelpers = `const OG# = { get x() { p("@OG.x"); return 1; }, set y(v) { p("@OG.y"); }, get m() { p("@OG.m"); return undefined; } };
const OT# = { toString() { p("@OT"); return "k"; } };
const OV# = { valueOf() { p("@OV"); return 1; } };
const OP# = { [Symbol.toPrimitive](h) { p("@OP", h); return "q"; } };
const OJ# = { toJSON() { p("@OJ"); return 1; } };
const IT# = { [Symbol.iterator]() { p("@IT"); return [1, 2][Symbol.iterator](); } };
const IT2# = { [Symbol.iterator]() { p("@IT2"); return [[1, 2]][Symbol.iterator](); } };
const IT3# = { [Symbol.iterator]() { p("@IT3"); return [{}][Symbol.iterator](); } };
const PX# = new Proxy({}, { has() { p("@PX.has"); return true; }, ownKeys() { p("@PX.keys"); return []; }, deleteProperty() { p("@PX.del"); return true; } });
class CI# { static [Symbol.hasInstance]() { p("@CI"); return false; } }
class CT# { constructor() { p("@CT"); } }
function PV#(t) { p(t); return 1; }
function PC#(t) { p(t); return class {}; }
function TG#(s, ...v) { p("@TG", s.length, v.length); return 1; }
Object.defineProperty(globalThis, "gget#", { get() { p("@gget"); return 1; }, configurable: true });
`

func GenShakeGraph(r *Rand, o ShakeOpts) *Graph {
	g := &Graph{Files: map[string]string{}, Stats: map[string]int{}}
	n := o.Modules
	if n < 1 {
		n = 1
	}
	for mi := n - 1; mi >= 0; mi-- {
		var sb strings.Builder
		mid := fmt.Sprintf("_%d", mi)
		// imports: the entry (0) imports every other module one way or another; others import later modules
		for t := mi + 1; t < n; t++ {
			if mi != 0 && !r.Chance(1, 3) {
				continue
			}
			switch r.Intn(4) {
			case 0:
				fmt.Fprintf(&sb, "import \"./m%d.js\";\n", t)
				g.stat("import:bare")
			case 1:
				fmt.Fprintf(&sb, "import { used%d as iu%d_%d } from \"./m%d.js\";\n", t, mi, t, t)
				fmt.Fprintf(&sb, "p(\"m%d:uses\", iu%d_%d);\n", mi, mi, t)
				g.stat("import:named-used")
			case 2:
				fmt.Fprintf(&sb, "import { used%d as iu%d_%d, unused%d as in%d_%d } from \"./m%d.js\";\n", t, mi, t, t, mi, t, t)
				g.stat("import:named-unused")
			default:
				fmt.Fprintf(&sb, "import * as ns%d_%d from \"./m%d.js\";\n", mi, t, t)
				if r.Bool() {
					fmt.Fprintf(&sb, "p(\"m%d:ns\", ns%d_%d.used%d);\n", mi, mi, t, t)
				}
				g.stat("import:namespace")
			}
		}
		fmt.Fprintf(&sb, "p(\"m%d:start\");\n", mi)
		sb.WriteString(strings.ReplaceAll(strings.ReplaceAll(shakeHelpers, "#", mid), "@", fmt.Sprintf("m%d:", mi)))
		fmt.Fprintf(&sb, "export const used%d = %d;\nexport const unused%d = { v: %d };\n", mi, mi, mi, mi)
		k := 3 + r.Intn(8)
		hasDefault := false
		for s := 0; s < k; s++ {
			t := shakeTemplates[r.Intn(len(shakeTemplates))]
			if t.name == "unused-default-export" {
				if hasDefault {
					continue
				}
				hasDefault = true
			}
			id := fmt.Sprintf("%s_%d", mid, s)
			code := t.f(id, fmt.Sprintf("m%d:s%d:", mi, s))
			// helper references carry the module id only
			for _, h := range []string{"OG", "OT", "OV", "OP", "OJ", "IT2", "IT3", "IT", "PX", "CI", "CT", "PV", "PC", "TG", "gget"} {
				code = strings.ReplaceAll(code, h+id, h+mid)
			}
			sb.WriteString(code + "\n")
			g.stat("tpl:" + t.name)
			if t.effect {
				g.stat("stmt:hidden-effect")
			} else {
				g.stat("stmt:pure-unused")
			}
			if r.Chance(1, 5) {
				fmt.Fprintf(&sb, "p(\"m%d:live%d\");\n", mi, s)
			}
		}
		if o.Accessor && r.Chance(2, 3) {
			id := fmt.Sprintf("%s_acc", mid)
			switch r.Intn(3) {
			case 0:
				fmt.Fprintf(&sb, "class A%s { static accessor x = p(\"m%d:acc-static\"); }\n", id, mi)
			case 1:
				fmt.Fprintf(&sb, "class A%s { accessor x = p(\"m%d:never\"); static accessor [p(\"m%d:acc-key\")] = 1; }\n", id, mi, mi)
			default:
				fmt.Fprintf(&sb, "export class A%s { static accessor #y = PV%s(\"m%d:acc-priv\"); }\n", id, mid, mi)
			}
			g.stat("tpl:static-accessor")
		}
		if o.EmptyFunc && r.Chance(2, 3) {
			id := fmt.Sprintf("%s_ef", mid)
			switch r.Intn(6) {
			case 4:
				// empty / identity function referenced as a VALUE once and also called inside a provably dead region of
				// the same statement: the call use must not cancel the value use (the declaration has to stay)
				dead := []string{"if (false) ef%[1]s(\"x\");", "false && ef%[1]s(1);", "if (0) { ef%[1]s(); }", "null ?? true ? 0 : ef%[1]s(2);"}[r.Intn(4)]
				fmt.Fprintf(&sb, "function ef%[1]s(a) {}\nexport function inst%[1]s(bus) { bus.push(ef%[1]s); "+dead+" return bus; }\np(\"m%[2]d:inst\", typeof inst%[1]s([])[0]);\n", id, mi)
			case 5:
				dead := []string{"if (false) idf%[1]s(3);", "false && idf%[1]s(1);"}[r.Intn(2)]
				fmt.Fprintf(&sb, "function idf%[1]s(x) { return x; }\nfunction reg%[1]s(list) { list.push(idf%[1]s); "+dead+" return list; }\np(\"m%[2]d:reg\", reg%[1]s([])[0](7));\n", id, mi)
			case 0:
				// empty function that is reassigned by code that gets shaken away, but called by live code
				fmt.Fprintf(&sb, "function ef%s(a, b) {}\nexport function mut%s() { ef%s = function () { p(\"m%d:mutated\"); }; }\nef%s(1, 2);\np(\"m%d:ef-called\");\n", id, id, id, mi, id, mi)
			case 1:
				fmt.Fprintf(&sb, "function ef%s() {}\nef%s(p(\"m%d:ef-arg\"));\n", id, id, mi)
			case 2:
				fmt.Fprintf(&sb, "function idf%s(x) { return x; }\np(\"m%d:id\", idf%s(p(\"m%d:id-arg\")));\nexport function mut%s() { idf%s = null; }\n", id, mi, id, mi, id, id)
			default:
				fmt.Fprintf(&sb, "let cnt%s = 0;\nfunction inc%s() { cnt%s++; }\nexport function unusedInc%s() { inc%s(); }\ninc%s();\np(\"m%d:cnt\", cnt%s);\n", id, id, id, id, id, id, mi, id)
			}
			g.stat("tpl:empty-function")
		}
		fmt.Fprintf(&sb, "p(\"m%d:end\");\n", mi)
		name := fmt.Sprintf("m%d.js", mi)
		g.Files[name] = sb.String()
	}
	g.Files["package.json"] = "{\"type\": \"module\"}\n"
	g.Entries = []string{"m0.js"}
	return g
}
