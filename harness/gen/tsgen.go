package gen

import (
	"fmt"
	"strings"
)

// TSGen generates TypeScript programs in which every piece of type-level syntax is wrapped in erasure markers
// ⟦ … ⟧.  Rendering with the markers' content kept gives a typed program; rendering with the marked
// segments deleted gives its untyped JavaScript counterpart.  C06 says both compile to the same code.
//
// Binary operators are always surrounded by spaces so that deleting a segment never merges tokens.

type TSGen struct {
	r                   *Rand
	NoInlineTypeImports bool // verbatimModuleSyntax keeps `import {} from` for them by definition
	tsx                 bool // .tsx rules: no angle-bracket casts, generic arrows need a trailing comma
	n                   int
	Stats               map[string]int
	vars                []string
	fns                 []string
	clss                []string
}

func NewTSGen(r *Rand, tsx bool) *TSGen {
	return &TSGen{r: r, tsx: tsx, Stats: map[string]int{}, vars: []string{"g0"}, fns: []string{"gf"}, clss: []string{"GC"}}
}

func (g *TSGen) stat(k string) { g.Stats[k]++ }
func (g *TSGen) fresh(p string) string {
	g.n++
	return fmt.Sprintf("%s%d", p, g.n)
}
func m(s string) string { return "⟦" + s + "⟧" }

// RenderTyped keeps the marked segments, RenderUntyped deletes them.
func RenderTyped(s string) string {
	return strings.NewReplacer("⟦", "", "⟧", "").Replace(s)
}
func RenderUntyped(s string) string {
	var sb strings.Builder
	depth := 0
	for _, c := range s {
		switch c {
		case '⟦':
			depth++
		case '⟧':
			depth--
		default:
			if depth == 0 {
				sb.WriteRune(c)
			}
		}
	}
	return sb.String()
}

// ---------------------------------------------------------------- types

var tsPrims = []string{"number", "string", "boolean", "any", "unknown", "never", "void", "null", "undefined", "object", "symbol", "bigint", "this"}
var tsNames = []string{"T", "U", "K", "Foo", "Bar", "Array", "Promise", "Record", "Partial", "ns.Inner", "ns.a.B"}

func (g *TSGen) Type(d int) string {
	r := g.r
	if d <= 0 || r.Chance(1, 3) {
		switch r.Intn(9) {
		case 0, 1, 2:
			g.stat("type:prim")
			return tsPrims[r.Intn(len(tsPrims))]
		case 3, 4:
			g.stat("type:ref")
			return tsNames[r.Intn(len(tsNames))]
		case 5:
			g.stat("type:literal")
			return pick(r, "1", "-1", "\"s\"", "'x'", "true", "false", "1n", "`tpl`", "0x10")
		case 6:
			g.stat("type:typeof")
			return "typeof " + pick(r, "g0", "gf", "GC", "g0.a.b")
		case 7:
			g.stat("type:unique-symbol")
			return "unique symbol"
		default:
			g.stat("type:this-or-empty-object")
			return pick(r, "{}", "[]", "this", "object")
		}
	}
	switch r.Intn(24) {
	case 0:
		g.stat("type:union")
		return g.Type(d-1) + " | " + g.Type(d-1)
	case 1:
		g.stat("type:leading-union")
		return "| " + g.Type(d-1) + " | " + g.Type(d-1)
	case 2:
		g.stat("type:intersection")
		return g.Type(d-1) + " & " + g.Type(d-1)
	case 3:
		g.stat("type:array")
		return g.atomType(d-1) + "[]"
	case 4:
		g.stat("type:tuple")
		return "[" + g.Type(d-1) + ", " + pick(r, "", "x: ", "x?: ") + g.Type(d-1) + pick(r, "", ", ...rest: "+g.atomType(d-1)+"[]", ", ..."+g.atomType(d-1)+"[]") + "]"
	case 5:
		g.stat("type:function")
		return "(" + g.typeParamsOpt(d-1) + "(" + g.paramTypes(d-1) + ") => " + g.Type(d-1) + ")"
	case 6:
		g.stat("type:constructor")
		return "(" + pick(r, "", "abstract ") + "new (" + g.paramTypes(d-1) + ") => " + g.Type(d-1) + ")"
	case 7, 8:
		g.stat("type:object")
		return g.objectType(d - 1)
	case 9:
		g.stat("type:generic")
		return pick(r, "Map", "Array", "Promise", "Foo", "ns.G") + "<" + g.Type(d-1) + pick(r, "", ", "+g.Type(d-1)) + ">"
	case 10:
		g.stat("type:nested-generic-close")
		return "Array<Array<Array<" + g.Type(d-1) + ">>>" // the lexer must split >> and >>>
	case 11:
		g.stat("type:conditional")
		return g.atomType(d-1) + " extends " + g.atomType(d-1) + " ? " + g.Type(d-1) + " : " + g.Type(d-1)
	case 12:
		g.stat("type:infer")
		return g.atomType(d-1) + " extends " + pick(r, "Array<infer R>", "(infer R)[]", "(...a: infer A) => infer R", "[infer R extends string]", "{ a: infer R extends number }") + " ? R : never"
	case 13:
		g.stat("type:mapped")
		return "{ " + pick(r, "", "readonly ", "-readonly ", "+readonly ") + "[P in keyof " + g.atomType(d-1) + pick(r, "", " as `x${string & P}`") + "]" + pick(r, "", "?", "-?", "+?") + ": " + g.Type(d-1) + pick(r, "", ";") + " }"
	case 14:
		g.stat("type:template-literal")
		return "`a${" + g.Type(d-1) + "}b${" + g.Type(d-1) + "}`"
	case 15:
		g.stat("type:keyof")
		return pick(r, "keyof "+g.atomType(d-1), "readonly "+g.atomType(d-1)+"[]", "keyof typeof g0", "readonly [a: "+g.Type(d-1)+"]")
	case 16:
		g.stat("type:indexed")
		return g.atomType(d-1) + "[" + pick(r, "\"a\"", "number", "keyof T", g.Type(d-1)) + "]"
	case 17:
		g.stat("type:paren")
		return "(" + g.Type(d-1) + ")"
	case 18:
		g.stat("type:import")
		return pick(r, "import(\"./x\")", "import(\"./x\").Y", "import(\"./x\").Y<"+g.Type(d-1)+">", "typeof import(\"./x\")")
	case 19:
		g.stat("type:typeof-generic")
		return "typeof gf<" + g.Type(d-1) + ">"
	case 20:
		g.stat("type:accessor-object")
		return "{ get a(): " + g.Type(d-1) + "; set a(v: " + g.Type(d-1) + ") }"
	case 21:
		g.stat("type:fn-with-this")
		return "((this: " + g.Type(d-1) + ", a?: " + g.Type(d-1) + ") => void)"
	case 22:
		g.stat("type:generic-fn-const")
		return "(<const T extends readonly unknown[], U = T>(a: T) => U)"
	default:
		g.stat("type:optional-chain-of-arrays")
		return g.atomType(d-1) + "[][]"
	}
}

func pick(r *Rand, xs ...string) string { return xs[r.Intn(len(xs))] }

// atomType never starts with a token that would be ambiguous after `extends`/before `[]`
func (g *TSGen) atomType(d int) string {
	if g.r.Chance(1, 2) {
		return pick(g.r, "T", "U", "string", "number", "Foo")
	}
	return "(" + g.Type(d) + ")"
}

// retType: a return type for an ARROW function. It must not start with "(" — `(a): (T) => x` would make
// `(T) => x` a function type.
func (g *TSGen) retType(d int) string {
	switch g.r.Intn(6) {
	case 0:
		return tsPrims[g.r.Intn(len(tsPrims))]
	case 1:
		return tsNames[g.r.Intn(len(tsNames))]
	case 2:
		return "Array<" + g.Type(d) + ">"
	case 3:
		return g.objectType(d)
	case 4:
		return "string | number[] | { a: " + g.Type(d) + " }"
	default:
		return "[" + g.Type(d) + "]"
	}
}

func (g *TSGen) paramTypes(d int) string {
	n := g.r.Intn(3)
	parts := []string{}
	for i := 0; i < n; i++ {
		parts = append(parts, fmt.Sprintf("p%d%s: %s", i, pick(g.r, "", "?"), g.Type(d)))
	}
	if g.r.Chance(1, 4) {
		parts = append(parts, "...r: "+g.atomType(d)+"[]")
	}
	return strings.Join(parts, ", ")
}

func (g *TSGen) typeParamsOpt(d int) string {
	if g.r.Chance(2, 3) {
		return ""
	}
	return g.typeParams(d)
}

func (g *TSGen) typeParams(d int) string {
	g.stat("type-params")
	return "<" + pick(g.r, "T", "T, U", "T extends "+g.Type(d), "T = "+g.Type(d), "T extends "+g.atomType(d)+" = "+g.Type(d)+", U = T") + ">"
}

// variance annotations are only allowed on type aliases, interfaces and classes
func (g *TSGen) typeParamsVar(d int) string {
	if g.r.Chance(1, 2) {
		return g.typeParamsOpt(d)
	}
	g.stat("type-params-variance")
	return "<" + pick(g.r, "in T", "out T", "in out T", "in T, out U") + ">"
}

func (g *TSGen) objectType(d int) string {
	n := 1 + g.r.Intn(3)
	parts := []string{}
	for i := 0; i < n; i++ {
		switch g.r.Intn(8) {
		case 0, 1:
			parts = append(parts, fmt.Sprintf("%sa%d%s: %s", pick(g.r, "", "readonly "), i, pick(g.r, "", "?"), g.Type(d)))
		case 2:
			parts = append(parts, fmt.Sprintf("m%d%s(%s): %s", i, g.typeParamsOpt(d), g.paramTypes(d), g.Type(d)))
		case 3:
			parts = append(parts, "[k: string]: "+g.Type(d))
		case 4:
			parts = append(parts, "("+g.paramTypes(d)+"): "+g.Type(d))
		case 5:
			parts = append(parts, "new ("+g.paramTypes(d)+"): "+g.Type(d))
		case 6:
			parts = append(parts, pick(g.r, "\"quoted key\"", "[Symbol.iterator]", "123", "get", "set", "readonly", "type", "async")+pick(g.r, "", "?")+": "+g.Type(d))
		default:
			parts = append(parts, pick(g.r, "get x(): ", "readonly [k: number]: ")+g.Type(d))
		}
	}
	sep := pick(g.r, "; ", ", ", ";\n  ")
	return "{ " + strings.Join(parts, sep) + pick(g.r, "", ";") + " }"
}

// cast is an erasable angle-bracket cast where the dialect allows it
func (g *TSGen) cast() string {
	if g.tsx {
		return ""
	}
	return m("<any>")
}

func (g *TSGen) ann(d int) string { return m(": " + g.Type(d)) }

// ---------------------------------------------------------------- expressions

func (g *TSGen) Expr(d int) string {
	r := g.r
	if d <= 0 || r.Chance(1, 3) {
		switch r.Intn(6) {
		case 0, 1:
			return g.vars[r.Intn(len(g.vars))]
		case 2:
			return pick(r, "1", "\"s\"", "true", "null", "`t`", "2n", "/re/g", "this")
		case 3:
			return g.fns[r.Intn(len(g.fns))] + m("<"+g.Type(1)+">") + "(" + g.vars[r.Intn(len(g.vars))] + ")"
		case 4:
			return g.vars[r.Intn(len(g.vars))] + m("!") + pick(r, ".a", "[0]", "?.b", "")
		default:
			return "[" + g.vars[r.Intn(len(g.vars))] + ", 2]"
		}
	}
	switch r.Intn(22) {
	case 0:
		g.stat("expr:as")
		return "(" + g.Expr(d-1) + m(" as "+g.Type(2)) + ")"
	case 1:
		g.stat("expr:as-chain")
		return "(" + g.Expr(d-1) + m(" as unknown as "+g.Type(2)) + ")"
	case 2:
		g.stat("expr:satisfies")
		return "(" + g.Expr(d-1) + m(" satisfies "+g.Type(2)) + ")"
	case 3:
		g.stat("expr:as-const")
		return "(" + g.Expr(d-1) + m(" as const") + ")"
	case 4:
		g.stat("expr:non-null")
		return "(" + g.Expr(d-1) + ")" + m("!") + pick(r, "", ".p", "[0]", "()")
	case 5:
		if g.tsx {
			return g.Expr(d - 1)
		}
		g.stat("expr:angle-cast")
		return "(" + m("<"+g.Type(2)+">") + g.Expr(d-1) + ")"
	case 6:
		g.stat("expr:arrow-typed")
		p := g.fresh("a")
		return "((" + p + g.ann(2) + pick(r, "", ", b"+m("?")+g.ann(1)) + ")" + m(": "+g.retType(2)) + " => " + p + ")"
	case 7:
		g.stat("expr:arrow-generic")
		p := g.fresh("a")
		tp := "<T>"
		if g.tsx {
			tp = pick(r, "<T,>", "<T extends unknown>", "<T, U>")
		} else {
			tp = pick(r, "<T>", "<T,>", "<T extends object = {}>", "<const T>", "<T, U>")
		}
		return "(" + pick(r, "", "async ") + m(tp) + "(" + p + g.ann(1) + ")" + m(": "+g.retType(1)) + " => " + p + ")"
	case 8:
		g.stat("expr:arrow-object-return-type")
		return "(()" + m(": { a: "+g.Type(1)+" }") + " => ({ a: 1 }))"
	case 9:
		g.stat("expr:function-expr")
		p := g.fresh("a")
		return "(function " + pick(r, "", g.fresh("fe")) + m(g.typeParams(1)) + "(" + m("this: "+g.Type(1)+", ") + p + m("?") + g.ann(1) + ", ...rest" + g.ann(1) + ")" + m(": "+g.Type(2)) + " { return " + p + "; })"
	case 10:
		g.stat("expr:generic-call")
		return g.fns[r.Intn(len(g.fns))] + m("<"+g.Type(2)+", "+g.Type(1)+">") + "(" + g.Expr(d-1) + ")"
	case 11:
		g.stat("expr:generic-new")
		return "new " + g.clss[r.Intn(len(g.clss))] + m("<"+g.Type(2)+">") + pick(r, "()", "(1)", "")
	case 12:
		g.stat("expr:generic-tagged-template")
		return g.fns[r.Intn(len(g.fns))] + m("<"+g.Type(1)+">") + "`x${" + g.Expr(d-1) + "}`"
	case 13:
		g.stat("expr:instantiation")
		return "(" + g.fns[r.Intn(len(g.fns))] + m("<"+g.Type(1)+">") + ")"
	case 14:
		g.stat("expr:generic-optional-call")
		return g.fns[r.Intn(len(g.fns))] + "?." + m("<"+g.Type(1)+">") + "(" + g.Expr(d-1) + ")"
	case 15:
		g.stat("expr:binary")
		return "(" + g.Expr(d-1) + " " + pick(r, "+", "*", "===", "&&", "??", "||", "in", "instanceof", ",") + " " + g.Expr(d-1) + ")"
	case 16:
		g.stat("expr:conditional-arrow-in-branch")
		p := g.fresh("a")
		return "(" + g.Expr(d-1) + " ? (" + g.vars[r.Intn(len(g.vars))] + ") : " + p + " => " + p + ")"
	case 17:
		g.stat("expr:conditional-typed-arrow-in-branch")
		p := g.fresh("a")
		return "(" + g.Expr(d-1) + " ? (" + p + g.ann(1) + ")" + m(": "+g.retType(1)) + " => " + p + " : " + g.Expr(d-1) + ")"
	case 18:
		g.stat("expr:object")
		return "({ a: " + g.Expr(d-1) + ", m" + m(g.typeParams(1)) + "(x" + g.ann(1) + ")" + m(": "+g.Type(1)) + " { return x; }, get g()" + m(": "+g.Type(1)) + " { return 1; }, set g(v" + g.ann(1) + ") {}, async *ag() {} })"
	case 19:
		g.stat("expr:class-expr")
		return "(class " + m(g.typeParams(1)) + " " + m("implements Foo, Bar<"+g.Type(1)+"> ") + "{ " + g.classMember(1) + " })"
	case 20:
		g.stat("expr:assign-non-null-target")
		return "(" + g.vars[r.Intn(len(g.vars))] + m("!") + " = " + g.Expr(d-1) + ")"
	default:
		g.stat("expr:assertion-as-target")
		return "((" + g.vars[r.Intn(len(g.vars))] + m(" as any") + ").k = " + g.Expr(d-1) + ")"
	}
}

// ---------------------------------------------------------------- classes and statements

func (g *TSGen) classMember(d int) string {
	r := g.r
	n := g.fresh("k")
	switch r.Intn(20) {
	case 0:
		g.stat("member:field-modifiers")
		return m(pick(r, "public ", "private ", "protected ", "readonly ", "public readonly ", "protected override ")) + n + g.ann(d) + " = " + g.Expr(d-1) + ";"
	case 1:
		g.stat("member:static-field-modifiers")
		return m(pick(r, "public ", "private ", "protected ")) + "static " + m(pick(r, "", "readonly ", "override ")) + n + m("?") + g.ann(d) + " = 1;"
	case 2:
		g.stat("member:optional-field")
		return n + m("?") + g.ann(d) + ";"
	case 3:
		g.stat("member:definite-field")
		return n + m("!") + g.ann(d) + ";"
	case 4:
		g.stat("member:declare-field")
		return m(pick(r, "declare ", "declare readonly ", "private declare ", "static declare ", "declare static ") + n + ": " + g.Type(d) + ";")
	case 5:
		g.stat("member:index-signature")
		return m(pick(r, "", "static ", "readonly ") + "[key: string]: " + g.Type(d) + ";")
	case 6:
		g.stat("member:method")
		return m(pick(r, "", "public ", "private ", "protected ", "override ", "public override ")) + pick(r, "", "static ", "async ", "static async ", "*") + n + m(g.typeParams(d)) + "(a" + m("?") + g.ann(d) + ", b" + g.ann(d) + " = 1)" + m(": "+g.Type(d)) + " { return a; }"
	case 7:
		g.stat("member:overloads")
		return m(n+"(a: string): void;\n  "+n+"(a: number, b?: "+g.Type(d)+"): void;\n  ") + n + "(a" + m(": any") + ", b" + m("?: any") + ") {}"
	case 8:
		g.stat("member:optional-method-signature")
		return m(n + "?(): " + g.Type(d) + ";")
	case 9:
		g.stat("member:abstract")
		return m("abstract " + pick(r, n+"(): void;", n+": "+g.Type(d)+";", "get "+n+"(): "+g.Type(d)+";", "accessor "+n+": number;"))
	case 10:
		g.stat("member:accessor-pair")
		return m(pick(r, "", "public ", "private ")) + "get " + n + "()" + m(": "+g.Type(d)) + " { return 1; }\n  " + m(pick(r, "", "public ", "private ")) + "set " + n + "(v" + g.ann(d) + ") {}"
	case 11:
		g.stat("member:constructor")
		return "constructor(a" + g.ann(d) + ", b" + m("?") + g.ann(d) + ") { " + "}"
	case 12:
		g.stat("member:constructor-overloads")
		return m("constructor(a: string);\n  constructor(a: number, b?: "+g.Type(d)+");\n  ") + "constructor(a" + m(": any") + ", b" + m("?: any") + ") {}"
	case 13:
		g.stat("member:private-name")
		return pick(r, "", "static ") + m(pick(r, "", "readonly ")) + "#" + n + g.ann(d) + " = 1;"
	case 14:
		g.stat("member:computed")
		return m(pick(r, "", "public ", "readonly ")) + "[" + g.vars[r.Intn(len(g.vars))] + "]" + m("?") + g.ann(d) + " = 2;"
	case 15:
		g.stat("member:static-block")
		return "static { " + g.vars[r.Intn(len(g.vars))] + m("!") + "; }"
	case 16:
		g.stat("member:keyword-named")
		return pick(r, "declare", "readonly", "abstract", "public", "static", "override", "type", "get", "set", "async", "accessor", "private", "protected", "satisfies", "as", "in", "out") + m(pick(r, "", "?", "!")) + g.ann(d) + pick(r, " = 1;", ";")
	case 17:
		g.stat("member:keyword-named-method")
		return pick(r, "declare", "readonly", "abstract", "public", "static", "override", "type", "get", "set", "async", "private") + m(g.typeParamsOpt(d)) + "()" + m(": void") + " {}"
	case 18:
		g.stat("member:this-param-method")
		return n + "(" + m("this: "+g.Type(d)+pick(r, "", ", ")) + ")" + " {}"
	default:
		g.stat("member:generator-async")
		return m("public ") + "async *" + n + m("<T>") + "(a" + g.ann(d) + ")" + m(": AsyncGenerator<T>") + " { yield a; }"
	}
}

func (g *TSGen) Stmt(d int) string {
	r := g.r
	switch r.Intn(30) {
	case 0, 1:
		g.stat("stmt:var")
		v := g.fresh("v")
		s := pick(r, "let ", "const ", "var ") + v + g.ann(2) + " = " + g.Expr(d) + ";"
		g.vars = append(g.vars, v)
		return s
	case 2:
		g.stat("stmt:definite-let")
		v := g.fresh("v")
		g.vars = append(g.vars, v)
		return "let " + v + m("!") + g.ann(2) + ";"
	case 3:
		g.stat("stmt:destructuring-typed")
		a, b := g.fresh("d"), g.fresh("d")
		return "const { " + a + ", x: [" + b + "] }" + m(": { "+a+": "+g.Type(1)+"; x: ["+g.Type(1)+"] }") + " = " + g.vars[r.Intn(len(g.vars))] + ";"
	case 4, 5:
		g.stat("stmt:function")
		f := g.fresh("f")
		s := pick(r, "", "async ") + "function " + pick(r, "", "*") + f + m(g.typeParams(2)) + "(a" + g.ann(2) + ", b" + m("?") + g.ann(1) + ", { c, d }" + m(": { c: "+g.Type(1)+"; d?: "+g.Type(1)+" }") + " = {}" + ")" + m(": "+g.Type(2)) + " { return " + g.Expr(d) + "; }"
		g.fns = append(g.fns, f)
		return s
	case 6:
		g.stat("stmt:function-overloads")
		f := g.fresh("f")
		s := m("function "+f+"(a: string): string;\n"+pick(r, "", "export ")+"function "+f+g.typeParams(1)+"(a: number): number;\n") + "function " + f + "(a" + m(": any") + ")" + m(": any") + " { return a; }"
		g.fns = append(g.fns, f)
		return s
	case 7:
		g.stat("stmt:assert-function")
		f := g.fresh("f")
		g.fns = append(g.fns, f)
		return "function " + f + "(x" + m(": unknown") + ")" + m(pick(r, ": asserts x is string", ": x is string", ": asserts x", ": asserts this is Foo", ": this is Bar")) + " { return; }"
	case 8, 9, 10:
		g.stat("stmt:class")
		c := g.fresh("C")
		var sb strings.Builder
		sb.WriteString(m(pick(r, "", "", "abstract ")) + "class " + c + m(g.typeParamsOpt(2)))
		if r.Chance(1, 2) {
			sb.WriteString(" extends " + g.clss[r.Intn(len(g.clss))] + m("<"+g.Type(1)+">"))
		}
		sb.WriteString(m(pick(r, "", " implements Foo", " implements Foo<"+g.Type(1)+">, ns.Bar")) + " {\n")
		hasCtor := false
		for i, k := 0, 1+r.Intn(5); i < k; i++ {
			mem := g.classMember(2)
			if strings.Contains(mem, "constructor(") {
				if hasCtor {
					continue
				}
				hasCtor = true
			}
			sb.WriteString("  " + mem + "\n")
		}
		sb.WriteString("}")
		g.clss = append(g.clss, c)
		return sb.String()
	case 11:
		g.stat("stmt:interface")
		return m(pick(r, "", "export ", "declare ", "export declare ") + "interface " + g.fresh("I") + g.typeParamsVar(1) + pick(r, "", " extends Foo", " extends Foo<"+g.Type(1)+">, Bar") + " " + g.objectType(2))
	case 12:
		g.stat("stmt:type-alias")
		return m(pick(r, "", "export ", "declare ", "export declare ") + "type " + pick(r, g.fresh("A"), "type", "of", "async", "declare", "abstract", "readonly") + g.typeParamsVar(1) + " = " + g.Type(3) + pick(r, ";", ""))
	case 13:
		g.stat("stmt:declare")
		return m("declare " + pick(r, "const dc: "+g.Type(2)+";", "let dl: "+g.Type(1)+", dm: number;", "var dv;", "function df"+g.typeParamsOpt(1)+"("+g.paramTypes(1)+"): "+g.Type(1)+";", "class DC"+g.typeParamsOpt(1)+" extends Foo { m(): void; x: number; static s: string; constructor(a: number); }", "abstract class DA { abstract m(): void }", "enum DE { A, B = 2 }", "const enum DCE { A }", "namespace DN { const x: number; export function f(): void; }", "module DM { export let y: string }", "module \"ambient-mod\" { export const z: number; export default z; }", "global { interface Window { q: number } }", "async function daf(): Promise<void>;", "function* dgf(): Generator<number>;"))
	case 14:
		g.stat("stmt:import-export-type")
		return m(pick(r, "import type DefT from \"./types\";", "import type { A1, B1 as C1 } from \"./types\";", "import type * as NST from \"./types\";", "export type { A2 } from \"./types\";", "export type * from \"./types\";", "export type * as NS2 from \"./types\";", "import type from1 = require(\"./types\");", "import type { default as D4 } from \"./types\";"))
	case 15:
		g.stat("stmt:expression")
		return g.Expr(d) + ";"
	case 16:
		g.stat("stmt:catch-annotation")
		return "try { " + g.Expr(d-1) + "; } catch (e" + m(pick(r, ": unknown", ": any")) + ") { e; }"
	case 17:
		g.stat("stmt:for-loops")
		v := g.fresh("i")
		return "for (let " + v + g.ann(1) + " = 0; " + v + " < 2; " + v + "++) { " + g.Expr(d-1) + "; }\nfor (const k of " + g.cast() + "[" + g.vars[r.Intn(len(g.vars))] + "]) { k" + m(" as any") + "; }"
	case 18:
		g.stat("stmt:ts-keyword-as-identifier-asi")
		// valid JavaScript, identical in both renderings: TypeScript contextual keywords used as plain
		// identifiers right before a line break
		kw := pick(r, "type", "declare", "abstract", "namespace", "module", "satisfies", "as", "readonly", "keyof", "infer", "is", "asserts", "unique", "global", "override", "out", "accessor", "interface", "public", "private", "implements")
		if kw == "interface" || kw == "public" || kw == "private" || kw == "implements" {
			return "var y" + fmt.Sprint(g.n) + " = 1;" // reserved in strict mode (modules)
		}
		return "var " + kw + " = " + g.vars[r.Intn(len(g.vars))] + ";\n" + pick(r, kw+"\n"+g.vars[r.Intn(len(g.vars))]+";", g.vars[r.Intn(len(g.vars))]+"\n"+kw+"(1);", g.vars[r.Intn(len(g.vars))]+" = "+g.vars[r.Intn(len(g.vars))]+"\n"+kw+"\n(1);", kw+"\nclass "+g.fresh("K")+" {}", kw+"\nfunction "+g.fresh("kf")+"() {}", kw+"\n{ }", "["+kw+"] = [1];", kw+" = "+kw+" + 1;", "if ("+kw+") "+kw+"\nelse "+kw+";")
	case 19:
		g.stat("stmt:arrow-var")
		v := g.fresh("v")
		g.fns = append(g.fns, v)
		return "const " + v + m(": "+g.Type(1)) + " = " + pick(r, "", "async ") + "(a" + g.ann(2) + ", ...r" + m(": "+g.atomType(1)+"[]") + ")" + m(": "+g.retType(2)) + " => " + pick(r, "a", "{ return a; }", "({ a })") + ";"
	case 20:
		g.stat("stmt:export-typed")
		v := g.fresh("e")
		return "export const " + v + g.ann(2) + " = " + g.Expr(d-1) + ";\nexport function " + g.fresh("ef") + m("<T>") + "(a" + m("?: T") + ")" + m(": asserts a") + " {}\nexport " + m("abstract ") + "class " + g.fresh("EC") + m("<T>") + " {}"
	case 21:
		g.stat("stmt:export-default-typed")
		return "" // at most one default export: handled by Program
	case 22:
		g.stat("stmt:label-and-block")
		return "lbl" + fmt.Sprint(g.n) + ": { let q" + g.ann(1) + " = " + g.Expr(d-1) + "; }"
	case 23:
		g.stat("stmt:satisfies-after-newline-call")
		return g.vars[r.Intn(len(g.vars))] + " = " + g.Expr(d-1) + m(" satisfies "+g.atomType(1)) + ";"
	case 24:
		g.stat("stmt:using-typed")
		return "{ const u" + fmt.Sprint(g.n) + g.ann(1) + " = null; }"
	case 25:
		g.stat("stmt:switch")
		return "switch (" + g.Expr(d-1) + ") { case " + g.cast() + "1: break; default: " + g.Expr(d-1) + "; }"
	case 26:
		g.stat("stmt:generic-class-heritage-call")
		c := g.fresh("C")
		g.clss = append(g.clss, c)
		return "class " + c + m("<T>") + " extends gf" + m("<T>") + "(GC) {}"
	default:
		g.stat("stmt:if-typed-cast")
		return "if (" + g.Expr(d-1) + m(" as boolean") + ") { " + g.Expr(d-1) + "; } else " + g.Expr(d-1) + ";"
	}
}

// Program returns the marked program text.
func (g *TSGen) Program(nStmts int) string {
	var sb strings.Builder
	if !g.NoInlineTypeImports && g.r.Chance(1, 4) {
		// only as the very first statement: anywhere else it keeps --minify-syntax from merging the
		// neighbouring statements (known finding c06-inline-type-import-blocks-statement-merging)
		g.stat("stmt:import-inline-type-specifiers")
		sb.WriteString(m("import { type A3, type B3 as C3 } from \"./types\";") + "\n")
	}
	sb.WriteString("var g0" + m(": any") + " = {}, gf" + m(": any") + " = (x) => x;\nclass GC { constructor(...a) {} }\n")
	for i := 0; i < nStmts; i++ {
		s := g.Stmt(2)
		if s == "" {
			continue
		}
		sb.WriteString(s + "\n")
	}
	sb.WriteString("export const zz = 1;\n")
	return sb.String()
}
