package gen

import (
	"fmt"
	"strings"
)

// Syntax-only program generator for C13 (programs are parsed, never executed): derivations of the
// ES2023 grammar biased to rare productions — ASI boundaries, regex-vs-division, contextual keywords
// as identifiers, cover grammars, labelled statements, HTML-like comments, numeric separators, escapes
// in identifiers, class element combinations. Every generated text is first shown to V8; only inputs
// V8 accepts are used as "valid programs", so a mistake in this generator cannot raise an alarm.

type SynGen struct {
	R      *Rand
	Module bool // module goal (strict, import/export allowed, await reserved)
	Strict bool
	Stats  map[string]int
	depth  int
}

func NewSynGen(r *Rand, module bool, strict bool) *SynGen {
	return &SynGen{R: r, Module: module, Strict: strict || module, Stats: map[string]int{}}
}

func (g *SynGen) stat(k string) { g.Stats[k]++ }

var ctxKeywords = []string{"async", "of", "get", "set", "static", "from", "as", "type", "let", "yield", "await", "target", "meta", "accessor", "using", "arguments", "eval", "undefined", "NaN", "constructor", "prototype", "name", "length", "new", "x", "y", "z", "$", "_", "a\\u0062c", "\\u{61}", "ℝ", "ﬁ", "ª", "async_", "let_", "of2", "\U00010000", "x\U00010000"}

func (g *SynGen) ident() string {
	r := g.R
	for {
		id := ctxKeywords[r.Intn(len(ctxKeywords))]
		if id == "new" {
			continue
		}
		if g.Strict && (id == "let" || id == "yield" || id == "static" || id == "arguments" || id == "eval") {
			continue
		}
		if id == "await" {
			continue // esbuild has no script goal: `await` as an identifier is a recorded known finding
		}
		return id
	}
}

func (g *SynGen) propName() string {
	r := g.R
	switch r.Intn(8) {
	case 0:
		return []string{"if", "class", "function", "new", "delete", "in", "typeof", "default", "null", "true", "enum", "await", "yield", "let", "static", "async", "get", "set", "constructor"}[r.Intn(19)]
	case 1:
		return []string{"\"str\"", "'q'", "0", "1.5", "0x10", "1e3", ".5", "1_0", "0b11", "0o7", "1n",
			// computed numeric keys that lose their brackets when minifying, unless they print with a sign
			"[-0]", "[-1]", "[+0]", "[-0.0]", "[1e400]", "[-1e400]", "[-1e-7]", "[0]", "[-(0)]", "[1 - 1]", "[0 * -1]"}[r.Intn(22)]
	case 2:
		return "[" + g.Expr(1) + "]"
	default:
		return g.ident()
	}
}

var synLiterals = []string{"0", "1", "1.5", ".5", "5.", "0x1F", "0b10", "0o17", "1e3", "1E-3", "1_000", "0.000_1", "1n", "0xFn", "\"s\"", "'s'", "\"\\u{1F600}\"", "'\\x41\\0'", "`t`", "`a${b}c`", "`${`${x}`}`", "/re/", "/[/]/g", "/a\\/b/i", "/=/", "/(?<n>x)\\k<n>/u", "null", "true", "false", "this", "[]", "{}", "[,]", "[1,,2]", "function(){}", "class{}", "()=>{}", "async()=>{}", "new.target"}

func (g *SynGen) literal() string {
	l := synLiterals[g.R.Intn(len(synLiterals))]
	if l == "{}" {
		return "({})"
	}
	if l == "new.target" {
		return "0"
	}
	return l
}

// Expr: an AssignmentExpression (no top-level comma)
func (g *SynGen) Expr(d int) string {
	r := g.R
	if d <= 0 {
		if r.Bool() {
			return g.ident()
		}
		return g.literal()
	}
	sub := func() string { return g.Expr(d - 1) }
	switch r.Intn(40) {
	case 0:
		g.stat("div-regex")
		return g.ident() + " / " + sub() + " / " + g.ident()
	case 1:
		g.stat("regex-after-paren")
		return "(" + sub() + ") / 2 / /re/.test(" + sub() + ")"
	case 2:
		g.stat("arrow")
		return []string{"x => x", "(x) => ({})", "(x, y) => { return x }", "async x => x", "async (x) => await x", "(...a) => a", "({a, b}) => a", "([a, b] = [1, 2], {c} = {}) => a", "(a = 1, b = a) => b", "async => async", "async () => {}", "(async) => async", "(x) => (y) => x"}[r.Intn(13)]
	case 3:
		g.stat("async-call-vs-arrow")
		return []string{"async(x)", "async (x, y)", "async\n(x)", "async.x", "async[0]", "async`t`"}[r.Intn(6)]
	case 4:
		g.stat("cond")
		return sub() + " ? " + sub() + " : " + sub()
	case 5:
		g.stat("in-instanceof")
		return sub() + []string{" in ", " instanceof "}[r.Intn(2)] + sub()
	case 6:
		g.stat("unary")
		return []string{"-", "+", "!", "~", "typeof ", "void ", "delete ", "- -", "+ +", "- +", "!!"}[r.Intn(11)] + "(" + sub() + ")"
	case 7:
		g.stat("update")
		id := g.ident()
		return []string{"++" + id, "--" + id, id + "++", id + "--", "+ ++" + id, "- --" + id, id + "++ + ++" + id}[r.Intn(7)]
	case 8:
		g.stat("pow")
		return []string{"(-" + g.ident() + ") ** 2", "2 ** -" + g.ident(), "2 ** 3 ** 2", "(2 ** 3) ** 2", "(await_) ** 2", "(+1) ** 2", "x ** (-y) ** z"}[r.Intn(7)]
	case 9:
		g.stat("nullish-mix")
		return []string{"(a ?? b) || c", "a ?? (b || c)", "(a && b) ?? c", "a ?? b ?? c", "a?.b ?? c", "a ?? b?.c"}[r.Intn(6)]
	case 10:
		g.stat("optchain")
		return []string{"a?.b", "a?.[b]", "a?.(b)", "a?.b.c(d)?.e", "(a?.b).c", "a?.b`t`", "a?.[b]?.(c)", "a ?.5:1", "new (a?.b)()", "delete a?.b", "a?.b.#c"}[r.Intn(11)]
	case 11:
		g.stat("new")
		return []string{"new a", "new a()", "new a.b()", "new (a())()", "new (a.b())", "new a()()", "new new a()()", "new (a().b)", "new a`t`", "new (a?.b)", "new.target", "new a.b.c", "new (import_(a))"}[r.Intn(13)]
	case 12:
		g.stat("template")
		return []string{"`a`", "`a${" + sub() + "}b`", "tag`a${b}\\unicode`", "`\\``", "`${a}${b}`", "a`b``c`", "`\n`", "`${`${`x`}`}`", "`$`", "`$${a}`", "`\\${a}`"}[r.Intn(11)]
	case 13:
		g.stat("object")
		n := r.Intn(4)
		parts := []string{}
		for i := 0; i < n; i++ {
			p := g.propName()
			switch r.Intn(9) {
			case 0:
				parts = append(parts, "get "+p+"() { return 1 }")
			case 1:
				parts = append(parts, "set "+p+"(v) {}")
			case 2:
				parts = append(parts, "async "+p+"() {}")
			case 3:
				parts = append(parts, "*"+p+"() {}")
			case 4:
				parts = append(parts, "async *"+p+"() {}")
			case 5:
				parts = append(parts, "..."+g.ident())
			case 6:
				id := g.ident()
				if strings.Contains(id, "\\") {
					id = "x"
				}
				parts = append(parts, id)
			case 7:
				parts = append(parts, p+"() {}")
			default:
				parts = append(parts, p+": "+sub())
			}
		}
		return "({" + strings.Join(parts, ", ") + "})"
	case 14:
		g.stat("class-expr")
		return "(" + g.Class(d-1, "") + ")"
	case 15:
		g.stat("function-expr")
		return []string{"function () {}", "function f() {}", "function* g() { yield; yield 1; yield* x }", "async function () { await 1 }", "async function* () { yield await 1; for await (x of y); }", "function (a, b = a, ...c) {}", "function ({a}, [b]) {}"}[r.Intn(7)]
	case 16:
		g.stat("assign-pattern")
		return []string{"[a, b] = c", "({a, b} = c)", "[a = 1, [b], {c}] = d", "({a: [b], ...c} = d)", "[a.b, c[d]] = e", "({a = 1} = b)", "[...a] = b", "[,a,,b] = c", "({ [k]: v } = o)", "[(a), (b.c)] = d", "({a: (b)} = c)"}[r.Intn(11)]
	case 17:
		g.stat("assign-op")
		return g.ident() + " " + []string{"=", "+=", "-=", "*=", "/=", "%=", "**=", "<<=", ">>=", ">>>=", "&=", "|=", "^=", "&&=", "||=", "??="}[r.Intn(16)] + " " + sub()
	case 18:
		g.stat("paren-comma")
		return "(" + sub() + ", " + sub() + ")"
	case 19:
		g.stat("call-spread")
		return g.ident() + "(" + sub() + ", ..." + sub() + ")"
	case 20:
		g.stat("member-keyword")
		return g.ident() + "." + []string{"if", "class", "new", "delete", "default", "function", "in", "typeof", "await", "yield", "let", "static", "enum", "null", "this", "super"}[r.Intn(16)]
	case 21:
		g.stat("number-member")
		return []string{"1..toString()", "1.0.toString()", "1 .toString()", "(1).toString()", "1e3.toFixed()", "0x1.toString()", "1_0 .x", "1n.toString()", ".5.toFixed()", "5..x", "1.5.x"}[r.Intn(11)]
	case 22:
		g.stat("html-comment-like")
		return []string{"a < !--b", "a-- > b", "a < ! --b", "a --> b", "x<!y", "a<!--b"}[r.Intn(6)]
	case 23:
		g.stat("binary-mix")
		ops := []string{"+", "-", "*", "/", "%", "<", ">", "<=", ">=", "==", "!=", "===", "!==", "&", "|", "^", "<<", ">>", ">>>", "&&", "||"}
		return sub() + " " + ops[r.Intn(len(ops))] + " " + sub() + " " + ops[r.Intn(len(ops))] + " " + sub()
	case 24:
		g.stat("plus-plus-spacing")
		return []string{"a + +b", "a - -b", "a + ++b", "a++ + b", "a - --b", "a-- - b", "+a + +b", "a+ +b", "a- -b", "a + + + b", "a - - - b"}[r.Intn(11)]
	case 25:
		return sub()
	case 26:
		g.stat("import-expr")
		return []string{"import(\"x\")", "import(\"x\").then(a => a)", "import(a + b)"}[r.Intn(3)]
	case 27:
		g.stat("seq-arrow-body")
		return "() => (" + sub() + ", " + sub() + ")"
	case 28:
		g.stat("yield-await-ident")
		if g.Strict {
			return g.ident()
		}
		return []string{"yield", "yield + 1", "yield\n/1/g", "let", "let[0]", "static", "arguments"}[r.Intn(7)]
	default:
		if r.Bool() {
			return g.ident()
		}
		return g.literal()
	}
}

func sloppyOnly(s string, strict bool) string {
	if strict {
		return "x;\n"
	}
	return s
}

// Class generates a class (expression or declaration form)
func (g *SynGen) Class(d int, name string) string {
	r := g.R
	var sb strings.Builder
	sb.WriteString("class " + name)
	if r.Chance(1, 3) {
		sb.WriteString(" extends " + []string{"A", "(a, b)", "a.b", "class {}", "null", "f()", "(a ? b : c)"}[r.Intn(7)])
	}
	sb.WriteString(" {\n")
	n := r.Intn(5)
	for i := 0; i < n; i++ {
		st := ""
		if r.Chance(1, 3) {
			st = "static "
		}
		p := g.propName()
		if p == "constructor" || p == "\"str\"" && false {
			p = "ctor"
		}
		if st != "" && (p == "prototype") {
			p = "proto"
		}
		switch r.Intn(14) {
		case 0:
			sb.WriteString(st + p + ";\n")
		case 1:
			sb.WriteString(st + p + " = " + g.Expr(d) + ";\n")
		case 2:
			sb.WriteString(st + "#priv" + fmt.Sprint(i) + " = 1;\n")
		case 3:
			sb.WriteString(st + "get " + p + "() { return 1 }\n")
		case 4:
			sb.WriteString(st + "set " + p + "(v) {}\n")
		case 5:
			sb.WriteString(st + "async " + p + "() { await 1 }\n")
		case 6:
			sb.WriteString(st + "*" + p + "() { yield 1 }\n")
		case 7:
			sb.WriteString(st + "async *" + p + "() {}\n")
		case 8:
			sb.WriteString("static {}\n")
		case 9:
			sb.WriteString("static { this.x = 1; }\n")
		case 10:
			// fields named like modifiers, ASI between members
			sb.WriteString([]string{"get\n", "set\n", "static\n", "async\n", "get = 1\n", "static = 2;\n", "async;\n", "static get\n", "static async\n x() {}\n", "get;\n", "set;\n", "accessor\n", "static static;\n", "static async *gen() {}\n", "'use strict';\n", "static get get() { return 1 }\n", "static set set(v) {}\n"}[r.Intn(17)])
		case 11:
			sb.WriteString(";;\n")
		case 12:
			sb.WriteString(st + "#m" + fmt.Sprint(i) + "() { return #m" + fmt.Sprint(i) + " in this }\n")
		default:
			sb.WriteString(st + p + "(a, b = 1, ...c) { super.x; }\n")
		}
	}
	sb.WriteString("}")
	return sb.String()
}

// Stmt generates one statement followed by a separator that is either ";\n", "\n" (ASI) or " "
func (g *SynGen) Stmt(d int) string {
	r := g.R
	e := func() string { return g.Expr(d) }
	if d <= 0 {
		return g.ident() + ";\n"
	}
	switch r.Intn(34) {
	case 0:
		g.stat("asi")
		return []string{
			"a\nb;\n", "a = b\n++c;\n", "a\n++\nb;\n", "var x = 1\nvar y = 2;\n", "a = b\n(c);\n", "a = b\n[c];\n", "a\n/b/g;\n", "return_\n1;\n", "x\n`t`;\n", "let\nx = 1;\n",
			"if (a) b\nelse c;\n", "do x; while (y) z;\n", "do x\nwhile (y);\n", "do ; while (0) 1;\n", "a = function(){}\n(b);\n", "for (;;) break\n;", "x = y\n/re/g.exec(z);\n", "var a = 1, b\n= 2;\n",
		}[r.Intn(18)]
	case 1:
		g.stat("label")
		forms := []string{"a: b: for (;;) { break a; }\n", "a: b: for (;;) { continue a; }\n", "o: m: i: while (x) { if (y) continue o; else continue m; }\n", "a: { break a; }\n", "a: for (;;) { continue a; }\n", "x: y: z: ;\n", "a: if (b) break a; else c;\n", "L: do { continue L; } while (0);\n", "a: for (x of y) for (z in w) continue a;\n", "l: while (1) { m: for (;;) { break l; } }\n"}
		if !g.Strict {
			forms = append(forms, "a: for (var x = 0 in y) { continue a; }\n", "a: b: for (var x = f() in y) continue b;\n", "if (z) c: for (var x = 1 in y) break c;\n", "a: function f() {}\n", "yield: 1;\n", "let: 1;\n", "await_: 1;\n", "static: x;\n", "if (a) function f() {}\n", "a: b: function g() {}\n")
		}
		return forms[r.Intn(len(forms))]
	case 2:
		g.stat("for-variants")
		return []string{
			"for (var x in y) ;\n", "for (let x of y) ;\n", "for (const [a, b] of c) ;\n", "for (x.y in z) ;\n", "for ([a, b] of c) ;\n", "for ({a, b} of c) ;\n", sloppyOnly("for (let in obj) ;\n", g.Strict),
			"for (var x = (1 in y); x; ) ;\n", "for (async of => 1; ; ) ;\n", "for ((async) of x) ;\n", "for (let [x] = y; ; ) break;\n", "for (;;) { break }\n", "for (var i = 0, j = 1; i < j; i++, j--) ;\n",
			"for (x of (a, b)) ;\n", "for (var x of y, z) ;\n", "for (a in b, c) ;\n", "for (let\nx of y) ;\n", "for (of of of) ;\n", "for (var of of of) ;\n", "for (of in of) ;\n", sloppyOnly("for (let of in of) ;\n", g.Strict),
			"for ((a, b) in c) ;\n", "for (x = (a in b); ; ) ;\n", "for (var x = a ? b in c : d; ; ) ;\n", sloppyOnly("for (let.x of y) ;\n", g.Strict),
			sloppyOnly("for (var x = 0 in y) ;\n", g.Strict), "for (var " + g.ident() + " of []) ;\n", g.ident() + " in x;\n", g.ident() + " instanceof x;\n",
		}[r.Intn(29)]
	case 3:
		g.stat("decl")
		id := g.ident()
		return []string{"var ", "let ", "const "}[r.Intn(3)] + "v_" + strings.NewReplacer("\\", "", "{", "", "}", "").Replace(id) + " = " + e() + ";\n"
	case 4:
		g.stat("if-dangling-else")
		return "if (" + e() + ") if (" + e() + ") " + g.ident() + "; else " + g.ident() + ";\n"
	case 5:
		g.stat("switch")
		return "switch (" + e() + ") { case " + e() + ": default: " + g.ident() + "; case 2: { break } }\n"
	case 6:
		g.stat("try")
		return []string{"try {} catch {}\n", "try {} catch (e) {}\n", "try {} finally {}\n", "try {} catch ({a, b}) {} finally {}\n", "try {} catch ([a]) {}\n", sloppyOnly("try { throw 1 } catch (e) { var e }\n", g.Strict)}[r.Intn(6)]
	case 7:
		g.stat("class-decl")
		return g.Class(d-1, "C"+fmt.Sprint(r.Intn(1000))) + "\n"
	case 8:
		g.stat("function-decl")
		body := g.Stmt(d - 1)
		return []string{"function f" + fmt.Sprint(r.Intn(1000)) + "(a, {b}, [c] = [], ...d) {\n" + body + "}\n", "async function af" + fmt.Sprint(r.Intn(1000)) + "() { await x; for await (const a of b) ; }\n", "function* gf" + fmt.Sprint(r.Intn(1000)) + "() { const x = yield; yield\n1; yield* y; }\n", "async function* ag" + fmt.Sprint(r.Intn(1000)) + "() { yield await 1 }\n"}[r.Intn(4)]
	case 9:
		g.stat("expr-stmt-starts")
		return []string{"(function(){})();\n", "(class {});\n", "({}).x;\n", "({a} = b);\n", "[a] = b;\n", "(async function(){})();\n", "!function(){}();\n", sloppyOnly("(let)[0];\n", g.Strict), "(() => {})();\n", "`t`;\n", "+function(){}();\n", "(0, a.b)();\n", "(a, b);\n", sloppyOnly("async\nfunction f_(){}\n", g.Strict), "\"use strict\";\n", "'use strict'\n+ 1;\n"}[r.Intn(16)]
	case 10:
		if g.Module {
			g.stat("module-items")
			n := fmt.Sprint(r.Intn(100000))
			return []string{
				"import \"m\";\n", "import d" + n + " from \"m\";\n", "import * as ns" + n + " from \"m\";\n", "import { a as b" + n + ", default as c" + n + " } from \"m\";\n", "import d" + n + ", { x as y" + n + " } from \"m\";\n", "import d" + n + ", * as n" + n + " from \"m\";\n",
				"export { };\n", "export * from \"m\";\n", "export * as ns" + n + " from \"m\";\n", "export { a as b" + n + " } from \"m\";\n", "export { default } from \"m\";\n", "export var ev" + n + " = 1;\n", "export function ef" + n + "() {}\n", "export class Ec" + n + " {}\n",
				"export const [ea" + n + ", eb" + n + "] = [];\n", "import { \"string name\" as sn" + n + " } from \"m\";\n", "export { sn_ as \"other name" + n + "\" };\nvar sn_;\n", "import {} from \"m\";\n", "import x" + n + " from \"m\" with { type: \"json\" };\n", "export async function eaf" + n + "() {}\n",
				"import.meta.url;\n", "await 1;\n", "for await (const x of y) ;\n", "export { };\nimport \"z\";\n", "import { default as dd" + n + " } from \"m\";\n", "import { as as as" + n + " } from \"m\";\n", "import { from as from" + n + " } from \"from\";\n",
			}[r.Intn(27)]
		}
		return g.ident() + ";\n"
	case 11:
		g.stat("block-scoping")
		return "{ let a = 1; { let a = 2; } function f() {} class C {} }\n"
	case 12:
		g.stat("while-do")
		return []string{"while (" + e() + ") " + g.ident() + ";\n", "do " + g.ident() + "; while (" + e() + ");\n", "do do ; while (a); while (b);\n", "while (a) while (b) break;\n"}[r.Intn(4)]
	case 13:
		g.stat("return-throw")
		return "function rt" + fmt.Sprint(r.Intn(1000)) + "() { if (a) return\n" + e() + "\nthrow " + e() + "; }\n"
	case 14:
		if !g.Strict {
			g.stat("sloppy-only")
			return []string{"with (a) b;\n", "var yield_ = 010 + 08 + 0.5;\n", "\"\\07\\8\";\n", "delete x_;\n", "var let_;\nlet_ = 1;\n", "function f_dup(a, a) {}\n", "if (0) function g_() {} else function h_() {}\n", "var arguments_, eval_;\n", "a = 00;\n", "label: function lf() {}\n", "var public_, interface_, package_;\nvar implements, interface, package, private, protected, public;\n"}[r.Intn(11)]
		}
		return g.ident() + ";\n"
	case 18:
		g.stat("newline-before-close-paren")
		forms := []string{"if (a\n) b;\n", "if (a\n) b; else\nc;\n", "while (a\n) b;\n", "for (;;\n) break;\n", "for (x of y\n) z;\n", "for (x in y\n) z;\n", "do x; while (y\n);\n", "for (var i = 0; i < 1; i++\n) i;\n", "switch (a\n) { }\n", "if (a)\nb;\nelse c;\n", "while (a)\nb;\n", "for (;;)\nbreak;\n"}
		if !g.Strict {
			forms = append(forms, "with (a\n) b;\n", "with (a)\nb;\n", "with (a\n) b += c;\n", "with (a\n)\n{ b }\n")
		}
		return forms[r.Intn(len(forms))]
	case 15:
		g.stat("html-comments")
		if g.Module {
			return "a\n"
		}
		return []string{"<!-- comment\na;\n", "a;\n--> comment\n", "x = 1; /* c */ --> still comment\n", "/*\n*/--> c\nb;\n"}[r.Intn(4)]
	case 16:
		g.stat("unicode-ws")
		return "a\u00a0=\u2003" + e() + "\ufeff;\u2028b\u2029c;\n"
	case 17:
		g.stat("getter-setter-names")
		return "var o" + fmt.Sprint(r.Intn(1000)) + " = { get: 1, set: 2, get get() { return 1 }, set set(v) {}, async: 3, async async() {}, get async() { return 1 }, static: 1, *get() {}, async *set() {}, get [a]() { return 1 }, async get() {}, await: 1, yield: 2 };\n"
	default:
		g.stat("expr-stmt")
		x := e()
		for _, bad := range []string{"{", "function", "class", "let", "async function", "`"} {
			if strings.HasPrefix(x, bad) {
				x = "(" + x + ")"
				break
			}
		}
		return x + []string{";\n", ";\n", "\n;", ";"}[r.Intn(4)]
	}
}

func (g *SynGen) Program(n int, d int) string {
	var sb strings.Builder
	if g.Strict && !g.Module {
		sb.WriteString("\"use strict\";\n")
	}
	for i := 0; i < n; i++ {
		sb.WriteString(g.Stmt(d))
	}
	// layout variation: a line break before a closing parenthesis or after an opening one never
	// triggers ASI (if it lands inside a string or regular expression V8 rejects the input and the
	// case is discarded)
	out := sb.String()
	// (calls of an identifier named `async` keep their own line breaks: recorded known finding
	// c13-async-call-multiline-not-fixed-point)
	if g.R.Chance(1, 3) && !strings.Contains(out, "async(") && !strings.Contains(out, "async (") && !strings.Contains(out, "async\n(") {
		var lb strings.Builder
		for i := 0; i < len(out); i++ {
			if out[i] == ')' && g.R.Chance(1, 6) {
				lb.WriteString("\n")
			}
			lb.WriteByte(out[i])
			if out[i] == '(' && g.R.Chance(1, 10) {
				lb.WriteString("\n")
			}
		}
		out = lb.String()
	}
	return out
}
