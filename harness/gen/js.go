package gen

import (
	"fmt"
	"strings"
)

// JS program generator. Programs are *scripts* (no import/export) made of statements whose operands
// are probes `p(tag, value)` (host-visible, returns its last argument), boundary-grid literals and
// previously declared variables. By construction they
//   - terminate (every loop is bounded by a dedicated counter the body cannot write),
//   - never read a let/const/class binding before its initialisation (documented TDZ exclusion),
//   - never look at function source text, function .name or stack text,
//   - never read an undeclared global other than p / well-known built-ins,
//   - never use direct eval / with,
// so any trace difference between input and output is a violation of the property, not of an
// excluded assumption.

type Features struct {
	Classes, ClassFields, PrivateNames, StaticBlocks, Accessors bool
	Async, Generators, AsyncGenerators                          bool
	Destructuring, Spread, ObjectRest                           bool
	OptChain, Nullish, LogicalAssign, Exponent                  bool
	Templates, TaggedTemplates                                  bool
	Arrow, DefaultParams, RestParams                            bool
	Labels, Switch, TryCatch, Loops, ForInOf                    bool
	Regex, BigInt                                               bool
	Getters                                                     bool // object literal accessors / valueOf / toString hooks
	Strict                                                      bool // emit "use strict"
	Sloppy                                                      bool // allow sloppy-only constructs (legacy octal, delete identifier…): only when Strict == false
	JSX                                                         bool
	TSTypes                                                     bool // sprinkle erasable TypeScript type syntax
	TSRuntime                                                   bool // enums / namespaces / parameter properties
	UnusedExprs                                                 bool // emit expression statements whose value is unused (exercises SimplifyUnusedExpr)
	TopLevelOnly                                                bool
}

func AllFeatures() Features {
	return Features{Classes: true, ClassFields: true, PrivateNames: true, StaticBlocks: true, Accessors: true,
		Async: true, Generators: true, AsyncGenerators: true, Destructuring: true, Spread: true, ObjectRest: true,
		OptChain: true, Nullish: true, LogicalAssign: true, Exponent: true, Templates: true, TaggedTemplates: true,
		Arrow: true, DefaultParams: true, RestParams: true, Labels: true, Switch: true, TryCatch: true, Loops: true, ForInOf: true,
		Regex: true, BigInt: true, Getters: true, Strict: true, UnusedExprs: true}
}

type jsVar struct {
	name    string
	mutable bool
	kind    int // 0 value, 1 function, 2 class, 3 async function, 4 generator function, 5 object with known shape, 6 array
	arity   int
}

type jsScope struct {
	vars []jsVar
	fn   bool // function boundary
}

type JSGen struct {
	R        *Rand
	F        Features
	scopes   []jsScope
	nextID   int
	probeTag int
	// context
	inFunc, inAsync, inGen int
	loopDepth              int
	labels                 []string
	loopLabels             []string
	budget                 int // remaining node budget
	Stats                  map[string]int
	usedNames              map[string]bool
	asyncStarted           bool
	deferred               []string // statements appended at the very end of the program
}

var namePool = []string{"a", "b", "c", "d", "e", "f", "g", "h", "i", "j", "k", "t", "n", "r", "s", "x", "y", "z", "$", "_", "x2", "x3", "a2", "b2", "foo", "bar", "of", "async", "get", "set", "type", "from", "as", "let2", "yield2", "await2", "default2", "undefined2", "NaN2", "e2", "t2", "A", "B", "C", "x10"}

func NewJSGen(r *Rand, f Features, budget int) *JSGen {
	g := &JSGen{R: r, F: f, budget: budget, Stats: map[string]int{}, usedNames: map[string]bool{}}
	g.scopes = []jsScope{{fn: true}}
	return g
}

func (g *JSGen) stat(k string) { g.Stats[k]++ }

// asyncOK: at most ONE asynchronous chain is started per program, at top level and outside loops.
// Lowered async/await and async generators legitimately take a different number of microtask turns
// (documented exclusion), so two concurrent chains could interleave differently.
func (g *JSGen) asyncOK() bool {
	if g.asyncStarted || g.inFunc > 0 || g.loopDepth > 0 || len(g.scopes) != 1 {
		return false
	}
	g.asyncStarted = true
	return true
}

func (g *JSGen) fresh() string {
	// mostly pool names (to collide with generated short names), unique within the whole program so
	// that redeclaration errors are impossible; shadowing is introduced deliberately elsewhere.
	for tries := 0; tries < 8; tries++ {
		n := namePool[g.R.Intn(len(namePool))]
		if !g.usedNames[n] {
			g.usedNames[n] = true
			return n
		}
	}
	g.nextID++
	n := fmt.Sprintf("v%d", g.nextID)
	g.usedNames[n] = true
	return n
}

// shadowName picks an existing outer name to shadow in a NEW function/block scope (never the current one)
func (g *JSGen) shadowName() string {
	cur := g.scopes[len(g.scopes)-1]
	for tries := 0; tries < 4; tries++ {
		s := g.scopes[g.R.Intn(len(g.scopes))]
		if len(s.vars) == 0 {
			continue
		}
		n := s.vars[g.R.Intn(len(s.vars))].name
		ok := true
		for _, v := range cur.vars {
			if v.name == n {
				ok = false
			}
		}
		if ok {
			return n
		}
	}
	return g.fresh()
}

func (g *JSGen) declare(v jsVar) {
	s := &g.scopes[len(g.scopes)-1]
	s.vars = append(s.vars, v)
}

func (g *JSGen) push(fn bool) { g.scopes = append(g.scopes, jsScope{fn: fn}) }
func (g *JSGen) pop()         { g.scopes = g.scopes[:len(g.scopes)-1] }

func (g *JSGen) visible(pred func(jsVar) bool) []jsVar {
	var out []jsVar
	seen := map[string]bool{}
	for i := len(g.scopes) - 1; i >= 0; i-- {
		for j := len(g.scopes[i].vars) - 1; j >= 0; j-- {
			v := g.scopes[i].vars[j]
			if seen[v.name] {
				continue
			}
			seen[v.name] = true
			if pred(v) {
				out = append(out, v)
			}
		}
	}
	return out
}

func (g *JSGen) pickVar(pred func(jsVar) bool) (jsVar, bool) {
	vs := g.visible(pred)
	if len(vs) == 0 {
		return jsVar{}, false
	}
	return vs[g.R.Intn(len(vs))], true
}

func (g *JSGen) tag() int { g.probeTag++; return g.probeTag }

var numLits = []string{"0", "-0", "1", "-1", "2", "3", "0.5", "-1.5", "1e21", "1e-7", "123456789", "2147483647", "2147483648", "-2147483648", "-2147483649",
	"4294967295", "4294967296", "9007199254740991", "9007199254740993", "1.7976931348623157e308", "5e-324", "0x7fffffff", "0xFFFFFFFF", "0b101", "0o17", "1_000",
	".5", "5.", "0.1", "0.30000000000000004", "1e3", "1E+3", "255", "256", "65535", "65536", "32", "31", "33", "1e100", "0.000001", "1e-10", "123.456e-7", "0x10000000000000", "0x2000000000000180", "0x20000000000001", "0x3fffffffffffff80", "0b10000000000000000000000000000000000000000000000000000011", "0o400000000000000000003", "0xFFFFFFFFFFFFF801", "0x1_0000_0000_0000_0801", "0.0", "NaN", "Infinity", "-Infinity", "1/0", "-1/0", "0/0"}

var strLits = []string{`""`, `"a"`, `"abc"`, `"b"`, `"\n"`, `" "`, `"\ud800"`, `"\udc00x"`, `"</script>"`, `"${x}"`, `"'"`, `'"'`, "\"`\"", `"\0"`, `"\x7f"`, `"é"`, `"😀"`, `"\\"`, `"0"`, `"1"`, `" 12 "`, `"1e3"`, `"-0"`, `"null"`, `"undefined"`, `"true"`, `"[object Object]"`, `"a\
b"`, `'\u{1F600}'`, `"\r\n"`, `"\t"`, `"10"`, `"9"`, `"0x10"`, `"Infinity"`, `"length"`, `"toString"`, `"ab"`, `"ba"`, `"￿"`, `"\u0000"`, `"<!--"`, `"-->"`}

var bigLits = []string{"0n", "1n", "-1n", "2n", "0xffn", "123456789012345678901234567890n", "-5n", "10n", "64n"}

func (g *JSGen) primLiteral() string {
	r := g.R
	switch r.Intn(3) {
	case 0:
		return numLits[r.Intn(len(numLits))]
	case 1:
		return strLits[r.Intn(len(strLits))]
	default:
		return []string{"true", "null", "undefined", "\"x\"", "\"y\""}[r.Intn(5)]
	}
}

func (g *JSGen) literal() string {
	r := g.R
	switch r.Intn(12) {
	case 0, 1, 2, 3:
		return numLits[r.Intn(len(numLits))]
	case 4, 5, 6:
		return strLits[r.Intn(len(strLits))]
	case 7:
		return []string{"true", "false", "null", "undefined", "void 0"}[r.Intn(5)]
	case 8:
		if g.F.BigInt && r.Chance(1, 3) {
			return bigLits[r.Intn(len(bigLits))]
		}
		return "[]"
	case 9:
		return "{}"
	case 10:
		if g.F.Regex && r.Chance(1, 2) {
			return []string{"/a+/g", "/[/]\\//", "/\\u{61}/u", "/x/y", "/(?<n>a)|b/", "/</", "/=/"}[r.Intn(7)]
		}
		return "[1, 2, 3]"
	default:
		return fmt.Sprintf("%d", r.Intn(10))
	}
}

var binOps = []string{"+", "-", "*", "/", "%", "<", "<=", ">", ">=", "==", "!=", "===", "!==", "&", "|", "^", "<<", ">>", ">>>", "&&", "||", ",", "in", "instanceof"}
var assignOps = []string{"=", "+=", "-=", "*=", "/=", "%=", "&=", "|=", "^=", "<<=", ">>=", ">>>="}
var unOps = []string{"-", "+", "!", "~", "typeof ", "void ", "- -", "+ +", "!!"}

// probe wraps an expression into a host-visible call that returns it
func (g *JSGen) probe(e string) string {
	return fmt.Sprintf("p(%d, %s)", g.tag(), e)
}

func (g *JSGen) leaf() string {
	r := g.R
	switch r.Intn(6) {
	case 0, 1:
		if v, ok := g.pickVar(func(v jsVar) bool { return v.kind == 0 || v.kind == 5 || v.kind == 6 }); ok {
			g.stat("leaf-var")
			return v.name
		}
		return g.literal()
	case 2:
		g.stat("leaf-probe")
		return g.probe(g.literal())
	default:
		g.stat("leaf-lit")
		return g.literal()
	}
}

// Expr generates an expression; always safe to embed as an operand when wrapped by the caller in parens
func (g *JSGen) Expr(depth int) string {
	g.budget--
	if depth <= 0 || g.budget <= 0 {
		return g.leaf()
	}
	r := g.R
	paren := func(s string) string { return "(" + s + ")" }
	sub := func() string { return g.Expr(depth - 1) }
	switch r.Intn(36) {
	case 0, 1, 2, 3:
		op := binOps[r.Intn(len(binOps))]
		g.stat("bin " + op)
		if op == "in" {
			return paren(sub()) + " in " + g.objectLit(depth-1)
		}
		if op == "instanceof" {
			if c, ok := g.pickVar(func(v jsVar) bool { return v.kind == 2 || v.kind == 1 }); ok {
				return paren(sub()) + " instanceof " + c.name
			}
			return paren(sub()) + " instanceof Object"
		}
		if op == "," {
			return paren(paren(sub()) + " , " + paren(sub()))
		}
		return paren(sub()) + " " + op + " " + paren(sub())
	case 4:
		// unparenthesised chain of same-precedence / mixed operators: the parser decides grouping
		ops := [][]string{{"+", "-"}, {"*", "/", "%"}, {"<<", ">>", ">>>"}, {"&", "|", "^"}, {"&&", "||"}, {"<", ">", "<=", ">="}, {"==", "!=", "===", "!=="}, {"+", "*"}, {"-", "/"}, {"|", "&&"}, {"==", "<"}, {"+", "<<"}}[r.Intn(12)]
		n := 2 + r.Intn(3)
		parts := []string{g.atom(depth - 1)}
		for i := 0; i < n; i++ {
			parts = append(parts, ops[r.Intn(len(ops))], g.atom(depth-1))
		}
		g.stat("chain")
		return strings.Join(parts, " ")
	case 5:
		op := unOps[r.Intn(len(unOps))]
		g.stat("un " + op)
		return op + paren(sub())
	case 6:
		g.stat("cond")
		return paren(sub()) + " ? " + paren(sub()) + " : " + paren(sub())
	case 7:
		if v, ok := g.pickVar(func(v jsVar) bool { return v.kind == 0 && v.mutable }); ok {
			op := assignOps[r.Intn(len(assignOps))]
			if g.F.LogicalAssign && r.Chance(1, 4) {
				op = []string{"&&=", "||=", "??="}[r.Intn(3)]
			}
			if g.F.Exponent && r.Chance(1, 10) {
				g.stat("assign **=")
				return paren(v.name + " **= " + g.probe(sub()))
			}
			g.stat("assign " + op)
			return paren(v.name + " " + op + " " + paren(sub()))
		}
		return sub()
	case 8:
		if v, ok := g.pickVar(func(v jsVar) bool { return v.kind == 0 && v.mutable }); ok {
			g.stat("update")
			return paren([]string{"++" + v.name, "--" + v.name, v.name + "++", v.name + "--"}[r.Intn(4)])
		}
		return sub()
	case 9:
		g.stat("probe")
		return g.probe(sub())
	case 10:
		g.stat("array")
		return g.arrayLit(depth - 1)
	case 11:
		g.stat("object")
		return g.objectLit(depth - 1)
	case 12:
		// member access on something
		g.stat("member")
		obj := paren(sub())
		switch r.Intn(5) {
		case 0:
			return obj + ".length"
		case 1:
			return obj + "[" + sub() + "]"
		case 2:
			return obj + ".x"
		case 3:
			if g.F.OptChain {
				return obj + "?.x"
			}
			return obj + ".y"
		default:
			return obj + "[0]"
		}
	case 13:
		if g.F.OptChain {
			g.stat("optchain")
			obj := paren(sub())
			if r.Chance(1, 4) {
				// receivers: which object a call / tagged template through a (parenthesised) chain gets as `this`
				t := fmt.Sprint(g.tag())
				recv := "({ n: \"O\", m() { return p(" + t + ", this && this.n); }, i: { n: \"I\", m() { return p(" + t + ", this && this.n); } } })"
				shapes := []string{"(o?.i.m)()", "(o?.m)()", "(o?.i[\"m\"])()", "(o?.[\"i\"].m)()", "o?.i.m?.()", "(o?.i?.m)()", "(o?.i.m)?.()"}
				if g.F.TaggedTemplates {
					shapes = append(shapes, "(o?.i.m)`t${1}`", "(o?.m)`t`", "(o?.[\"i\"].m)`t`", "(o?.i[\"m\"])`${2}t`", "(o?.i?.m)`t`", "(o?.i.i?.m)")
				}
				g.stat("optchain-this")
				return "((o) => " + shapes[r.Intn(len(shapes))] + ")(" + recv + ")"
			}
			switch r.Intn(6) {
			case 0:
				return obj + "?.x.y"
			case 1:
				return obj + "?.[" + sub() + "]"
			case 2:
				return obj + "?.(" + sub() + ")"
			case 3:
				return obj + "?.x?.(" + sub() + ")"
			case 4:
				return paren(obj+"?.x") + ".y"
			default:
				return obj + "?.x[" + sub() + "]?.y"
			}
		}
		return sub()
	case 14:
		if g.F.Nullish {
			g.stat("nullish")
			return paren(sub()) + " ?? " + paren(sub())
		}
		return sub()
	case 15:
		if g.F.Exponent {
			g.stat("pow")
			// Finite results of ** are implementation-approximated (V8 and Go's math.Pow differ by an ulp,
			// e.g. 1000 ** 33), which the property allows. Compile-time evaluation is therefore only
			// provoked on operands whose result is exact; otherwise the exponent goes through a probe
			// call so that the operation happens at run time on both sides.
			if r.Chance(1, 3) {
				bases := []string{"0", "-0", "1", "-1", "2", "NaN", "Infinity", "-Infinity", "(-2)", "10"}
				exps := []string{"0", "-0", "1", "2", "3", "-1", "NaN", "Infinity", "-Infinity"}
				b, x := bases[r.Intn(len(bases))], exps[r.Intn(len(exps))]
				if b == "10" && x == "-1" {
					x = "2"
				}
				return paren(b) + " ** " + paren(x)
			}
			return paren(sub()) + " ** " + g.probe(sub())
		}
		return sub()
	case 16:
		if g.F.Templates {
			g.stat("template")
			return g.template(depth - 1)
		}
		return sub()
	case 17:
		// call a known function
		if f, ok := g.pickVar(func(v jsVar) bool { return v.kind == 1 }); ok {
			g.stat("call-fn")
			args := []string{}
			for i := 0; i < f.arity+r.Intn(2); i++ {
				args = append(args, sub())
			}
			if g.F.Spread && r.Chance(1, 5) {
				args = append(args, "..."+g.arrayLit(depth-1))
			}
			return f.name + "(" + strings.Join(args, ", ") + ")"
		}
		return sub()
	case 18:
		if c, ok := g.pickVar(func(v jsVar) bool { return v.kind == 2 }); ok {
			g.stat("new-class")
			return "new " + c.name + "(" + sub() + ")"
		}
		return sub()
	case 19:
		if g.F.Arrow {
			g.stat("arrow-iife")
			pn := g.fresh()
			g.push(true)
			g.declare(jsVar{name: pn, mutable: true})
			saveA, saveG := g.inAsync, g.inGen
			g.inAsync, g.inGen = 0, 0
			g.inFunc++
			body := g.Expr(depth - 1)
			g.inFunc--
			g.inAsync, g.inGen = saveA, saveG
			g.pop()
			return "((" + pn + ") => " + paren(body) + ")(" + sub() + ")"
		}
		return sub()
	case 20:
		g.stat("func-iife")
		return g.funcExprCall(depth - 1)
	case 21:
		if g.inAsync > 0 {
			g.stat("await")
			return paren("await " + paren(sub()))
		}
		return sub()
	case 22:
		if g.inGen > 0 {
			g.stat("yield")
			return paren("yield " + paren(sub()))
		}
		return sub()
	case 23:
		if g.F.Getters {
			g.stat("coerce-obj")
			return g.coercible(depth - 1)
		}
		return sub()
	case 24:
		g.stat("comma")
		return paren(sub() + ", " + sub())
	case 32:
		if g.F.BigInt {
			// arithmetic whose operands are BigInts at run time but syntactically "number or bigint",
			// compared strictly / loosely with numbers (exercises known-primitive-type reasoning)
			g.stat("bigint-arith-compare")
			b := func() string {
				if v, ok := g.pickVar(func(v jsVar) bool { return v.kind == 7 }); ok && r.Bool() {
					return v.name
				}
				return "(" + bigLits[r.Intn(len(bigLits))] + ")"
			}
			arith := "(" + b() + " " + []string{"*", "-", "+", "&", "|", "^", "%"}[r.Intn(7)] + " " + b() + ")"
			if v, ok := g.pickVar(func(v jsVar) bool { return v.kind == 7 }); ok && r.Chance(1, 3) {
				arith = v.name
			}
			arith = []string{"-", "~", "", "- -"}[r.Intn(4)] + arith
			return "(" + arith + ") " + []string{"===", "!==", "==", "!=", "<", ">="}[r.Intn(6)] + " (" + []string{"0", "1", "-1", "-0", "5", "-5", "0n", "\"0\""}[r.Intn(8)] + ")"
		}
		return sub()
	case 25:
		g.stat("typeof-unbound")
		return "typeof " + []string{"notDefinedAnywhere", "p", "Object"}[r.Intn(3)]
	case 26:
		g.stat("builtin-call")
		switch r.Intn(8) {
		case 0:
			return "String(" + sub() + ")"
		case 1:
			return "Number(" + sub() + ")"
		case 2:
			return "Boolean(" + sub() + ")"
		case 3:
			return "Object.keys(" + g.objectLit(depth-1) + ")"
		case 4:
			return "Math.max(" + sub() + ", " + sub() + ")"
		case 5:
			return "[" + sub() + "].concat(" + sub() + ")"
		case 6:
			return "JSON.stringify(" + g.arrayLit(depth-1) + ")"
		default:
			return "Array.isArray(" + sub() + ")"
		}
	case 27:
		return sub()
	case 28:
		if g.F.TaggedTemplates {
			g.stat("tagged-template")
			return "((s, ...v) => p(" + fmt.Sprint(g.tag()) + ", s, s.raw, v))`a${" + sub() + "}\\n${" + sub() + "}\\u{41}`"
		}
		return sub()
	case 29:
		g.stat("delete")
		return "delete " + g.objectLit(depth-1) + ".x"
	case 30:
		if g.F.Classes {
			g.stat("class-expr")
			return g.classExprNew(depth - 1)
		}
		return sub()
	case 33:
		// a comparison with zero in a boolean context whose other side looks like an integer: the shapes
		// SimplifyBooleanExpr rewrites to the bare operand; the non-integer operand of a logical operator is a
		// TRUTHY value that is loosely equal to 0
		g.stat("int-compare-zero")
		ints := []string{paren(sub()) + " >>> " + paren(sub()), paren(sub()) + " | 0", "~" + paren(sub()), paren(sub()) + " << 1", paren(sub()) + " & " + paren(sub()), paren(sub()) + " ^ 0", paren(sub()) + " >> 0"}
		intE := func() string {
			if r.Bool() {
				return paren(ints[0]) // `>>>` is the one operator that cannot give a BigInt: the rewrite's trigger
			}
			return paren(ints[r.Intn(len(ints))])
		}
		zeroish := []string{"\"0\"", "\" \"", "[]", "[0]", "\"0x0\"", "[[]]", "\"\\n\"", "({valueOf() { return 0 }})", "\"0.0\"", "[\"0\"]", "-0", "0n", "false", "null", "NaN", paren(sub())}
		z := zeroish[r.Intn(len(zeroish))]
		if z == "0n" && !g.F.BigInt || strings.HasPrefix(z, "({valueOf") && !g.F.Getters {
			z = "\"0\""
		}
		var a string
		k := r.Intn(9)
		if k > 6 {
			k = 1
		}
		if k == 3 && !g.F.Nullish {
			k = 1
		}
		switch k {
		case 0:
			a = intE()
		case 1:
			a = paren(z + " || " + intE())
		case 2:
			a = paren(z + " && " + intE())
		case 3:
			a = paren(z + " ?? " + intE())
		case 4:
			a = paren(paren(sub()) + " ? " + intE() + " : " + pickS2(r, intE(), z))
		case 5:
			a = paren(z + ", " + intE())
		default:
			a = paren(intE() + " || " + z)
		}
		op := []string{"==", "!=", "===", "!=="}[r.Intn(4)]
		cmp := a + " " + op + " 0"
		if r.Chance(1, 4) {
			cmp = "0 " + op + " " + a
		}
		switch r.Intn(4) {
		case 0:
			return "!" + paren(cmp)
		case 1:
			return paren(paren(cmp) + " ? \"t\" : \"f\"")
		case 2:
			return paren(paren(cmp) + " && " + paren(sub()))
		default:
			return "Boolean(" + cmp + ")"
		}
	case 31:
		g.stat("str-method")
		return paren(strLits[r.Intn(len(strLits))]) + []string{".length", ".charCodeAt(0)", "[0]", ".toUpperCase()", ".concat(" + sub() + ")", ".codePointAt(0)", ".slice(1)"}[r.Intn(7)]
	default:
		return g.leaf()
	}
}

// atom: operand for unparenthesised chains (must be a primary/unary-safe expression)
func (g *JSGen) atom(depth int) string {
	r := g.R
	switch r.Intn(6) {
	case 0:
		return "(" + g.Expr(depth) + ")"
	case 1:
		return g.probe(g.Expr(depth - 1))
	case 2:
		if g.R.Chance(1, 3) {
			return []string{"-", "+", "!", "~", "typeof ", "void "}[r.Intn(6)] + g.leafNoSign()
		}
		return g.leafNoSign()
	default:
		return g.leafNoSign()
	}
}

func pickS2(r *Rand, a, b string) string {
	if r.Bool() {
		return a
	}
	return b
}

func (g *JSGen) leafNoSign() string {
	l := g.leaf()
	if strings.HasPrefix(l, "-") || strings.HasPrefix(l, "void") || strings.Contains(l, "/") && !strings.HasPrefix(l, "\"") && !strings.HasPrefix(l, "'") && !strings.HasPrefix(l, "p(") {
		return "(" + l + ")"
	}
	return l
}

func (g *JSGen) arrayLit(depth int) string {
	r := g.R
	n := r.Intn(4)
	parts := []string{}
	for i := 0; i < n; i++ {
		switch {
		case r.Chance(1, 12):
			parts = append(parts, "") // hole
		case g.F.Spread && r.Chance(1, 8):
			parts = append(parts, "...["+g.Expr(depth-1)+"]")
		default:
			parts = append(parts, g.Expr(depth-1))
		}
	}
	s := strings.Join(parts, ", ")
	if n > 0 && parts[n-1] == "" {
		s += ","
	}
	return "[" + s + "]"
}

var propNames = []string{"x", "y", "z", "length", "a", "b", "0", "1"}

func (g *JSGen) objectLit(depth int) string {
	r := g.R
	n := r.Intn(4)
	parts := []string{}
	// V8 (Node 20) bug: in `{...a, get y() {}, x: 1}` the accessor is defined AFTER the data properties
	// (key order x, y instead of y, x), so lowered object spread (which is spec-correct) differs from
	// native execution. Never mix spread and accessors in one literal.
	hasSpread, hasGetter := false, false
	for i := 0; i < n; i++ {
		k := propNames[r.Intn(len(propNames))]
		c := r.Intn(9)
		if c == 1 && hasGetter || c == 2 && hasSpread {
			c = 5
		}
		if c == 1 && g.F.Spread {
			hasSpread = true
		}
		if c == 2 && g.F.Getters || c == 1 && !g.F.Spread && g.F.Getters {
			if hasSpread {
				c = 5
			} else {
				hasGetter = true
			}
		}
		switch c {
		case 0:
			// computed keys are primitives only: an unused object literal whose computed key is an object
			// or a Symbol is a recorded known finding (SimplifyUnusedExpr rewrites it to key + "")
			key := g.probe(g.primLiteral())
			if r.Bool() {
				key = g.primLiteral()
			}
			parts = append(parts, "["+key+"]: "+g.Expr(depth-1))
			g.stat("obj-computed")
		case 1:
			if g.F.Spread {
				parts = append(parts, "..."+"("+g.Expr(depth-1)+")")
				g.stat("obj-spread")
				continue
			}
			fallthrough
		case 2:
			if g.F.Getters {
				parts = append(parts, "get "+k+"() { return "+g.probe(g.literal())+" }")
				g.stat("obj-getter")
				continue
			}
			fallthrough
		case 3:
			parts = append(parts, k+"("+") { return "+g.literal()+" }")
		case 4:
			parts = append(parts, `"`+k+`": `+g.Expr(depth-1))
		default:
			parts = append(parts, k+": "+g.Expr(depth-1))
		}
	}
	return "({" + strings.Join(parts, ", ") + "})"
}

// coercible: an object whose valueOf/toString/Symbol.toPrimitive are observable
func (g *JSGen) coercible(depth int) string {
	r := g.R
	t1, t2 := g.tag(), g.tag()
	v1, v2 := g.literal(), g.literal()
	switch r.Intn(3) {
	case 0:
		return fmt.Sprintf("({valueOf() { p(%d); return %s }, toString() { p(%d); return %s }})", t1, v1, t2, v2)
	case 1:
		return fmt.Sprintf("({toString() { p(%d); return %s }})", t2, v2)
	default:
		return fmt.Sprintf("({valueOf() { p(%d); return %s }})", t1, v1)
	}
}

func (g *JSGen) template(depth int) string {
	r := g.R
	var sb strings.Builder
	sb.WriteString("`")
	n := 1 + r.Intn(3)
	chunks := []string{"", "a", "\\n", "\\u2028", "$", "\\${", "\\`", "é", "x y", "\\\\", "</script", "\n"}
	for i := 0; i < n; i++ {
		sb.WriteString(chunks[r.Intn(len(chunks))])
		if r.Chance(3, 4) {
			sb.WriteString("${" + g.Expr(depth-1) + "}")
		}
	}
	sb.WriteString(chunks[r.Intn(len(chunks))])
	sb.WriteString("`")
	return sb.String()
}

func (g *JSGen) params(n int, depth int) (string, []string) {
	r := g.R
	saveA, saveG := g.inAsync, g.inGen
	g.inAsync, g.inGen = 0, 0
	defer func() { g.inAsync, g.inGen = saveA, saveG }()
	names := []string{}
	parts := []string{}
	for i := 0; i < n; i++ {
		pn := g.fresh()
		if r.Chance(1, 6) {
			pn = g.shadowName()
			dup := false
			for _, x := range names {
				if x == pn {
					dup = true
				}
			}
			if dup {
				pn = g.fresh()
			}
		}
		names = append(names, pn)
		switch {
		case g.F.DefaultParams && r.Chance(1, 4):
			parts = append(parts, pn+" = "+g.Expr(depth-1))
		case g.F.RestParams && i == n-1 && r.Chance(1, 5):
			parts = append(parts, "..."+pn)
		case g.F.Destructuring && r.Chance(1, 8):
			pn2 := g.fresh()
			names = append(names, pn2)
			parts = append(parts, "{x: "+pn+", y: "+pn2+" = "+g.literal()+"} = {}")
		default:
			parts = append(parts, pn)
		}
	}
	return strings.Join(parts, ", "), names
}

// funcBody generates statements for a function body in a fresh scope with params declared
func (g *JSGen) funcBody(paramNames []string, depth int, async, gen bool) string {
	g.push(true)
	for _, n := range paramNames {
		g.declare(jsVar{name: n, mutable: true})
	}
	saveA, saveG, saveL, saveLabels, saveLL := g.inAsync, g.inGen, g.loopDepth, g.labels, g.loopLabels
	g.inAsync, g.inGen, g.loopDepth, g.labels, g.loopLabels = 0, 0, 0, nil, nil
	if async {
		g.inAsync = 1
	}
	if gen {
		g.inGen = 1
	}
	g.inFunc++
	var sb strings.Builder
	n := 1 + g.R.Intn(3)
	for i := 0; i < n; i++ {
		sb.WriteString(g.Stmt(depth - 1))
	}
	if g.R.Chance(3, 4) {
		sb.WriteString("return " + g.Expr(depth-1) + ";\n")
	}
	g.inFunc--
	g.inAsync, g.inGen, g.loopDepth, g.labels, g.loopLabels = saveA, saveG, saveL, saveLabels, saveLL
	g.pop()
	return sb.String()
}

func (g *JSGen) funcExprCall(depth int) string {
	r := g.R
	ps, names := g.params(r.Intn(3), depth)
	body := g.funcBody(names, depth, false, false)
	args := []string{}
	for i := 0; i < r.Intn(3); i++ {
		args = append(args, g.Expr(depth-1))
	}
	if g.F.Arrow && r.Bool() {
		return "((" + ps + ") => {\n" + body + "})(" + strings.Join(args, ", ") + ")"
	}
	return "(function(" + ps + ") {\n" + body + "})(" + strings.Join(args, ", ") + ")"
}

func (g *JSGen) classBody(depth int, derived bool) string {
	r := g.R
	var sb strings.Builder
	hasPriv := false
	members := 1 + r.Intn(4)
	if derived || r.Chance(1, 2) {
		pn := g.fresh()
		sb.WriteString("constructor(" + pn + ") {\n")
		if derived {
			sb.WriteString("super(" + g.probe(pn) + ");\n")
		}
		sb.WriteString("this.c = " + g.probe(pn) + ";\n}\n")
	}
	for i := 0; i < members; i++ {
		st := ""
		if r.Chance(1, 3) {
			st = "static "
		}
		k := propNames[r.Intn(len(propNames))]
		if k == "length" && st != "" {
			k = "len"
		}
		switch r.Intn(9) {
		case 0:
			if g.F.ClassFields {
				g.stat("class-field")
				sb.WriteString(st + k + " = " + g.thislessExpr(depth-1) + ";\n")
				continue
			}
			fallthrough
		case 1:
			if g.F.ClassFields && g.F.PrivateNames && !hasPriv {
				g.stat("class-private")
				hasPriv = true
				sb.WriteString("#q = " + g.thislessExpr(depth-1) + ";\n")
				sb.WriteString("getQ() { return " + g.probe("this.#q") + " }\n")
				if r.Bool() {
					sb.WriteString("static hasQ(o) { return #q in o }\n")
				}
				continue
			}
			fallthrough
		case 5:
			if g.F.ClassFields && g.F.PrivateNames && g.F.Accessors && g.F.Destructuring && !hasPriv {
				// private accessor pair / field / method used as destructuring-assignment targets and with
				// compound assignment, update and optional chaining
				g.stat("class-private-accessor-destructure")
				hasPriv = true
				t := g.tag()
				sb.WriteString(fmt.Sprintf("%sget #acc() { return p(%d, \"get\", this === undefined ? 0 : 1) }\n%sset #acc(v) { p(%d, \"set\", v) }\n", st, t, st, t))
				sb.WriteString("#q = " + g.thislessExpr(depth-1) + ";\n")
				sb.WriteString(st + "#pm(a) { return " + g.probe("a") + " }\n")
				tgt := "this"
				mname := "destr"
				sb.WriteString(st + mname + "(v) {\n")
				forms := []string{
					"[" + tgt + ".#acc] = [v];\n",
					"({x: " + tgt + ".#acc} = {x: v});\n",
					"[" + tgt + ".#acc = " + g.literal() + "] = [];\n",
					"[..." + tgt + ".#acc] = [v, 1];\n",
					tgt + ".#acc += v;\n",
					tgt + ".#acc++;\n",
					tgt + ".#acc ??= v;\n",
					"({y: " + tgt + ".#acc, ..." + tgt + ".#acc} = {y: 1, z: v});\n",
					g.probe(tgt+"?.#acc") + ";\n",
					g.probe(tgt+".#pm?.(v)") + ";\n",
				}
				if st == "" {
					forms = append(forms, "[this.#q, this.#acc] = [v, this.#q];\n", g.probe("this.#q")+";\n", "for (this.#acc of [v]) {}\n", "for (this.#q in {k: 1}) {}\n"+g.probe("this.#q")+";\n")
				}
				for k := 0; k < 2+r.Intn(3); k++ {
					sb.WriteString(forms[r.Intn(len(forms))])
				}
				sb.WriteString("return " + g.probe("v") + ";\n}\n")
				continue
			}
			fallthrough
		case 2:
			if g.F.Accessors {
				g.stat("class-accessor")
				sb.WriteString(st + "get " + k + "() { return " + g.probe(g.literal()) + " }\n")
				if r.Bool() {
					sb.WriteString(st + "set " + k + "(v) { " + g.probe("v") + " }\n")
				}
				continue
			}
			fallthrough
		case 3:
			if g.F.StaticBlocks && g.F.ClassFields {
				g.stat("class-static-block")
				sb.WriteString("static { " + g.probe(g.literal()) + "; }\n")
				continue
			}
			fallthrough
		case 4:
			if g.F.ClassFields {
				g.stat("class-computed-field")
				sb.WriteString(st + "[" + g.probe(strLits[1+r.Intn(3)]) + "] = " + g.thislessExpr(depth-1) + ";\n")
				continue
			}
			fallthrough
		default:
			g.stat("class-method")
			ps, names := g.params(r.Intn(2), depth)
			body := g.funcBody(names, depth, false, false)
			mk := k
			if r.Chance(1, 5) {
				mk = "[" + g.probe(`"m"`) + "]"
			}
			sb.WriteString(st + mk + "(" + ps + ") {\n" + body)
			if derived && st == "" && r.Chance(1, 3) {
				sb.WriteString("return super.x;\n")
			}
			sb.WriteString("}\n")
		}
	}
	return sb.String()
}

// thislessExpr: field initialisers run with a fresh function-like context (no await/yield/arguments)
func (g *JSGen) thislessExpr(depth int) string {
	saveA, saveG := g.inAsync, g.inGen
	g.inAsync, g.inGen = 0, 0
	e := g.Expr(depth)
	g.inAsync, g.inGen = saveA, saveG
	return e
}

func (g *JSGen) classExprNew(depth int) string {
	heritage := ""
	derived := false
	if c, ok := g.pickVar(func(v jsVar) bool { return v.kind == 2 }); ok && g.R.Chance(1, 3) {
		heritage = " extends " + c.name
		derived = true
	}
	return "new (class" + heritage + " {\n" + g.classBody(depth, derived) + "})(" + g.Expr(depth-1) + ")"
}

func (g *JSGen) block(depth int) string {
	g.push(false)
	var sb strings.Builder
	n := 1 + g.R.Intn(3)
	for i := 0; i < n; i++ {
		sb.WriteString(g.Stmt(depth - 1))
	}
	g.pop()
	return "{\n" + sb.String() + "}\n"
}

func (g *JSGen) counter() string {
	g.nextID++
	return fmt.Sprintf("$i%d", g.nextID)
}

// Stmt generates one statement (terminated by newline)
func (g *JSGen) Stmt(depth int) string {
	g.budget--
	r := g.R
	if depth <= 0 || g.budget <= 0 {
		return g.probe(g.Expr(1)) + ";\n"
	}
	e := func() string { return g.Expr(depth - 1) }
	switch r.Intn(31) {
	case 0, 1, 2:
		n := g.fresh()
		kw := []string{"var", "let", "const"}[r.Intn(3)]
		init := e()
		g.declare(jsVar{name: n, mutable: kw != "const"})
		g.stat("decl " + kw)
		return kw + " " + n + " = " + init + ";\n"
	case 26:
		if g.F.BigInt {
			n := g.fresh()
			g.declare(jsVar{name: n, mutable: false, kind: 7})
			g.stat("decl bigint")
			return "const " + n + " = " + g.probe(bigLits[r.Intn(len(bigLits))]) + ";\n"
		}
	case 3, 4:
		g.stat("probe-stmt")
		return g.probe(e()) + ";\n"
	case 5:
		g.stat("if")
		s := "if (" + e() + ") " + g.block(depth)
		if r.Bool() {
			s += "else " + g.block(depth)
		} else if r.Chance(1, 3) {
			s += "else if (" + e() + ") " + g.block(depth) + "else " + g.block(depth)
		}
		return s
	case 6:
		if g.F.Loops {
			g.stat("for")
			c := g.counter()
			if r.Chance(1, 3) {
				// initialiser expressions: the `in` operator must stay protected inside a for-init wherever
				// it ends up (arrow bodies, conditionals, sequences, nested assignments)
				n := g.fresh()
				var init string
				// parts of these templates end up inside arrow function bodies, where `yield` / `await` of an
				// enclosing generator / async function are not available (false alarm of the thorough tier:
				// `for (var d = (k) => (j) => (… yield …)` inside an async generator was rejected, rightly)
				saveAI, saveGI := g.inAsync, g.inGen
				g.inAsync, g.inGen = 0, 0
				switch r.Intn(7) {
				case 5, 6:
					// `in` under every operator that hands the for-init restriction down to an operand
					in := "(\"x\" in " + g.objectLit(depth-1) + ")"
					init = []string{
						"!" + in, in + " || 0", "0 || " + in, in + " && 1", "1 && " + in, in + " ?? 1", "null ?? " + in,
						in + " ? 1 : 2", "1 ? 2 : " + in, "0 ? 1 : " + in, "(" + in + ", 1)", "(1, " + in + ")", "void " + in, "-" + in, "typeof " + in,
						"[...(function*() { var q = yield " + in + "; })()]",
						"[...(function*() { for (var q = yield " + in + ", i = 0; i < 1; i++) ; })()]",
						"[...(function*() { for (var q = 1 ? yield " + in + " : 0, i = 0; i < 1; i++) ; })()]",
						"[...(function*() { for (var q = [yield " + in + "], i = 0; i < 1; i++) ; })()]",
						"[" + in + "]", "{ k: " + in + " }", "`${" + in + "}`", "(() => {})(" + in + ")", "new (class { constructor(v) { this.v = v; } })(" + in + ").v",
					}[r.Intn(24)]
					if r.Bool() {
						init = "(k) => " + "(" + init + ")"
					}
				case 0:
					init = "(k) => (k in " + g.objectLit(depth-1) + ")"
				case 1:
					init = "(" + e() + ") ? ((k) => k in " + g.objectLit(depth-1) + ") : (" + e() + " in {})"
				case 2:
					init = "((\"x\" in " + g.objectLit(depth-1) + "), " + e() + ")"
				case 3:
					init = "(k) => (j) => ((k in {}) ? j in " + g.objectLit(depth-1) + " : " + e() + ")"
				default:
					init = "(" + g.Expr(depth-1) + ")"
				}
				g.inAsync, g.inGen = saveAI, saveGI
				g.stat("for-init-expr")
				g.push(false)
				g.declare(jsVar{name: n, mutable: true})
				g.loopDepth++
				body := g.block(depth)
				g.loopDepth--
				g.pop()
				return fmt.Sprintf("for (var %s = %s, %s = 0; %s < %d; %s++) {\n%s%s}\n", n, init, c, c, 1+r.Intn(2), c, g.probe("typeof "+n+" === \"function\" ? "+n+"(\"x\") : "+n)+";\n", body)
			}
			g.loopDepth++
			body := g.block(depth)
			g.loopDepth--
			return fmt.Sprintf("for (let %s = 0; %s < %d; %s++) %s", c, c, 1+r.Intn(3), c, body)
		}
	case 7:
		if g.F.Loops {
			g.stat("while")
			c := g.counter()
			g.loopDepth++
			body := g.block(depth)
			g.loopDepth--
			cond := e()
			if r.Bool() {
				return fmt.Sprintf("var %s = 0;\nwhile (%s++ < %d && (%s)) %s", c, c, 1+r.Intn(3), cond, body)
			}
			return fmt.Sprintf("var %s = 0;\ndo %s while (%s++ < %d && (%s));\n", c, strings.TrimSuffix(body, "\n"), c, 1+r.Intn(2), cond)
		}
	case 8:
		if g.F.ForInOf && g.F.ObjectRest && r.Chance(1, 4) {
			// a loop head that is an ASSIGNMENT pattern (no declaration) with an object rest element in
			// different positions: plain, under an array-element default, nested in a property value
			g.stat("for-of-assign-pattern-rest")
			a, b := g.fresh(), g.fresh()
			g.declare(jsVar{name: a, mutable: true})
			g.declare(jsVar{name: b, mutable: true})
			head, src := "", ""
			switch r.Intn(5) {
			case 0:
				head, src = "{x: "+a+", ..."+b+"}", "[{x: 1, y: 2}, {z: 3}]"
			case 1:
				head, src = "[{x: "+a+", ..."+b+"} = {x: 7, w: 8}]", "[[{x: 1, y: 2}], []]"
			case 2:
				head, src = "{k: [{..."+b+"} = {d: 0}], x: "+a+"}", "[{k: [{y: 2}], x: 1}, {k: [], x: 2}]"
			case 3:
				head, src = "["+a+" = 5, {..."+b+"}]", "[[undefined, {q: 1}], [6, {r: 2, s: 3}]]"
			default:
				head, src = "[..."+a+"]", "[[1, 2], []]"
				b = a
			}
			return "var " + a + ", " + b + ";\nfor (" + head + " of " + src + ") {\n" + g.probe(a) + ";\n" + g.probe(b) + ";\n}\n"
		}
		if g.F.ForInOf {
			g.stat("for-in-of")
			n := g.fresh()
			g.push(false)
			g.declare(jsVar{name: n, mutable: false})
			g.loopDepth++
			body := g.block(depth)
			g.loopDepth--
			g.pop()
			if r.Bool() {
				return "for (const " + n + " of " + g.arrayLit(depth-1) + ") " + body
			}
			return "for (const " + n + " in " + g.objectLit(depth-1) + ") " + body
		}
	case 9:
		if g.F.Switch {
			g.stat("switch")
			var sb strings.Builder
			// small discriminants so that cases actually match; default may come first or in the middle,
			// clauses may fall through (no break)
			disc := e()
			if r.Bool() {
				disc = []string{"1", "2", "\"a\"", "p(" + fmt.Sprint(g.tag()) + ", 2)", "0", "-0", "NaN"}[r.Intn(7)]
			}
			sb.WriteString("switch (" + disc + ") {\n")
			n := 1 + r.Intn(3)
			defaultAt := -1
			if r.Chance(2, 3) {
				defaultAt = r.Intn(n)
			}
			g.push(false)
			for i := 0; i < n; i++ {
				if i == defaultAt {
					sb.WriteString("default:\n")
				} else if r.Bool() {
					sb.WriteString("case " + []string{"1", "2", "\"a\"", "0", "NaN", "\"2\""}[r.Intn(6)] + ":\n")
				} else {
					sb.WriteString("case " + e() + ":\n")
				}
				switch r.Intn(4) {
				case 0:
				case 1:
					sb.WriteString(g.probe(e()) + ";\n" + g.probe(g.literal()) + ";\n")
				default:
					sb.WriteString(g.probe(e()) + ";\n")
				}
				if r.Chance(1, 2) {
					sb.WriteString("break;\n")
				}
			}
			g.pop()
			sb.WriteString("}\n")
			return sb.String()
		}
	case 10:
		if g.F.TryCatch {
			g.stat("try")
			s := "try " + g.tryBlock(depth)
			cn := g.fresh()
			g.push(false)
			g.declare(jsVar{name: cn, mutable: true})
			s += "catch (" + cn + ") {\n" + g.probe(cn) + ";\n" + g.Stmt(depth-1) + "}\n"
			g.pop()
			if r.Chance(1, 3) {
				s += "finally " + g.block(depth)
			}
			return s
		}
	case 11, 12:
		if g.F.Async && g.F.Classes && r.Chance(1, 12) {
			// an async function whose parameter DEFAULT throws while it is evaluated (a class expression with a
			// throwing computed key / static field / static block / extends clause, or a throwing call): the call
			// must return a rejected promise, never throw synchronously. Nothing is awaited, so no microtask
			// timing is observed.
			g.stat("async-param-default-throws")
			thrower := "(() => { throw new TypeError(\"bad\"); })()"
			dflt := pick(r,
				"class { ["+thrower+"]() {} }",
				"class { static f = "+thrower+"; }",
				"class { static { "+thrower+"; } }",
				"class extends "+thrower+" {}",
				thrower,
				"class { [\"k\"]() {} }")
			form := pick(r,
				"(async function (x = "+dflt+") { return 1; })()",
				"(async (x = "+dflt+") => 1)()",
				"({ async m(x = "+dflt+") { return 1; } }).m()",
				"(async function (y, x = "+dflt+") { return y; })(2)")
			t := g.tag()
			return fmt.Sprintf("try { %s.catch(() => {}); p(%d, \"returned a promise\"); } catch (e) { p(%d, \"threw synchronously\", e); }\n", form, t, t)
		}
		if r.Chance(1, 15) {
			// a function-level directive prologue: must stay a directive whatever the line limit / quote style
			g.stat("function-level-directive")
			return g.probe("(function () { "+pick(r, "\"use strict\"", "'use strict'", "\"use strict\"; \"another directive that is rather long\"")+"; return this === undefined; })()") + ";\n"
		}
		// function declaration (hoisted in its scope: only called after this point)
		n := g.fresh()
		ar := r.Intn(3)
		ps, names := g.params(ar, depth)
		kind := 1
		prefix := "function "
		async, gen := false, false
		if g.F.Async && r.Chance(1, 4) && g.asyncOK() {
			kind, prefix, async = 3, "async function ", true
		} else if g.F.Generators && r.Chance(1, 6) {
			kind, prefix, gen = 4, "function* ", true
		}
		body := g.funcBody(names, depth, async, gen)
		g.declare(jsVar{name: n, kind: kind, arity: ar})
		g.stat("func-decl")
		out := prefix + n + "(" + ps + ") {\n" + body + "}\n"
		// use it right away so that it is reachable
		args := []string{}
		for i := 0; i < ar; i++ {
			args = append(args, g.Expr(depth-1))
		}
		call := n + "(" + strings.Join(args, ", ") + ")"
		switch kind {
		case 1:
			out += g.probe(call) + ";\n"
		case 3:
			// the asynchronous chain is started by the LAST statement of the program: where the first
			// suspension happens differs between native and lowered code (microtask turns: documented
			// exclusion), so no synchronous code may follow the kick-off
			t := g.tag()
			g.deferred = append(g.deferred, fmt.Sprintf("%s.then(v => p(%d, \"resolved\", v), e => p(%d, \"rejected\", e));\n", call, t, t))
		case 4:
			if g.F.Spread {
				out += g.probe("[..."+call+"]") + ";\n"
			} else {
				out += g.probe(call+".next()") + ";\n"
			}
		}
		return out
	case 13:
		if g.F.Classes {
			n := g.fresh()
			heritage := ""
			derived := false
			if c, ok := g.pickVar(func(v jsVar) bool { return v.kind == 2 }); ok && r.Chance(1, 3) {
				heritage = " extends " + c.name
				derived = true
			}
			body := g.classBody(depth, derived)
			g.declare(jsVar{name: n, kind: 2})
			g.stat("class-decl")
			out := "class " + n + heritage + " {\n" + body + "}\n"
			// instantiate and exercise the members (optional calls: a member may be absent or an accessor)
			iv := g.fresh()
			g.declare(jsVar{name: iv, mutable: true, kind: 5})
			out += "var " + iv + " = " + g.probe("new "+n+"("+e()+")") + ";\n"
			for _, mname := range []string{"destr", "getQ", "x", "y", "z", "a", "b", "m"} {
				if r.Chance(1, 2) {
					out += "try { " + g.probe("typeof "+iv+"."+mname+" === \"function\" ? "+iv+"."+mname+"("+g.literal()+") : "+iv+"."+mname) + "; } catch (err) { " + g.probe("err") + "; }\n"
				}
			}
			if r.Bool() {
				out += "try { " + g.probe("typeof "+n+".destr === \"function\" ? "+n+".destr("+g.literal()+") : 0") + "; " + g.probe("typeof "+n+".hasQ === \"function\" ? "+n+".hasQ("+iv+") : 0") + "; } catch (err) { " + g.probe("err") + "; }\n"
			}
			return out
		}
	case 14:
		if g.inFunc > 0 {
			g.stat("return")
			return "if (" + e() + ") return " + e() + ";\n"
		}
	case 15:
		if g.loopDepth > 0 {
			g.stat("break/continue")
			kw := []string{"break", "continue"}[r.Intn(2)]
			if len(g.loopLabels) > 0 && r.Chance(1, 3) {
				return "if (" + e() + ") " + kw + " " + g.loopLabels[r.Intn(len(g.loopLabels))] + ";\n"
			}
			return "if (" + e() + ") " + kw + ";\n"
		}
	case 16:
		if g.F.Labels && g.F.Loops {
			g.stat("labelled-loop")
			g.nextID++
			l := fmt.Sprintf("L%d", g.nextID)
			c := g.counter()
			g.loopLabels = append(g.loopLabels, l)
			g.loopDepth++
			body := g.block(depth)
			g.loopDepth--
			g.loopLabels = g.loopLabels[:len(g.loopLabels)-1]
			return fmt.Sprintf("%s: for (var %s = 0; %s < %d; %s++) %s", l, c, c, 1+r.Intn(2), c, body)
		}
	case 17:
		if g.F.Labels {
			g.stat("labelled-block")
			g.nextID++
			l := fmt.Sprintf("B%d", g.nextID)
			g.push(false)
			s := l + ": {\n" + g.Stmt(depth-1) + "if (" + e() + ") break " + l + ";\n" + g.Stmt(depth-1) + "}\n"
			g.pop()
			return s
		}
	case 18:
		if g.F.TryCatch {
			g.stat("throw")
			return "try { if (" + e() + ") throw " + e() + "; " + g.probe(e()) + "; } catch (err) { " + g.probe("err") + "; }\n"
		}
	case 19:
		if g.F.Destructuring {
			a, b := g.fresh(), g.fresh()
			kw := []string{"var", "let", "const"}[r.Intn(3)]
			g.stat("destructure-decl")
			var s string
			switch r.Intn(4) {
			case 0:
				s = kw + " [" + a + ", " + b + " = " + e() + "] = " + g.arrayLit(depth-1) + ";\n"
			case 1:
				s = kw + " {x: " + a + ", [" + g.probe(`"y"`) + "]: " + b + " = " + e() + "} = " + g.objectLit(depth-1) + ";\n"
			case 2:
				if g.F.ObjectRest {
					// V8 (Node 20) bug: with an object rest pattern the getter of an EXCLUDED key of a literal that
					// also has a computed key is invoked twice the first time the code runs
					// (`var {x: a, ...z} = {["k"]: 1, get x() {…}}`): no accessors in the source of a rest pattern
					saved := g.F.Getters
					g.F.Getters = false
					lit := g.objectLit(depth - 1)
					g.F.Getters = saved
					s = kw + " {x: " + a + ", ..." + b + "} = " + lit + ";\n"
				} else {
					s = kw + " [" + a + ", ..." + b + "] = " + g.arrayLit(depth-1) + ";\n"
				}
			default:
				s = kw + " {x: {y: " + a + "} = {}, z: [" + b + "] = []} = " + g.objectLit(depth-1) + ";\n"
			}
			g.declare(jsVar{name: a, mutable: kw != "const"})
			g.declare(jsVar{name: b, mutable: kw != "const"})
			return s
		}
	case 20:
		if g.F.UnusedExprs {
			g.stat("unused-expr")
			x := e()
			if strings.HasPrefix(x, "{") || strings.HasPrefix(x, "function") || strings.HasPrefix(x, "class") || strings.HasPrefix(x, "let") || strings.HasPrefix(x, "async") || strings.HasPrefix(x, "`") {
				x = "(" + x + ")"
			}
			return "(" + x + ");\n"
		}
	case 21:
		g.stat("block")
		return g.block(depth)
	case 22:
		// arrow / function expression bound to a const and called
		if g.F.Arrow {
			n := g.fresh()
			ar := r.Intn(3)
			ps, names := g.params(ar, depth)
			g.push(true)
			for _, pn := range names {
				g.declare(jsVar{name: pn, mutable: true})
			}
			saveA, saveG := g.inAsync, g.inGen
			g.inAsync, g.inGen = 0, 0
			g.inFunc++
			body := g.Expr(depth - 1)
			g.inFunc--
			g.inAsync, g.inGen = saveA, saveG
			g.pop()
			g.declare(jsVar{name: n, kind: 1, arity: ar})
			g.stat("arrow-decl")
			if strings.HasPrefix(body, "{") || strings.HasPrefix(body, "(") {
				body = "(" + body + ")"
			}
			return "const " + n + " = (" + ps + ") => " + body + ";\n"
		}
	case 23:
		if g.F.AsyncGenerators && g.F.Async && g.F.Generators && r.Chance(1, 2) && g.asyncOK() {
			g.stat("async-gen")
			n := g.fresh()
			g.declare(jsVar{name: n, kind: 9})
			t := g.tag()
			body := g.funcBody(nil, depth, true, true)
			g.deferred = append(g.deferred, fmt.Sprintf("(async () => { for await (const v of %s()) p(%d, v); })().then(() => p(%d, \"done\"), e => p(%d, \"rejected\", e));\n", n, t, t, t))
			return fmt.Sprintf("async function* %s() {\n%s}\n", n, body)
		}
	case 24:
		// getter-bearing object bound to a variable, then member reads / writes on it
		n := g.fresh()
		g.stat("obj-var")
		s := "var " + n + " = " + g.objectLit(depth-1) + ";\n"
		if g.F.Getters && r.Chance(1, 3) {
			// Symbol.toPrimitive only on objects that are bound to a variable: an UNUSED object literal
			// with a Symbol-valued computed key is a recorded known finding (key + "" throws)
			s = fmt.Sprintf("var %s = {[Symbol.toPrimitive](hint) { p(%d, hint); return %s }, x: %s};\n", n, g.tag(), g.primLiteral(), g.literal())
		}
		g.declare(jsVar{name: n, mutable: true, kind: 5})
		s += g.probe(n+".x") + ";\n"
		if r.Bool() {
			s += n + ".y " + assignOps[r.Intn(len(assignOps))] + " " + e() + ";\n"
		}
		if g.F.LogicalAssign && r.Chance(1, 3) {
			s += n + "[" + g.probe(`"z"`) + "] " + []string{"&&=", "||=", "??="}[r.Intn(3)] + " " + e() + ";\n"
		}
		if g.F.Exponent && r.Chance(1, 4) {
			s += n + "[" + g.probe(`"x"`) + "] **= " + g.probe(e()) + ";\n"
		}
		s += g.probe(n) + ";\n"
		return s
	case 25:
		// destructuring assignment as its own statement (never inside call arguments: V8 20 wrongly
		// rejects `f(a += 1, {x} = o)` with "Invalid destructuring assignment target")
		if g.F.Destructuring {
			if v, ok := g.pickVar(func(v jsVar) bool { return v.kind == 0 && v.mutable }); ok {
				if w, ok2 := g.pickVar(func(x jsVar) bool { return x.kind == 0 && x.mutable && x.name != v.name }); ok2 {
					g.stat("destructure-assign")
					if r.Bool() {
						return "[" + v.name + ", " + w.name + " = " + g.literal() + "] = " + g.arrayLit(depth-1) + ";\n"
					}
					return "({x: " + v.name + ", y: " + w.name + " = " + g.literal() + "} = " + g.objectLit(depth-1) + ");\n"
				}
			}
		}
	}
	g.stat("expr-stmt")
	return g.probe(e()) + ";\n"
}

func (g *JSGen) tryBlock(depth int) string {
	g.push(false)
	var sb strings.Builder
	sb.WriteString("{\n")
	sb.WriteString(g.Stmt(depth - 1))
	if g.R.Bool() {
		sb.WriteString("if (" + g.Expr(depth-1) + ") throw " + g.Expr(depth-1) + ";\n")
	}
	sb.WriteString(g.Stmt(depth - 1))
	sb.WriteString("}\n")
	g.pop()
	return sb.String()
}

// Program returns a whole script. Each top-level statement group is wrapped in try/catch so that an
// early TypeError does not hide the rest of the program.
func (g *JSGen) Program(stmts int, depth int) string {
	var sb strings.Builder
	if g.F.Strict {
		sb.WriteString("\"use strict\";\n")
	}
	for i := 0; i < stmts; i++ {
		s := g.Stmt(depth)
		if g.R.Chance(1, 2) && !strings.Contains(s, "function") && !strings.HasPrefix(s, "class ") && !strings.HasPrefix(s, "let ") && !strings.HasPrefix(s, "const ") && !strings.HasPrefix(s, "var ") {
			t := g.tag()
			s = "try {\n" + s + "} catch (err) { p(" + fmt.Sprint(t) + ", \"caught\", err); }\n"
		}
		sb.WriteString(s)
	}
	for _, d := range g.deferred {
		sb.WriteString(d)
	}
	return sb.String()
}
