// Package gen: seeded generators shared by all harness commands. One splitmix64 state drives
// every random choice so that a disagreement replays exactly from (seed, kernel, index).
package gen

type Rand struct{ s uint64 }

// New hashes the seed so that nearby seeds give unrelated streams (a plain multiple of the increment
// would make seed k+1 the same stream as seed k advanced by one step).
func New(seed uint64) *Rand {
	z := seed + 0x632BE59BD9B4E019
	z = (z ^ (z >> 30)) * 0xBF58476D1CE4E5B9
	z = (z ^ (z >> 27)) * 0x94D049BB133111EB
	return &Rand{s: z ^ (z >> 31)}
}

func (r *Rand) U64() uint64 {
	r.s += 0x9E3779B97F4A7C15
	z := r.s
	z = (z ^ (z >> 30)) * 0xBF58476D1CE4E5B9
	z = (z ^ (z >> 27)) * 0x94D049BB133111EB
	return z ^ (z >> 31)
}

// Intn returns a value in [0,n)
func (r *Rand) Intn(n int) int {
	if n <= 0 {
		return 0
	}
	return int(r.U64() % uint64(n))
}

func (r *Rand) Bool() bool { return r.U64()&1 == 1 }

// Chance returns true with probability num/den
func (r *Rand) Chance(num, den int) bool { return r.Intn(den) < num }

func (r *Rand) Pick(xs []string) string { return xs[r.Intn(len(xs))] }

// Fork derives an independent stream (so adding draws in one generator does not shift others)
func (r *Rand) Fork() *Rand { return &Rand{s: r.U64()} }

// BoundaryInt: integers biased to boundaries of VLQ digit counts, int32 and int64-ish ranges
func (r *Rand) BoundaryInt() int {
	switch r.Intn(6) {
	case 0:
		return r.Intn(64) - 32
	case 1:
		k := uint(r.Intn(40))
		v := int(1) << k
		v += r.Intn(5) - 2
		if r.Bool() {
			v = -v
		}
		return v
	case 2:
		return r.Intn(1<<20) - (1 << 19)
	case 3:
		xs := []int{0, 1, -1, 15, 16, -15, -16, 31, 32, 511, 512, 1023, 1024, 2147483647, -2147483648, 1 << 31, 1<<32 - 1, 1 << 40, -(1 << 40)}
		return xs[r.Intn(len(xs))]
	case 4:
		return int(r.U64()>>uint(2+r.Intn(60))) * (1 - 2*r.Intn(2))
	default:
		return r.Intn(100000)
	}
}

// F64Bits: float64 bit patterns by class — every exponent with boundary mantissas, integers near
// powers of two and ten, fractions just below/above integers, NaN, ±Inf, ±0, subnormals.
func (r *Rand) F64Bits() uint64 {
	sign := uint64(r.Intn(2)) << 63
	switch r.Intn(8) {
	case 0:
		ex := uint64(r.Intn(2048))
		var frac uint64
		switch r.Intn(4) {
		case 0:
			frac = 0
		case 1:
			frac = 1
		case 2:
			frac = (1 << 52) - 1
		default:
			frac = r.U64() & ((1 << 52) - 1)
		}
		return sign | ex<<52 | frac
	case 1: // integers around 2^k
		k := uint(r.Intn(70))
		v := float64frombig(k, r.Intn(5)-2)
		return sign | v
	case 2: // small integers and halves
		return sign | f64bits(float64(r.Intn(70000))+[]float64{0, 0.5, 0.25, 0.999999}[r.Intn(4)])
	case 3: // around int32 / uint32 boundaries
		b := []float64{2147483647, 2147483648, 2147483649, 4294967295, 4294967296, 4294967297, 9007199254740991, 9007199254740992, 1e21, 1e22}[r.Intn(10)]
		return sign | f64bits(b+[]float64{0, 0.5, -0.5, 1, -1}[r.Intn(5)])
	case 4:
		return []uint64{0x7ff8000000000000, 0x7ff0000000000000, 0xfff0000000000000, 0, 0x8000000000000000, 1, 0x000fffffffffffff, 0x0010000000000000, 0x7fefffffffffffff}[r.Intn(9)]
	case 5: // exponents around 2^31..2^64 with random mantissa
		ex := uint64(1023 + 28 + r.Intn(40))
		return sign | ex<<52 | (r.U64() & ((1 << 52) - 1))
	default:
		return r.U64()
	}
}
