// Package gen: seeded generators shared by all harness commands. One splitmix64 state drives
// every random choice so that a disagreement replays exactly from (seed, kernel, index).
package gen

type Rand struct{ s uint64 }

func New(seed uint64) *Rand { return &Rand{s: seed*0x9E3779B97F4A7C15 + 0x1234567} }

func (r *Rand) U64() uint64 {
	r.s += 0x9E3779B97F4A7C15
	z := r.s
	z = (z ^ (z >> 30)) * 0xBF58476D1CE4E5B9
	z = (z ^ (z >> 27)) * 0x94D049BB133111EB
	return z ^ (z >> 31)
}

// Intn returns a value in [0,n)
func (r *Rand) Intn(n int) int {
	if n <= 0 {
		return 0
	}
	return int(r.U64() % uint64(n))
}

func (r *Rand) Bool() bool { return r.U64()&1 == 1 }

// Chance returns true with probability num/den
func (r *Rand) Chance(num, den int) bool { return r.Intn(den) < num }

func (r *Rand) Pick(xs []string) string { return xs[r.Intn(len(xs))] }

// Fork derives an independent stream (so adding draws in one generator does not shift others)
func (r *Rand) Fork() *Rand { return &Rand{s: r.U64()} }

// BoundaryInt: integers biased to boundaries of VLQ digit counts, int32 and int64-ish ranges
func (r *Rand) BoundaryInt() int {
	switch r.Intn(6) {
	case 0:
		return r.Intn(64) - 32
	case 1:
		k := uint(r.Intn(40))
		v := int(1) << k
		v += r.Intn(5) - 2
		if r.Bool() {
			v = -v
		}
		return v
	case 2:
		return r.Intn(1<<20) - (1 << 19)
	case 3:
		xs := []int{0, 1, -1, 15, 16, -15, -16, 31, 32, 511, 512, 1023, 1024, 2147483647, -2147483648, 1 << 31, 1<<32 - 1, 1 << 40, -(1 << 40)}
		return xs[r.Intn(len(xs))]
	case 4:
		return int(r.U64()>>uint(2+r.Intn(60))) * (1 - 2*r.Intn(2))
	default:
		return r.Intn(100000)
	}
}
