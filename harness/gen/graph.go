package gen

import (
	"fmt"
	"sort"
	"strings"
)

// Module graph generator. Produces a tree of ES modules / CommonJS modules whose bodies are
// probe statements `p("mK:tag", values…)`, with static, namespace, default, side-effect and
// (optionally) dynamic imports, re-exports, export-star, cycles, exported `let` bindings mutated
// through exported functions, and optional asset imports.
//
// Constraints that keep native Node and a bundle comparable under the documented exclusions:
//   - top-level code reads imported bindings only across *forward* edges (importer index < target
//     index, never part of a back edge), so no TDZ / uninitialised read depends on cycle handling;
//     bindings reached through back edges are only read inside functions called at the very end;
//   - at most one dynamic import per program (one async chain);
//   - CommonJS modules use `exports.NAME = …` (detectable by Node's lexer) and are imported by ESM via
//     default / namespace / those named exports; CommonJS never requires ESM;
//   - no top-level await, no import.meta, no direct eval.

type GraphOpts struct {
	Modules             int
	Entries             int  // number of entry points (first modules)
	AllowCJS            bool // include .cjs modules
	AllowDyn            bool // allow one dynamic import
	AllowCycle          bool
	AllowStar           bool
	Assets              bool // json/text assets (bundle-only oracle)
	SideEffectFreeDecls bool // sprinkle unused pure declarations (tree shaking fodder)
	PkgSideEffectsFalse bool // put some modules into a package with "sideEffects": false
	// AvoidInPlaceOrder: emit CommonJS imports last and only import() a dedicated leaf. Needed when a
	// variant builds with tree shaking disabled (known finding c02/order-no-tree-shaking: a file is
	// then one part, so in-place evaluated modules run after hoisted ES siblings imported later).
	AvoidInPlaceOrder bool
	// DualPkg: a node_modules package with both "main" (CommonJS) and "module" (ESM) that is imported
	// by an ES module and required by a CommonJS module of the same bundle (dual package hazard path).
	// Only for oracles that do not compare with native Node (Node ignores "module").
	DualPkg bool
	// CollidingNames: every non-entry ES module declares top-level bindings called x and x2 (exported
	// under unique aliases) so that chunks shared by several entry points hold colliding symbol names.
	CollidingNames bool
	// NoTopLevelMutation: exported mutator functions are only called from the late functions, so that
	// values read by module top-level code do not depend on the relative order of other modules
	// (code splitting may legitimately change that order).
	NoTopLevelMutation bool
}

type GModule struct {
	Index      int
	Path       string // relative path, e.g. "m3.js"
	CJS        bool
	Exports    []string // exported binding names (besides default)
	HasDefault bool
	Imports    []GImport
	Source     string
}

type GImport struct {
	Target int
	Back   bool // target index <= importer index (may form a cycle)
}

type Graph struct {
	Files   map[string]string
	Entries []string
	Modules []*GModule
	Stats   map[string]int
	HasDyn  bool
}

func (g *Graph) stat(k string) { g.Stats[k]++ }

func GenGraph(r *Rand, o GraphOpts) *Graph {
	g := &Graph{Files: map[string]string{}, Stats: map[string]int{}}
	n := o.Modules
	if n < 1 {
		n = 1
	}
	mods := make([]*GModule, n)
	for i := 0; i < n; i++ {
		m := &GModule{Index: i}
		if o.AllowCJS && i >= o.Entries && r.Chance(1, 4) {
			m.CJS = true
			m.Path = fmt.Sprintf("m%d.cjs", i)
		} else {
			m.Path = fmt.Sprintf("m%d.js", i)
		}
		// exports decided up front so importers know them
		ne := 1 + r.Intn(3)
		for k := 0; k < ne; k++ {
			m.Exports = append(m.Exports, fmt.Sprintf("%s%d", []string{"x", "f", "k", "v"}[k%4], i))
		}
		m.HasDefault = r.Chance(2, 3)
		mods[i] = m
	}
	// edges: forward edges i -> j (j > i); optional back edges j -> i
	for i := 0; i < n; i++ {
		m := mods[i]
		seen := map[int]bool{}
		ne := r.Intn(3)
		if i < o.Entries || i == 0 {
			ne = 1 + r.Intn(3)
		}
		for k := 0; k < ne && i+1 < n; k++ {
			j := i + 1 + r.Intn(n-i-1)
			if !seen[j] {
				seen[j] = true
				m.Imports = append(m.Imports, GImport{Target: j})
			}
		}
		if o.AllowCycle && i > 0 && r.Chance(1, 4) {
			j := r.Intn(i + 1) // may be a self import
			if !seen[j] && !(m.CJS != mods[j].CJS) && j >= o.Entries-0 {
				seen[j] = true
				m.Imports = append(m.Imports, GImport{Target: j, Back: true})
				g.stat("back-edge")
			}
		}
	}
	// make sure every module is reachable from some entry: link unreachable ones from a lower ESM module
	reach := make([]bool, n)
	var visit func(i int)
	visit = func(i int) {
		if reach[i] {
			return
		}
		reach[i] = true
		for _, im := range mods[i].Imports {
			visit(im.Target)
		}
	}
	ents := o.Entries
	if ents < 1 {
		ents = 1
	}
	if ents > n {
		ents = n
	}
	for e := 0; e < ents; e++ {
		visit(e)
	}
	for i := 0; i < n; i++ {
		if !reach[i] {
			from := r.Intn(i)
			for !reach[from] {
				from = (from + 1) % i
			}
			mods[from].Imports = append(mods[from].Imports, GImport{Target: i})
			visit(i)
		}
	}
	// CJS modules may only require CJS (Node 20 cannot require ESM): drop violating edges
	for _, m := range mods {
		if m.CJS {
			keep := m.Imports[:0]
			for _, im := range m.Imports {
				if mods[im.Target].CJS {
					keep = append(keep, im)
				}
			}
			m.Imports = keep
		}
	}
	// An edge is treated as a "back" (cyclic) edge whenever its target can reach the importer again:
	// top-level reads across such edges could hit an uninitialised binding (TDZ natively, undefined
	// or a later value in a bundle: documented exclusion), so they are moved into the late functions.
	reachFrom := func(a, b int) bool { // can a reach b?
		seen := map[int]bool{}
		var dfs func(i int) bool
		dfs = func(i int) bool {
			if i == b {
				return true
			}
			if seen[i] {
				return false
			}
			seen[i] = true
			for _, im := range mods[i].Imports {
				if dfs(im.Target) {
					return true
				}
			}
			return false
		}
		for _, im := range mods[a].Imports {
			if dfs(im.Target) {
				return true
			}
		}
		return false
	}
	// Known finding c02/order-cjs-before-esm: an ES module that imports a CommonJS module and AFTER it an
	// ES module has the CommonJS body evaluated after the hoisted ES sibling. The standing search avoids
	// it by emitting CommonJS imports last (native order and bundle order then coincide).
	for _, m := range mods {
		if !o.AvoidInPlaceOrder {
			break
		}
		sort.SliceStable(m.Imports, func(a, b int) bool { return !mods[m.Imports[a].Target].CJS && mods[m.Imports[b].Target].CJS })
	}
	for _, m := range mods {
		for k := range m.Imports {
			t := m.Imports[k].Target
			if t == m.Index || reachFrom(t, m.Index) {
				m.Imports[k].Back = true
			}
		}
	}
	dynUsed := false
	tag := 0
	lit := func() string {
		return []string{"1", "2", "\"s\"", "null", "[1,2]", "{a:1}", "0.5", "true", "undefined", "-0", "\"é\""}[r.Intn(11)]
	}
	for _, m := range mods {
		var sb strings.Builder
		var late []string // statements for the "late" function (reads through back edges)
		if m.CJS {
			sb.WriteString("\"use strict\";\n")
			fmt.Fprintf(&sb, "p(\"m%d:start\");\n", m.Index)
			for _, im := range m.Imports {
				t := mods[im.Target]
				v := fmt.Sprintf("r%d_%d", m.Index, t.Index)
				fmt.Fprintf(&sb, "const %s = require(\"./%s\");\n", v, t.Path)
				if !im.Back {
					tag++
					fmt.Fprintf(&sb, "p(\"m%d:req%d\", Object.keys(%s).sort(), %s.%s);\n", m.Index, tag, v, v, t.Exports[0])
				} else {
					late = append(late, fmt.Sprintf("p(\"m%d:late\", %s.%s);", m.Index, v, t.Exports[0]))
				}
				g.stat("cjs-require")
			}
			for k, e := range m.Exports {
				if k%2 == 1 {
					fmt.Fprintf(&sb, "exports.%s = function () { p(\"m%d:call %s\"); return %s; };\n", e, m.Index, e, lit())
				} else {
					fmt.Fprintf(&sb, "exports.%s = %s;\n", e, lit())
				}
			}
			if m.HasDefault && r.Bool() {
				// `default` as a plain property: interop decides what `import d from` sees
				fmt.Fprintf(&sb, "exports.default = %s;\n", lit())
				g.stat("cjs-default-prop")
			}
			fmt.Fprintf(&sb, "exports.late%d = function () { %s };\n", m.Index, strings.Join(late, " "))
			fmt.Fprintf(&sb, "p(\"m%d:end\");\n", m.Index)
			m.Source = sb.String()
			continue
		}
		// ---- ES module
		var body strings.Builder
		for _, im := range m.Imports {
			t := mods[im.Target]
			alias := func(e string) string { return fmt.Sprintf("%s_in%d", e, m.Index) }
			switch c := r.Intn(8); {
			case c == 0:
				fmt.Fprintf(&sb, "import \"./%s\";\n", t.Path)
				g.stat("import-side-effect")
			case c == 1 || t.CJS && c < 4:
				ns := fmt.Sprintf("ns%d_%d", m.Index, t.Index)
				fmt.Fprintf(&sb, "import * as %s from \"./%s\";\n", ns, t.Path)
				g.stat("import-namespace")
				stmt := fmt.Sprintf("p(\"m%d:ns\", Object.keys(%s).filter(k => k !== \"__esModule\" && k !== \"module.exports\").sort(), %s.%s);", m.Index, ns, ns, t.Exports[0])
				if im.Back {
					late = append(late, stmt)
				} else {
					body.WriteString(stmt + "\n")
				}
			case c == 2 && (t.HasDefault || t.CJS):
				d := fmt.Sprintf("d%d_%d", m.Index, t.Index)
				fmt.Fprintf(&sb, "import %s from \"./%s\";\n", d, t.Path)
				g.stat("import-default")
				stmt := fmt.Sprintf("p(\"m%d:default\", typeof %s === \"function\" ? \"fn\" : %s);", m.Index, d, d)
				if t.CJS {
					stmt = fmt.Sprintf("p(\"m%d:default\", typeof %s, %s && Object.keys(%s).sort());", m.Index, d, d, d)
				}
				if im.Back {
					late = append(late, stmt)
				} else {
					body.WriteString(stmt + "\n")
				}
			default:
				names := []string{}
				reads := []string{}
				for k, e := range t.Exports {
					if k == 0 || r.Bool() {
						names = append(names, e+" as "+alias(e))
						if k%2 == 1 {
							reads = append(reads, alias(e)+"()")
						} else {
							reads = append(reads, alias(e))
						}
					}
				}
				fmt.Fprintf(&sb, "import { %s } from \"./%s\";\n", strings.Join(names, ", "), t.Path)
				g.stat("import-named")
				stmt := fmt.Sprintf("p(\"m%d:named\", %s);", m.Index, strings.Join(reads, ", "))
				if im.Back {
					late = append(late, stmt)
				} else if o.NoTopLevelMutation {
					late = append(late, stmt)
					fmt.Fprintf(&body, "p(\"m%d:named-typeof\", typeof %s);\n", m.Index, alias(t.Exports[0]))
				} else {
					body.WriteString(stmt + "\n")
					// live binding check: call a mutator of the target (if any) and re-read
					if len(t.Exports) >= 2 && !t.CJS {
						late = append(late, stmt)
					}
				}
			}
			// re-exports
			if !t.CJS && o.AllowStar && r.Chance(1, 5) {
				fmt.Fprintf(&sb, "export * from \"./%s\";\n", t.Path)
				g.stat("export-star")
			} else if !t.CJS && r.Chance(1, 5) {
				fmt.Fprintf(&sb, "export { %s as re%d_%s } from \"./%s\";\n", t.Exports[0], m.Index, t.Exports[0], t.Path)
				g.stat("re-export")
			} else if !t.CJS && o.AllowStar && t.Index != m.Index && r.Chance(1, 4) {
				// indirect re-export under the SAME name: together with an `export *` of the same module
				// reached through another path the binding arrives twice (must not count as ambiguous)
				fmt.Fprintf(&sb, "export { %s } from \"./%s\";\n", t.Exports[0], t.Path)
				if len(t.Exports) > 1 {
					fmt.Fprintf(&sb, "export { %s } from \"./%s\";\n", t.Exports[1], t.Path)
				}
				g.stat("re-export-same-name")
			}
		}
		fmt.Fprintf(&sb, "p(\"m%d:start\");\n", m.Index)
		for k, e := range m.Exports {
			switch k % 4 {
			case 0: // exported let, mutated by the function export below
				fmt.Fprintf(&sb, "export let %s = %d;\n", e, r.Intn(5))
			case 1:
				fmt.Fprintf(&sb, "export function %s() { p(\"m%d:call %s\"); %s++; return %s; }\n", e, m.Index, e, m.Exports[0], m.Exports[0])
			case 2:
				fmt.Fprintf(&sb, "export const %s = p(\"m%d:init %s\", %s);\n", e, m.Index, e, lit())
			default:
				fmt.Fprintf(&sb, "export class %s { static s = p(\"m%d:static\", 1); }\n", e, m.Index)
			}
		}
		if o.SideEffectFreeDecls {
			switch r.Intn(4) {
			case 0:
				fmt.Fprintf(&sb, "const unused%d = { a: 1, b: [2, 3] };\nfunction unusedFn%d() { return unused%d; }\n", m.Index, m.Index, m.Index)
			case 1:
				fmt.Fprintf(&sb, "const maybe%d = { get a() { return p(\"m%d:getter\"); } };\nconst { a: gone%d } = maybe%d;\n", m.Index, m.Index, m.Index, m.Index)
			case 2:
				fmt.Fprintf(&sb, "class Unused%d { static x = p(\"m%d:unused-static\"); [p(\"m%d:unused-key\")]() {} }\n", m.Index, m.Index, m.Index)
			}
		}
		sb.WriteString(body.String())
		if m.HasDefault {
			switch r.Intn(3) {
			case 0:
				fmt.Fprintf(&sb, "export default p(\"m%d:default-init\", %s);\n", m.Index, lit())
			case 1:
				fmt.Fprintf(&sb, "export default function () { return \"d%d\"; }\n", m.Index)
			default:
				fmt.Fprintf(&sb, "export default class D%d {}\n", m.Index)
			}
		}
		if o.CollidingNames && m.Index >= ents {
			fmt.Fprintf(&sb, "let q = p(\"m%d:q\", %d);\nlet q2 = %d;\nfunction bumpq() { q++; q2 += 2; }\nexport { q as cx%d, q2 as cy%d, bumpq as cb%d };\n", m.Index, m.Index, m.Index*10, m.Index, m.Index, m.Index)
		}
		// late function: called by the entry once every module has been evaluated
		fmt.Fprintf(&sb, "export function late%d() { %s }\n", m.Index, strings.Join(late, " "))
		if o.AllowDyn && !dynUsed && m.Index < ents && r.Chance(1, 2) {
			// The dynamically imported module is a dedicated leaf that nothing imports statically:
			// a module that is BOTH statically and dynamically imported gets a lazy wrapper and is then
			// evaluated after its unwrapped siblings (recorded known finding c02/order-wrapped-sibling).
			dynUsed = true
			g.HasDyn = true
			if !o.AvoidInPlaceOrder && len(mods) > 1 && r.Bool() {
				// import() of a module that is (possibly) also imported statically
				t := mods[1+r.Intn(len(mods)-1)]
				// a module importing ITSELF dynamically under --splitting prints a call to a wrapper
				// that is never generated (known finding c10-self-dynamic-import): not generated here
				if !t.CJS && t.Index != m.Index {
					fmt.Fprintf(&sb, "export const dyn%d = import(\"./%s\").then(ns => p(\"m%d:dyn\", Object.keys(ns).sort(), ns.%s), e => p(\"m%d:dyn-err\", e));\n", m.Index, t.Path, m.Index, t.Exports[0], m.Index)
					g.stat("dynamic-import-of-static")
					fmt.Fprintf(&sb, "p(\"m%d:end\");\n", m.Index)
					m.Source = sb.String()
					continue
				}
			}
			if r.Chance(1, 3) {
				// a lazily loaded module whose body throws, loaded twice: both loads must fail the same way
				g.Files["dynleaf.js"] = "import \"./dyndep.js\";\np(\"dyn:start\");\nexport let dx = 1;\nthrow new Error(\"dyn failed\");\n"
				g.Files["dyndep.js"] = "p(\"dyndep\");\n"
				g.Files["dynuser.js"] = "import { dx } from \"./dynleaf.js\";\np(\"dynuser\", dx);\n"
				fmt.Fprintf(&sb, "export const dyn%d = import(\"./dynleaf.js\").then(ns => p(\"m%d:dyn1\", Object.keys(ns).sort()), e => p(\"m%d:dyn1-err\", e)).then(() => import(\"./dynleaf.js\")).then(ns => p(\"m%d:dyn2\", Object.keys(ns).sort(), ns.dx), e => p(\"m%d:dyn2-err\", e)).then(() => import(\"./dynuser.js\")).then(ns => p(\"m%d:dyn3\"), e => p(\"m%d:dyn3-err\", e));\n", m.Index, m.Index, m.Index, m.Index, m.Index, m.Index, m.Index)
				g.stat("dynamic-import-throwing")
				fmt.Fprintf(&sb, "p(\"m%d:end\");\n", m.Index)
				m.Source = sb.String()
				continue
			}
			g.Files["dynleaf.js"] = "p(\"dyn:start\");\nexport let dx = 1;\nexport function bump() { dx++; return dx; }\nexport default \"dd\";\np(\"dyn:end\");\n"
			fmt.Fprintf(&sb, "export const dyn%d = import(\"./dynleaf.js\").then(ns => p(\"m%d:dyn\", Object.keys(ns).sort(), ns.dx, ns.bump(), ns.dx, ns.default), e => p(\"m%d:dyn-err\", e));\n", m.Index, m.Index, m.Index)
			g.stat("dynamic-import")
		}
		fmt.Fprintf(&sb, "p(\"m%d:end\");\n", m.Index)
		m.Source = sb.String()
	}
	// entries call every module's late function through a chain of imports? Simpler: each entry
	// imports the late functions of all ESM modules reachable by static forward edges from it.
	for e := 0; e < ents; e++ {
		m := mods[e]
		if m.CJS {
			continue
		}
		reachE := map[int]bool{}
		var dfs func(i int)
		dfs = func(i int) {
			if reachE[i] {
				return
			}
			reachE[i] = true
			for _, im := range mods[i].Imports {
				dfs(im.Target)
			}
		}
		dfs(e)
		idx := []int{}
		for i := range reachE {
			if i != e && !mods[i].CJS {
				idx = append(idx, i)
			}
		}
		sort.Ints(idx)
		var sb strings.Builder
		for _, i := range idx {
			// importing late functions adds edges; they are harmless (target already reachable)
			fmt.Fprintf(&sb, "import { late%d as L%d_%d } from \"./%s\";\n", i, e, i, mods[i].Path)
			if o.CollidingNames && i >= ents {
				fmt.Fprintf(&sb, "import { cx%d as CX%d_%d, cy%d as CY%d_%d, cb%d as CB%d_%d } from \"./%s\";\n", i, e, i, i, e, i, i, e, i, mods[i].Path)
			}
		}
		sb.WriteString(m.Source)
		for _, i := range idx {
			fmt.Fprintf(&sb, "L%d_%d();\n", e, i)
			if o.CollidingNames && i >= ents {
				fmt.Fprintf(&sb, "p(\"m%d:collide\", CX%d_%d, CY%d_%d); CB%d_%d(); p(\"m%d:collide2\", CX%d_%d, CY%d_%d);\n", e, e, i, e, i, e, i, e, e, i, e, i)
			}
		}
		fmt.Fprintf(&sb, "late%d();\n", e)
		m.Source = sb.String()
	}
	if o.AllowStar && !mods[0].CJS && r.Chance(1, 2) {
		// star-export diamond: the same binding reaches sd_a through two `export *` paths, one of
		// them indirect. It is NOT ambiguous (same binding) and must stay exported.
		first := []string{"export { sx, sbump } from \"./sd_c.js\";\n", "export * from \"./sd_c.js\";\n", "export { sx } from \"./sd_c.js\";\nexport { sbump } from \"./sd_c.js\";\n"}[r.Intn(3)]
		g.Files["sd_c.js"] = "p(\"sd_c\");\nexport let sx = 1;\nexport function sbump() { sx++; return sx; }\n"
		g.Files["sd_b.js"] = first + "p(\"sd_b\");\nexport const sb_own = 2;\n"
		stars := []string{"export * from \"./sd_b.js\";\n", "export * from \"./sd_c.js\";\n"}
		if r.Bool() {
			stars[0], stars[1] = stars[1], stars[0]
		}
		g.Files["sd_a.js"] = stars[0] + stars[1] + "p(\"sd_a\");\nexport const sa_own = 3;\n"
		m0 := mods[0]
		switch r.Intn(3) {
		case 0:
			m0.Source = "import * as sdns from \"./sd_a.js\";\n" + m0.Source + "p(\"m0:sd\", Object.keys(sdns).sort(), sdns.sx, sdns.sbump && sdns.sbump(), sdns.sx);\n"
		case 1:
			m0.Source = "export * from \"./sd_a.js\";\n" + m0.Source
		default:
			m0.Source = "import { sx as sdx, sbump as sdbump } from \"./sd_a.js\";\n" + m0.Source + "p(\"m0:sd\", sdx, sdbump(), sdx);\n"
		}
		g.stat("star-diamond")
	}
	if o.AllowStar && o.AllowCJS && !mods[0].CJS && r.Chance(1, 2) {
		// export-star CYCLE whose members also star-export a CommonJS module: names that only exist at run
		// time (the CommonJS exports) must be reachable through every member of the cycle, whatever the
		// order of the star statements and whichever member is reached first.
		g.Files["sc_d.cjs"] = "p(\"sc_d\");\nexports.scd = \"d\";\n"
		xs := []string{"export * from \"./sc_a.js\";\n", "export * from \"./sc_d.cjs\";\n"}
		if !o.AvoidInPlaceOrder && r.Bool() { // (CommonJS star first = in-place evaluation before a hoisted ES sibling)
			xs[0], xs[1] = xs[1], xs[0]
		}
		g.Files["sc_x.js"] = xs[0] + xs[1] + "p(\"sc_x\");\nexport const scx = \"x\";\n"
		g.Files["sc_a.js"] = "export * from \"./sc_x.js\";\np(\"sc_a\");\nexport const sca = \"a\";\n"
		first := []string{"sc_a", "sc_x"}[r.Intn(2)]
		m0 := mods[0]
		// (an entry point that itself says `export *` of the cycle is NOT generated: with the esm output format the
		// entry's export list is static, so run-time-only CommonJS names cannot be part of it — documented limitation)
		switch r.Intn(2) {
		case 0:
			m0.Source = "import * as scns from \"./" + first + ".js\";\n" + m0.Source + "p(\"m0:sc\", Object.keys(scns).sort(), scns.scd, scns.sca, scns.scx);\n"
		default:
			m0.Source = "import { scd as scd1, sca as sca1 } from \"./" + first + ".js\";\n" + m0.Source + "p(\"m0:sc\", scd1, sca1);\n"
		}
		g.stat("star-cycle-cjs")
	}
	if o.DualPkg {
		g.Files["node_modules/pkg/package.json"] = "{\"name\": \"pkg\", \"main\": \"./main.js\", \"module\": \"./module.js\"}\n"
		g.Files["node_modules/pkg/main.js"] = "p(\"pkg:main\");\nexports.v = \"from-main\";\n"
		g.Files["node_modules/pkg/module.js"] = "p(\"pkg:module\");\nexport const v = \"from-module\";\n"
		g.Files["usepkg.cjs"] = "const q = require(\"pkg\");\np(\"usepkg\", q.v);\nexports.z = 1;\n"
		m0 := mods[0]
		if !m0.CJS {
			m0.Source = "import { v as pkgv } from \"pkg\";\nimport \"./usepkg.cjs\";\n" + m0.Source + "p(\"m0:pkg\", pkgv);\n"
		}
		g.stat("dual-pkg")
	}
	for _, m := range mods {
		g.Files[m.Path] = m.Source
	}
	g.Files["package.json"] = "{\"type\": \"module\"}\n"
	for e := 0; e < ents; e++ {
		g.Entries = append(g.Entries, mods[e].Path)
	}
	g.Modules = mods
	return g
}
