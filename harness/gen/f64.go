package gen

import "math"

func f64bits(f float64) uint64 { return math.Float64bits(f) &^ (1 << 63) }

func float64frombig(k uint, delta int) uint64 {
	v := math.Ldexp(1, int(k)) + float64(delta)
	return math.Float64bits(v) &^ (1 << 63)
}
