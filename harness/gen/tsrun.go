package gen

import (
	"fmt"
	"strings"
)

// TSRun generates TypeScript programs made of the TypeScript-only RUN-TIME constructs (namespaces merged over
// several blocks, enums merged with namespaces and with each other, const enums imported from another file,
// parameter properties) together with the probe trace the TypeScript language defines for them.  The
// generator is its own reference semantics: it knows which declaration every bare identifier refers to
// (TypeScript's scoping rules for namespace and enum bodies, see resolve below) and evaluates the program.
//
// Scoping rules implemented (checker.ts resolveName):
//   - inside a namespace block: the block's own declarations; then the EXPORTED members of the other blocks
//     of the same (merged) namespace — variables/functions only, not enum members of a merged enum;
//     then the module scope;
//   - inside an enum body: the members of that enum (all merged enum declarations of the name) and nothing
//     else of the merged symbol; then the module scope.

type tsDecl struct {
	name     string
	exported bool
	value    string // resolved value (a string constant or a number rendered as JS)
	init     string // source of the initialiser
}

type tsBlock struct {
	ns    string
	decls []tsDecl
	lines []string
}

type TSRunProgram struct {
	Files    map[string]string
	Entry    string
	Expected []string
	Stats    map[string]int
}

func q(s string) string { return "\"" + s + "\"" }

func GenTSRun(r *Rand) *TSRunProgram {
	p := &TSRunProgram{Files: map[string]string{}, Entry: "main.ts", Stats: map[string]int{}}
	pool := []string{"a", "b", "c", "d"}
	var sb strings.Builder
	exp := []string{}
	probe := func(tag string, valueJSON string) {
		if valueJSON == "" {
			exp = append(exp, q(tag))
		} else {
			exp = append(exp, q(tag)+" "+valueJSON)
		}
	}
	callProbes := [][2]string{}

	// module-scope constants for every pool name
	outer := map[string]string{}
	for _, n := range pool {
		outer[n] = q("outer:" + n)
		fmt.Fprintf(&sb, "const %s: string = %s;\n", n, outer[n])
	}

	// cross-file const enum
	useImport := r.Chance(1, 2)
	if useImport {
		base := r.Intn(5)
		p.Files["lib.ts"] = fmt.Sprintf("export const enum Lib { P = %d, Q, R = P << 3, S = \"s\" + \"t\" }\nexport enum Plain { X = %d, Y }\n", base, base+10)
		sb.WriteString("import { Lib, Plain } from \"./lib\";\n")
		sb.WriteString("p(\"lib\", Lib.P, Lib.Q, Lib.R, Lib.S, Plain.X, Plain.Y, Plain[Plain.Y]);\n")
		probe("lib", fmt.Sprintf("%d %d %d %s %d %d %s", base, base+1, base<<3, q("st"), base+10, base+11, q("Y")))
		p.Stats["cross-file-const-enum"]++
	}

	// namespace N (1-3 blocks) and enum N (0-2 blocks), interleaved in random order
	nsName := "N"
	type piece struct {
		isEnum bool
	}
	pieces := []piece{}
	nNs := 1 + r.Intn(3)
	nEnum := r.Intn(3)
	for i := 0; i < nNs; i++ {
		pieces = append(pieces, piece{false})
	}
	for i := 0; i < nEnum; i++ {
		pieces = append(pieces, piece{true})
	}
	for i := len(pieces) - 1; i > 0; i-- {
		j := r.Intn(i + 1)
		pieces[i], pieces[j] = pieces[j], pieces[i]
	}
	nsExports := map[string]string{}   // exported namespace members initialised so far
	enumMembers := map[string]string{} // enum members initialised so far (value as JS)
	enumOrder := []string{}
	usedInSymbol := map[string]bool{} // names taken by exports of the merged symbol (no duplicates allowed)
	fnCalls := []string{}
	blockNo := 0
	memberNo := 0
	// Pre-pass: decide every declared name up front. Name resolution is static: a namespace block sees the
	// exports of ALL blocks of the merged namespace, including blocks further down (whose members are still
	// undefined when read too early), and a block's own declarations shadow for the whole block.
	type planned struct {
		kind     int
		name     string
		exported bool
	}
	allEnumNames := map[string]bool{}
	forcedKind := map[string]int{} // enum member name -> forced initialiser kind (see the switch below)
	enumBlocksPlanned := 0
	nsPlans := map[int][]planned{}
	enumPlans := map[int][]string{}
	allExports := map[string]bool{}
	{
		used := map[string]bool{}
		mno := 0
		for pi, pc := range pieces {
			if !pc.isEnum {
				k := 1 + r.Intn(4)
				plan := []planned{}
				names := map[string]bool{}
				for s := 0; s < k; s++ {
					pl := planned{kind: r.Intn(4)}
					if pl.kind <= 1 {
						n := pool[r.Intn(len(pool))]
						if names[n] {
							continue
						}
						names[n] = true
						pl.name = n
						pl.exported = r.Chance(2, 3) && !used[n]
						if pl.exported {
							used[n] = true
							allExports[n] = true
						}
					}
					plan = append(plan, pl)
				}
				nsPlans[pi] = plan
			} else {
				k := 1 + r.Intn(3)
				ms := []string{}
				for s := 0; s < k; s++ {
					mno++
					name := fmt.Sprintf("m%d", mno)
					if r.Chance(1, 3) {
						if c := pool[r.Intn(len(pool))]; !used[c] {
							name = c
						}
					} else if r.Chance(1, 6) && !used[nsName] {
						// a member named like the enum itself: inside the body the name then means the member
						name = nsName
						p.Stats["enum-member-named-like-enum"]++
					}
					used[name] = true
					allEnumNames[name] = true
					ms = append(ms, name)
				}
				if enumBlocksPlanned > 0 && !used[nsName] && r.Chance(1, 3) {
					// a LATER block of the merged enum that declares a member named like the enum, then reads an earlier
					// block's member by its bare name, then auto-increments from it
					used[nsName] = true
					allEnumNames[nsName] = true
					mno += 2
					refName, autoName := fmt.Sprintf("m%d", mno-1), fmt.Sprintf("m%d", mno)
					used[refName], used[autoName] = true, true
					allEnumNames[refName], allEnumNames[autoName] = true, true
					forcedKind[refName], forcedKind[autoName] = 4, 0
					ms = append(ms, nsName, refName, autoName)
					p.Stats["enum-later-block-self-named-then-sibling-ref"]++
				}
				enumBlocksPlanned++
				enumPlans[pi] = ms
			}
		}
	}
	for pi, pc := range pieces {
		if !pc.isEnum {
			blockNo++
			locals := map[string]string{} // all declarations of this block initialised so far
			fmt.Fprintf(&sb, "namespace %s {\n", nsName)
			plan := nsPlans[pi]
			blockNames := map[string]bool{}
			for _, pl := range plan {
				if pl.name != "" {
					blockNames[pl.name] = true
				}
			}
			for s, pl := range plan {
				// resolution of a bare name inside this block; ok=false: in the temporal dead zone
				resolve := func(n string) (string, string, bool) {
					if v, ok := locals[n]; ok {
						return v, "local", true
					}
					if blockNames[n] {
						return "", "", false
					}
					if allExports[n] {
						// an export of some block of the merged namespace: a property read on N, which is
						// still undefined if that block has not run yet (then the name is not used)
						if v, ok := nsExports[n]; ok {
							return v, "merged-export", true
						}
						return "", "", false
					}
					return outer[n], "outer", true
				}
				pickRef := func(not string) (string, string, string, bool) {
					start := r.Intn(len(pool))
					for i := 0; i < len(pool); i++ {
						n := pool[(start+i)%len(pool)]
						if n == not {
							continue
						}
						if v, how, ok := resolve(n); ok {
							return n, v, how, true
						}
					}
					return "", "", "", false
				}
				switch pl.kind {
				case 0, 1:
					n := pl.name
					exported := pl.exported
					val := q(fmt.Sprintf("N%d:%s", blockNo, n))
					init := val
					if r.Bool() {
						if ref, v, how, ok := pickRef(n); ok {
							val, init = v, ref
							p.Stats["ns-init-ref:"+how]++
						}
					}
					if exported {
						fmt.Fprintf(&sb, "  export const %s: string = %s;\n", n, init)
						nsExports[n] = val
						usedInSymbol[n] = true
					} else {
						fmt.Fprintf(&sb, "  const %s = %s;\n", n, init)
					}
					locals[n] = val
				case 2:
					n, v, how, ok := pickRef("")
					if !ok {
						continue
					}
					tag := fmt.Sprintf("ns%d:%s", blockNo, n)
					fmt.Fprintf(&sb, "  p(%s, %s);\n", q(tag), n)
					probe(tag, v)
					p.Stats["ns-probe:"+how]++
				default:
					// exported function reading a block local that is already declared; called at the end
					cands := []string{}
					for n := range locals {
						cands = append(cands, n)
					}
					if len(cands) == 0 {
						continue
					}
					sortStrings(cands)
					n := cands[r.Intn(len(cands))]
					fn := fmt.Sprintf("f%d_%d", blockNo, s)
					fmt.Fprintf(&sb, "  export function %s(): string { return %s; }\n", fn, n)
					usedInSymbol[fn] = true
					fnCalls = append(fnCalls, fmt.Sprintf("p(%s, %s.%s());", q("call:"+fn), nsName, fn))
					callProbes = append(callProbes, [2]string{"call:" + fn, locals[n]})
					p.Stats["ns-function"]++
				}
			}
			sb.WriteString("}\n")
		} else {
			fmt.Fprintf(&sb, "enum %s {\n", nsName)
			next := 0
			haveNext := true
			for _, name := range enumPlans[pi] {
				memberNo++
				kindChoice := r.Intn(5)
				if fk, ok := forcedKind[name]; ok {
					kindChoice = fk
				}
				switch kindChoice {
				case 0:
					if !haveNext {
						fmt.Fprintf(&sb, "  %s = %d,\n", name, memberNo)
						enumMembers[name] = fmt.Sprint(memberNo)
						next, haveNext = memberNo+1, true
					} else {
						fmt.Fprintf(&sb, "  %s,\n", name)
						enumMembers[name] = fmt.Sprint(next)
						next++
					}
					p.Stats["enum-auto"]++
				case 1:
					v := r.Intn(20)
					fmt.Fprintf(&sb, "  %s = %d,\n", name, v)
					enumMembers[name] = fmt.Sprint(v)
					next, haveNext = v+1, true
				case 2:
					fmt.Fprintf(&sb, "  %s = %s,\n", name, q("E:"+name))
					enumMembers[name] = q("E:" + name)
					haveNext = false
				default:
					// bare reference: an earlier enum member of the merged enum, else the module scope. A name
					// exported by the merged NAMESPACE is not in scope here.
					ref := pool[r.Intn(len(pool))]
					if len(enumOrder) > 0 && r.Bool() {
						ref = enumOrder[r.Intn(len(enumOrder))]
					}
					if _, forced := forcedKind[name]; forced {
						for _, cand := range enumOrder { // an earlier member with a numeric value
							if v := enumMembers[cand]; cand != nsName && !strings.HasPrefix(v, "\"") {
								ref = cand
								break
							}
						}
					}
					if ref == name || ref == nsName {
						// (a bare reference to the member that is named like the enum itself is not generated: TypeScript
						// resolves it to the member, esbuild to the enum object — recorded as known finding c06-self-named-member-reference)
						continue
					}
					if _, ok := enumMembers[ref]; !ok && allEnumNames[ref] {
						// a member declared further down: statically an enum member, undefined at run time
						fmt.Fprintf(&sb, "  %s = %d,\n", name, memberNo)
						enumMembers[name] = fmt.Sprint(memberNo)
						next, haveNext = memberNo+1, true
					} else if v, ok := enumMembers[ref]; ok {
						fmt.Fprintf(&sb, "  %s = %s,\n", name, ref)
						enumMembers[name] = v
						if strings.HasPrefix(v, "\"") {
							haveNext = false
						} else {
							var iv int
							fmt.Sscan(v, &iv)
							next, haveNext = iv+1, true
						}
						p.Stats["enum-init-ref:member"]++
					} else {
						fmt.Fprintf(&sb, "  %s = %s,\n", name, ref)
						enumMembers[name] = outer[ref]
						haveNext = false
						if allExports[ref] {
							p.Stats["enum-init-ref:outer-despite-namespace-export"]++
						} else {
							p.Stats["enum-init-ref:outer"]++
						}
					}
				}
				if _, ok := enumMembers[name]; ok {
					enumOrder = append(enumOrder, name)
				}
			}
			sb.WriteString("}\n")
		}
	}
	// read everything back from module scope
	names := []string{}
	for n := range nsExports {
		names = append(names, n)
	}
	sortStrings(names)
	for _, n := range names {
		fmt.Fprintf(&sb, "p(%s, %s.%s);\n", q("read:N."+n), nsName, n)
		probe("read:N."+n, nsExports[n])
	}
	for _, n := range enumOrder {
		fmt.Fprintf(&sb, "p(%s, %s.%s);\n", q("enum:N."+n), nsName, n)
		probe("enum:N."+n, enumMembers[n])
	}
	// reverse mapping of the last numeric member with each value
	lastFor := map[string]string{}
	for _, n := range enumOrder {
		if v := enumMembers[n]; !strings.HasPrefix(v, "\"") {
			lastFor[v] = n
		}
	}
	vals := []string{}
	for v := range lastFor {
		vals = append(vals, v)
	}
	sortStrings(vals)
	for _, v := range vals {
		fmt.Fprintf(&sb, "p(%s, (%s as any)[%s]);\n", q("rev:"+v), nsName, v)
		probe("rev:"+v, q(lastFor[v]))
	}
	for i, c := range fnCalls {
		sb.WriteString(c + "\n")
		probe(callProbes[i][0], callProbes[i][1])
	}

	// parameter properties
	if r.Chance(1, 2) {
		sb.WriteString("class PP { y = 1; constructor(public x: string, private w = p(\"pp:default\", 2), readonly z?: number) { p(\"pp:body\", this.x, (this as any).w, \"z\" in this); } }\n")
		sb.WriteString("class PQ extends PP { constructor(protected override x: string) { p(\"pq:before-super\"); super(x + \"!\"); p(\"pq:after\", this.x); } }\n")
		sb.WriteString("const pp = new PQ(\"v\");\np(\"pp:keys\", Object.keys(pp).sort().join());\n")
		probe("pq:before-super", "")
		probe("pp:default", "2")
		p.Stats["parameter-properties"]++
		probe("pp:body", q("v!")+" 2 true")
		probe("pq:after", q("v"))
		probe("pp:keys", q("w,x,y,z"))
	}
	// a derived class that calls super() itself, nested in the body of a derived class whose own super() call
	// esbuild has to rewrite (parameter property / field initialiser): each super() reaches its own base
	if r.Chance(1, 2) {
		sb.WriteString("class NB { constructor(public tag: string) { p(\"nb:ctor\", tag); } }\n")
		inner := "class Inner extends NB { constructor() { super(\"inner\"); p(\"inner:after\", this.tag); } }"
		outerMember := []string{"constructor(public o: string) { super(\"base:\" + o); p(\"no:after\", this.o, this.tag); }", "f = p(\"no:field\", 1);\n  constructor(o: string) { super(\"base:\" + o); p(\"no:after\", o, this.tag); }"}[r.Intn(2)]
		fieldFirst := strings.HasPrefix(outerMember, "f =")
		where := r.Intn(3)
		switch where {
		case 0: // in a method
			sb.WriteString("class NO extends NB {\n  " + outerMember + "\n  make() { " + inner + " return new Inner(); }\n}\n")
		case 1: // in the constructor, after super()
			om := strings.Replace(outerMember, "this.tag); }", "this.tag); "+inner+" (this as any).made = new Inner(); }", 1)
			sb.WriteString("class NO extends NB {\n  " + om + "\n  make() { return (this as any).made; }\n}\n")
		default: // a class expression in a static method
			sb.WriteString("class NO extends NB {\n  " + outerMember + "\n  static mk() { return new (class extends NB { constructor() { super(\"inner\"); p(\"inner:after\", this.tag); } })(); }\n  make() { return NO.mk(); }\n}\n")
		}
		sb.WriteString("const no = new NO(\"q\");\np(\"nested\", no.make().tag, no.tag);\n")
		probe("nb:ctor", q("base:q"))
		if fieldFirst {
			probe("no:field", "1")
		}
		probe("no:after", q("q")+" "+q("base:q"))
		probe("nb:ctor", q("inner"))
		probe("inner:after", q("inner"))
		probe("nested", q("inner")+" "+q("base:q"))
		p.Stats["nested-derived-class-in-shimmed-class"]++
	}
	p.Files["main.ts"] = sb.String()
	p.Expected = exp
	return p
}

func indexOf(xs []string, x string) int {
	for i, y := range xs {
		if y == x {
			return i
		}
	}
	return 0
}

func sortStrings(xs []string) {
	for i := 1; i < len(xs); i++ {
		for j := i; j > 0 && xs[j] < xs[j-1]; j-- {
			xs[j], xs[j-1] = xs[j-1], xs[j]
		}
	}
}
