package gen

import (
	"fmt"
	"strings"
)

// ScopeGen generates sloppy-mode scripts that are all about name binding (C15): deeply nested scopes of every
// kind that reuse a small pool of names (natural shadowing), closures reading outer variables, `var` hoisting
// out of blocks, functions in blocks, parameter scopes whose defaults read outer names that the body
// re-declares, named function/class expressions (self bindings), catch parameters, loop scopes, labels that
// share names with variables, private names, direct eval and `with` (names must then stay), and — the point
// of the exercise — free global identifiers whose names are exactly the short names a minifier likes to hand
// out (a, b, e, t, n, r, i, o, s, _, $, aa ...). The runner defines those globals; if renaming ever captures one
// of them, or makes two live symbols share a name, the probe trace changes.

type ScopeGen struct {
	Strict bool // module code: no `with`, globals defined through globalThis
	r      *Rand
	n      int
	Stats  map[string]int
	budget int
}

var scopeNames = []string{"alpha", "beta", "gamma", "delta", "omega", "value", "index", "item"}
var freeGlobals = []string{"a", "b", "c", "d", "e", "f", "g", "h", "i", "j", "k", "l", "m", "n", "o", "q", "r", "s", "t", "u", "v", "w", "x", "y", "z",
	"A", "B", "C", "D", "E", "F", "G", "H", "I", "J", "K", "L", "M", "N", "O", "P", "Q", "R", "S", "T", "U", "V", "W", "X", "Y", "Z", "_", "$", "aa", "ab", "ba", "ea", "te", "x2", "alpha2", "beta2"}

func NewScopeGen(r *Rand) *ScopeGen { return &ScopeGen{r: r, Stats: map[string]int{}, budget: 60} }

func (g *ScopeGen) stat(k string) { g.Stats[k]++ }
func (g *ScopeGen) id() int       { g.n++; return g.n }

// GlobalsPrologue defines every free global the programs may read (as properties, never as declarations)
func GlobalsPrologue() string {
	var sb strings.Builder
	for _, n := range freeGlobals {
		// assignment to an undeclared identifier (sloppy mode): creates the global AND makes the name a free
		// identifier of the file, which is what tells esbuild to keep its hands off it
		fmt.Fprintf(&sb, "%s = \"G:%s\";\n", n, n)
	}
	return sb.String()
}

type scopeEnv struct {
	visible []string // declared names visible here (innermost last)
	inFn    bool
	labels  []string
	depth   int
	noEval  bool
	strict  bool     // inside a class body: no `with`
	fnBody  bool     // this block is the body of a function (not a nested block)
	fnNames []string // function declarations of enclosing blocks of the same function: V8 and the specification
	// disagree on whether a same-named function in a nested block is still hoisted (Annex B.3.3.1 says no)
	catches []string // catch parameters of the enclosing function (see known finding c15-block-function-named-like-catch-parameter)
	// let/const/class/for-let names of the ENCLOSING blocks of the same function: a function declaration of that
	// name in a nested block is not hoisted (Annex B.3.3.1), which esbuild's output keeps only as long as the
	// enclosing declaration keeps its name (known finding c15-pinned-block-function-enclosing-let-renamed)
	lexicals []string
}

func (e scopeEnv) with(names ...string) scopeEnv {
	v := append(append([]string{}, e.visible...), names...)
	return scopeEnv{visible: v, inFn: e.inFn, labels: e.labels, depth: e.depth + 1, noEval: e.noEval, strict: e.strict, catches: e.catches, fnNames: e.fnNames, lexicals: e.lexicals}
}

func (g *ScopeGen) name() string { return scopeNames[g.r.Intn(len(scopeNames))] }
func (g *ScopeGen) free() string { return freeGlobals[g.r.Intn(len(freeGlobals))] }

// reads: a probe reading a few visible names and a few free globals
func (g *ScopeGen) probe(e scopeEnv, ind string) string {
	args := []string{}
	for i, k := 0, 1+g.r.Intn(3); i < k; i++ {
		if len(e.visible) > 0 && g.r.Chance(2, 3) {
			args = append(args, e.visible[g.r.Intn(len(e.visible))])
		} else {
			args = append(args, g.free())
			g.stat("read:free-global")
		}
	}
	return fmt.Sprintf("%sp(\"t%d\", %s);\n", ind, g.id(), strings.Join(args, ", "))
}

func (g *ScopeGen) block(e scopeEnv, ind string, taken ...string) string {
	if g.budget <= 0 || e.depth > 6 {
		return g.probe(e, ind)
	}
	g.budget--
	var sb strings.Builder
	declared := map[string]bool{}
	for _, t := range taken {
		declared[t] = true // parameters / catch binding: a lexical declaration of the same name is an error
	}
	// Lexical declarations (let/const/class) shadow for the WHOLE block and are in their temporal dead zone
	// before the declaration: the block decides up front which names it will declare lexically, hides them
	// from the reads (its own and those of nested scopes) and reveals each one at its declaration.
	planned := []string{}
	plannedSet := map[string]bool{}
	for i, k := 0, g.r.Intn(4); i < k; i++ {
		n := g.name()
		if !declared[n] && !plannedSet[n] {
			planned = append(planned, n)
			plannedSet[n] = true
		}
	}
	isBody := e.fnBody
	// Strict code next to a direct eval: esbuild leaves function declarations in nested blocks as they are
	// (documented "give up"), and the output formats cjs/iife are sloppy, where such a declaration is hoisted.
	noBlockFn := g.Strict && !e.noEval && !isBody
	env := e.with()
	env.lexicals = append(append([]string{}, e.lexicals...), planned...)
	{
		vis := []string{}
		for _, v := range env.visible {
			if !plannedSet[v] {
				vis = append(vis, v)
			}
		}
		env.visible = vis
	}
	popPlanned := func() (string, bool) {
		if len(planned) == 0 {
			return "", false
		}
		n := planned[0]
		planned = planned[1:]
		declared[n] = true
		return n, true
	}
	letDecl := func(env *scopeEnv, kind string) {
		n, ok := popPlanned()
		if !ok {
			return
		}
		fmt.Fprintf(&sb, "%s%s %s = \"%s@%d\";\n", ind, kind, n, n, g.id())
		env.visible = append(env.visible, n)
	}
	k := 2 + g.r.Intn(4)
	for s := 0; s < k; s++ {
		switch g.r.Intn(20) {
		case 0, 1:
			letDecl(&env, pick(g.r, "let", "const"))
			g.stat("decl:let-const")
		case 2:
			// var: hoists to the function; legal to repeat, but not next to a let of the same name
			n := g.name() + "V" // own pool: a var may not hoist through a let of the same name
			if !declared[n] && e.inFn {
				fmt.Fprintf(&sb, "%svar %s = \"%s@%d\";\n", ind, n, n, g.id())
				env.visible = append(env.visible, n)
				g.stat("decl:var")
			}
		case 3, 4:
			sb.WriteString(g.probe(env, ind))
		case 5:
			g.stat("scope:block")
			sb.WriteString(ind + "{\n" + g.block(env, ind+"  ") + ind + "}\n")
		case 6, 7:
			if noBlockFn {
				continue
			}
			g.stat("scope:function")
			fn := g.name()
			if declared[fn] || plannedSet[fn] {
				continue
			}
			isCatch := false
			for _, c := range env.catches {
				if c == fn {
					isCatch = true
				}
			}
			for _, c := range env.fnNames {
				if c == fn {
					isCatch = true
				}
			}
			for _, c := range e.lexicals {
				if c == fn {
					isCatch = true
				}
			}
			if isCatch {
				continue
			}
			env.fnNames = append(append([]string{}, env.fnNames...), fn)
			declared[fn] = true
			p1, p2 := g.name(), g.name()
			if p2 == p1 {
				p2 = p1 + "B"
			}
			inner := env.with(fn, p1, p2)
			inner.inFn = true
			inner.fnBody = true
			inner.lexicals = nil
			inner.labels = nil
			inner.catches = nil
			inner.fnNames = nil
			dflt := ""
			if len(env.visible) > 0 && g.r.Bool() {
				// parameter default reads an OUTER name that the body may re-declare with var
				if d := env.visible[g.r.Intn(len(env.visible))]; d != p1 && d != p2 {
					dflt = " = " + d // (a default naming its own parameter would sit in the temporal dead zone)
					g.stat("scope:param-default-reads-outer")
				}
			}
			fmt.Fprintf(&sb, "%sfunction %s(%s, %s%s) {\n%s%s}\n", ind, fn, p1, p2, dflt, g.block(inner, ind+"  ", p1, p2), ind)
			fmt.Fprintf(&sb, "%s%s(\"arg%d\");\n", ind, fn, g.id())
			env.visible = append(env.visible, fn)
		case 8:
			g.stat("scope:named-function-expression")
			self := g.name()
			inner := env.with(self)
			inner.inFn = true
			inner.fnBody = true
			inner.lexicals = nil
			inner.labels = nil
			fmt.Fprintf(&sb, "%s(function %s() {\n%s  p(\"self%d\", typeof %s);\n%s%s})();\n", ind, self, ind, g.id(), self, g.block(inner, ind+"  "), ind)
		case 9:
			g.stat("scope:arrow")
			p1 := g.name()
			inner := env.with(p1)
			inner.inFn = true
			inner.fnBody = true
			inner.lexicals = nil
			inner.labels = nil
			fmt.Fprintf(&sb, "%s((%s) => {\n%s%s})(\"arrow%d\");\n", ind, p1, g.block(inner, ind+"  ", p1), ind, g.id())
		case 10:
			g.stat("scope:catch")
			c := g.name()
			inner := env.with(c)
			inner.catches = append(append([]string{}, env.catches...), c)
			fmt.Fprintf(&sb, "%stry { throw \"thrown%d\"; } catch (%s) {\n%s%s}\n", ind, g.id(), c, g.block(inner, ind+"  ", c), ind)
		case 11:
			g.stat("scope:for-let")
			v := g.name()
			inner := env.with(v)
			inner.lexicals = append(append([]string{}, env.lexicals...), v)
			fmt.Fprintf(&sb, "%sfor (let %s = 0; %s < 2; %s++) {\n%s%s}\n", ind, v, v, v, g.block(inner, ind+"  "), ind)
		case 12:
			g.stat("scope:class")
			cn, okc := popPlanned()
			if !okc {
				continue
			}
			priv := pick(g.r, "x", "alpha", "a", "value")
			inner := env.with(cn)
			inner.inFn = true
			inner.fnBody = true
			inner.lexicals = nil
			inner.labels = nil
			inner.strict = true
			fmt.Fprintf(&sb, "%sclass %s {\n%s  #%s = \"priv@%d\";\n%s  static #%ss = 1;\n%s  read() {\n%s%s    return this.#%s;\n%s  }\n%s}\n", ind, cn, ind, priv, g.id(), ind, priv, ind, g.block(inner, ind+"    "), ind, priv, ind, ind)
			fmt.Fprintf(&sb, "%sp(\"class%d\", new %s().read());\n", ind, g.id(), cn)
			env.visible = append(env.visible, cn)
		case 13:
			g.stat("scope:label")
			l := g.name() // a label may share its name with a variable
			dupLabel := false
			for _, x := range env.labels {
				if x == l {
					dupLabel = true
				}
			}
			if dupLabel {
				continue
			}
			inner := env
			inner.labels = append(append([]string{}, env.labels...), l)
			li := g.id()
			body := g.block(inner.with(), ind+"  ")
			fmt.Fprintf(&sb, "%s%s: for (var li%d = 0; li%d < 2; li%d++) {\n%s%s  if (li%d) break %s; else continue %s;\n%s}\n", ind, l, li, li, li, body, ind, li, l, l, ind)
		case 14:
			if env.noEval || !e.inFn {
				continue
			}
			g.stat("scope:direct-eval")
			if len(env.visible) > 0 {
				n := env.visible[g.r.Intn(len(env.visible))]
				fmt.Fprintf(&sb, "%sp(\"eval%d\", eval(\"typeof %s\"), eval(%q));\n", ind, g.id(), n, n)
			}
		case 15:
			if !e.inFn || e.strict || g.Strict {
				continue
			}
			g.stat("scope:with")
			n := g.name()
			fmt.Fprintf(&sb, "%swith ({ %s: \"with@%d\" }) {\n%s  p(\"with%d\", %s, %s);\n%s}\n", ind, n, g.id(), ind, g.id(), n, g.free(), ind)
		case 16:
			if g.Strict && !e.noEval {
				continue
			}
			g.stat("scope:function-in-block")
			fn := g.name() + "Fn"
			fmt.Fprintf(&sb, "%sif (true) {\n%s  function %s() { return \"%s@%d\"; }\n%s  p(\"fib%d\", %s());\n%s}\n", ind, ind, fn, fn, g.id(), ind, g.id(), fn, ind)
			if e.inFn || true {
				fmt.Fprintf(&sb, "%sp(\"fib-after%d\", typeof %s);\n", ind, g.id(), fn)
			}
		case 17:
			g.stat("scope:closure-counter")
			c, okc := popPlanned()
			if !okc {
				continue
			}
			ci := g.id()
			fmt.Fprintf(&sb, "%slet %s = 0;\n%sconst inc%d = () => ++%s;\n%sinc%d(); p(\"ctr%d\", %s, inc%d());\n", ind, c, ind, ci, c, ind, ci, ci, c, ci)
			env.visible = append(env.visible, c)
		case 18:
			g.stat("scope:typeof-free")
			ti := g.id()
			fmt.Fprintf(&sb, "%sp(\"tf%d\", typeof %s, typeof notDefined%d);\n", ind, ti, g.free(), ti)
		default:
			g.stat("scope:destructuring-params")
			p1, p2 := g.name(), g.name()
			if p1 == p2 {
				p2 += "C"
			}
			inner := env.with(p1, p2)
			inner.inFn = true
			inner.fnBody = true
			inner.lexicals = nil
			inner.labels = nil
			fmt.Fprintf(&sb, "%s(function ({ k: %s }, [%s] = [%s]) {\n%s%s})({ k: \"dk%d\" });\n", ind, p1, p2, g.free(), g.block(inner, ind+"  ", p1, p2), ind, g.id())
		}
	}
	return sb.String()
}

// Module: the same kind of program as strict module code, for bundling: main.js plus a lib.js that declares the
// same top-level names (the bundler has to keep the two files' symbols apart) and is imported by main.js.
func (g *ScopeGen) Module() map[string]string {
	g.Strict = true
	var sb strings.Builder
	sb.WriteString("import { libValue, libRead } from \"./lib.js\";\n")
	for _, n := range freeGlobals {
		fmt.Fprintf(&sb, "globalThis[%q] = \"G:%s\";\n", n, n)
	}
	// every global is also READ as a bare identifier somewhere, which is what reserves its name
	sb.WriteString("p(\"globals\", typeof " + strings.Join(freeGlobals, ", typeof ") + ");\n")
	nTop := 1 + g.r.Intn(3)
	for i := 0; i < nTop; i++ {
		env := scopeEnv{inFn: true, noEval: g.r.Chance(1, 3), fnBody: true}
		fmt.Fprintf(&sb, "(function top%d() {\n%s})();\n", i, g.block(env, "  "))
	}
	env := scopeEnv{noEval: true, fnBody: true}
	sb.WriteString(g.block(env, ""))
	sb.WriteString("p(\"lib\", libValue, libRead());\n")
	var lb strings.Builder
	for i, n := range scopeNames {
		kind := []string{"let", "const", "var"}[i%3]
		fmt.Fprintf(&lb, "%s %s = \"lib:%s\";\n", kind, n, n)
	}
	// direct eval may only count on the locals of the function it sits in: top-level names of a bundled ES
	// module are renamed even then (documented). The locals deliberately carry names that are also top-level
	// names of both files.
	lb.WriteString("function secret() { let alpha = \"lib:local-alpha\"; const item = \"lib:local-item\"; return eval(\"alpha + item\"); }\n")
	lb.WriteString("export const libValue = [" + strings.Join(scopeNames, ", ") + "].join();\nexport function libRead() { return secret() + gamma; }\n")
	return map[string]string{"main.js": sb.String(), "lib.js": lb.String(), "package.json": "{\"type\": \"module\"}\n"}
}

// Program: a sloppy script; everything lives inside one function so that direct eval / with can be used and
// top-level names are not pinned.
func (g *ScopeGen) Program() string {
	var sb strings.Builder
	sb.WriteString(GlobalsPrologue())
	nTop := 1 + g.r.Intn(3)
	for i := 0; i < nTop; i++ {
		env := scopeEnv{inFn: true, noEval: g.r.Chance(1, 2)}
		fmt.Fprintf(&sb, "(function top%d() {\n%s})();\n", i, g.block(env, "  "))
	}
	// top-level declarations too (pinned in scripts, renamed in bundles/ESM)
	env := scopeEnv{noEval: true}
	sb.WriteString(g.block(env, ""))
	return sb.String()
}
