package main

import (
	"fmt"
	"os"
	"path/filepath"
	"time"

	"github.com/evanw/esbuild/pkg/api"
)

func build(delayA, delayB time.Duration) string {
	mk := func(name string, d time.Duration) api.Plugin {
		return api.Plugin{Name: name, Setup: func(b api.PluginBuild) {
			b.OnStart(func() (api.OnStartResult, error) {
				time.Sleep(d)
				return api.OnStartResult{Warnings: []api.Message{{Text: "deprecated option"}}}, nil
			})
		}}
	}
	r := api.Build(api.BuildOptions{
		Stdin:   &api.StdinOptions{Contents: "console.log(1)"},
		Plugins: []api.Plugin{mk("plugin-a", delayA), mk("plugin-b", delayB)},
		Write:   false, LogLevel: api.LogLevelSilent,
	})
	out := ""
	for _, w := range r.Warnings {
		out += w.PluginName + ":" + w.Text + " | "
	}
	return out
}

// F2: a file that two modules import is loaded once; the error/warning about LOADING it is attributed to the import
// statement of whichever importer was scanned first — the order in which parse results arrive.
func buildShared(slow string) string {
	dir, _ := os.MkdirTemp("", "pwprobe")
	defer os.RemoveAll(dir)
	write := func(name, text string) { os.WriteFile(filepath.Join(dir, name), []byte(text), 0644) }
	write("entry.js", "import './a.js'\nimport './b.js'\n")
	write("a.js", "import './data.xyz'\n")
	write("b.js", "import './data.xyz'\n")
	write("data.xyz", "?")
	delay := api.Plugin{Name: "delay", Setup: func(b api.PluginBuild) {
		b.OnLoad(api.OnLoadOptions{Filter: `[ab]\.js$`}, func(a api.OnLoadArgs) (api.OnLoadResult, error) {
			if filepath.Base(a.Path) == slow {
				time.Sleep(50 * time.Millisecond)
			}
			return api.OnLoadResult{}, nil
		})
	}}
	r := api.Build(api.BuildOptions{AbsWorkingDir: dir, EntryPoints: []string{"entry.js"}, Bundle: true, Outdir: "out",
		Plugins: []api.Plugin{delay}, Write: false, LogLevel: api.LogLevelSilent})
	out := ""
	for _, m := range r.Errors {
		out += m.Text
		if m.Location != nil {
			out += fmt.Sprintf(" @ %s:%d:%d", m.Location.File, m.Location.Line, m.Location.Column)
		}
		out += " | "
	}
	return out
}

func main() {
	if len(os.Args) > 1 && os.Args[1] == "shared" {
		a, b := buildShared("a.js"), buildShared("b.js")
		fmt.Println("a.js slow:", a)
		fmt.Println("b.js slow:", b)
		if a != b {
			fmt.Println("DIFFERENT diagnostics for the same build")
			os.Exit(1)
		}
		return
	}
	a := build(0, 30*time.Millisecond)
	b := build(30*time.Millisecond, 0)
	fmt.Println("run 1:", a)
	fmt.Println("run 2:", b)
	if a != b {
		fmt.Println("DIFFERENT diagnostics order for the same build")
		os.Exit(1)
	}
}
