package main

// Kernel `smchunk` (property C07): assembling the source map of one output chunk.
//
//	smchunk full <exclude><asciiOnly> <sourceRoot> <chunkAbsDir> <file>|… <result>|…
//	    real sourcemap.ChunkBuilder WITH the input source map of each file (Find, remapping, names table),
//	    real bundler.computeDataForSourceMapsInParallel, real linker.generateSourceMapForChunk (verif exports);
//	    input source maps are written as JSON and read by the real js_parser.ParseSourceMap (or built directly,
//	    for the malformed stream)
//	smchunk src <chunkAbsDir> <source>
//	    the rewriting of one `sources` entry (real generateSourceMapForChunk on a one-file chunk)
//
// The harness itself computes (trusted): how printed text splits into line breaks and columns (scanOutput of
// k_smjoin.go), line/column of a byte offset in an ASCII file, the duplicate test at the top of AddSourceMapping,
// and the JSON decoding of the result (encoding/json).

import (
	"encoding/json"
	"fmt"
	"strings"

	"github.com/evanw/esbuild/internal/ast"
	"github.com/evanw/esbuild/internal/bundler"
	"github.com/evanw/esbuild/internal/config"
	"github.com/evanw/esbuild/internal/fs"
	"github.com/evanw/esbuild/internal/graph"
	"github.com/evanw/esbuild/internal/helpers"
	"github.com/evanw/esbuild/internal/js_parser"
	"github.com/evanw/esbuild/internal/linker"
	"github.com/evanw/esbuild/internal/logger"
	"github.com/evanw/esbuild/internal/sourcemap"
	"github.com/evanw/esbuild/verifharness/gen"
)

func scHexList(xs [][]byte) string {
	if len(xs) == 0 {
		return "."
	}
	parts := make([]string, len(xs))
	for i, x := range xs {
		parts[i] = hexBytes(x)
	}
	return strings.Join(parts, ";")
}

func scHexStrs(xs []string) string {
	b := make([][]byte, len(xs))
	for i, x := range xs {
		b[i] = []byte(x)
	}
	return scHexList(b)
}

// field form of a list: elements joined with ';', the empty list is the empty field
func scField(xs []string) string { return strings.Join(xs, ";") }

type scFile struct {
	input    graph.InputFile
	contents string
	opText   string
}

var scSafeSegs = []string{"p", "src", "sub", "a.js", "b.ts", "out", "lib", "x-y_z.mjs", "node_modules", "pkg", "q", "A1", "index.js", "c.d.ts"}

func scSafePath(r *gen.Rand, messy bool) string {
	var sb strings.Builder
	for n := 1 + r.Intn(4); n > 0; n-- {
		sb.WriteByte('/')
		if messy && r.Chance(1, 5) {
			sb.WriteString([]string{"..", ".", "", "..."}[r.Intn(4)])
		} else {
			sb.WriteString(scSafeSegs[r.Intn(len(scSafeSegs))])
		}
	}
	return sb.String()
}

// a `sources` entry of an input source map (only strings inside the modelled fragment of the URL handling)
func scInputSource(r *gen.Rand, e *emitter) string {
	switch r.Intn(16) {
	case 0, 1, 5, 6:
		e.stat("source-file-url")
		return "file://" + scSafePath(r, true)
	case 2:
		e.stat("source-other-scheme")
		return []string{"webpack://app/./src/o.ts", "https://example.com/a b.js", "ns:x/y.js", "fil:/x", "data:text/plain,hi"}[r.Intn(5)]
	case 3, 7, 8:
		e.stat("source-absolute-path")
		return scSafePath(r, false)
	case 4:
		e.stat("source-odd-text")
		return []string{"", "a b.ts", "o%20p.ts", "é.ts", "../up/../o.ts", "%zz", "x?y#z", "\\win\\p.ts"}[r.Intn(8)]
	default:
		e.stat("source-relative-path")
		return []string{"orig.ts", "../lib/o.ts", "src/deep/m.tsx", "./n.js"}[r.Intn(4)] + []string{"", "", "2"}[r.Intn(3)]
	}
}

func scContentText(r *gen.Rand) string {
	return []string{"let a = 1;\n", "", "café  ;", "x\ty\\\"z", "\U0001F600", "plain ascii ~", "\x7f\x01"}[r.Intn(7)]
}

func scEncodeMappings(ms []sourcemap.Mapping) string {
	var out []byte
	prev := sourcemap.Mapping{}
	prevName := 0
	line := int32(0)
	first := true
	for _, m := range ms {
		for line < m.GeneratedLine {
			out = append(out, ';')
			line++
			prev.GeneratedColumn = 0
			first = true
		}
		if !first {
			out = append(out, ',')
		}
		first = false
		out = sourcemap.VerifEncodeVLQ(out, int(m.GeneratedColumn-prev.GeneratedColumn))
		out = sourcemap.VerifEncodeVLQ(out, int(m.SourceIndex-prev.SourceIndex))
		out = sourcemap.VerifEncodeVLQ(out, int(m.OriginalLine-prev.OriginalLine))
		out = sourcemap.VerifEncodeVLQ(out, int(m.OriginalColumn-prev.OriginalColumn))
		if m.OriginalName.IsValid() {
			out = sourcemap.VerifEncodeVLQ(out, int(m.OriginalName.GetIndex())-prevName)
			prevName = int(m.OriginalName.GetIndex())
		}
		prev = m
	}
	return string(out)
}

// an input source map for a file whose text has `lines` lines
func scGenInputMap(r *gen.Rand, e *emitter, lines int) *sourcemap.SourceMap {
	nSources := 1 + r.Intn(3)
	if r.Chance(1, 12) {
		nSources = 0
	}
	sources := make([]string, nSources)
	for i := range sources {
		sources[i] = scInputSource(r, e)
	}
	names := []string{"alpha", "b", "c$d", "", "né"}[:r.Intn(6)]
	direct := r.Chance(1, 3)
	var ms []sourcemap.Mapping
	gl, gc := 0, 0
	for n := r.Intn(12); n > 0; n-- {
		if r.Chance(1, 3) {
			gl += 1 + r.Intn(2)
			gc = 0
		}
		gc += r.Intn(4)
		if r.Chance(1, 10) && gl > 0 { // out of order (ParseSourceMap sorts; a direct map stays unsorted)
			gl--
			e.stat("inputmap-unsorted-mapping")
		}
		si := 0
		if nSources > 0 {
			si = r.Intn(nSources)
		}
		if direct && r.Chance(1, 15) {
			si = nSources + r.Intn(2)
			e.stat("inputmap-source-index-out-of-range")
		}
		m := sourcemap.Mapping{GeneratedLine: int32(gl % (lines + 1)), GeneratedColumn: int32(gc), SourceIndex: int32(si),
			OriginalLine: int32(r.Intn(50)), OriginalColumn: int32(smCoord(r) & 0xFFFF)}
		if len(names) > 0 && r.Chance(1, 2) {
			m.OriginalName = ast.MakeIndex32(uint32(r.Intn(len(names))))
		} else if direct && r.Chance(1, 25) {
			m.OriginalName = ast.MakeIndex32(uint32(len(names) + r.Intn(2)))
			e.stat("inputmap-name-index-out-of-range")
		}
		ms = append(ms, m)
	}
	if direct {
		e.stat("inputmap-built-directly")
		sm := &sourcemap.SourceMap{Sources: sources, Names: names, Mappings: ms}
		for n := r.Intn(nSources + 2); n > 0; n-- {
			var sc sourcemap.SourceContent
			switch r.Intn(4) {
			case 0: // nothing at all
			case 1: // found on the file system: only the value
				sc.Value = helpers.StringToUTF16(scContentText(r))
			default:
				t := scContentText(r)
				sc.Quoted = string(helpers.QuoteForJSON(t, false))
				sc.Value = helpers.StringToUTF16(t)
			}
			sm.SourcesContent = append(sm.SourcesContent, sc)
		}
		return sm
	}
	// as JSON text through the real parser
	obj := map[string]interface{}{"version": 3, "sources": sources, "names": names, "mappings": ""}
	sorted := append([]sourcemap.Mapping{}, ms...)
	// the encoder needs non-decreasing lines: order by line only (stable), columns may still go backwards
	for i := 1; i < len(sorted); i++ {
		for j := i; j > 0 && sorted[j-1].GeneratedLine > sorted[j].GeneratedLine; j-- {
			sorted[j-1], sorted[j] = sorted[j], sorted[j-1]
		}
	}
	obj["mappings"] = scEncodeMappings(sorted)
	switch r.Intn(4) {
	case 0:
		e.stat("inputmap-json-no-sourcesContent")
	default:
		var sc []interface{}
		for n := r.Intn(nSources + 2); n > 0; n-- {
			if r.Chance(1, 4) {
				sc = append(sc, nil)
			} else {
				sc = append(sc, scContentText(r))
			}
		}
		if sc == nil {
			sc = []interface{}{}
		}
		obj["sourcesContent"] = sc
	}
	text, _ := json.Marshal(obj)
	log := logger.NewDeferLog(logger.DeferLogAll, nil)
	sm := js_parser.ParseSourceMap(log, logger.Source{Contents: string(text), KeyPath: logger.Path{Text: "/m.map", Namespace: "file"}})
	if sm == nil {
		e.stat("inputmap-json-rejected")
		return nil
	}
	e.stat("inputmap-json-parsed")
	return sm
}

func scGenFile(r *gen.Rand, e *emitter, asciiOnly bool) scFile {
	var src strings.Builder
	for n := 1 + r.Intn(6); n > 0; n-- {
		for k := r.Intn(9); k > 0; k-- {
			src.WriteByte("abc xyz;(){}"[r.Intn(12)])
		}
		if n > 1 || r.Bool() {
			src.WriteByte('\n')
		}
	}
	contents := src.String()
	var path logger.Path
	switch r.Intn(6) {
	case 0:
		e.stat("file-other-namespace")
		path = logger.Path{Namespace: []string{"virt", "https", "ns-x"}[r.Intn(3)],
			Text: []string{"//example.com/f.js", "mod/x", "a b", "file:x"}[r.Intn(4)], IgnoredSuffix: []string{"", "?q=1", "#frag"}[r.Intn(3)]}
	case 1:
		e.stat("file-empty-namespace")
		path = logger.Path{Text: []string{"<stdin>", "plain", "x:y/z"}[r.Intn(3)], IgnoredSuffix: []string{"", "?v"}[r.Intn(2)]}
	default:
		e.stat("file-file-namespace")
		path = logger.Path{Namespace: "file", Text: scSafePath(r, false), IgnoredSuffix: []string{"", "", "?ign"}[r.Intn(3)]}
	}
	f := scFile{contents: contents}
	f.input = graph.InputFile{Source: logger.Source{KeyPath: path, Contents: contents}, Loader: config.LoaderJS}
	if r.Chance(1, 2) {
		f.input.InputSourceMap = scGenInputMap(r, e, strings.Count(contents, "\n"))
	}
	hasMap, sources, names, mappings, sc := "0", "", "", "", ""
	if sm := f.input.InputSourceMap; sm != nil {
		e.stat(fmt.Sprintf("file-input-map-%d-sources", len(sm.Sources)))
		hasMap = "1"
		var ss, ns, mm, cc []string
		for _, s := range sm.Sources {
			ss = append(ss, hexBytes([]byte(s)))
		}
		for _, s := range sm.Names {
			ns = append(ns, hexBytes([]byte(s)))
		}
		for _, m := range sm.Mappings {
			nm := "-"
			if m.OriginalName.IsValid() {
				nm = fmt.Sprintf("%d", m.OriginalName.GetIndex())
			}
			mm = append(mm, fmt.Sprintf("%d:%d:%d:%d:%d:%s", m.GeneratedLine, m.GeneratedColumn, m.SourceIndex, m.OriginalLine, m.OriginalColumn, nm))
		}
		for _, c := range sm.SourcesContent {
			re := []byte{}
			if c.Value != nil {
				re = helpers.QuoteForJSON(helpers.UTF16ToString(c.Value), asciiOnly)
			}
			cc = append(cc, fmt.Sprintf("%s:%d:%s", hexBytes([]byte(c.Quoted)), b2i(c.Value != nil), hexBytes(re)))
		}
		sources, names, mappings, sc = scField(ss), scField(ns), scField(mm), scField(cc)
	} else {
		e.stat("file-no-input-map")
	}
	f.opText = fmt.Sprintf("%s/%s/%s/%s/%s/%s/%s/%s/%s", hexBytes([]byte(path.Namespace)), hexBytes([]byte(path.Text)),
		hexBytes([]byte(path.IgnoredSuffix)), hexBytes(helpers.QuoteForJSON(contents, asciiOnly)), hasMap, sources, names, mappings, sc)
	return f
}

// the real ChunkBuilder on one file; the events are what the model is told
func scGenChunk(r *gen.Rand, e *emitter, f *scFile, tables []sourcemap.LineOffsetTable, asciiOnly bool, evOut *[]string) sourcemap.Chunk {
	contents := f.contents
	lineCol := func(loc int) (int, int) {
		return strings.Count(contents[:loc], "\n"), loc - (strings.LastIndexByte(contents[:loc], '\n') + 1)
	}
	b := sourcemap.MakeChunkBuilder(f.input.InputSourceMap, tables, asciiOnly)
	var output []byte
	var ev []string
	scanned := 0
	nameList := []string{"", "", "", "foo", "bar", "alpha", "q", "né"}
	prevLoc, prevLen, prevName := -1, 0, ""
	pieces := []string{"a", "bc", " ", "x = 1;", "\n", "\n", "\r\n", "\r", " ", "é", "\U0001F600", "\n\n", "  "}
	for steps := r.Intn(12); steps > 0; steps-- {
		if r.Chance(2, 5) {
			for k := 1 + r.Intn(3); k > 0; k-- {
				output = append(output, pieces[r.Intn(len(pieces))]...)
			}
			continue
		}
		loc := r.Intn(len(contents) + 1)
		if r.Chance(1, 8) && prevLoc >= 0 {
			loc = prevLoc
		}
		name := nameList[r.Intn(len(nameList))]
		if loc == prevLoc && (prevLen == len(output) || prevName == name) {
			b.AddSourceMapping(logger.Loc{Start: int32(loc)}, name, output)
			e.stat("chunk-duplicate-call-skipped")
			continue
		}
		prevLoc, prevLen, prevName = loc, len(output), name
		ev = scanOutput(output, scanned, ev)
		scanned = len(output)
		line, col := lineCol(loc)
		ev = append(ev, fmt.Sprintf("M%d:%d:%s", line, col, hexBytes([]byte(name))))
		*evOut = ev // survives a panic of the call
		b.AddSourceMapping(logger.Loc{Start: int32(loc)}, name, output)
	}
	if r.Chance(1, 2) {
		output = append(output, pieces[r.Intn(len(pieces))]...)
	}
	chunk := b.GenerateChunk(output)
	ev = scanOutput(output, scanned, ev)
	*evOut = ev
	return chunk
}

func scUnquoteAll(quoted [][]byte) []string {
	out := make([]string, len(quoted))
	for i, q := range quoted {
		if err := json.Unmarshal(q, &out[i]); err != nil {
			panic("harness: quoted name is not JSON: " + string(q))
		}
	}
	return out
}

type scMapJSON struct {
	Version        int                `json:"version"`
	Sources        []string           `json:"sources"`
	SourceRoot     *string            `json:"sourceRoot"`
	SourcesContent *[]json.RawMessage `json:"sourcesContent"`
	Mappings       string             `json:"mappings"`
	Names          []string           `json:"names"`
}

func scShowGenerated(pieces sourcemap.SourceMapPieces, canHaveShifts bool) string {
	text := append(append(append([]byte{}, pieces.Prefix...), pieces.Mappings...), pieces.Suffix...)
	var m scMapJSON
	if err := json.Unmarshal(text, &m); err != nil || m.Version != 3 {
		panic("harness: generated source map is not JSON: " + string(text))
	}
	if canHaveShifts && string(pieces.Mappings) != m.Mappings {
		panic("harness: SourceMapPieces.Mappings is not the mappings field")
	}
	root, content := "~", "~"
	if m.SourceRoot != nil {
		root = hexBytes([]byte(*m.SourceRoot))
	}
	if m.SourcesContent != nil {
		raw := make([][]byte, len(*m.SourcesContent))
		for i, x := range *m.SourcesContent {
			raw[i] = x
		}
		content = scHexList(raw)
	}
	return fmt.Sprintf("S %s R %s C %s M %s N %s", scHexStrs(m.Sources), root, content, hexBytes([]byte(m.Mappings)), scHexStrs(m.Names))
}

// the fragment of URL handling that the model claims (Impl/SmChunk.lean, sourceModelled): `file://` + an absolute
// path of A–Z a–z 0–9 / . _ - , or anything that does not start with "file:" in any letter case
func scModelled(source string) bool {
	if strings.HasPrefix(source, "file://") {
		p := source[7:]
		if !strings.HasPrefix(p, "/") {
			return false
		}
		for _, c := range []byte(p) {
			if !(c >= 'A' && c <= 'Z' || c >= 'a' && c <= 'z' || c >= '0' && c <= '9' || c == '/' || c == '.' || c == '_' || c == '-') {
				return false
			}
		}
		return true
	}
	return !(len(source) >= 5 && strings.EqualFold(source[:5], "file:"))
}

func scRealFS() fs.FS {
	realFS, err := fs.RealFS(fs.RealFSOptions{AbsWorkingDir: "/"})
	if err != nil {
		panic(err)
	}
	return realFS
}

func scFull(r *gen.Rand, e *emitter) {
	exclude, asciiOnly := r.Chance(1, 4), r.Bool()
	sourceRoot := []string{"", "", "https://x.test/src", "/abs/root", "é\"q"}[r.Intn(5)]
	chunkAbsDir := []string{"/out", "/p/out/js", "/", "/p/src", "/p"}[r.Intn(5)]
	if r.Chance(1, 4) {
		chunkAbsDir = scSafePath(r, false)
	}
	options := &config.Options{ExcludeSourcesContent: exclude, ASCIIOnly: asciiOnly, SourceRoot: sourceRoot, SourceMap: config.SourceMapLinkedWithComment}
	files := make([]scFile, 1+r.Intn(4))
	inputs := make([]graph.InputFile, len(files))
	fileOps := make([]string, len(files))
	for i := range files {
		files[i] = scGenFile(r, e, asciiOnly)
		inputs[i] = files[i].input
		fileOps[i] = files[i].opText
	}
	data := bundler.VerifComputeDataForSourceMaps(options, inputs)

	var results []linker.VerifSMResult
	var resultOps, chunkTexts []string
	panicInBuilder := false
	for n := 1 + r.Intn(6); n > 0 && !panicInBuilder; n-- {
		fi := r.Intn(len(files))
		if r.Chance(1, 6) {
			// a null entry (the linker makes them with a zero chunk and a zero offset)
			off := sourcemap.LineColumnOffset{}
			if r.Chance(1, 10) {
				off = sourcemap.LineColumnOffset{Lines: r.Intn(2), Columns: r.Intn(5)}
			}
			si := uint32(fi)
			if r.Chance(1, 10) {
				si = uint32(len(files) + r.Intn(2)) // never looked up in Files: a null entry is skipped by the first loop
				e.stat("result-null-entry-unknown-file")
			}
			results = append(results, linker.VerifSMResult{SourceIndex: si, IsNullEntry: true, Offset: off})
			resultOps = append(resultOps, fmt.Sprintf("%d/1/%d/%d/", si, off.Lines, off.Columns))
			e.stat("result-null-entry")
			continue
		}
		f := &files[fi]
		tables := data[fi].LineOffsetTables
		si := uint32(fi)
		if r.Chance(1, 60) {
			si = uint32(len(files) + r.Intn(2)) // c.graph.Files[…] out of range
			f = &scFile{contents: f.contents, input: graph.InputFile{Source: f.input.Source}}
			e.stat("result-unknown-file")
		}
		var chunk sourcemap.Chunk
		var ev []string
		if guard(func() string { chunk = scGenChunk(r, e, f, tables, asciiOnly, &ev); return "" }) == "PANIC" {
			// AddSourceMapping panicked (name index of the input map out of range): the operation ends here
			e.stat("full-panic-in-builder")
			e.stat("full")
			resultOps = append(resultOps, fmt.Sprintf("%d/0/0/0/%s", si, scField(ev)))
			e.emit(fmt.Sprintf("smchunk\tfull\t%d%d\t%s\t%s\t%s\t%s", b2i(exclude), b2i(asciiOnly), hexBytes([]byte(sourceRoot)), hexBytes([]byte(chunkAbsDir)),
				strings.Join(fileOps, "|"), strings.Join(resultOps, "|")), "PANIC in ChunkBuilder")
			return
		}
		if chunk.ShouldIgnore && !r.Chance(1, 12) {
			e.stat("result-without-mappings-skipped") // what the linker does with ShouldIgnore
			continue
		}
		off := sourcemap.LineColumnOffset{Lines: r.Intn(3), Columns: r.Intn(10)}
		if r.Chance(1, 3) {
			off = sourcemap.LineColumnOffset{}
		}
		results = append(results, linker.VerifSMResult{Chunk: chunk, Offset: off, SourceIndex: si})
		resultOps = append(resultOps, fmt.Sprintf("%d/0/%d/%d/%s", si, off.Lines, off.Columns, scField(ev)))
		chunkTexts = append(chunkTexts, smShowChunk(chunk)+" "+scHexStrs(scUnquoteAll(chunk.QuotedNames)))
		switch {
		case chunk.ShouldIgnore:
			e.stat("result-chunk-should-ignore")
		case f.input.InputSourceMap != nil:
			e.stat("result-chunk-remapped")
			if len(ev) > 0 && len(chunk.Buffer.Data) > 0 {
				segs, calls := 0, 0
				for _, s := range strings.FieldsFunc(string(chunk.Buffer.Data), func(c rune) bool { return c == ',' || c == ';' }) {
					if s != "" {
						segs++
					}
				}
				for _, x := range ev {
					if x[0] == 'M' {
						calls++
					}
				}
				if segs < calls {
					e.stat("result-chunk-remapped-some-calls-unmapped")
				}
			}
		default:
			e.stat("result-chunk-plain")
		}
		if len(chunk.QuotedNames) > 0 {
			e.stat("result-chunk-with-names")
		}
	}
	dataTexts := make([]string, len(files))
	for i := range files {
		dataTexts[i] = scHexList(data[i].QuotedContents)
	}
	canHaveShifts := r.Bool()
	out := guard(func() string {
		return scShowGenerated(linker.VerifGenerateSourceMapForChunk(scRealFS(), options, inputs, results, chunkAbsDir, data, canHaveShifts), canHaveShifts)
	})
	if out != "PANIC" {
		seen := map[uint32]bool{}
		for _, res := range results {
			if !res.IsNullEntry && !seen[res.SourceIndex] {
				seen[res.SourceIndex] = true
				if sm := inputs[res.SourceIndex].InputSourceMap; sm != nil {
					for _, s := range sm.Sources {
						if !scModelled(s) {
							out = "UNMODELLED"
						}
					}
				}
			}
		}
	}
	if out == "PANIC" {
		e.stat("full-panic")
	} else if out == "UNMODELLED" {
		e.stat("full-source-outside-modelled-url-fragment")
	} else {
		e.stat("full-ok")
		if len(results) > 1 {
			e.stat("full-ok-several-results")
		}
	}
	e.stat("full")
	e.emit(fmt.Sprintf("smchunk\tfull\t%d%d\t%s\t%s\t%s\t%s", b2i(exclude), b2i(asciiOnly), hexBytes([]byte(sourceRoot)), hexBytes([]byte(chunkAbsDir)),
		strings.Join(fileOps, "|"), strings.Join(resultOps, "|")),
		fmt.Sprintf("K %s D %s %s", strings.Join(chunkTexts, "|"), strings.Join(dataTexts, "|"), out))
}

func scSrc(r *gen.Rand, e *emitter) {
	dir := scSafePath(r, false)
	if r.Chance(1, 10) {
		dir = "/"
	}
	var source string
	var input graph.InputFile
	tables := sourcemap.GenerateLineOffsetTables("x", 1)
	if r.Bool() {
		p := scSafePath(r, false)
		if r.Chance(1, 3) && len(dir) > 1 {
			p = dir + p // below the output directory
		}
		source = "file://" + p
		input = graph.InputFile{Source: logger.Source{KeyPath: logger.Path{Namespace: "file", Text: p}, Contents: "x"}, Loader: config.LoaderJS}
		e.stat("src-key-path")
	} else {
		source = scInputSource(r, e)
		input = graph.InputFile{Source: logger.Source{KeyPath: logger.Path{Namespace: "file", Text: "/f.js"}, Contents: "x"}, Loader: config.LoaderJS,
			InputSourceMap: &sourcemap.SourceMap{Sources: []string{source}, Mappings: []sourcemap.Mapping{{}}}}
		e.stat("src-input-map-source")
	}
	b := sourcemap.MakeChunkBuilder(input.InputSourceMap, tables, false)
	b.AddSourceMapping(logger.Loc{Start: 0}, "", nil)
	chunk := b.GenerateChunk([]byte("x"))
	options := &config.Options{ExcludeSourcesContent: true}
	var m scMapJSON
	// guarded: if the one mapping at (0,0) is not found the chunk is ShouldIgnore and the real routine panics;
	// the model never answers PANIC for `src`, so that shows up as a disagreement instead of a harness crash
	if guard(func() string {
		pieces := linker.VerifGenerateSourceMapForChunk(scRealFS(), options, []graph.InputFile{input},
			[]linker.VerifSMResult{{Chunk: chunk}}, dir, make([]bundler.DataForSourceMap, 1), false)
		if err := json.Unmarshal(pieces.Prefix, &m); err != nil || len(m.Sources) != 1 {
			panic("harness: src: unexpected map " + string(pieces.Prefix))
		}
		return ""
	}) == "PANIC" {
		e.stat("src-panic")
		e.stat("src")
		e.emit(fmt.Sprintf("smchunk\tsrc\t%s\t%s", hexBytes([]byte(dir)), hexBytes([]byte(source))), "PANIC")
		return
	}
	if m.Sources[0] == source {
		e.stat("src-unchanged")
	} else {
		e.stat("src-made-relative")
		if strings.HasPrefix(m.Sources[0], "..") {
			e.stat("src-made-relative-upwards")
		}
	}
	e.stat("src")
	expected := hexBytes([]byte(m.Sources[0]))
	if !scModelled(source) {
		expected = "UNMODELLED"
	}
	e.emit(fmt.Sprintf("smchunk\tsrc\t%s\t%s", hexBytes([]byte(dir)), hexBytes([]byte(source))), expected)
}

func init() {
	kernels["smchunk"] = func(r *gen.Rand, e *emitter, tier string) {
		for !e.full() {
			if r.Chance(1, 4) {
				scSrc(r, e)
			} else {
				scFull(r, e)
			}
		}
	}
}
