package main

import (
	"fmt"
	"strings"

	"github.com/evanw/esbuild/internal/compat"
	"github.com/evanw/esbuild/internal/config"
	"github.com/evanw/esbuild/internal/js_ast"
	"github.com/evanw/esbuild/internal/js_parser"
	"github.com/evanw/esbuild/internal/logger"
	"github.com/evanw/esbuild/verifharness/gen"
)

// kernel "lower": random expressions over identifiers, literals, probe calls, property reads, optional
// property reads, parentheses and `??` are parsed and lowered by the REAL parser with optional chaining and
// nullish coalescing marked unsupported; the lowered AST is printed as an S-expression (temporaries renumbered
// by first appearance) and compared with the S-expression of the Lean model's lowering.

type lexpr struct {
	wire string // prefix form for the model
	js   string
	// precedence class of the outermost operator: 0 primary/member/call, 1 nullish
	prec int
}

func genLowerExpr(r *gen.Rand, depth int) lexpr {
	if depth <= 0 || r.Chance(1, 4) {
		switch r.Intn(6) {
		case 0:
			return lexpr{"undef", "void 0", 2}
		case 1:
			return lexpr{"null", "null", 0}
		case 2:
			n := r.Intn(10)
			return lexpr{fmt.Sprintf("n%d", n), fmt.Sprint(n), 0}
		default:
			x := r.Intn(4)
			return lexpr{fmt.Sprintf("v%d", x), fmt.Sprintf("v%d", x), 0}
		}
	}
	switch r.Intn(9) {
	case 0, 1:
		a := genLowerExpr(r, depth-1)
		f := r.Intn(3)
		return lexpr{fmt.Sprintf("c%d %s", f, a.wire), fmt.Sprintf("f%d(%s)", f, a.js), 0}
	case 2, 3:
		o := genLowerExpr(r, depth-1)
		if isNullishLit(o) {
			return o
		}
		p := r.Intn(4)
		js := o.js
		w := o.wire
		if o.prec > 0 {
			js, w = "("+js+")", "paren "+w
		} else if isNumLit(js) {
			js, w = "("+js+")", "paren "+w
		}
		return lexpr{fmt.Sprintf("d%d %s", p, w), fmt.Sprintf("%s.p%d", js, p), 0}
	case 4, 5, 6:
		o := genLowerExpr(r, depth-1)
		if isNullishLit(o) {
			return o
		}
		p := r.Intn(4)
		js := o.js
		w := o.wire
		if o.prec > 0 || isNumLit(js) {
			js, w = "("+js+")", "paren "+w
		}
		return lexpr{fmt.Sprintf("o%d %s", p, w), fmt.Sprintf("%s?.p%d", js, p), 0}
	case 7:
		a := genLowerExpr(r, depth-1)
		if a.prec == 2 {
			return a
		}
		return lexpr{"paren " + a.wire, "(" + a.js + ")", 0}
	default:
		a := genLowerExpr(r, depth-1)
		b := genLowerExpr(r, depth-1)
		if isNullishLit(a) || isNumLit(strings.TrimLeft(a.js, "(")) {
			return b // `literal ?? x` is folded at compile time
		}
		aj, aw := a.js, a.wire
		bj, bw := b.js, b.wire
		if a.prec == 2 {
			aj, aw = "("+aj+")", "paren "+aw
		}
		if b.prec >= 1 {
			bj, bw = "("+bj+")", "paren "+bw
		}
		return lexpr{fmt.Sprintf("nullish %s %s", aw, bw), fmt.Sprintf("%s ?? %s", aj, bj), 1}
	}
}

func isNumLit(s string) bool { return len(s) > 0 && s[0] >= '0' && s[0] <= '9' }

// esbuild folds `null?.p`, `undefined ?? x` and the like at compile time; the model does not, so the generator
// keeps null/undefined literals out of the positions where their nullishness is tested
func isNullishLit(x lexpr) bool {
	w := x.wire
	for strings.HasPrefix(w, "paren ") {
		w = w[6:]
	}
	return w == "null" || w == "undef"
}

type sexpPrinter struct {
	ast   *js_ast.AST
	temps map[string]int
}

func (p *sexpPrinter) name(e *js_ast.EIdentifier) string {
	return p.ast.Symbols[e.Ref.InnerIndex].OriginalName
}

func (p *sexpPrinter) temp(name string) int {
	if i, ok := p.temps[name]; ok {
		return i
	}
	i := len(p.temps)
	p.temps[name] = i
	return i
}

func (p *sexpPrinter) expr(e js_ast.Expr) string {
	switch x := e.Data.(type) {
	case *js_ast.EIdentifier:
		n := p.name(x)
		if strings.HasPrefix(n, "_") {
			return fmt.Sprintf("(tmp %d)", p.temp(n))
		}
		return "(id " + n + ")"
	case *js_ast.EUndefined:
		return "undef"
	case *js_ast.ENull:
		return "null"
	case *js_ast.ENumber:
		return fmt.Sprintf("(num %d)", int(x.Value))
	case *js_ast.ECall:
		if x.OptionalChain != js_ast.OptionalChainNone {
			return "(UNLOWERED-CALL)"
		}
		args := []string{}
		for _, a := range x.Args {
			args = append(args, p.expr(a))
		}
		return "(call " + p.expr(x.Target) + " " + strings.Join(args, " ") + ")"
	case *js_ast.EDot:
		if x.OptionalChain != js_ast.OptionalChainNone {
			return "(UNLOWERED-DOT)"
		}
		return "(dot " + p.expr(x.Target) + " " + x.Name + ")"
	case *js_ast.EBinary:
		switch x.Op {
		case js_ast.BinOpAssign:
			if id, ok := x.Left.Data.(*js_ast.EIdentifier); ok && strings.HasPrefix(p.name(id), "_") {
				i := p.temp(p.name(id))
				return fmt.Sprintf("(set %d %s)", i, p.expr(x.Right))
			}
			return "(assign " + p.expr(x.Left) + " " + p.expr(x.Right) + ")"
		case js_ast.BinOpLooseEq:
			if _, ok := x.Right.Data.(*js_ast.ENull); ok {
				return "(eqnull " + p.expr(x.Left) + ")"
			}
		case js_ast.BinOpLooseNe:
			if _, ok := x.Right.Data.(*js_ast.ENull); ok {
				return "(nenull " + p.expr(x.Left) + ")"
			}
		}
		return fmt.Sprintf("(binop-%d %s %s)", x.Op, p.expr(x.Left), p.expr(x.Right))
	case *js_ast.EIf:
		return "(if " + p.expr(x.Test) + " " + p.expr(x.Yes) + " " + p.expr(x.No) + ")"
	case *js_ast.EUnary:
		if x.Op == js_ast.UnOpVoid {
			return "undef"
		}
	}
	return fmt.Sprintf("(OTHER %T)", e.Data)
}

func init() {
	kernels["lower"] = func(r *gen.Rand, e *emitter, tier string) {
		for !e.full() {
			x := genLowerExpr(r, 1+r.Intn(5))
			src := "r = " + x.js + ";\n"
			out := guard(func() string {
				log := logger.NewDeferLog(logger.DeferLogAll, nil)
				opts := js_parser.OptionsFromConfig(&config.Options{UnsupportedJSFeatures: compat.OptionalChain | compat.NullishCoalescing})
				tree, ok := js_parser.Parse(log, logger.Source{Contents: src, KeyPath: logger.Path{Text: "/x.js", Namespace: "file"}, PrettyPaths: logger.PrettyPaths{Abs: "/x.js", Rel: "x.js"}}, opts)
				if !ok {
					return "PARSE-ERROR"
				}
				p := &sexpPrinter{ast: &tree, temps: map[string]int{}}
				for _, part := range tree.Parts {
					for _, st := range part.Stmts {
						if se, ok := st.Data.(*js_ast.SExpr); ok {
							if bin, ok := se.Value.Data.(*js_ast.EBinary); ok && bin.Op == js_ast.BinOpAssign {
								return p.expr(bin.Right)
							}
						}
					}
				}
				return "NO-STATEMENT"
			})
			if strings.Contains(x.wire, "o") {
				e.stat("has-optional-chain")
			}
			if strings.Contains(x.wire, "nullish") {
				e.stat("has-nullish")
			}
			if strings.Contains(out, "(set ") {
				e.stat("out:uses-temporary")
			}
			e.emit("lower\t"+x.wire, out)
		}
	}
}
