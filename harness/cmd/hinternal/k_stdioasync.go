package main

// Kernel "stdioasync": whole sessions of the REAL runService (cmd/esbuild/service.go) with asynchronous commands.
// The add-only test file cmd/esbuild/verif_async_test.go (build tag verif) plays the host: it sends the scripted
// requests (transform, build with and without plugins, contexts with rebuild / cancel / dispose / resolve / watch /
// serve, misuse on dead keys, garbage, a stale response), answers the service's on-start / on-resolve / on-load /
// on-end requests in random order after random delays, sometimes issuing a nested "resolve" from inside a
// callback, and logs every packet written and read in one global order.
//
// This file (1) generates the scripts, (2) runs them (test binary built once with `go test -c`, batches), and
// (3) turns every log into a list of model actions: the visible ones are copied from the log in log order, the
// invisible ones (deliver, start, finish, take …) are placed by the scheduler below. The scheduler mirrors a
// little of the service's state only to decide WHERE to place them; whether the resulting list is a run of the
// model, whether the model wrote exactly the observed packets, and whether it ends as the real service ended is
// decided by the Lean driver (expected answer: "ok"). A wrong placement can only produce a false alarm.

import (
	"bufio"
	"fmt"
	"os"
	"os/exec"
	"path/filepath"
	"strconv"
	"strings"

	"github.com/evanw/esbuild/verifharness/gen"
)

// ---------------------------------------------------------------------------------------------- generator

type saCtx struct {
	key         int
	buildID     int
	waited      bool
	disposed    bool
	failed      bool  // creation fails (options x / y)
	rebuilds    []int // rebuild ids whose response has not been waited for
	cancels     []int // cancel ids whose response has not been waited for
	cancelDirty bool  // a cancel was sent since the last moment all rebuilds were waited for (statistics only)
}

func saBuildOpts(r *gen.Rand, e *emitter, ctx bool) string {
	o := ""
	if ctx {
		o += "c"
	}
	if r.Chance(2, 3) {
		o += "p"
		e.stat("gen:build-plugins")
	}
	if r.Chance(1, 2) {
		o += "e"
	}
	switch r.Intn(14) {
	case 0:
		o += "x"
		e.stat("gen:build-flag-error")
	case 1:
		o += "y"
		e.stat("gen:build-rejected-options")
	}
	return o + strconv.Itoa(r.Intn(4))
}

func saScript(r *gen.Rand, e *emitter) string {
	items := []string{strconv.FormatUint(r.U64()>>1, 10)}
	add := func(s string) { items = append(items, s) }
	nextID, nextKey := 1, 1+r.Intn(3)
	id := func() int { nextID += 1 + r.Intn(2); return nextID }
	var ctxs []*saCtx
	var deadKeys []int
	var unwaited []int
	if r.Chance(1, 3) {
		add(fmt.Sprintf("n%d", 1+r.Intn(6)))
		e.stat("gen:nested-resolves")
	}
	dispose := func(c *saCtx) {
		if !c.waited {
			add(fmt.Sprintf("w%d", c.buildID))
			c.waited = true
		}
		// (until fix e2efb4f a dispose taken while a cancel had been sent during a running rebuild killed the real
		// service; such sessions used to be avoided here and are generated now)
		if c.cancelDirty && len(c.rebuilds) > 0 {
			e.stat("gen:dispose-while-cancelled-rebuild-may-run")
		}
		add(fmt.Sprintf("D%d:%d", id(), c.key))
		c.disposed = true
	}
	steps := 2 + r.Intn(12)
	for i := 0; i < steps; i++ {
		switch k := r.Intn(20); {
		case k < 3:
			n := id()
			add(string("TFI"[r.Intn(3)]) + strconv.Itoa(n))
			unwaited = append(unwaited, n)
		case k < 6:
			n := id()
			nextKey++
			add(fmt.Sprintf("B%d:%d:%s", n, nextKey, saBuildOpts(r, e, false)))
			unwaited = append(unwaited, n)
			if r.Chance(1, 3) { // a resolve that races with the build
				add(fmt.Sprintf("S%d:%d", id(), nextKey))
				e.stat("gen:resolve-racing-one-shot-build")
			}
			if r.Chance(1, 4) {
				deadKeys = append(deadKeys, nextKey)
			}
		case k < 8 && len(ctxs) < 3:
			n := id()
			nextKey++
			opts := saBuildOpts(r, e, true)
			c := &saCtx{key: nextKey, buildID: n, failed: strings.ContainsAny(opts, "xy")}
			add(fmt.Sprintf("B%d:%d:%s", n, nextKey, opts))
			if r.Chance(5, 6) {
				add(fmt.Sprintf("w%d", n))
				c.waited = true
			} else {
				e.stat("gen:context-used-before-its-response")
			}
			ctxs = append(ctxs, c)
		case k < 16 && len(ctxs) > 0:
			c := ctxs[r.Intn(len(ctxs))]
			if c.disposed {
				add(fmt.Sprintf("%c%d:%d", "RCDSWV"[r.Intn(6)], id(), c.key))
				e.stat("gen:op-on-disposed-context")
				break
			}
			switch op := r.Intn(12); {
			case op < 4:
				n := id()
				add(fmt.Sprintf("R%d:%d", n, c.key))
				c.rebuilds = append(c.rebuilds, n)
			case op < 6:
				n := id()
				add(fmt.Sprintf("C%d:%d", n, c.key))
				c.cancels = append(c.cancels, n)
				c.cancelDirty = true
			case op < 8:
				add(fmt.Sprintf("S%d:%d", id(), c.key))
			case op == 8:
				add(fmt.Sprintf("W%d:%d", id(), c.key))
				e.stat("gen:watch")
			case op == 9 && c.waited && !c.failed:
				add(fmt.Sprintf("V%d:%d", id(), c.key))
				e.stat("gen:serve")
			case op == 10 && len(c.rebuilds) > 0:
				for _, rid := range append(c.rebuilds, c.cancels...) {
					add(fmt.Sprintf("w%d", rid))
				}
				c.rebuilds, c.cancels, c.cancelDirty = nil, nil, false
			default:
				dispose(c)
				e.stat("gen:dispose-mid-session")
			}
		case k == 16:
			key := 90 + r.Intn(3)
			if len(deadKeys) > 0 && r.Bool() {
				key = deadKeys[r.Intn(len(deadKeys))]
			}
			add(fmt.Sprintf("%c%d:%d", "RCDSWV"[r.Intn(6)], id(), key))
			e.stat("gen:op-on-dead-key")
		case k == 17:
			add("G")
		case k == 18 && len(unwaited) > 0:
			add(fmt.Sprintf("w%d", unwaited[r.Intn(len(unwaited))]))
		default:
			add(fmt.Sprintf("z%d", 1+r.Intn(40)))
		}
	}
	for _, c := range ctxs {
		if !c.disposed {
			dispose(c)
		}
	}
	if r.Chance(1, 12) {
		add("q")
		add(fmt.Sprintf("X%d", r.Intn(40)))
		e.stat("gen:stale-response")
	}
	return strings.Join(items, " ")
}

// ---------------------------------------------------------------------------------------------- scheduler

type saTask struct {
	id, key, group int
	cmd, opts      string
	started, hold  bool
	finished       bool
}

type saActive struct {
	ctx, plugins, didGetCancel, background bool
	group, within                          int
}

type saIn struct {
	kind    byte // Q A X G
	id, key int
	cmd     string
}

type saSvc struct{ tag, key, hint int }

type saCb struct{ id, pos, key, hint int }

type saSched struct {
	acts       []string
	stdin      []saIn
	tasks      map[int]*saTask
	order      []int
	actives    map[int]*saActive
	cbOwner    map[int]int // outstanding service requests: id -> owner task (-1 none)
	nextID     int
	nextGroup  int
	helpers    []int
	syncResp   map[int]bool // responses the reader is blocked on
	blocked    bool
	delivered  map[int]bool // host request ids handed to the service
	class      map[int]int  // look-ahead: observed class of the response to a host request
	svc        map[int]saSvc
	sent       []saIn
	delivering int
	respPos    map[int]int
	sendPos    map[int]int // log position of a host request
	cbs        []saCb      // every service request of the session with its log position (look-ahead)
	cbKey      map[int]int // key of an outstanding service request
	pendHold   map[int]int // responses not yet taken by the writer whose sender still holds a disposeWaitGroup: id -> key
	opts       map[int]string
	e          *emitter
}

func (s *saSched) emit(f string, a ...interface{}) { s.acts = append(s.acts, fmt.Sprintf(f, a...)) }

func saCmdCode(cmd string, opts string) string {
	switch cmd {
	case "transform", "format-msgs":
		return "t"
	case "build":
		c, p := "0", "0"
		if strings.Contains(opts, "c") {
			c = "1"
		}
		if strings.ContainsAny(opts, "pe") {
			p = "1"
		}
		return "b" + c + p
	case "resolve":
		return "s"
	case "rebuild":
		return "r"
	case "watch":
		return "w"
	case "serve":
		return "v"
	case "cancel":
		return "c"
	case "dispose":
		return "d"
	}
	return "i"
}

func (s *saSched) outstanding(tid int) int {
	n := 0
	for _, o := range s.cbOwner {
		if o == tid {
			n++
		}
	}
	return n
}

func (s *saSched) liveTask(pred func(*saTask) bool) *saTask {
	for _, tid := range s.order {
		if t := s.tasks[tid]; t != nil && !t.finished && pred(t) {
			return t
		}
	}
	return nil
}

// what handleIncomingPacket would do with a keyed request now: "task", "refuse" or "empty"
func (s *saSched) decision(p saIn) string {
	a := s.actives[p.key]
	switch p.cmd {
	case "resolve":
		if a != nil && a.plugins {
			return "task"
		}
		return "refuse"
	case "rebuild", "watch", "serve":
		if a != nil && a.ctx {
			return "task"
		}
		return "refuse"
	case "cancel", "dispose":
		if a != nil && a.ctx {
			return "task"
		}
		return "empty"
	}
	return "task"
}

func (s *saSched) matches(p saIn) bool {
	if p.kind != 'Q' {
		return true
	}
	switch p.cmd {
	case "resolve", "rebuild", "watch", "serve":
		cl, seen := s.class[p.id]
		if !seen {
			return true
		}
		return (s.decision(p) == "refuse") == (cl == 1)
	case "cancel":
		// answered by the reader (no context yet) or by a handler? Not visible in the answer itself, but a reader that
		// answers is blocked meanwhile. While the context is still being created, look at how the next request on the
		// key was treated; without such a request a handler (which may answer at any time) is always consistent.
		if s.decision(p) != "empty" {
			return true
		}
		pendingCtx := s.liveTask(func(t *saTask) bool {
			return t.cmd == "build" && t.key == p.key && strings.Contains(t.opts, "c") && !strings.ContainsAny(t.opts, "xy")
		})
		if pendingCtx == nil {
			return true
		}
		// A reader that answers is blocked until the writer has taken the answer, so no request sent later can have
		// been answered before this one. If one was, a handler answered (the context existed already).
		after := false
		for _, q := range s.sent {
			if after {
				early := false
				if rp, seen := s.respPos[q.id]; seen && rp < s.respPos[p.id] {
					early = true
				}
				for _, cb := range s.cbs { // … nor can a later request have made the service call the host
					if cb.pos < s.respPos[p.id] && (cb.hint == q.id || (q.cmd == "build" && cb.hint < 0 && cb.key == q.key)) {
						early = true
					}
				}
				if early {
					s.e.stat("sched:cancel-during-context-creation-by-handler")
					return false
				}
			}
			if q.id == p.id {
				after = true
			}
		}
		s.e.stat("sched:cancel-during-context-creation-by-reader")
		return true
	}
	return true
}

func (s *saSched) start(t *saTask) bool {
	if t.cmd != "build" || t.started || strings.Contains(t.opts, "x") {
		return false
	}
	s.emit("S%d", t.id)
	t.started = true
	s.actives[t.key] = &saActive{plugins: strings.ContainsAny(t.opts, "pe"), group: -1}
	s.e.stat("sched:start")
	return true
}

func (s *saSched) finish(t *saTask) {
	if t.finished {
		return
	}
	ok := true
	switch t.cmd {
	case "build":
		s.start(t)
		if t.started {
			if strings.Contains(t.opts, "c") && !strings.Contains(t.opts, "y") {
				if a := s.actives[t.key]; a != nil {
					a.ctx = true
				}
				s.e.stat("sched:finish-context-created")
			} else {
				ok = false
				delete(s.actives, t.key)
				s.e.stat("sched:finish-build-destroys-active")
			}
		} else {
			s.e.stat("sched:finish-build-early-error")
		}
	case "rebuild":
		if a := s.actives[t.key]; a != nil {
			a.within--
			if a.within == 0 {
				a.didGetCancel, a.group = false, -1
			}
		}
	case "cancel":
		if t.group >= 0 {
			for {
				u := s.liveTask(func(u *saTask) bool { return u.cmd == "rebuild" && u.group == t.group })
				if u == nil {
					break
				}
				s.finish(u)
				s.e.stat("sched:cancel-demands-rebuild-finish")
			}
			keep := s.helpers[:0]
			for _, g := range s.helpers {
				if g == t.group {
					s.emit("H%d", g)
					s.e.stat("sched:helper-done")
				} else {
					keep = append(keep, g)
				}
			}
			s.helpers = keep
		}
	case "dispose":
		delete(s.actives, t.key)
	}
	if ok {
		s.emit("F%d", t.id)
	} else {
		s.emit("N%d", t.id)
	}
	s.e.stat("sched:finish-" + t.cmd)
	if t.hold {
		s.pendHold[t.id] = t.key
	}
	t.finished = true
}

func (s *saSched) disposeBlocked(key int) bool {
	if s.liveTask(func(t *saTask) bool { return t.key == key && t.hold }) != nil {
		return true
	}
	for _, k := range s.pendHold {
		if k == key {
			return true
		}
	}
	for id, o := range s.cbOwner {
		if o == -1 && s.cbKey[id] == key {
			return true
		}
	}
	return false
}

// A rebuild handler's moment of ending is invisible. It is placed as early as possible (the number of running
// rebuilds decides which wait group a later rebuild joins and what a cancel waits for, and an earlier end only
// removes constraints), but a rebuild stays alive while it is the one that has to own a later callback of its key:
// callbacks go to the live rebuild that responds last (see owner).
func (s *saSched) rebuildNeeded(r *saTask) bool {
	if a := s.actives[r.key]; a != nil && a.background {
		return false
	}
	for _, q := range s.cbs {
		if q.id < s.nextID || q.key != r.key || q.hint >= 0 || q.pos > s.respPos[r.id] {
			continue
		}
		covered := false
		for _, o := range s.sent {
			if o.cmd == "rebuild" && o.key == r.key && o.id != r.id && s.class[o.id] != 1 &&
				s.respPos[o.id] > s.respPos[r.id] && s.sendPos[o.id] < q.pos {
				// … provided that rebuild is already running, or is the packet the reader takes right now
				if t := s.tasks[o.id]; (t != nil && !t.finished) || (t == nil && o.id == s.delivering) {
					covered = true
				}
			}
		}
		if !covered {
			return true
		}
	}
	return false
}

func (s *saSched) settleRebuilds(key int) {
	for _, tid := range append([]int{}, s.order...) {
		t := s.tasks[tid]
		if t != nil && !t.finished && t.cmd == "rebuild" && t.key == key && s.outstanding(t.id) == 0 && !s.rebuildNeeded(t) {
			s.finish(t)
			s.e.stat("sched:rebuild-finished-early")
		}
	}
}

// try to bring the state to where the head packet gets the treatment that was observed
func (s *saSched) advanceFor(p saIn) {
	wantTask := s.class[p.id] != 1
	a := s.actives[p.key]
	if !wantTask && a != nil && !a.ctx {
		// refused although the key is still registered: the dispose handler had already destroyed it
		if d := s.liveTask(func(t *saTask) bool { return t.cmd == "dispose" && t.key == p.key }); d != nil && !s.disposeBlocked(p.key) {
			s.finish(d)
			s.e.stat("sched:advance-finish-dispose")
			return
		}
	}
	build := s.liveTask(func(t *saTask) bool { return t.cmd == "build" && t.key == p.key })
	if build == nil {
		return
	}
	if wantTask {
		if a == nil && s.start(build) {
			s.e.stat("sched:advance-start")
			a = s.actives[p.key]
		}
		if p.cmd != "resolve" && a != nil && !a.ctx && strings.Contains(build.opts, "c") && s.outstanding(build.id) == 0 {
			s.finish(build)
			s.e.stat("sched:advance-finish-context")
		}
	} else if a != nil && build.started && !strings.Contains(build.opts, "c") && s.outstanding(build.id) == 0 {
		s.finish(build)
		s.e.stat("sched:advance-finish-one-shot")
	}
}

func (s *saSched) spawn(p saIn, hold bool, group int) {
	s.tasks[p.id] = &saTask{id: p.id, key: p.key, cmd: p.cmd, opts: s.opts[p.id], hold: hold, group: group}
	s.order = append(s.order, p.id)
}

// the reader takes the head of stdin
func (s *saSched) deliver() {
	p := s.stdin[0]
	s.stdin = s.stdin[1:]
	if p.kind == 'Q' && (p.cmd == "rebuild" || p.cmd == "cancel") {
		s.delivering = p.id
		s.settleRebuilds(p.key)
		s.delivering = -1
	}
	s.emit("D")
	switch p.kind {
	case 'G':
		s.e.stat("deliver:garbage")
		return
	case 'A', 'X':
		if _, ok := s.cbOwner[p.id]; ok {
			s.e.stat("deliver:answer")
		} else {
			s.e.stat("deliver:stale-response")
		}
		delete(s.cbOwner, p.id)
		delete(s.cbKey, p.id)
		return
	}
	s.delivered[p.id] = true
	a := s.actives[p.key]
	sync := func() { s.syncResp[p.id] = true; s.blocked = true }
	switch p.cmd {
	case "transform", "format-msgs", "build":
		s.spawn(p, false, -1)
		s.e.stat("deliver:" + p.cmd)
	case "resolve", "watch", "serve":
		if s.decision(p) == "task" {
			s.spawn(p, a.ctx, -1)
			if p.cmd != "resolve" {
				a.background = true
			}
			s.e.stat("deliver:" + p.cmd + "-task")
		} else {
			sync()
			s.e.stat("deliver:" + p.cmd + "-refused")
		}
	case "rebuild":
		if s.decision(p) == "task" {
			a.within++
			if a.group < 0 {
				a.group = s.nextGroup
				s.nextGroup++
				s.e.stat("deliver:rebuild-new-group")
			} else {
				s.e.stat("deliver:rebuild-joins-group")
			}
			s.spawn(p, true, a.group)
		} else {
			sync()
			s.e.stat("deliver:rebuild-refused")
		}
	case "cancel":
		if a != nil && a.within > 0 {
			a.didGetCancel = true
		}
		if s.decision(p) == "task" {
			s.spawn(p, false, a.group)
			s.e.stat("deliver:cancel-task")
			// the OnStart helper of a running rebuild (invisible; placed for coverage when it cannot kill the service)
			if a.didGetCancel && a.group >= 0 && p.id%2 == 0 {
				if u := s.liveTask(func(u *saTask) bool { return u.cmd == "rebuild" && u.key == p.key }); u != nil {
					s.emit("C%d", u.id)
					s.helpers = append(s.helpers, a.group)
					s.e.stat("sched:start-cancel-helper")
				}
			}
		} else {
			sync()
			s.e.stat("deliver:cancel-sync")
		}
	case "dispose":
		if s.decision(p) == "task" {
			a.ctx = false
			s.spawn(p, false, -1)
			s.e.stat("deliver:dispose-task")
		} else {
			sync()
			s.e.stat("deliver:dispose-sync")
		}
	default:
		sync()
		s.e.stat("deliver:invalid-command")
	}
}

// deliver eagerly while the head gets the observed treatment
func (s *saSched) tryDeliver() {
	for len(s.stdin) > 0 && !s.blocked {
		if !s.matches(s.stdin[0]) {
			s.advanceFor(s.stdin[0])
			if !s.matches(s.stdin[0]) {
				s.e.stat("sched:delivery-postponed")
				return
			}
		}
		s.deliver()
	}
}

// deliver until pred holds, whatever the treatment (the model decides; a mismatch shows in the written packets)
func (s *saSched) forceDeliver(pred func() bool) {
	for !pred() && len(s.stdin) > 0 && !s.blocked {
		if !s.matches(s.stdin[0]) {
			s.advanceFor(s.stdin[0])
		}
		s.deliver()
	}
}

func (s *saSched) owner(info saSvc) int {
	find := func() *saTask {
		if info.hint >= 0 {
			return s.liveTask(func(t *saTask) bool { return t.id == info.hint && t.cmd == "resolve" })
		}
		if t := s.liveTask(func(t *saTask) bool { return t.cmd == "build" && t.key == info.key && !strings.Contains(t.opts, "x") }); t != nil {
			return t
		}
		// Rebuilds of one context share builds. Which rebuild a callback belongs to is invisible and irrelevant; the one
		// whose response comes last is a choice that every real history admits (a build's callbacks return before any
		// rebuild that joined it responds). With watch / serve active the builds are not tied to requests at all.
		if a := s.actives[info.key]; a != nil && a.background {
			return nil
		}
		var best *saTask
		for _, tid := range s.order {
			if t := s.tasks[tid]; t != nil && !t.finished && t.cmd == "rebuild" && t.key == info.key {
				if best == nil || s.respPos[t.id] > s.respPos[best.id] {
					best = t
				}
			}
		}
		return best
	}
	t := find()
	if t == nil {
		if a := s.actives[info.key]; a != nil && a.background && info.hint < 0 {
			s.e.stat("svcreq:owner-background")
			return -1
		}
		s.forceDeliver(func() bool { t = find(); return t != nil })
	}
	if t == nil {
		if a := s.actives[info.key]; a != nil && a.background {
			s.e.stat("svcreq:owner-background")
			return -1
		}
		s.e.stat("svcreq:NO-OWNER")
		return -1
	}
	if t.cmd == "build" {
		s.start(t)
	}
	s.e.stat("svcreq:owner-" + t.cmd)
	return t.id
}

func (s *saSched) ensureAlloc(id int) {
	for s.nextID <= id {
		info, ok := s.svc[s.nextID]
		if !ok {
			s.e.stat("svcreq:ID-GAP")
			info = saSvc{tag: 0, key: 0, hint: -1}
		}
		if info.tag == 4 {
			s.emit("U-:4:0")
			s.cbOwner[s.nextID] = -1
			s.cbKey[s.nextID] = -1
			s.e.stat("svcreq:ping")
		} else {
			o := s.owner(info)
			if o < 0 {
				s.emit("U-:%d:%d", info.tag, info.key)
			} else {
				s.emit("U%d:%d:%d", o, info.tag, info.key)
			}
			s.cbOwner[s.nextID] = o
			s.cbKey[s.nextID] = info.key
		}
		s.nextID++
	}
}

var saTags = map[string]int{"on-start": 0, "on-resolve": 1, "on-load": 2, "on-end": 3, "ping": 4, "serve-request": 5}

// saLinearise turns one session log into the operation line for the model
func saLinearise(script string, log string, e *emitter) (string, string) {
	events := strings.Fields(log)
	if len(events) < 2 {
		return "stdioasync\t0\t-\t-\tOPEN", "short log: " + log
	}
	ending := events[len(events)-1]
	events = events[:len(events)-1]
	s := &saSched{tasks: map[int]*saTask{}, actives: map[int]*saActive{}, cbOwner: map[int]int{}, syncResp: map[int]bool{},
		delivering: -1, delivered: map[int]bool{}, class: map[int]int{}, svc: map[int]saSvc{}, respPos: map[int]int{}, sendPos: map[int]int{}, cbKey: map[int]int{}, pendHold: map[int]int{}, opts: map[int]string{}, e: e}
	items := strings.Fields(script)
	pings := "0"
	for _, it := range items[1:] {
		if it == "P" {
			pings = "1"
		}
		if it[0] == 'B' {
			if parts := strings.Split(it[1:], ":"); len(parts) == 3 {
				n, _ := strconv.Atoi(parts[0])
				s.opts[n] = parts[2]
			}
		}
	}
	num := func(x string) int { n, _ := strconv.Atoi(x); return n }
	// look-ahead tables
	for pos, ev := range events {
		if len(ev) < 2 {
			continue
		}
		f := strings.Split(ev[2:], ":")
		if strings.HasPrefix(ev, "<R") {
			s.respPos[num(f[0])] = pos
		}
		switch {
		case strings.HasPrefix(ev, ">Q") && len(f) == 3:
			s.sent = append(s.sent, saIn{kind: 'Q', id: num(f[0]), key: num(f[2]), cmd: f[1]})
			s.sendPos[num(f[0])] = pos
		case strings.HasPrefix(ev, "<R") && len(f) == 2:
			s.class[num(f[0])] = num(f[1])
		case strings.HasPrefix(ev, "<Q") && len(f) == 4:
			key := num(f[2])
			if key < 0 {
				key = 0
			}
			s.svc[num(f[0])] = saSvc{tag: saTags[f[1]], key: key, hint: num(f[3])}
			s.cbs = append(s.cbs, saCb{id: num(f[0]), pos: pos, key: key, hint: num(f[3])})
		}
	}
	var outs []string
	for _, ev := range events {
		if ev == "EOF" {
			if ending != "PANIC" { // a dead process does not see its stdin being closed
				s.emit("E")
			}
			s.tryDeliver()
			continue
		}
		if len(ev) < 2 {
			return "stdioasync\t0\t-\t-\tOPEN", "bad log entry"
		}
		f := strings.Split(ev[2:], ":")
		switch ev[:2] {
		case ">Q":
			id, key := num(f[0]), num(f[2])
			if key < 0 {
				key = 0
			}
			s.emit("Q%d:%s:%d", id, saCmdCode(f[1], s.opts[id]), key)
			s.stdin = append(s.stdin, saIn{kind: 'Q', id: id, key: key, cmd: f[1]})
			s.tryDeliver()
		case ">A":
			s.emit("A%d", num(f[0]))
			s.stdin = append(s.stdin, saIn{kind: 'A', id: num(f[0])})
			s.tryDeliver()
		case ">X":
			s.emit("X%d", num(f[0]))
			s.stdin = append(s.stdin, saIn{kind: 'X', id: num(f[0])})
			s.tryDeliver()
		case ">G":
			s.emit("G")
			s.stdin = append(s.stdin, saIn{kind: 'G'})
			s.tryDeliver()
		case "<Q":
			id := num(f[0])
			s.ensureAlloc(id)
			s.emit("T1:%d", id)
			s.emit("W")
			info := s.svc[id]
			outs = append(outs, fmt.Sprintf("Q%d:%d:%d", id, info.tag, info.key))
			if id+1 < s.nextID {
				e.stat("svcreq:written-out-of-id-order")
			}
			s.tryDeliver()
		case "<R":
			id := num(f[0])
			s.forceDeliver(func() bool { return s.delivered[id] })
			if s.syncResp[id] {
				delete(s.syncResp, id)
				s.blocked = false
				e.stat("response:from-reader")
			} else if t := s.tasks[id]; t != nil {
				if t.finished {
					e.stat("response:finished-earlier")
				}
				s.finish(t)
				e.stat("response:from-handler")
			} else {
				e.stat("response:UNKNOWN-ID")
			}
			s.emit("T0:%d", id)
			delete(s.pendHold, id)
			s.emit("W")
			outs = append(outs, fmt.Sprintf("R%d:%d", id, num(f[1])))
			s.tryDeliver()
		default:
			return "stdioasync\t0\t-\t-\tOPEN", "bad log entry " + ev
		}
	}
	j := func(xs []string) string {
		if len(xs) == 0 {
			return "-"
		}
		return strings.Join(xs, ",")
	}
	e.stat("session-ending:" + ending)
	op := fmt.Sprintf("stdioasync\t%s\t%s\t%s\t", pings, j(s.acts), j(outs))
	switch ending {
	case "EXIT", "PANIC":
		return op + ending, "ok"
	}
	return op + "OPEN", "real session ended with " + ending
}

// ---------------------------------------------------------------------------------------------- runner

func saGoEnv() []string {
	return append(os.Environ(), "GOFLAGS=-mod=mod", "GOPROXY=off", "GOSUMDB=off", "GOTOOLCHAIN=local")
}

func saRunBatch(bin string, dir string, scripts []string) ([]string, error) {
	opsName, outName := filepath.Join(dir, "ops"), filepath.Join(dir, "out")
	if err := os.WriteFile(opsName, []byte(strings.Join(scripts, "\n")+"\n"), 0644); err != nil {
		return nil, err
	}
	os.Remove(outName)
	cmd := exec.Command(bin, "-test.run", "^TestVerifAsync$", "-test.count=1", "-test.timeout=0")
	cmd.Dir = dir
	cmd.Env = append(saGoEnv(), "VERIF_OPS="+opsName, "VERIF_OUT="+outName)
	if msg, err := cmd.CombinedOutput(); err != nil {
		tail := string(msg)
		if len(tail) > 4000 {
			tail = tail[:4000]
		}
		done := 0
		if b, e2 := os.ReadFile(outName); e2 == nil {
			done = strings.Count(string(b), "\n")
		}
		culprit := ""
		if done < len(scripts) {
			culprit = scripts[done]
		}
		return nil, fmt.Errorf("the service test binary failed (a crash of the real service kills it) in session %q: %v\n%s", culprit, err, tail)
	}
	f, err := os.Open(outName)
	if err != nil {
		return nil, err
	}
	defer f.Close()
	var lines []string
	sc := bufio.NewScanner(f)
	sc.Buffer(make([]byte, 1<<20), 1<<26)
	for sc.Scan() {
		lines = append(lines, sc.Text())
	}
	return lines, sc.Err()
}

func init() {
	kernels["stdioasync"] = func(r *gen.Rand, e *emitter, tier string) {
		// debugging aids: VERIF_SA_SAVE=<file> keeps "script <TAB> log" of every session, VERIF_SA_REPLAY=<file>
		// linearises such a file again without running anything
		if name := os.Getenv("VERIF_SA_REPLAY"); name != "" {
			data, err := os.ReadFile(name)
			if err != nil {
				panic(err)
			}
			for _, line := range strings.Split(strings.TrimSpace(string(data)), "\n") {
				if parts := strings.SplitN(line, "\t", 2); len(parts) == 2 {
					op, exp := saLinearise(parts[0], parts[1], e)
					e.emit(op, exp)
				}
			}
			return
		}
		var save *os.File
		if name := os.Getenv("VERIF_SA_SAVE"); name != "" {
			save, _ = os.Create(name)
			defer save.Close()
		}
		repo := os.Getenv("VERIF_REPO")
		if repo == "" {
			repo = "/repo"
		}
		dir, err := os.MkdirTemp("", "verif-stdioasync-")
		if err != nil {
			panic(err)
		}
		defer os.RemoveAll(dir)
		bin := filepath.Join(dir, "svc.test")
		build := exec.Command("go", "test", "-tags", "verif", "-c", "-o", bin, "./cmd/esbuild")
		build.Dir = repo
		build.Env = saGoEnv()
		if msg, err := build.CombinedOutput(); err != nil {
			fmt.Fprintf(os.Stderr, "go test -c failed in %s: %v\n%s\n", repo, err, msg)
			os.Exit(3)
		}
		first := true
		for !e.full() {
			n := e.limit - e.n
			if n > 1000 {
				n = 1000
			}
			scripts := make([]string, 0, n)
			for len(scripts) < n {
				scripts = append(scripts, saScript(r, e))
			}
			if first && e.limit >= 200 { // one session with pings, last of its batch (the ping goroutine never ends)
				scripts[n-1] = fmt.Sprintf("%d P T1 z60000 T2", r.U64()>>1)
				e.stat("gen:ping-session")
			}
			first = false
			logs, err := saRunBatch(bin, dir, scripts)
			if err != nil {
				fmt.Fprintln(os.Stderr, err)
				os.Exit(3)
			}
			if len(logs) != len(scripts) {
				fmt.Fprintf(os.Stderr, "stdioasync: %d sessions but %d logs\n", len(scripts), len(logs))
				os.Exit(3)
			}
			for i, script := range scripts {
				if save != nil {
					fmt.Fprintf(save, "%s\t%s\n", script, logs[i])
				}
				op, exp := saLinearise(script, logs[i], e)
				if exp != "ok" && os.Getenv("VERIF_SA_DEBUG") != "" {
					fmt.Fprintf(os.Stderr, "session %q\n  log %s\n", script, logs[i])
				}
				e.emit(op, exp)
			}
		}
	}
}
