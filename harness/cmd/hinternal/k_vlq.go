package main

import (
	"encoding/hex"
	"fmt"

	"github.com/evanw/esbuild/internal/sourcemap"
	"github.com/evanw/esbuild/verifharness/gen"
)

func hexBytes(b []byte) string {
	if len(b) == 0 {
		return "-"
	}
	return hex.EncodeToString(b)
}

func hexU16(u []uint16) string {
	if len(u) == 0 {
		return "-"
	}
	b := make([]byte, 0, len(u)*4)
	for _, x := range u {
		b = append(b, fmt.Sprintf("%04x", x)...)
	}
	return string(b)
}

func init() {
	kernels["vlq"] = func(r *gen.Rand, e *emitter, tier string) {
		alpha := sourcemap.VerifBase64()
		for !e.full() {
			switch r.Intn(4) {
			case 0: // encode
				v := r.BoundaryInt()
				e.stat("enc")
				e.emit(fmt.Sprintf("vlq\tenc\t%d", v), hexBytes(sourcemap.VerifEncodeVLQ(nil, v)))
			case 1: // decode of well-formed concatenation at a random start
				var buf []byte
				n := 1 + r.Intn(4)
				for i := 0; i < n; i++ {
					buf = sourcemap.VerifEncodeVLQ(buf, r.BoundaryInt())
					if r.Chance(1, 3) {
						buf = append(buf, ",;"[r.Intn(2)])
					}
				}
				start := r.Intn(len(buf) + 1)
				e.stat("dec-wellformed")
				e.emit(fmt.Sprintf("vlq\tdec\t%s\t%d", hexBytes(buf), start), guard(func() string {
					v, n := sourcemap.DecodeVLQ(buf, start)
					return fmt.Sprintf("%d %d", v, n)
				}))
			case 2: // decode of arbitrary bytes (malformed stream): may panic by running off the end
				n := r.Intn(14)
				buf := make([]byte, n)
				for i := range buf {
					switch r.Intn(4) {
					case 0:
						buf[i] = byte(r.Intn(256))
					case 1:
						buf[i] = ",;\"\\ "[r.Intn(5)]
					default:
						buf[i] = alpha[r.Intn(len(alpha))]
					}
				}
				start := r.Intn(n + 2)
				e.stat("dec-malformed")
				e.emit(fmt.Sprintf("vlq\tdec\t%s\t%d", hexBytes(buf), start), guard(func() string {
					v, n := sourcemap.DecodeVLQ(buf, start)
					return fmt.Sprintf("%d %d", v, n)
				}))
			case 3: // UTF-16 variant on arbitrary units; never panics
				n := r.Intn(12)
				u := make([]uint16, n)
				for i := range u {
					switch r.Intn(5) {
					case 0:
						u[i] = uint16(r.Intn(65536))
					case 1:
						u[i] = uint16(alpha[r.Intn(len(alpha))]) + 256*uint16(r.Intn(3))
					default:
						u[i] = uint16(alpha[r.Intn(len(alpha))])
					}
				}
				e.stat("dec16")
				e.emit(fmt.Sprintf("vlq\tdec16\t%s", hexU16(u)), guard(func() string {
					v, n, ok := sourcemap.DecodeVLQUTF16(u)
					return fmt.Sprintf("%d %d %v", v, n, ok)
				}))
			}
		}
	}
}
