package main

import (
	"fmt"
	"math"
	"strings"
	"unicode/utf8"

	"github.com/evanw/esbuild/internal/helpers"
	"github.com/evanw/esbuild/verifharness/gen"
)

// ---- generators of kernel "printkey"

var pkNames = []string{"a", "b", "k", "get", "set", "static", "async", "accessor", "__proto__", "constructor", "prototype",
	"é", "中", "x1", "$", "_", "NaN", "Infinity", "undefined", "of", "let", "ℂ", "a‍", "ª"}

var pkReserved = []string{"if", "class", "new", "yield", "await", "in", "instanceof", "true", "null", "this", "function", "var", "enum"}

var pkOddStrings = []string{"", "a b", "a-b", "1", "01", "-1", "1.5", "1e3", "0x10", "-0", "0", "123", "4294967296", "2147483647", "2147483648",
	"-2147483648", "9007199254740993", " 1", "1 ", "+1", "1n", "#a", "@", "it's", "say \"hi\"", "`", "'\"`", "${x}", "$", "\n", "\n\n\"", "</script>",
	" ", "\ufeff", "a.b", "[a]", "\\u0061", "\U00010000", "a\U00010000", "\U0001d49c", "ab\U0001d49c", "\U00020000x", "·", "a·"}

func pkKeyUnits(r *gen.Rand, e *emitter) []uint16 {
	switch r.Intn(12) {
	case 0, 1, 2, 3, 4:
		e.stat("str:name")
		return helpers.StringToUTF16(r.Pick(pkNames))
	case 5:
		e.stat("str:reserved-word")
		return helpers.StringToUTF16(r.Pick(pkReserved))
	case 6, 7, 8:
		e.stat("str:odd")
		return helpers.StringToUTF16(r.Pick(pkOddStrings))
	case 9:
		e.stat("str:random-units")
		return genUnits(r, 1+r.Intn(5))
	case 10:
		e.stat("str:identifier-like")
		name := identName(r, e)
		return identUnits(r, e, name)
	default:
		e.stat("str:lone-surrogate")
		u := helpers.StringToUTF16(r.Pick(pkNames))
		lone := []uint16{0xD800, 0xDBFF, 0xDC00, 0xDFFF}[r.Intn(4)]
		i := r.Intn(len(u) + 1)
		return append(append(append([]uint16{}, u[:i]...), lone), u[i:]...)
	}
}

func pkNumber(r *gen.Rand, e *emitter) float64 {
	switch r.Intn(10) {
	case 0:
		e.stat("num:zero")
		if r.Bool() {
			return math.Copysign(0, -1)
		}
		return 0
	case 1:
		e.stat("num:nan")
		if r.Bool() {
			return math.Float64frombits(math.Float64bits(math.NaN()) | 1<<63)
		}
		return math.NaN()
	case 2:
		e.stat("num:inf")
		return math.Inf(1 - 2*r.Intn(2))
	case 3, 4, 5:
		e.stat("num:small-int")
		v := float64(r.Intn(1200))
		if r.Chance(1, 3) {
			v = -v
		}
		return v
	default:
		v, class := npFloat(r)
		e.stat("num:" + class)
		if r.Chance(1, 3) {
			v = -v
		}
		return v
	}
}

func pkIdentName(r *gen.Rand, e *emitter) string {
	if r.Chance(1, 40) {
		e.stat("name:astral")
		return r.Pick([]string{"\U00010000", "a\U00010000", "\U0001d49c"})
	}
	return r.Pick(pkNames)
}

func pkKeyGen(r *gen.Rand, e *emitter, class bool, computed bool) pkKey {
	n := r.Intn(20)
	switch {
	case n < 9:
		return pkKey{kind: 'S', units: pkKeyUnits(r, e)}
	case n < 13:
		return pkKey{kind: 'N', num: pkNumber(r, e)}
	case n < 14:
		return pkKey{kind: 'B', text: r.Pick([]string{"0", "1", "123", "0x1F", "0b101", "0o17", "12345678901234567890"})}
	case n < 16:
		k := pkKey{kind: 'M', text: pkIdentName(r, e), mangled: r.Bool()}
		if r.Chance(1, 5) {
			k.text = r.Pick([]string{"a-b", "", "1", "a b", "it's", "\U00010000"})
		}
		return k
	case n < 17:
		if class || r.Chance(1, 4) {
			return pkKey{kind: 'P', text: "#" + pkIdentName(r, e)}
		}
		return pkKey{kind: 'S', units: pkKeyUnits(r, e)}
	case n < 18:
		if computed || r.Chance(1, 8) {
			return pkKey{kind: 'I', text: pkIdentName(r, e)}
		}
		return pkKey{kind: 'S', units: pkKeyUnits(r, e)}
	case n < 19:
		return pkKey{kind: 'E', units: pkKeyUnits(r, e), text: r.Pick([]string{"A", "Member", "x y", ""})}
	default:
		return pkKey{kind: 'F', num: pkNumber(r, e), text: r.Pick([]string{"A", "Member"})}
	}
}

func pkRawVal(r *gen.Rand, e *emitter) pkVal {
	if r.Bool() {
		return pkVal{kind: 'R', num: r.Intn(1000)}
	}
	return pkVal{kind: 'R', num: -1, name: pkIdentName(r, e)}
}

// a value for `key: value`; sameName (when not "") makes shorthand candidates
func pkValGen(r *gen.Rand, e *emitter, sameName string) pkVal {
	name := pkIdentName(r, e)
	if sameName != "" && r.Chance(2, 3) {
		name = sameName
	}
	switch r.Intn(10) {
	case 0, 1, 2, 3:
		return pkVal{kind: 'I', name: name, num: -1}
	case 4, 5:
		v := pkVal{kind: 'J', name: name, cnst: -1, num: -1}
		switch r.Intn(4) {
		case 0:
			v.ns, v.alias = r.Pick([]string{"ns", "import_x"}), r.Pick([]string{"a", "default", "a-b", "é", "\U00010000", "it's"})
			e.stat("val:import-namespace-alias")
		case 1:
			v.cnst = r.Intn(1000)
			e.stat("val:import-const")
		}
		return v
	case 6:
		return pkVal{kind: 'F', async: r.Bool(), gen: r.Bool(), num: -1}
	default:
		return pkRawVal(r, e)
	}
}

func pkKeyName(k pkKey) string {
	switch k.kind {
	case 'S':
		if s := helpers.UTF16ToString(k.units); utf8.ValidString(s) {
			return s
		}
		return ""
	case 'M':
		return k.text
	}
	return ""
}

// mostly well-formed members (what the parser produces); wild = any combination of the fields
func pkPropGen(r *gen.Rand, e *emitter, class bool, wild bool) pkProp {
	p := pkProp{kind: 'f'}
	if wild {
		p.kind = "fmgsaxdb"[r.Intn(8)]
		if p.kind == 'b' && !class {
			p.kind = 'f'
		}
		p.flags = r.Intn(16)
		p.key = pkKeyGen(r, e, class, p.flags&1 != 0)
		p.val = pkValGen(r, e, pkKeyName(p.key))
		if r.Chance(1, 3) {
			p.val = pkVal{kind: '-'}
		}
		if r.Chance(1, 4) {
			v := pkRawVal(r, e)
			p.init = &v
		}
		e.stat("shape:wild")
		return p
	}
	if r.Chance(1, 4) {
		p.flags |= 1
	}
	p.key = pkKeyGen(r, e, class, p.flags&1 != 0)
	if p.key.kind == 'I' || p.key.kind == 'E' || p.key.kind == 'F' {
		p.flags |= 1 // only legal as computed keys
	}
	if p.key.kind == 'P' || (p.key.kind == 'M' && r.Chance(3, 4)) {
		p.flags &^= 1
	}
	if p.key.kind == 'S' && p.flags&1 == 0 && r.Chance(1, 4) {
		p.flags |= 8
	}
	fn := pkVal{kind: 'F', async: r.Chance(1, 3), gen: r.Chance(1, 3), num: -1}
	if class {
		if r.Chance(1, 3) {
			p.flags |= 2
		}
		switch r.Intn(12) {
		case 0, 1, 2, 3:
			p.kind, p.val = 'f', pkVal{kind: '-'}
			if r.Bool() {
				v := pkRawVal(r, e)
				p.init = &v
			}
		case 4, 5, 6:
			p.kind, p.val = 'm', fn
		case 7:
			p.kind, p.val = 'g', pkVal{kind: 'F', num: -1}
		case 8:
			p.kind, p.val = 's', pkVal{kind: 'F', num: -1}
		case 9:
			p.kind, p.val = 'a', pkVal{kind: '-'}
			if r.Bool() {
				v := pkRawVal(r, e)
				p.init = &v
			}
		case 10:
			p.kind, p.val = 'b', pkVal{kind: '-'}
			p.flags = 0
			p.key = pkKey{kind: 'S'}
		default:
			p.kind, p.val = 'd', pkVal{kind: '-'}
		}
		return p
	}
	if p.key.kind == 'P' {
		p.key = pkKey{kind: 'S', units: pkKeyUnits(r, e)}
	}
	switch r.Intn(12) {
	case 0, 1, 2, 3, 4, 5, 6:
		p.val = pkValGen(r, e, pkKeyName(p.key))
		if (p.val.kind == 'I' || p.val.kind == 'J') && p.key.kind == 'S' && p.flags&1 == 0 && r.Bool() {
			p.flags |= 4 // `{a}` in the source; the value may have been renamed since
			p.flags &^= 8
		}
		if r.Chance(1, 8) {
			v := pkRawVal(r, e)
			p.init = &v
		}
	case 7, 8:
		p.kind, p.val = 'm', fn
	case 9:
		p.kind, p.val = 'g', pkVal{kind: 'F', num: -1}
	case 10:
		p.kind, p.val = 's', pkVal{kind: 'F', num: -1}
	default:
		p.kind, p.flags, p.val = 'x', 0, pkRawVal(r, e)
		p.key = pkKey{kind: 'S'}
	}
	return p
}

func pkOptsGen(r *gen.Rand) pkOpts {
	o := pkOpts{ms: r.Bool(), mw: r.Bool(), mi: r.Chance(1, 4), ascii: r.Chance(1, 3), noObjExt: r.Chance(1, 5), noUE: r.Chance(1, 4),
		noTemplate: r.Chance(1, 5), noInlineScript: r.Chance(1, 6), inWith: r.Chance(1, 5)}
	return o
}

func pkPropStats(e *emitter, p pkProp, class bool, o pkOpts) {
	where := "obj"
	if class {
		where = "cls"
	}
	e.stat(fmt.Sprintf("%s:kind-%c", where, p.kind))
	if p.kind == 'b' || p.kind == 'x' {
		return
	}
	comp := p.flags&1 != 0
	e.stat(fmt.Sprintf("key-%c:computed=%v:ms=%v", p.key.kind, comp, o.ms))
	if p.flags&2 != 0 {
		e.stat("flag:static")
	}
	if p.flags&4 != 0 {
		e.stat("flag:wasShorthand")
	}
	if p.flags&8 != 0 {
		e.stat("flag:preferQuoted")
	}
	name := pkKeyName(p.key)
	if name == "__proto__" || name == "constructor" || name == "prototype" {
		e.stat(fmt.Sprintf("special:%s:computed=%v:shorthand=%v:noObjExt=%v", name, comp, p.flags&4 != 0, o.noObjExt))
	}
	if (p.val.kind == 'I' || p.val.kind == 'J') && name != "" {
		e.stat(fmt.Sprintf("shorthand-candidate:%c:same-name=%v:noObjExt=%v", p.key.kind, p.val.name == name, o.noObjExt))
	}
	if p.key.kind == 'N' || p.key.kind == 'F' {
		v := p.key.num
		switch {
		case math.IsNaN(v):
			e.stat(fmt.Sprintf("numkey:nan:signbit=%v:with=%v", math.Signbit(v), o.inWith))
		case math.IsInf(v, 0):
			e.stat(fmt.Sprintf("numkey:inf:neg=%v:ms=%v:with=%v", v < 0, o.ms, o.inWith))
		case v == 0:
			e.stat(fmt.Sprintf("numkey:zero:signbit=%v", math.Signbit(v)))
		default:
			e.stat(fmt.Sprintf("numkey:finite:neg=%v", v < 0))
		}
	}
	if p.init != nil {
		e.stat("init")
	}
	if p.val.kind == 'F' {
		e.stat(fmt.Sprintf("fn:method=%v:async=%v:gen=%v", strings.IndexByte("mgs", p.kind) >= 0, p.val.async, p.val.gen))
	}
}
