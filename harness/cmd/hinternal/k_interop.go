package main

import (
	"encoding/json"
	"fmt"
	"os"
	"os/exec"
	"path/filepath"
	"strings"

	"github.com/evanw/esbuild/internal/compat"
	"github.com/evanw/esbuild/internal/runtime"
	"github.com/evanw/esbuild/verifharness/gen"
)

// kernel "interop": the JavaScript TEXT of esbuild's ESM/CommonJS interop helpers (__export, __copyProps through
// __reExport, __toESM, __toCommonJS, __esm, __esmMin, __commonJS, __commonJSMin), taken from the real
// runtime.Source(unsupported) for two feature sets (nothing unsupported; ES5), is evaluated in Node 20 and run on
// generated heaps of objects (data properties, accessors whose getters / setters are instrumented functions of a
// scripted world that may redefine / delete properties and freeze objects while it answers, non-enumerable and
// symbol keys, array-index keys, __esModule true / false / getter / inherited, prototypes, non-extensible and
// frozen objects, functions as module.exports).  The answer (result of every step, event trace, descriptors of every
// object at the end) is compared with Impl/Interop.lean run on the same operation line.
//
// Kind A: object helpers + ordinary reads / assignments / mutations afterwards (liveness).
// Kind B: the lazy-init wrappers under arbitrary call trees (re-entrant calls from inside the body, throwing
// bodies, later calls), bodies of CommonJS modules assigning exports.k and module.exports.

var interopKeys = []string{"a", "b", "c", "d", "default", "__esModule", "x1", "0", "1", "2", "10", "undefined"}

type iopGen struct {
	r     *gen.Rand
	e     *emitter
	nObj  int // user objects live at 6 .. 6+nObj-1
	fnObj []int
}

func (g *iopGen) key() string {
	if g.r.Chance(1, 8) {
		return fmt.Sprintf("y%d", g.r.Intn(2))
	}
	return "s" + g.r.Pick(interopKeys)
}

func (g *iopGen) objRef() string { return fmt.Sprintf("O%d", 6+g.r.Intn(g.nObj)) }

func (g *iopGen) val(regs int) string {
	switch g.r.Intn(14) {
	case 0:
		return "u"
	case 1:
		return "n"
	case 2:
		return "t"
	case 3:
		return "f"
	case 4:
		return "N0"
	case 5:
		return fmt.Sprintf("N%d", g.r.Intn(9)-3)
	case 6:
		return "S"
	case 7:
		return "S" + g.r.Pick([]string{"a", "default", "xy"})
	case 8:
		return fmt.Sprintf("Y%d", g.r.Intn(2))
	case 9:
		if regs > 0 {
			return fmt.Sprintf("R%d", g.r.Intn(regs))
		}
		return g.objRef()
	default:
		return g.objRef()
	}
}

func (g *iopGen) fnOrUndef() string {
	if len(g.fnObj) == 0 || g.r.Chance(1, 4) {
		return "u"
	}
	return fmt.Sprintf("O%d", g.fnObj[g.r.Intn(len(g.fnObj))])
}

func (g *iopGen) flags(n int) string {
	s := ""
	for i := 0; i < n; i++ {
		if g.r.Chance(4, 5) {
			s += "1"
		} else {
			s += "0"
		}
	}
	return s
}

func (g *iopGen) prop(key string, regs int) string {
	if g.r.Chance(1, 3) {
		return fmt.Sprintf("%s:A:%s:%s:%s", key, g.fnOrUndef(), g.fnOrUndef(), g.flags(2))
	}
	return fmt.Sprintf("%s:D:%s:%s", key, g.val(regs), g.flags(3))
}

// heap returns the wire text of nObj user objects, nFn of which are functions (function k is host function k)
func (g *iopGen) heap(nObj, nFn int, thunks bool) string {
	g.nObj = nObj
	g.fnObj = nil
	isFn := make([]bool, nObj)
	for k := 0; k < nFn; k++ {
		isFn[nObj-1-k] = true // functions last, so that plain objects come first
		g.fnObj = append(g.fnObj, 6+nObj-1-k)
	}
	var objs []string
	fid := nFn
	for i := 0; i < nObj; i++ {
		proto := "O0"
		code := "-"
		var props []string
		seen := map[string]bool{}
		if isFn[i] {
			fid--
			proto = "O1"
			code = fmt.Sprintf("h%d", nFn-1-fid)
			props = append(props, "slength:D:N0:001", "sname:D:Sf:001")
			seen["slength"], seen["sname"] = true, true
			g.e.stat("heap:function-object")
		} else {
			switch g.r.Intn(8) {
			case 0:
				proto = "n"
				g.e.stat("heap:null-proto")
			case 1, 2:
				if i > 0 {
					proto = fmt.Sprintf("O%d", 6+g.r.Intn(i))
					g.e.stat("heap:user-proto")
				}
			}
		}
		n := g.r.Intn(6)
		if isFn[i] {
			n = g.r.Intn(3)
		}
		if thunks && i == 1 {
			n = 2 + g.r.Intn(4)
		}
		for j := 0; j < n; j++ {
			k := g.key()
			if seen[k] {
				continue
			}
			seen[k] = true
			if thunks && i == 1 && g.r.Chance(3, 4) {
				// the `all` object of __export: mostly thunks
				props = append(props, fmt.Sprintf("%s:D:%s:%s", k, g.fnOrUndef(), g.flags(3)))
				continue
			}
			props = append(props, g.prop(k, 0))
		}
		if !seen["s__esModule"] && g.r.Chance(1, 3) {
			switch g.r.Intn(4) {
			case 0:
				props = append(props, "s__esModule:D:t:"+g.flags(3))
			case 1:
				props = append(props, "s__esModule:D:t:000")
			case 2:
				props = append(props, "s__esModule:D:"+g.val(0)+":"+g.flags(3))
			default:
				props = append(props, "s__esModule:A:"+g.fnOrUndef()+":u:"+g.flags(2))
			}
			g.e.stat("heap:__esModule")
		}
		ext := "1"
		if g.r.Chance(1, 10) {
			ext = "0"
			g.e.stat("heap:non-extensible")
			if g.r.Bool() { // frozen
				for j, p := range props {
					f := strings.Split(p, ":")
					if f[1] == "D" {
						f[3] = "0" + f[3][1:2] + "0"
					} else {
						f[4] = f[4][0:1] + "0"
					}
					props[j] = strings.Join(f, ":")
				}
				g.e.stat("heap:frozen")
			}
		}
		objs = append(objs, fmt.Sprintf("%s:%s:%s|%s", proto, ext, code, strings.Join(props, ",")))
	}
	return strings.Join(objs, ";")
}

func (g *iopGen) item(regs int) string {
	o := g.objRef()
	if regs > 0 && g.r.Chance(1, 3) {
		o = fmt.Sprintf("R%d", g.r.Intn(regs))
	}
	switch g.r.Intn(6) {
	case 0:
		return "X," + o + "," + g.key()
	case 1:
		if g.r.Chance(1, 3) {
			return "Z," + o
		}
		fallthrough
	default:
		return "P," + o + "," + g.prop(g.key(), regs)
	}
}

func (g *iopGen) behaviour(regs int) string {
	var items []string
	for n := g.r.Intn(3); n > 0; n-- {
		items = append(items, g.item(regs))
	}
	switch g.r.Intn(8) {
	case 0:
		items = append(items, "T,"+g.val(regs))
	case 1, 2:
		items = append(items, "G,"+g.objRef()+","+g.key())
	default:
		items = append(items, "R,"+g.val(regs))
	}
	return strings.Join(items, "&")
}

func (g *iopGen) caseA() string {
	nFn := 1 + g.r.Intn(3)
	nObj := nFn + 2 + g.r.Intn(4)
	thunks := g.r.Chance(1, 3)
	heap := g.heap(nObj, nFn, thunks)
	nSteps := 3 + g.r.Intn(7)
	var fns []string
	for f := 0; f < nFn; f++ {
		var bs []string
		for n := 1 + g.r.Intn(3); n > 0; n-- {
			bs = append(bs, g.behaviour(nSteps/2))
		}
		fns = append(fns, strings.Join(bs, "/"))
	}
	var steps []string
	src := func(i int) string { // what a helper is applied to
		switch {
		case i > 0 && g.r.Chance(1, 3):
			return fmt.Sprintf("R%d", g.r.Intn(i))
		case g.r.Chance(1, 8):
			return g.val(i)
		default:
			return g.objRef()
		}
	}
	for i := 0; i < nSteps; i++ {
		c := g.r.Intn(14)
		if i == 0 {
			c = g.r.Intn(5)
		}
		switch c {
		case 0, 1:
			steps = append(steps, "toESM,"+src(i)+","+g.r.Pick([]string{"u", "N1", "u", "N0", "t", "u"}))
		case 2:
			steps = append(steps, "toCJS,"+src(i))
		case 3:
			all := "O7"
			if !thunks || g.r.Chance(1, 5) {
				all = src(i)
				if all[0] == 'S' && all != "S" { // a non-empty string as `all` is outside the model
					all = "u"
				}
			}
			steps = append(steps, "export,"+src(i)+","+all)
		case 4:
			second := "u"
			if g.r.Chance(1, 3) {
				second = src(i)
				if second[0] == 'S' {
					second = "N0"
				}
			}
			t := src(i)
			if t[0] == 'S' {
				t = g.objRef()
			}
			steps = append(steps, "reExport,"+t+","+src(i)+","+second)
		case 5, 6, 7, 8, 9:
			v := src(i)
			if v[0] == 'S' {
				v = g.objRef()
			}
			steps = append(steps, "get,"+v+","+g.key())
		case 10, 11:
			o := g.objRef()
			if i > 0 && g.r.Bool() {
				o = fmt.Sprintf("R%d", g.r.Intn(i))
			}
			steps = append(steps, "set,"+o+","+g.key()+","+g.val(i))
		default:
			steps = append(steps, "eff,"+g.item(i))
		}
	}
	return fmt.Sprintf("interop\tA\t%d\t%s\t%s\t%s", g.r.Intn(2), heap, strings.Join(fns, ";"), strings.Join(steps, ";"))
}

func (g *iopGen) body(depth int, acts bool) string {
	var sb []string
	for n := g.r.Intn(4); n > 0; n-- {
		switch {
		case depth < 3 && g.r.Chance(1, 2):
			sb = append(sb, "n,"+g.body(depth+1, acts))
		case acts && g.r.Chance(2, 3):
			sb = append(sb, "a,e,"+g.key()+","+g.val(0))
		case acts:
			sb = append(sb, "a,m,"+g.val(0))
		}
	}
	out := "d,R," + g.val(0)
	if g.r.Chance(1, 4) {
		out = "d,T," + g.val(0)
	}
	sb = append(sb, out)
	return strings.Join(sb, ",")
}

func (g *iopGen) caseB() string {
	kind := g.r.Pick([]string{"esm", "esmMin", "cjs", "cjsMin"})
	min := strings.HasSuffix(kind, "Min")
	// objects: 6 = the argument of the wrapper (unless Min), 7 = the module function, 8.. = plain objects
	g.nObj, g.fnObj = 4, []int{7}
	first := "spath:D:O7:111"
	switch g.r.Intn(10) {
	case 0:
		first = "" // {}: fn[undefined] is not callable
	case 1:
		first = "spath:D:N5:111" // not callable
	case 2:
		first = "sb:D:O7:111,s1:D:N3:111" // getOwnPropertyNames lists "1" first
	}
	heap := "O0:1:-|" + first + ";O1:1:h0|slength:D:N0:001,sname:D:Sf:001;O0:1:-|sa:D:N1:111;n:1:-|"
	fn := "O6"
	if min {
		fn = "O7"
		if g.r.Chance(1, 8) {
			fn = "O8" // not callable
		}
	}
	if g.r.Chance(1, 12) {
		fn = g.r.Pick([]string{"u", "N0", "N5", "Sab", "n", "t"})
	}
	var calls []string
	for n := 1 + g.r.Intn(4); n > 0; n-- {
		calls = append(calls, g.body(0, strings.HasPrefix(kind, "cjs")))
	}
	return fmt.Sprintf("interop\tB\t%d\t%s\t%s\t%s\t%s", g.r.Intn(2), kind, heap, fn, strings.Join(calls, ";"))
}

func init() {
	kernels["interop"] = func(r *gen.Rand, e *emitter, tier string) {
		g := &iopGen{r: r, e: e}
		es5 := compat.UnsupportedJSFeatures(map[compat.Engine]compat.Semver{compat.ES: {Parts: []int{5}}})
		texts := []string{runtime.Source(0).Contents, runtime.Source(es5).Contents}
		if !strings.Contains(texts[0], "for (let key of __getOwnPropNames(from))") || !strings.Contains(texts[1], ".bind(null, key)") {
			panic("interop: the two runtime texts are not the expected variants")
		}
		malformed := []string{"interop\tA\t0", "interop\tC\t0\t-\t-\t-", "interop\tA\t0\tO0:1\t-\t-", "interop\tA\t0\t-\t-\tfrob,u",
			"interop\tB\t0\tesm\t-\tu\td,R", "interop\tB\t0\tcjs\t-\tu\ta,e,sa", "interop\tA\t0\t-\tQ,u\t-", "interop\tA\t0\t-\t-\tget,R3,sa"}
		var ops []string
		for len(ops) < e.limit-len(malformed) || len(ops) == 0 {
			if g.r.Chance(1, 4) {
				ops = append(ops, g.caseB())
			} else {
				ops = append(ops, g.caseA())
			}
		}
		dir, err := os.MkdirTemp("", "interop")
		if err != nil {
			panic(err)
		}
		defer os.RemoveAll(dir)
		tj, _ := json.Marshal(texts)
		os.WriteFile(filepath.Join(dir, "texts.json"), tj, 0644)
		os.WriteFile(filepath.Join(dir, "runner.js"), []byte(interopRunner), 0644)
		os.WriteFile(filepath.Join(dir, "ops.txt"), []byte(strings.Join(ops, "\n")+"\n"), 0644)
		cmd := exec.Command("node", "--stack-size=2000", filepath.Join(dir, "runner.js"), filepath.Join(dir, "texts.json"), filepath.Join(dir, "ops.txt"), filepath.Join(dir, "out.txt"))
		if outb, err := cmd.CombinedOutput(); err != nil {
			panic(fmt.Sprintf("node failed: %v\n%s", err, outb))
		}
		outb, err := os.ReadFile(filepath.Join(dir, "out.txt"))
		if err != nil {
			panic(err)
		}
		lines := strings.Split(strings.TrimRight(string(outb), "\n"), "\n")
		if len(lines) != len(ops) {
			panic(fmt.Sprintf("node answered %d lines for %d cases", len(lines), len(ops)))
		}
		for i, op := range ops {
			interopStats(e, op, lines[i])
			e.emit(op, lines[i])
		}
		for _, m := range malformed {
			e.stat("malformed")
			e.emit(m, "bad-op")
		}
	}
}

// interopStats records which branches of the helpers a case went through (derived from the operation and from
// what Node answered)
func interopStats(e *emitter, op, line string) {
	f := strings.Split(op, "\t")
	e.stat("kind:" + f[1])
	e.stat("text-variant:" + f[2])
	if strings.HasPrefix(line, "HARNESS-ERROR") || strings.Contains(line, "E:OTHER") {
		e.stat("node:harness-error")
	}
	parts := strings.SplitN(line, "|", 3)
	if len(parts) != 3 {
		return
	}
	results := strings.Split(parts[0], ";")
	if f[1] == "B" {
		e.stat("B:" + f[3])
		for _, k := range []string{"E:TypeError", "E:throw", "reent:V", "reent:E", "call:"} {
			if strings.Contains(line, k) {
				e.stat("B:" + f[3] + ":" + k)
			}
		}
		if strings.Count(parts[1], "call:") > 1 {
			e.stat("B:" + f[3] + ":body-ran-more-than-once")
		}
		if len(results) > 1 && results[0] == results[len(results)-1] && strings.HasPrefix(results[0], "E:") {
			e.stat("B:" + f[3] + ":same-error-again")
		}
		if strings.Contains(parts[1], "reent:VQ") {
			e.stat("B:" + f[3] + ":partial-exports-seen-on-reentry")
		}
		return
	}
	steps := strings.Split(f[5], ";")
	for i, st := range steps {
		if i >= len(results) {
			break
		}
		p := strings.Split(st, ",")
		res := results[i]
		cls := "ok"
		switch {
		case strings.HasPrefix(res, "E:TypeError"):
			cls = "TypeError"
		case strings.HasPrefix(res, "E:throw"):
			cls = "host-throw"
		case strings.HasPrefix(res, "E:"):
			cls = "other:" + res
		}
		e.stat("A:" + p[0] + ":" + cls)
		switch p[0] {
		case "toESM":
			e.stat("A:toESM:mod=" + p[1][:1] + ":nodeMode=" + p[2])
		case "toCJS":
			e.stat("A:toCJS:mod=" + p[1][:1])
		case "get":
			e.stat("A:get:from=" + p[1][:1])
		case "set":
			e.stat("A:set:" + res)
		}
	}
	if strings.Contains(parts[2], ":Ac,") {
		e.stat("A:closure-getter-in-final-heap")
	}
	if strings.Contains(parts[2], "sdefault:DO") || strings.Contains(parts[2], "sdefault:DQ") {
		e.stat("A:default-data-property")
	}
	if strings.Contains(parts[1], "call:") {
		e.stat("A:host-calls")
	}
	if strings.Contains(parts[2], "Q3=") {
		e.stat("A:four-or-more-helper-objects")
	}
}
