package main

import (
	"fmt"
	"os"
	"path/filepath"
	"regexp"
	"sort"
	"strconv"
	"strings"
	"sync"
	"sync/atomic"
	"time"

	"github.com/evanw/esbuild/pkg/api"
	"github.com/evanw/esbuild/verifharness/gen"
)

// kernel "ctx": several goroutines call Rebuild / Cancel / Dispose on one real build context at random times
// while the entry file is edited. A plugin stamps the start and end of every build with a global counter; every
// API call is stamped before it is made and after it returned, and a Rebuild records which build's result it got
// (each build's on-end callback adds a warning naming the build). The stamped history is linearised (each call
// gets the moment of its locked step) and replayed on the Lean state machine, which must accept every action,
// return the same builds and agree that every build saw the edits that preceded it.

type ctxCall struct {
	thread    int
	kind      byte // R C D
	call, ret float64
	build     int // Rebuild: build number returned, -1 = empty result
}

type ctxBuild struct {
	start, end float64
	seen       int
}

var reBuildTag = regexp.MustCompile(`^build#(\d+)$`)
var reVersion = regexp.MustCompile(`"version",\s*(\d+)`)

func runCtxHistory(r *gen.Rand, dir string, e *emitter) (string, string, bool) {
	os.RemoveAll(dir)
	os.MkdirAll(dir, 0755)
	entry := filepath.Join(dir, "entry.js")
	writeVersion := func(v int) {
		tmp := entry + ".tmp"
		os.WriteFile(tmp, []byte(fmt.Sprintf("console.log(\"version\", %d);\n", v)), 0644)
		os.Rename(tmp, entry)
	}
	writeVersion(0)
	var clock int64
	stamp := func() float64 { return float64(atomic.AddInt64(&clock, 1)) }
	var mu sync.Mutex
	builds := []*ctxBuild{}
	var current int64 = -1
	delay := func(max int) {
		if max > 0 {
			time.Sleep(time.Duration(r.Intn(max)) * time.Microsecond)
		}
	}
	loadDelay := 200 + r.Intn(3000)
	ctx, err := api.Context(api.BuildOptions{AbsWorkingDir: dir, EntryPoints: []string{entry}, Bundle: true, Write: false, LogLevel: api.LogLevelSilent,
		Plugins: []api.Plugin{{Name: "stamp", Setup: func(b api.PluginBuild) {
			b.OnStart(func() (api.OnStartResult, error) {
				mu.Lock()
				builds = append(builds, &ctxBuild{start: stamp(), seen: -1})
				atomic.StoreInt64(&current, int64(len(builds)-1))
				mu.Unlock()
				return api.OnStartResult{}, nil
			})
			b.OnLoad(api.OnLoadOptions{Filter: `entry\.js$`}, func(a api.OnLoadArgs) (api.OnLoadResult, error) {
				time.Sleep(time.Duration(loadDelay) * time.Microsecond)
				return api.OnLoadResult{}, nil
			})
			b.OnEnd(func(res *api.BuildResult) (api.OnEndResult, error) {
				mu.Lock()
				k := len(builds) - 1
				builds[k].end = stamp()
				for _, f := range res.OutputFiles {
					if m := reVersion.FindSubmatch(f.Contents); m != nil {
						builds[k].seen, _ = strconv.Atoi(string(m[1]))
					}
				}
				mu.Unlock()
				return api.OnEndResult{Warnings: []api.Message{{Text: fmt.Sprintf("build#%d", k)}}}, nil
			})
		}}}})
	if err != nil {
		return "", "", false
	}
	var calls []ctxCall
	var edits []float64
	var cmu sync.Mutex
	nThreads := 2 + r.Intn(4)
	plans := make([][]byte, nThreads)
	disposeUsed := false
	threadID := 0
	type planned struct {
		kind byte
		id   int
		gap  int
	}
	allPlans := make([][]planned, nThreads)
	for g := 0; g < nThreads; g++ {
		n := 1 + r.Intn(3)
		for i := 0; i < n; i++ {
			k := byte('R')
			switch r.Intn(6) {
			case 0, 1:
				k = 'C'
			case 2:
				if !disposeUsed && r.Chance(1, 2) {
					k = 'D'
					disposeUsed = true
				}
			}
			allPlans[g] = append(allPlans[g], planned{kind: k, id: threadID, gap: r.Intn(2500)})
			threadID++
		}
	}
	_ = plans
	nEdits := r.Intn(4)
	editGaps := []int{}
	for i := 0; i < nEdits; i++ {
		editGaps = append(editGaps, r.Intn(3000))
	}
	var wg sync.WaitGroup
	for g := 0; g < nThreads; g++ {
		wg.Add(1)
		go func(plan []planned) {
			defer wg.Done()
			for _, p := range plan {
				time.Sleep(time.Duration(p.gap) * time.Microsecond)
				c := ctxCall{thread: p.id, kind: p.kind, build: -1}
				c.call = stamp()
				switch p.kind {
				case 'R':
					res := ctx.Rebuild()
					c.ret = stamp()
					for _, w := range res.Warnings {
						if m := reBuildTag.FindStringSubmatch(w.Text); m != nil {
							c.build, _ = strconv.Atoi(m[1])
						}
					}
					if c.build < 0 && os.Getenv("VERIF_CTX_DEBUG") != "" {
						fmt.Fprintf(os.Stderr, "untagged result: thread %d call %v ret %v errors=%v warnings=%v outputs=%d\n", c.thread, c.call, c.ret, res.Errors, res.Warnings, len(res.OutputFiles))
					}
				case 'C':
					ctx.Cancel()
					c.ret = stamp()
				case 'D':
					ctx.Dispose()
					c.ret = stamp()
				}
				cmu.Lock()
				calls = append(calls, c)
				cmu.Unlock()
			}
		}(allPlans[g])
	}
	wg.Add(1)
	go func() {
		defer wg.Done()
		for i, gap := range editGaps {
			time.Sleep(time.Duration(gap) * time.Microsecond)
			writeVersion(i + 1)
			t := stamp()
			cmu.Lock()
			edits = append(edits, t)
			cmu.Unlock()
		}
	}()
	wg.Wait()
	ctx.Dispose()
	delay(0)

	// ---- linearise
	// Stamps are taken OUTSIDE the context's mutex, so the locked steps lie somewhere in between:
	//   creation of build k        c_k in (call of its owner, start stamp of k)
	//   the owner's final step     f_k in (end stamp of k, return of every call that waited for k)
	//   a joined Rebuild / a waiting Cancel or Dispose takes its locked step in (c_k, f_k) and returns after f_k
	// Concrete moments are chosen inside these windows; if a window is empty the history has no linearisation.
	type act struct {
		at float64
		s  string
	}
	var owner map[int]int
	mu.Lock()
	bs := builds
	mu.Unlock()
	linearise := func(early bool) ([]act, string) {
		acts := []act{}
		fail := ""
		setFail := func(m string) {
			if fail == "" {
				fail = m
			}
		}
		for _, t := range edits {
			acts = append(acts, act{t, "E"})
		}
		for k, b := range bs {
			if b.end == 0 {
				setFail(fmt.Sprintf("build %d never ended", k))
			}
		}
		owner = map[int]int{}
		cK := make([]float64, len(bs))
		fK := make([]float64, len(bs))
		for k, b := range bs {
			best := -1
			for i, c := range calls {
				if c.kind == 'R' && c.build == k && c.call < b.start {
					if best < 0 || c.call < calls[best].call {
						best = i
					}
				}
			}
			if best < 0 {
				setFail(fmt.Sprintf("build %d: no Rebuild call that returned it was made before it started", k))
				cK[k], fK[k] = b.start-0.5, b.end+0.2
				continue
			}
			owner[k] = best
			upper := calls[best].ret
			for i, c := range calls {
				switch {
				case c.kind == 'R' && c.build == k && i != best && c.ret < upper:
					upper = c.ret
				case (c.kind == 'C' || c.kind == 'D') && c.call < calls[best].ret && c.ret > b.end && c.ret < upper:
					upper = c.ret // it waited for this build, or was called after the end stamp and found no active build: the build was over by then
				}
			}
			if k+1 < len(bs) && bs[k+1].start-0.55 < upper {
				upper = bs[k+1].start - 0.55
			}
			cK[k] = b.start - 0.5
			if early {
				// the build may have been created long before its on-start callback ran
				cK[k] = calls[best].call + 0.05
				if k > 0 && fK[k-1]+0.05 > cK[k] {
					cK[k] = fK[k-1] + 0.05
				}
			}
			fK[k] = upper - 0.2
			if fK[k] <= b.end {
				setFail(fmt.Sprintf("build %d ended at %v but a call that needed its result returned at %v", k, b.end, upper))
			}
			acts = append(acts, act{cK[k], fmt.Sprintf("R%d", calls[best].thread)}, act{fK[k], fmt.Sprintf("F%d", calls[best].thread)})
		}
		activeAt := func(at float64) int {
			for k := range bs {
				if cK[k] < at && at < fK[k] {
					return k
				}
			}
			return -1
		}
		// cancels: (b) waits for a build, (c) sees no active build; otherwise it needs a disposed context (a)
		type cancelPlace struct {
			at    float64
			waits bool
			ok    bool
		}
		cancels := map[int]cancelPlace{}
		for i, c := range calls {
			if c.kind != 'C' {
				continue
			}
			pl := cancelPlace{}
			for k := len(bs) - 1; k >= 0 && !pl.ok; k-- {
				at := c.call
				if cK[k] > at {
					at = cK[k]
				}
				at += 0.25
				if at < fK[k] && fK[k] < c.ret-0.1 {
					pl = cancelPlace{at: at, waits: true, ok: true}
				}
			}
			if !pl.ok {
				cands := []float64{c.call + 0.25}
				for k := range bs {
					cands = append(cands, fK[k]+0.05)
				}
				for _, at := range cands {
					if at > c.call && at < c.ret-0.05 && activeAt(at) < 0 {
						pl = cancelPlace{at: at, ok: true}
						break
					}
				}
			}
			cancels[i] = pl
		}
		var disposeAt float64 = -1
		for _, c := range calls {
			if c.kind != 'D' {
				continue
			}
			upper := c.ret
			lower := c.call
			for k := range bs {
				if cK[k] > lower {
					lower = cK[k] // every build was created before the context was disposed
				}
			}
			for i, r := range calls {
				switch r.kind {
				case 'R':
					if r.build < 0 {
						if r.ret < upper {
							upper = r.ret // an empty result means the context was already disposed
						}
					} else if r.build < len(bs) && owner[r.build] != i {
						l := r.call
						if cK[r.build] > l {
							l = cK[r.build]
						}
						if l+0.25 > lower {
							lower = l + 0.25 // a joined Rebuild took its locked step before the dispose
						}
					}
				case 'C':
					if pl := cancels[i]; !pl.ok {
						if r.ret < upper {
							upper = r.ret // this Cancel can only have returned because the context was disposed
						}
					}
				}
			}
			at := upper - 0.3
			if at <= lower {
				setFail(fmt.Sprintf("Dispose by thread %d [%v,%v]: no moment for its locked step (needs > %v and < %v)", c.thread, c.call, c.ret, lower, upper))
				continue
			}
			disposeAt = at
			acts = append(acts, act{at, fmt.Sprintf("D%d", c.thread)})
			if k := activeAt(at); k >= 0 {
				if fK[k] > c.ret-0.1 {
					setFail(fmt.Sprintf("Dispose by thread %d returned at %v before the build it had to wait for was over (%v)", c.thread, c.ret, fK[k]))
				}
				acts = append(acts, act{c.ret - 0.1, fmt.Sprintf("U%d", c.thread)})
			}
		}
		for i, c := range calls {
			switch c.kind {
			case 'R':
				if c.build < 0 {
					if disposeAt < 0 || disposeAt > c.ret-0.25 {
						setFail(fmt.Sprintf("Rebuild by thread %d returned an empty result although the context was not disposed before it returned", c.thread))
						continue
					}
					acts = append(acts, act{c.ret - 0.25, fmt.Sprintf("R%d", c.thread)})
					continue
				}
				if c.build >= len(bs) {
					setFail("Rebuild returned an unknown build")
					continue
				}
				if owner[c.build] == i {
					continue
				}
				k := c.build
				at := c.call
				if cK[k] > at {
					at = cK[k]
				}
				at += 0.25
				if at >= fK[k] {
					setFail(fmt.Sprintf("thread %d got the result of build %d although that build was over (%v) before the call was made (%v)", c.thread, k, fK[k], c.call))
					continue
				}
				acts = append(acts, act{at, fmt.Sprintf("R%d", c.thread)}, act{c.ret - 0.1, fmt.Sprintf("U%d", c.thread)})
			case 'C':
				pl := cancels[i]
				switch {
				case pl.ok && (disposeAt < 0 || pl.at < disposeAt || !pl.waits):
					acts = append(acts, act{pl.at, fmt.Sprintf("C%d", c.thread)})
					if pl.waits {
						acts = append(acts, act{c.ret - 0.1, fmt.Sprintf("U%d", c.thread)})
					}
				case disposeAt >= 0 && disposeAt < c.ret-0.05:
					at := c.call + 0.25
					if disposeAt+0.01 > at {
						at = disposeAt + 0.01
					}
					acts = append(acts, act{at, fmt.Sprintf("C%d", c.thread)})
				default:
					setFail(fmt.Sprintf("Cancel by thread %d [%v,%v] returned while a build that was running during the whole call had not ended", c.thread, c.call, c.ret))
				}
			}
		}
		_ = disposeAt
		return acts, fail
	}
	acts, fail := linearise(false)
	if fail != "" {
		if a2, f2 := linearise(true); f2 == "" {
			acts, fail = a2, ""
			e.stat("history:needed-early-creation")
		}
	}
	sort.SliceStable(acts, func(i, j int) bool { return acts[i].at < acts[j].at })
	as := []string{}
	for _, a := range acts {
		as = append(as, a.s)
	}
	rets := []string{}
	for _, c := range calls {
		if c.kind == 'R' {
			if c.build < 0 {
				rets = append(rets, fmt.Sprintf("%d=-", c.thread))
			} else {
				rets = append(rets, fmt.Sprintf("%d=%d", c.thread, c.build))
			}
		}
	}
	sort.Strings(rets)
	seen := []string{}
	for k, b := range bs {
		if b.seen >= 0 {
			seen = append(seen, fmt.Sprintf("%d=%d", k, b.seen))
		}
	}
	j := func(xs []string) string {
		if len(xs) == 0 {
			return "-"
		}
		return strings.Join(xs, ",")
	}
	e.stat(fmt.Sprintf("builds=%d", len(bs)))
	for _, c := range calls {
		e.stat("call:" + string(c.kind))
	}
	joined := 0
	for i, c := range calls {
		if c.kind == 'R' && c.build >= 0 && owner[c.build] != i {
			joined++
		}
	}
	if joined > 0 {
		e.stat("history:has-joined-rebuild")
	}
	op := fmt.Sprintf("ctx\t%s\t%s\t%s", j(as), j(rets), j(seen))
	if fail != "" {
		if os.Getenv("VERIF_CTX_DEBUG") != "" {
			fmt.Fprintf(os.Stderr, "FAIL %s\n", fail)
			for _, c := range calls {
				fmt.Fprintf(os.Stderr, "  call %c thread %d [%v,%v] build %d\n", c.kind, c.thread, c.call, c.ret, c.build)
			}
			for k, b := range bs {
				fmt.Fprintf(os.Stderr, "  build %d [%v,%v] seen %d\n", k, b.start, b.end, b.seen)
			}
			fmt.Fprintf(os.Stderr, "  edits %v\n", edits)
		}
		return op, "NO-LINEARISATION: " + fail, true
	}
	return op, "ok", true
}

func init() {
	kernels["ctx"] = func(r *gen.Rand, e *emitter, tier string) {
		root, err := os.MkdirTemp("", "verif-ctx-")
		if err != nil {
			panic(err)
		}
		defer os.RemoveAll(root)
		for !e.full() {
			op, exp, ok := runCtxHistory(r, filepath.Join(root, "p"), e)
			if !ok {
				e.stat("context-error")
				continue
			}
			e.emit(op, exp)
		}
	}
}
