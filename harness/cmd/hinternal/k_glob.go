package main

import (
	"encoding/json"
	"fmt"
	"os"
	"path/filepath"
	"regexp"
	"sort"
	"strings"
	"unicode/utf8"

	"github.com/evanw/esbuild/internal/ast"
	"github.com/evanw/esbuild/internal/cache"
	"github.com/evanw/esbuild/internal/config"
	"github.com/evanw/esbuild/internal/fs"
	"github.com/evanw/esbuild/internal/helpers"
	"github.com/evanw/esbuild/internal/js_parser"
	"github.com/evanw/esbuild/internal/logger"
	"github.com/evanw/esbuild/internal/resolver"
	"github.com/evanw/esbuild/pkg/api"
	"github.com/evanw/esbuild/verifharness/gen"
)

// glob kernel: the REAL glob translators of esbuild against lean/EsbuildModel/Impl/Glob.lean.
//
//	se     resolver.VerifGlobstarToEscapedRegexp (verif hook) + Go's regexp.Compile + MatchString
//	pj     resolver.Resolve on fs.MockFS with a package.json "sideEffects" array: is the file marked
//	       side-effect free (PrimarySideEffectsData)?  Every 40th case is ALSO a real api.Build in a temporary
//	       directory with an unused import of that file: is its code dropped from the bundle?
//	parse  helpers.ParseGlobPattern + helpers.GlobPatternToString
//	tpl    js_parser.Parse (bundle mode) of `import("./a/" + x + ".js")` / `require(`…${x}…`)`: the GlobPattern
//	       parts of the generated import record
//	rg     resolver.ResolveGlob on fs.MockFS: the keys of the result map

var globNames = []string{"a", "b", "ab", "src", "lib", "x.js", "a.b", "index.js", "é", "日本", "�", "a b", "-", "_", "0"}
var globMeta = []string{"\\", "^", "$", ".", "+", "|", "(", ")", "[", "]", "{", "}", "-", "]-", "[^/]", "(?:", ".*", "\\d", "{2}", "a|b", "\n", "\r", "#", "!", ","}
var globBad = []string{"\xff", "\xed\xa0\x80", "\xc3", "\xe6\x97", "\xf4\x90\x80\x80", "\xc0\xaf"}
var globFill = []string{"", "a", "b", "x", "ab", "é", ".", "-", "日", "q.js", "\n"}

type globGen struct {
	r *gen.Rand
	e *emitter
}

func (g *globGen) fill(allowSlash bool) string {
	r := g.r
	s := ""
	for n := r.Intn(3); n > 0; n-- {
		s += r.Pick(globFill)
	}
	if allowSlash && r.Chance(1, 2) {
		s += "/" + r.Pick(globFill)
	} else if r.Chance(1, 12) {
		s += "/" // a slash where the wildcard must not match one
	}
	if r.Chance(1, 40) {
		s += r.Pick(globBad)
	}
	return s
}

// one glob pattern together with a path that is meant to match it (before mutation)
func (g *globGen) globAndPath(maxAtoms int) (string, string) {
	r := g.r
	var pat, path strings.Builder
	n := 1 + r.Intn(maxAtoms)
	for i := 0; i < n; i++ {
		switch r.Intn(16) {
		case 0, 1, 2, 3:
			s := r.Pick(globNames)
			pat.WriteString(s)
			path.WriteString(s)
		case 4, 5, 6:
			pat.WriteByte('/')
			path.WriteByte('/')
		case 7, 8:
			pat.WriteString(r.Pick([]string{"*", "*", "*", "***", "**"}))
			path.WriteString(g.fill(false))
		case 9, 10:
			// a globstar candidate: at a segment start or not, followed by a slash or not
			if r.Chance(3, 4) && pat.Len() > 0 {
				pat.WriteByte('/')
				path.WriteByte('/')
			}
			pat.WriteString(r.Pick([]string{"**", "**", "***", "****"}))
			for k := r.Intn(3); k > 0; k-- {
				path.WriteString(r.Pick(globFill) + "/")
			}
			if r.Chance(3, 4) {
				pat.WriteByte('/')
			} else if r.Chance(1, 2) {
				path.WriteString(r.Pick(globFill))
			}
		case 11, 12:
			pat.WriteByte('?')
			path.WriteString(r.Pick([]string{"a", "b", "x", ".", "é", "日", "/", "\n", "\xff", "\r", "", "ab", "�"}))
		case 13, 14:
			s := r.Pick(globMeta)
			pat.WriteString(s)
			path.WriteString(s)
		case 15:
			if r.Chance(1, 3) {
				s := r.Pick(globBad)
				pat.WriteString(s)
				path.WriteString(s)
			} else {
				pat.WriteString("*?"[r.Intn(2) : r.Intn(2)+1])
				path.WriteString(g.fill(false))
			}
		}
	}
	return pat.String(), path.String()
}

func (g *globGen) mutate(p string) string {
	r := g.r
	if p == "" || r.Chance(1, 2) {
		return p
	}
	b := []byte(p)
	i := r.Intn(len(b))
	switch r.Intn(6) {
	case 0:
		return string(b[:i]) + string(b[i+1:])
	case 1:
		return string(b[:i]) + r.Pick([]string{"a", "/", "x/", ".", "\n", "é"}) + string(b[i:])
	case 2:
		b[i] = "ab/.x*"[r.Intn(6)]
		return string(b)
	case 3:
		return p + r.Pick([]string{"/", "/x", "x", ".js", "\n"})
	case 4:
		return r.Pick([]string{"/", "x", "x/", "./"}) + p
	default:
		return string(b[:i])
	}
}

func globFeatures(e *emitter, prefix, pat, re string) {
	if strings.Contains(re, "(?:[^/]*(?:/|$))*") {
		e.stat(prefix + "/globstar")
	}
	if strings.Contains(strings.ReplaceAll(re, "(?:[^/]*(?:/|$))*", ""), "[^/]*") {
		e.stat(prefix + "/star")
	}
	if strings.Contains(pat, "?") {
		e.stat(prefix + "/qmark")
	}
	if strings.ContainsAny(pat, "\\^$.+|()[]{}") {
		e.stat(prefix + "/escaped")
	}
	if !utf8.ValidString(pat) {
		e.stat(prefix + "/invalid-utf8")
	} else if len(pat) != utf8.RuneCountInString(pat) {
		e.stat(prefix + "/non-ascii")
	}
	if strings.Contains(pat, "**") && !strings.Contains(re, "(?:[^/]*(?:/|$))*") {
		e.stat(prefix + "/double-star-not-globstar")
	}
}

func (g *globGen) opSE() {
	pat, path := g.globAndPath(7)
	path = g.mutate(path)
	re, wild := resolver.VerifGlobstarToEscapedRegexp(pat)
	// what both call sites do since the fix: regexp.Compile; an error (only "invalid UTF-8" can occur) is handled
	m := guard(func() string {
		compiled, err := regexp.Compile(re)
		if err != nil {
			return "INVALID"
		}
		return fmt.Sprintf("%v", compiled.MatchString(path))
	})
	g.e.stat("se")
	g.e.stat("se/match=" + m)
	if !wild {
		g.e.stat("se/no-wildcard")
	}
	if !utf8.ValidString(path) {
		g.e.stat("se/path-invalid-utf8")
	}
	globFeatures(g.e, "se", pat, re)
	g.e.emit(fmt.Sprintf("glob\tse\t%s\t%s", hexBytes([]byte(pat)), hexBytes([]byte(path))),
		fmt.Sprintf("%s %v %s", hexBytes([]byte(re)), wild, m))
}

var globPkgDirs = []string{"/proj/node_modules/pkg", "/proj/node_modules/pkg", "/proj/node_modules/pkg", "/proj/pkg",
	"/proj/p*q", "/proj/a?b", "/proj/(x)", "/proj/[d]", "/proj/d+e", "/proj/é", "/proj/**/pkg", "/proj/w\\in", "/proj/bad\xff/pkg", "/proj/x.y/{z}"}

// a clean relative path (no empty, "." or ".." element, no trailing slash) without "*": Resolve refuses an import
// path that contains a wildcard character ("Glob imports only work in a multi-path context")
func globCleanRel(p string) string {
	p = strings.ReplaceAll(p, "*", "s")
	var out []string
	for _, s := range strings.Split(p, "/") {
		if s == "" || s == "." || s == ".." || strings.EqualFold(s, "package.json") {
			continue
		}
		out = append(out, s)
	}
	if len(out) == 0 {
		return "f.js"
	}
	return strings.Join(out, "/")
}

func globJSONString(u []uint16) string {
	var sb strings.Builder
	sb.WriteByte('"')
	for _, x := range u {
		if (x >= 'a' && x <= 'z') || (x >= '0' && x <= '9') || x == '*' || x == '/' || x == '.' {
			sb.WriteByte(byte(x))
		} else {
			fmt.Fprintf(&sb, "\\u%04x", x)
		}
	}
	sb.WriteByte('"')
	return sb.String()
}

func (g *globGen) opPJ(realBuild bool) {
	r := g.r
	pkgDir := r.Pick(globPkgDirs)
	nItems := 1 + r.Intn(3)
	if r.Chance(1, 12) {
		nItems = 0
	}
	var items [][]uint16
	var rels []string
	for i := 0; i < nItems; i++ {
		pat, path := g.globAndPath(5)
		pat = strings.ToValidUTF8(pat, "")
		switch r.Intn(8) {
		case 0:
			pat, path = "./"+pat, "./"+path
		case 1:
			pat, path = "/"+pat, "/"+path
		case 2:
			pat = "../" + pat
		case 3:
			pat, path = "src/"+pat, "src/"+path
		}
		u := helpers.StringToUTF16(pat)
		if r.Chance(1, 25) {
			k := r.Intn(len(u) + 1)
			u = append(append(append([]uint16{}, u[:k]...), uint16([]int{0xD800, 0xDC00, 0xDBFF}[r.Intn(3)])), u[k:]...)
			g.e.stat("pj/lone-surrogate-item")
		}
		items = append(items, u)
		rels = append(rels, path)
		if strings.ContainsAny(pat, "*?") || !strings.Contains(pat, "/") {
			g.e.stat("pj/item-with-wildcard")
			if !utf8.ValidString(pkgDir + helpers.UTF16ToString(u)) {
				g.e.stat("pj/item-with-wildcard-invalid-utf8") // the regexp.Compile fallback (matches everything)
			}
		} else {
			g.e.stat("pj/item-exact")
		}
	}
	rel := "other.js"
	if len(rels) > 0 && r.Chance(5, 6) {
		rel = g.mutate(rels[r.Intn(len(rels))])
	} else if r.Chance(1, 2) {
		_, rel = g.globAndPath(4)
	}
	rel = globCleanRel(rel)

	var js strings.Builder
	js.WriteString(`{"name":"pkg","sideEffects":[`)
	for i, u := range items {
		if i > 0 {
			js.WriteByte(',')
		}
		js.WriteString(globJSONString(u))
	}
	js.WriteString("]}")

	op := func(dir string) string {
		var sb strings.Builder
		fmt.Fprintf(&sb, "glob\tpj\t%s\t%s", hexBytes([]byte(dir)), hexBytes([]byte(dir+"/"+rel)))
		for _, u := range items {
			sb.WriteByte('\t')
			sb.WriteString(hexU16(u))
		}
		return sb.String()
	}

	files := map[string]string{pkgDir + "/package.json": js.String(), pkgDir + "/" + rel: "console.log('MARK')", "/proj/entry.js": ""}
	got := guard(func() string {
		mfs := fs.MockFS(files, fs.MockUnix, "/proj")
		log := logger.NewDeferLog(logger.DeferLogNoVerboseOrDebug, nil)
		opts := config.Options{ExtensionOrder: []string{".js"}, ExtensionToLoader: map[string]config.Loader{".js": config.LoaderJS}, MainFields: []string{"main"}}
		res := resolver.NewResolver(config.BuildCall, mfs, log, cache.MakeCacheSet(), &opts)
		rr, _ := res.Resolve(pkgDir, "./"+rel, ast.ImportStmt)
		if rr == nil {
			return "unresolved"
		}
		if rr.PathPair.Primary.Text != pkgDir+"/"+rel {
			return "other-path " + rr.PathPair.Primary.Text
		}
		if rr.PrimarySideEffectsData != nil {
			return "nose"
		}
		return "se"
	})
	g.e.stat("pj")
	g.e.stat("pj/" + strings.SplitN(got, " ", 2)[0])
	g.e.stat(fmt.Sprintf("pj/items=%d", len(items)))
	if pkgDir != "/proj/node_modules/pkg" && pkgDir != "/proj/pkg" {
		g.e.stat("pj/nasty-dir")
	}
	g.e.emit(op(pkgDir), got)

	if !realBuild || !utf8.ValidString(rel) || strings.ContainsAny(rel, "\x00") {
		return
	}
	tmp, err := os.MkdirTemp("", "vglob")
	if err != nil {
		return
	}
	defer os.RemoveAll(tmp)
	if rp, err := filepath.EvalSymlinks(tmp); err == nil {
		tmp = rp
	}
	// no "*" in the directory (Resolve refuses such import paths); a known extension (the build needs a loader)
	dir := tmp + "/" + r.Pick([]string{"pkg", "pkg", "a?b", "(x)", "é", "d+e", "[d]"})
	if !strings.HasSuffix(rel, ".js") && !strings.HasSuffix(rel, ".json") {
		rel += ".js"
	}
	full := dir + "/" + rel
	if os.MkdirAll(filepath.Dir(full), 0755) != nil || os.WriteFile(full, []byte("console.log('MARK')"), 0644) != nil ||
		os.WriteFile(dir+"/package.json", []byte(js.String()), 0644) != nil {
		g.e.stat("pj-build/skipped-fs")
		return
	}
	spec, _ := json.Marshal(full)
	os.WriteFile(tmp+"/entry.js", []byte("import "+string(spec)+"; console.log('ENTRY')"), 0644)
	result := api.Build(api.BuildOptions{EntryPoints: []string{tmp + "/entry.js"}, Bundle: true, Write: false, LogLevel: api.LogLevelSilent, AbsWorkingDir: tmp})
	got2 := "nose"
	if len(result.Errors) > 0 {
		got2 = "error"
		if strings.Contains(result.Errors[0].Text, "panic") {
			got2 = "PANIC"
		}
	} else if len(result.OutputFiles) == 1 && strings.Contains(string(result.OutputFiles[0].Contents), "MARK") {
		got2 = "se"
	}
	g.e.stat("pj-build")
	g.e.stat("pj-build/" + got2)
	g.e.emit(op(dir), got2)
}

func globShowParts(parts []helpers.GlobPart) string {
	var out []string
	for _, p := range parts {
		out = append(out, fmt.Sprintf("%s:%d", hexBytes([]byte(p.Prefix)), p.Wildcard))
	}
	return strings.Join(out, ",")
}

// an entry-point style glob text (what ParseGlobPattern sees)
func (g *globGen) globText() string {
	r := g.r
	var sb strings.Builder
	sb.WriteString(r.Pick([]string{"./", "./", "./", "../", "", "/proj/", ".\\", "..\\", "src/", "*"}))
	for n := r.Intn(6); n > 0; n-- {
		switch r.Intn(9) {
		case 0, 1:
			sb.WriteString(r.Pick(globNames))
		case 2, 3:
			sb.WriteString(r.Pick([]string{"/", "/", "/", "\\"}))
		case 4:
			sb.WriteString(r.Pick([]string{"*", "*", "***"}))
		case 5, 6:
			sb.WriteString(r.Pick([]string{"/**/", "**", "/**", "**/", "\\**\\", "/***/"}))
		case 7:
			sb.WriteString(r.Pick(globMeta))
		case 8:
			sb.WriteString(r.Pick([]string{"src", "dir", "d1", "..", "."}))
		}
	}
	if r.Chance(1, 2) {
		sb.WriteString(r.Pick([]string{".js", "*.js", "/*.js", ".json", "/**/*.js"}))
	}
	return sb.String()
}

func (g *globGen) opParse() {
	text := g.globText()
	parts := helpers.ParseGlobPattern(text)
	str := helpers.GlobPatternToString(parts)
	g.e.stat("parse")
	g.e.stat(fmt.Sprintf("parse/parts=%d", len(parts)))
	for _, p := range parts {
		g.e.stat(fmt.Sprintf("parse/wildcard=%d", p.Wildcard))
	}
	if str != text {
		g.e.stat("parse/tostring-differs")
	}
	g.e.emit("glob\tparse\t"+hexBytes([]byte(text)), globShowParts(parts)+" "+hexBytes([]byte(str)))
}

type globPiece struct {
	hole bool
	text string
}

func (g *globGen) pieces() []globPiece {
	r := g.r
	ps := []globPiece{{text: r.Pick([]string{"./", "./", "./dir/", "../", "./a", "", "/abs/", "x/", "./d1/d2/", "./*", "./a*/"})}}
	for n := 1 + r.Intn(5); n > 0; n-- {
		if r.Chance(1, 2) {
			ps = append(ps, globPiece{hole: true})
		} else {
			ps = append(ps, globPiece{text: r.Pick([]string{"", "/", "a", ".js", "/x/", "-", "/b.js", "é", "*", "**", "d/", "a/b", ".", "?", "+(", "\\"})})
		}
	}
	return ps
}

func (g *globGen) opTpl() {
	r := g.r
	ps := g.pieces()
	var src strings.Builder
	var op strings.Builder
	op.WriteString("glob\ttpl")
	call := r.Pick([]string{"import", "require"})
	if r.Chance(1, 2) {
		// a chain of "+" (string literals constant-fold, which only joins neighbouring texts)
		src.WriteString(call + "(")
		for i, p := range ps {
			if i > 0 {
				src.WriteString(" + ")
			}
			if p.hole {
				fmt.Fprintf(&src, "x%d", i)
			} else {
				q, _ := json.Marshal(p.text)
				src.Write(q)
			}
		}
		src.WriteString(")")
		g.e.stat("tpl/plus-chain")
	} else {
		// a template literal: text, hole, text, hole, …, text
		var norm []globPiece
		for _, p := range ps {
			if p.hole {
				if len(norm) == 0 || norm[len(norm)-1].hole {
					norm = append(norm, globPiece{})
				}
				norm = append(norm, p)
			} else if len(norm) > 0 && !norm[len(norm)-1].hole {
				norm[len(norm)-1].text += p.text
			} else {
				norm = append(norm, p)
			}
		}
		if len(norm) == 0 || norm[len(norm)-1].hole {
			norm = append(norm, globPiece{})
		}
		ps = norm
		src.WriteString(call + "(`")
		for i, p := range ps {
			if p.hole {
				fmt.Fprintf(&src, "${x%d}", i)
			} else {
				src.WriteString(strings.NewReplacer("\\", "\\\\", "`", "\\`", "$", "\\$").Replace(p.text))
			}
		}
		src.WriteString("`)")
		g.e.stat("tpl/template")
	}
	for _, p := range ps {
		if p.hole {
			op.WriteString("\tH")
		} else {
			op.WriteString("\tT" + hexBytes([]byte(p.text)))
		}
	}
	log := logger.NewDeferLog(logger.DeferLogNoVerboseOrDebug, nil)
	tree, ok := js_parser.Parse(log, logger.Source{Contents: src.String(), KeyPath: logger.Path{Text: "/proj/in.js", Namespace: "file"}, PrettyPaths: logger.PrettyPaths{Abs: "in.js", Rel: "in.js"}},
		js_parser.OptionsFromConfig(&config.Options{Mode: config.ModeBundle}))
	got := "none"
	if !ok {
		got = "parse-error"
	} else {
		for _, rec := range tree.ImportRecords {
			if rec.GlobPattern != nil {
				got = globShowParts(rec.GlobPattern.Parts)
			}
		}
	}
	g.e.stat("tpl")
	if got == "none" || got == "parse-error" {
		g.e.stat("tpl/" + got)
	} else {
		g.e.stat("tpl/glob")
		if strings.Contains(got, ":2") {
			g.e.stat("tpl/glob-with-globstar")
		}
	}
	g.e.emit(op.String(), got)
}

func (g *globGen) opRG() {
	r := g.r
	var parts []helpers.GlobPart
	switch r.Intn(4) {
	case 0, 1:
		parts = helpers.ParseGlobPattern(g.globText())
		g.e.stat("rg/parts-from-ParseGlobPattern")
	case 2:
		// the shapes handleGlobPattern produces
		pre := r.Pick([]string{"./", "./dir/", "../", "./a", "./d1/d2/", "./a*/", "./dir/a"})
		if strings.HasSuffix(pre, "/") {
			parts = append(parts, helpers.GlobPart{Prefix: pre, Wildcard: helpers.GlobAllIncludingSlash}, helpers.GlobPart{Prefix: "/", Wildcard: helpers.GlobAllExceptSlash})
		} else {
			parts = append(parts, helpers.GlobPart{Prefix: pre, Wildcard: helpers.GlobAllExceptSlash})
		}
		for n := r.Intn(3); n > 0; n-- {
			t := r.Pick([]string{"/", "-", ".", "/x/", "a", "é", "+", "/b/"})
			if strings.HasSuffix(t, "/") {
				parts = append(parts, helpers.GlobPart{Prefix: t, Wildcard: helpers.GlobAllIncludingSlash}, helpers.GlobPart{Prefix: "/", Wildcard: helpers.GlobAllExceptSlash})
			} else {
				parts = append(parts, helpers.GlobPart{Prefix: t, Wildcard: helpers.GlobAllExceptSlash})
			}
		}
		parts = append(parts, helpers.GlobPart{Prefix: r.Pick([]string{"", ".js", ".js", "/index.js", "\xed\xa0\x80"})})
		g.e.stat("rg/parts-template-shaped")
	default:
		// arbitrary parts (malformed stream)
		for n := r.Intn(4); n > 0; n-- {
			parts = append(parts, helpers.GlobPart{Prefix: r.Pick([]string{"./", "/", "a", "", "\\", "./dir/", "../", "x/", ".js", "*", "\xff", "/b"}), Wildcard: helpers.GlobWildcard(r.Intn(3))})
		}
		g.e.stat("rg/parts-arbitrary")
	}
	sourceDir := r.Pick([]string{"/proj/src", "/proj/src", "/proj", "/proj/src/dir", "/", "/proj/none"})

	// files: instances of the pattern (each wildcard filled in) below sourceDir, plus some others
	files := map[string]string{"/proj/src/keep.txt": "", "/proj/src/dir/keep.txt": ""}
	addFile := func(p string) {
		if !strings.HasPrefix(p, "/") || strings.HasSuffix(p, "/") || strings.Contains(p, "//") || len(files) > 12 {
			return
		}
		for q := range files {
			if strings.HasPrefix(q, p+"/") || strings.HasPrefix(p, q+"/") || strings.EqualFold(p, q) {
				return
			}
		}
		files[p] = ""
	}
	for n := r.Intn(6); n > 0; n-- {
		var sb strings.Builder
		for _, p := range parts {
			sb.WriteString(p.Prefix)
			switch p.Wildcard {
			case helpers.GlobAllExceptSlash:
				sb.WriteString(r.Pick([]string{"", "a", "b", "xy", "é", "a/b", "q.js"}))
			case helpers.GlobAllIncludingSlash:
				sb.WriteString(r.Pick([]string{"", "a", "a/b", "d", "d/e/f"}))
			}
		}
		inst := sb.String()
		if !strings.HasPrefix(inst, "/") {
			inst = sourceDir + "/" + inst
		}
		// path.Clean by hand is what fs.Join would do; use the mock file system's own Join
		addFile(fs.MockFS(nil, fs.MockUnix, "/").Join(inst))
	}
	for n := r.Intn(4); n > 0; n-- {
		addFile(r.Pick([]string{"/proj/src/", "/proj/", "/proj/src/dir/", "/proj/src/d1/d2/", "/proj/src/a/"}) + r.Pick([]string{"a.js", "b.js", "index.js", "x/y.js", "a-b.js", "é.js", "a", "q.json"}))
	}
	kind := ast.ImportDynamic
	k := "I"
	if r.Chance(1, 3) {
		kind, k = ast.ImportEntryPoint, "E"
	}
	got := guard(func() string {
		mfs := fs.MockFS(files, fs.MockUnix, "/proj")
		log := logger.NewDeferLog(logger.DeferLogNoVerboseOrDebug, nil)
		opts := config.Options{ExtensionOrder: []string{".js"}, ExtensionToLoader: map[string]config.Loader{".js": config.LoaderJS}, MainFields: []string{"main"}}
		res := resolver.NewResolver(config.BuildCall, mfs, log, cache.MakeCacheSet(), &opts)
		results, _ := res.ResolveGlob(sourceDir, parts, kind, helpers.GlobPatternToString(parts))
		if results == nil {
			return "nil"
		}
		keys := make([]string, 0, len(results))
		for key := range results {
			keys = append(keys, hexBytes([]byte(key)))
		}
		if len(keys) == 0 {
			return "-"
		}
		// sort by the raw bytes, not by the hex text of different lengths
		raw := make([]string, 0, len(results))
		for key := range results {
			raw = append(raw, key)
		}
		sort.Strings(raw)
		for i, key := range raw {
			keys[i] = hexBytes([]byte(key))
		}
		return strings.Join(keys, ",")
	})
	names := make([]string, 0, len(files))
	for f := range files {
		names = append(names, f)
	}
	sort.Strings(names)
	hexNames := make([]string, len(names))
	for i, f := range names {
		hexNames[i] = hexBytes([]byte(f))
	}
	partsText := globShowParts(parts)
	if len(parts) == 0 {
		partsText = "-"
	}
	g.e.stat("rg")
	for _, p := range parts {
		if !utf8.ValidString(p.Prefix) {
			g.e.stat("rg/invalid-utf8-part") // the regexp.Compile fallback (nil) unless an earlier exit is taken
			break
		}
	}
	switch {
	case got == "nil" || got == "PANIC":
		g.e.stat("rg/" + got)
	case got == "-":
		g.e.stat("rg/matched=0")
	default:
		g.e.stat("rg/matched>0")
		if strings.Count(got, ",") > 0 {
			g.e.stat("rg/matched>1")
		}
	}
	g.e.stat("rg/kind=" + k)
	g.e.emit(fmt.Sprintf("glob\trg\t%s\t%s\t%s\t%s", k, hexBytes([]byte(sourceDir)), partsText, strings.Join(hexNames, ",")), got)
}

func init() {
	kernels["glob"] = func(r *gen.Rand, e *emitter, tier string) {
		g := &globGen{r: r, e: e}
		n := 0
		for !e.full() {
			n++
			switch r.Intn(10) {
			case 0, 1, 2, 3:
				g.opSE()
			case 4, 5, 6:
				g.opPJ(n%40 == 0)
			case 7:
				g.opParse()
			case 8:
				g.opTpl()
			case 9:
				g.opRG()
			}
		}
	}
}
