package main

import (
	"fmt"
	"os"
	"path/filepath"
	"sort"
	"strconv"
	"strings"

	"github.com/evanw/esbuild/internal/linker"
	"github.com/evanw/esbuild/pkg/api"
	"github.com/evanw/esbuild/verifharness/gen"
)

// kernel "partdeps": real bundles are built with the part-dependency observation hook installed
// (internal/linker/verif_observe_partdeps.go). The hook reports, for every reachable JS file including the runtime,
// the tables the linker computed the part dependencies from (symbol uses, declared symbols, ImportsToBind, named
// imports, resolved exports, import records, wrapper / entry parts, flags) together with the Dependencies,
// LocalPartsWithUses and TopLevelSymbolToParts it ended up with. The tables go to the Lean model
// (Impl/PartDeps.lean), which recomputes the three; everything is compared as sets.

func pdRef(r linker.VerifPDRef) string { return strconv.Itoa(r.Source) + "." + strconv.Itoa(r.Inner) }

func pdJoin(xs []string, sep string) string {
	if len(xs) == 0 {
		return "-"
	}
	return strings.Join(xs, sep)
}

func pdBits(bs ...bool) string {
	s := ""
	for _, b := range bs {
		s += b01(b)
	}
	return s
}

func pdOptInt(i int) string {
	if i < 0 {
		return "n"
	}
	return strconv.Itoa(i)
}

func pdSortedInts(xs []int) []string {
	ys := append([]int{}, xs...)
	sort.Ints(ys)
	out := []string{}
	for i, y := range ys {
		if i > 0 && ys[i-1] == y {
			continue
		}
		out = append(out, strconv.Itoa(y))
	}
	return out
}

func pdSortedDeps(ds [][2]int) []string {
	ys := append([][2]int{}, ds...)
	sort.Slice(ys, func(i, j int) bool {
		if ys[i][0] != ys[j][0] {
			return ys[i][0] < ys[j][0]
		}
		return ys[i][1] < ys[j][1]
	})
	out := []string{}
	for i, y := range ys {
		if i > 0 && ys[i-1] == y {
			continue
		}
		out = append(out, strconv.Itoa(y[0])+"."+strconv.Itoa(y[1]))
	}
	return out
}

func pdFileArg(f *linker.VerifPDFile) string {
	exps := []string{}
	for _, e := range f.Exports {
		exps = append(exps, strconv.Itoa(e.Source)+":"+pdRef(e.Ref))
	}
	nimps := []string{}
	for _, n := range f.NamedImports {
		nimps = append(nimps, pdRef(n.Ref))
	}
	binds := []string{}
	for _, b := range f.Binds {
		rx := []string{}
		for _, d := range b.ReExports {
			rx = append(rx, strconv.Itoa(d[0])+"."+strconv.Itoa(d[1]))
		}
		rxs := "_"
		if len(rx) > 0 {
			rxs = strings.Join(rx, "+")
		}
		binds = append(binds, pdRef(b.Key)+":"+strconv.Itoa(b.Source)+":"+pdRef(b.Ref)+":"+rxs)
	}
	recs := []string{}
	for _, r := range f.Records {
		recs = append(recs, strconv.Itoa(r.Kind)+":"+pdOptInt(r.Target)+":"+pdBits(r.Star, r.Default, r.ESModule, r.ExtDyn))
	}
	stars := []string{}
	for _, i := range f.Stars {
		stars = append(stars, strconv.Itoa(i))
	}
	syms := []string{}
	for _, y := range f.Symbols {
		l := "n"
		if y.HasLink {
			l = pdRef(y.Link)
		}
		syms = append(syms, strconv.Itoa(y.Inner)+":"+l+":"+pdBits(y.IsImport, y.IsEmpty, y.IsIdentity, y.Mutated))
	}
	parts := []string{}
	for _, p := range f.Parts {
		uses := []string{}
		for _, u := range p.Uses {
			uses = append(uses, pdRef(u))
		}
		cus := []string{}
		for _, c := range p.CallUses {
			cus = append(cus, pdRef(c.Ref)+":"+strconv.Itoa(c.Calls)+":"+strconv.Itoa(c.Single))
		}
		decls := []string{}
		for _, d := range p.Declared {
			decls = append(decls, pdRef(d.Ref)+":"+b01(d.IsTopLevel))
		}
		rs := []string{}
		for _, i := range p.Records {
			rs = append(rs, strconv.Itoa(i))
		}
		parts = append(parts, pdJoin(uses, ",")+"/"+pdJoin(cus, ",")+"/"+pdJoin(decls, ",")+"/"+pdJoin(rs, ","))
	}
	return strings.Join([]string{
		strconv.Itoa(f.SourceIndex), pdBits(f.IsEntryPoint, f.ForceIncludeExports, f.NeedsExportsVariable), strconv.Itoa(f.Wrap),
		strconv.Itoa(f.ExportsKind), pdOptInt(f.WrapperPart), pdOptInt(f.EntryPointPart), pdRef(f.ExportsRef), pdRef(f.ModuleRef),
		pdRef(f.WrapperRef), pdJoin(exps, ","), pdJoin(nimps, ","), pdJoin(binds, ","), pdJoin(recs, ","), pdJoin(stars, ","),
		pdJoin(syms, ","), strings.Join(parts, "|")}, ";")
}

func partdepsOpAndExpected(d *linker.VerifPDDump) (string, string) {
	consts := []string{}
	for _, c := range d.Consts {
		consts = append(consts, pdRef(c))
	}
	rt := strings.Join([]string{strconv.Itoa(d.RuntimeSource), pdRef(d.RtToESM), pdRef(d.RtToCommonJS), pdRef(d.RtRequire),
		pdRef(d.RtReExport), pdRef(d.RtExport), pdRef(d.RtCommonJS), pdRef(d.RtESM)}, ";")
	args := []string{"partdeps", pdBits(d.KeepESM, d.FormatCJS, d.RuntimeReq, d.NoDynImport, d.ConstOn), pdJoin(consts, ","), rt}
	depsOut := []string{}
	lpuOut := []string{}
	tlsOut := []string{}
	for i := range d.Files {
		f := &d.Files[i]
		args = append(args, pdFileArg(f))
		ps := []string{}
		for _, p := range f.Parts {
			ps = append(ps, pdJoin(pdSortedDeps(p.Deps), ","))
		}
		depsOut = append(depsOut, strconv.Itoa(f.SourceIndex)+":"+pdJoin(ps, "|"))
		ls := []string{}
		for _, n := range f.NamedImports {
			ls = append(ls, pdRef(n.Ref)+">"+pdJoin(pdSortedInts(n.LocalParts), ","))
		}
		lpuOut = append(lpuOut, strconv.Itoa(f.SourceIndex)+":"+pdJoin(ls, "|"))
		ts := []string{}
		for _, t := range f.TLS {
			ts = append(ts, pdRef(t.Ref)+">"+pdJoin(pdSortedInts(t.Parts), ","))
		}
		tlsOut = append(tlsOut, strconv.Itoa(f.SourceIndex)+":"+pdJoin(ts, "|"))
	}
	exp := "wf=11111111 deps=" + pdJoin(depsOut, ";") + " lpu=" + pdJoin(lpuOut, ";") + " tls=" + pdJoin(tlsOut, ";") + " xu=-"
	return strings.Join(args, "\t"), exp
}

// pdExtras adds files and statements that reach the branches of the edge computation the shared generators do not:
// inlined constants, empty / identity functions called across files, merged and hoisted declarations, require() and
// import() of ES modules, run-time export stars (external, CommonJS), JSON (lazy exports), re-export chains, a
// re-exported namespace, an import of a file without exports.
func pdExtras(r *gen.Rand, g *gen.Graph, e *emitter) {
	// candidates: ES modules of the graph (not .cjs), sorted for determinism
	mods := []string{}
	for name := range g.Files {
		if strings.HasSuffix(name, ".js") && strings.HasPrefix(name, "m") {
			mods = append(mods, name)
		}
	}
	sort.Strings(mods)
	if len(mods) == 0 {
		return
	}
	n := 0
	add := func(imports string, body string) {
		m := mods[r.Intn(len(mods))]
		if r.Chance(1, 3) {
			m = g.Entries[0]
			if strings.HasSuffix(m, ".cjs") {
				return
			}
		}
		g.Files[m] = imports + g.Files[m] + body
		n++
	}
	id := func() string { return fmt.Sprintf("_x%d", n) }
	if r.Chance(1, 2) {
		lib := "export const K1 = 1;\nexport const K2 = \"ab\";\nexport const K3 = 1.5e300;\n"
		lib += "export function ef1() {}\nexport function idf1(x) { return x; }\nexport function mutf() {}\nexport function setMutf() { mutf = function () { p(\"mut\"); }; }\n"
		lib += "export var v1 = 1;\nvar v1 = 2;\nexport let used1 = p(\"pd_lib:init\");\nexport function plain(a) { return a + 1; }\n"
		g.Files["pd_lib.js"] = lib
		names := []string{"K1", "K2", "K3", "ef1", "idf1", "mutf", "setMutf", "v1", "used1", "plain"}
		k := 1 + r.Intn(3)
		for i := 0; i < k; i++ {
			s := id()
			pick := map[string]bool{}
			for j := 0; j < 1+r.Intn(5); j++ {
				pick[names[r.Intn(len(names))]] = true
			}
			imp := []string{}
			uses := []string{}
			for _, nm := range names {
				if !pick[nm] {
					continue
				}
				imp = append(imp, nm+" as "+nm+s)
				switch nm {
				case "ef1", "mutf", "setMutf":
					uses = append(uses, nm+s+"(p(\"arg\"))")
					if r.Chance(1, 4) {
						uses = append(uses, nm+s)
					}
				case "idf1", "plain":
					uses = append(uses, nm+s+"(1)")
					if r.Chance(1, 3) {
						uses = append(uses, nm+s+"(1, 2)")
					}
					if r.Chance(1, 4) {
						uses = append(uses, nm+s+"(...[1])")
					}
				default:
					uses = append(uses, nm+s)
				}
			}
			body := "p(\"pd-lib\", " + strings.Join(uses, ", ") + ");\n"
			if r.Chance(1, 4) {
				body = "export function lateLib" + s + "() { " + body + " }\n"
			}
			if r.Chance(1, 6) {
				add("import * as libns"+s+" from \"./pd_lib.js\";\nexport { libns"+s+" };\n", "p(libns"+s+".K1, libns"+s+".ef1());\n")
			} else {
				add("import { "+strings.Join(imp, ", ")+" } from \"./pd_lib.js\";\n", body)
			}
		}
		e.stat("extra:lib")
	}
	if r.Chance(1, 2) {
		s := id()
		v := "hv" + s
		switch r.Intn(10) {
		case 9: // three levels: the innermost symbol is linked to the middle one, which is linked to the top-level one
			add("", "var "+v+" = 1;\n{ var "+v+"; { var "+v+"; p(\"hv3\", "+v+"); } }\n")
		case 0: // block
			add("", "var "+v+" = 1;\n{ var "+v+"; p(\"hv\", "+v+"); }\n")
		case 1:
			add("", "var "+v+" = 1;\nvar "+v+" = 2;\np("+v+");\nexport { "+v+" };\n")
		case 2: // if, declaration after the nested one
			add("", "if (p(\"c\")) { var "+v+" = 3; }\nvar "+v+";\nexport function getHx"+s+"() { return "+v+"; }\n")
		case 3: // for
			add("", "var "+v+" = 10;\nfor (var "+v+"; "+v+" < 12; "+v+"++) p("+v+");\n")
		case 4: // switch
			add("", "var "+v+" = \"x\";\nswitch (1) { case 1: var "+v+"; p("+v+"); }\n")
		case 5: // try / catch / finally
			add("", "var "+v+" = { a: 1 };\ntry { var "+v+"; p("+v+".a); } catch (e) { var "+v+"; p("+v+"); } finally { var "+v+"; }\n")
		case 6: // label + for-in + exported
			add("", "export var "+v+" = 3;\nlbl"+s+": { var "+v+"; p("+v+"); }\nfor (var "+v+" in {}) ;\n")
		case 7: // two levels of nesting, used only from the inner one
			add("", "var "+v+" = [1];\nif (p(\"c\")) { for (;;) { var "+v+"; p("+v+"); break; } }\n")
		default: // nested redeclaration of an imported-from variable in the exporting file
			g.Files["pd_nest.js"] = "export var nv = 1;\n{ var nv; p(\"nest\", nv); }\nwhile (p(\"w\")) { var nv = 2; }\n"
			add("import { nv as nv"+s+" } from \"./pd_nest.js\";\n", "p(nv"+s+");\n")
		}
		e.stat("extra:merged-var")
	}
	if r.Chance(1, 8) {
		// a function declared three times in a script-like file: the first symbol is linked to the second, the second
		// to the third (a link chain of length two), and a nested `var` of the same name on top
		g.Files["pd_dupfn.cjs"] = "function df() { return 1; }\nfunction df() { return 2; }\nfunction df() { return 3; }\nif (p(\"c\")) { var df; p(df()); }\nexports.df = df;\n"
		add("import dupfn"+id()+" from \"./pd_dupfn.cjs\";\n", "")
		e.stat("extra:function-declared-three-times")
	}
	if r.Chance(1, 8) {
		// a CommonJS module that re-declares `exports` / `module` in a nested scope (linked to the module-level symbols)
		s := id()
		g.Files["pd_nestcjs.cjs"] = "exports.q = 1;\n{ var exports; p(typeof exports.q); }\nif (p(\"c\")) { var module; p(typeof module); }\n"
		add("import nc"+s+" from \"./pd_nestcjs.cjs\";\n", "p(nc"+s+");\n")
		if r.Bool() {
			// the module-level `exports` is itself a user variable and is re-declared in a nested scope
			g.Files["pd_topexp.cjs"] = "var exports = { a: 1 };\n{ var exports; p(typeof exports.a); }\nmodule.exports = 5;\n"
			g.Files["pd_topexp2.js"] = "var exports = { a: 1 };\nif (p(\"c\")) { var exports; p(typeof exports.a); }\n"
			add("import \"./pd_topexp.cjs\";\nimport \"./pd_topexp2.js\";\n", "")
			e.stat("extra:top-level-var-exports")
		}
		e.stat("extra:nested-var-exports")
	}
	if r.Chance(1, 4) {
		s := id()
		g.Files["pd_esm.js"] = "export let ea = 1;\nexport function eb() { return ea; }\np(\"pd_esm\");\n"
		switch r.Intn(3) {
		case 0:
			add("", "const rq"+s+" = require(\"./pd_esm.js\");\np(rq"+s+".ea);\n")
		case 1:
			add("", "export const dy"+s+" = import(\"./pd_esm.js\").then(ns => p(ns.ea));\n")
		default:
			add("import { ea as ea"+s+" } from \"./pd_esm.js\";\n", "p(ea"+s+", require(\"./pd_esm.js\").eb());\n")
		}
		e.stat("extra:require-or-import-esm")
	}
	if r.Chance(1, 4) {
		s := id()
		g.Files["pd_star.js"] = "export * from \"ext-pkg\";\nexport const sown = 1;\nexport function sfn() { return sown; }\n"
		switch r.Intn(3) {
		case 0:
			add("import { sown as sown"+s+", extname as en"+s+" } from \"./pd_star.js\";\n", "p(sown"+s+", en"+s+");\n")
		case 1:
			add("import * as st"+s+" from \"./pd_star.js\";\n", "p(st"+s+".sown, st"+s+".other);\n")
		default:
			add("export * from \"./pd_star.js\";\nimport { sfn as sfn"+s+" } from \"./pd_star.js\";\n", "p(sfn"+s+"());\n")
		}
		e.stat("extra:star-external")
	}
	if r.Chance(1, 4) {
		s := id()
		g.Files["pd_c.cjs"] = "exports.cc = 1;\np(\"pd_c\");\n"
		g.Files["pd_starcjs.js"] = "export * from \"./pd_c.cjs\";\nexport const own2 = 2;\nexport function unusedOwn() { return own2; }\n"
		switch r.Intn(3) {
		case 0:
			add("import { own2 as own2"+s+" } from \"./pd_starcjs.js\";\n", "p(own2"+s+");\n")
		case 1:
			add("import { cc as cc"+s+" } from \"./pd_starcjs.js\";\n", "p(cc"+s+");\n")
		default:
			add("import dc"+s+", * as nc"+s+" from \"./pd_c.cjs\";\n", "p(dc"+s+", nc"+s+".cc);\n")
		}
		e.stat("extra:star-cjs")
	}
	if r.Chance(1, 4) {
		s := id()
		g.Files["pd_data.json"] = "{\"a\": 1, \"b\": {\"c\": [2]}, \"default\": 3, \"not-id\": 4}\n"
		switch r.Intn(4) {
		case 0:
			add("import jd"+s+", { a as ja"+s+" } from \"./pd_data.json\";\n", "p(jd"+s+", ja"+s+");\n")
		case 1:
			add("import * as jn"+s+" from \"./pd_data.json\";\n", "p(jn"+s+".b, jn"+s+");\n")
		case 2:
			add("", "p(require(\"./pd_data.json\").a);\n")
		default:
			add("import { b as jb"+s+" } from \"./pd_data.json\";\n", "export function lateJ"+s+"() { return jb"+s+"; }\n")
		}
		e.stat("extra:json")
	}
	if r.Chance(1, 3) {
		s := id()
		g.Files["pd_re3.js"] = "export let rx1 = 1;\nexport function rx2() { rx1++; }\nexport default function () { return rx1; }\np(\"pd_re3\");\n"
		mid := []string{"export { rx1, rx2 } from \"./pd_re3.js\";\n", "export * from \"./pd_re3.js\";\n", "import { rx1, rx2 } from \"./pd_re3.js\";\nexport { rx1, rx2 };\n", "export { rx1 as rx1, default as rx2 } from \"./pd_re3.js\";\n"}[r.Intn(4)]
		g.Files["pd_re2.js"] = mid + "p(\"pd_re2\");\n"
		top := []string{"export { rx1, rx2 } from \"./pd_re2.js\";\n", "export * from \"./pd_re2.js\";\nexport * from \"./pd_re3.js\";\n", "export * from \"./pd_re2.js\";\n"}[r.Intn(3)]
		g.Files["pd_re1.js"] = top + "export const own1 = 1;\n"
		switch r.Intn(3) {
		case 0:
			add("import { rx1 as rx1"+s+", rx2 as rx2"+s+" } from \"./pd_re1.js\";\n", "p(rx1"+s+", rx2"+s+"());\n")
		case 1:
			add("import * as rn"+s+" from \"./pd_re1.js\";\n", "p(rn"+s+".rx1, rn"+s+");\n")
		default:
			add("export { rx1 as out"+s+" } from \"./pd_re1.js\";\n", "")
		}
		e.stat("extra:reexport-chain")
	}
	if r.Chance(1, 6) {
		s := id()
		g.Files["pd_empty.js"] = "p(\"pd_empty\");\n"
		if r.Bool() {
			add("import * as em"+s+" from \"./pd_empty.js\";\n", "p(em"+s+");\n")
		} else {
			add("import { nothing as em"+s+" } from \"./pd_empty.js\";\n", "p(em"+s+");\n")
		}
		e.stat("extra:no-exports")
	}
	if r.Chance(1, 6) {
		s := id()
		add("export { extv as extv"+s+" } from \"ext-pkg2\";\nimport extd"+s+" from \"ext-pkg\";\n", "p(extd"+s+", require(\"ext-pkg\"), import(\"ext-pkg2\"));\n")
		e.stat("extra:external")
	}
}

// pdStats records which branches of the model a dump exercises
func pdStats(d *linker.VerifPDDump, e *emitter) {
	files := map[int]*linker.VerifPDFile{}
	for i := range d.Files {
		files[d.Files[i].SourceIndex] = &d.Files[i]
	}
	constSet := map[linker.VerifPDRef]bool{}
	for _, c := range d.Consts {
		constSet[c] = true
	}
	for i := range d.Files {
		f := &d.Files[i]
		if f.SourceIndex == d.RuntimeSource {
			continue
		}
		e.stat(fmt.Sprintf("file:wrap=%d", f.Wrap))
		e.stat(fmt.Sprintf("file:kind=%d", f.ExportsKind))
		if f.IsEntryPoint {
			e.stat("file:entry")
		}
		if f.ForceIncludeExports {
			e.stat("file:force-include-exports")
		}
		if f.NeedsExportFromRuntime {
			e.stat("file:ns-export-part")
		}
		if len(f.Stars) > 0 {
			e.stat("file:export-star")
		}
		binds := map[linker.VerifPDRef]linker.VerifPDBind{}
		nimps := map[linker.VerifPDRef]bool{}
		for _, n := range f.NamedImports {
			nimps[n.Ref] = true
		}
		for _, b := range f.Binds {
			binds[b.Key] = b
			if nimps[b.Key] {
				e.stat("bind:import")
				if len(b.ReExports) > 1 {
					e.stat("bind:reexport-chain>1")
				}
				if constSet[b.Ref] && d.ConstOn {
					e.stat("bind:const-skipped")
				}
			} else {
				e.stat("bind:generated")
			}
		}
		for _, t := range f.TLS {
			if len(t.Parts) > 1 {
				e.stat("tls:declared-in-several-parts")
			}
		}
		links := map[int]bool{}
		flags := map[linker.VerifPDRef]linker.VerifPDSymbol{}
		for _, y := range f.Symbols {
			if y.HasLink {
				if _, isBind := binds[linker.VerifPDRef{Source: f.SourceIndex, Inner: y.Inner}]; !isBind {
					links[y.Inner] = true
				}
			}
		}
		for _, g := range d.Files {
			for _, y := range g.Symbols {
				flags[linker.VerifPDRef{Source: g.SourceIndex, Inner: y.Inner}] = y
			}
		}
		linkOf := map[int]linker.VerifPDRef{}
		for _, y := range f.Symbols {
			if y.HasLink && links[y.Inner] && y.Link.Source == f.SourceIndex {
				linkOf[y.Inner] = y.Link
			}
		}
		for inner := range linkOf {
			end, n := inner, 0
			for ; n < 1000; n++ {
				l, ok := linkOf[end]
				if !ok {
					break
				}
				end = l.Inner
			}
			if end == f.ExportsRef.Inner || end == f.ModuleRef.Inner || end == f.WrapperRef.Inner {
				e.stat("alias:chain-ends-at-exports-or-module(aliasOk fails)")
			} else {
				e.stat("alias:linked-symbol")
			}
		}
		for _, r := range f.Records {
			switch {
			case r.Target < 0:
				e.stat(fmt.Sprintf("rec:external-kind=%d", r.Kind))
			case r.ExtDyn:
				e.stat("rec:external-dynamic")
			default:
				t := files[r.Target]
				e.stat(fmt.Sprintf("rec:kind=%d-wrap=%d-tkind=%d", r.Kind, t.Wrap, t.ExportsKind))
			}
		}
		for _, p := range f.Parts {
			for _, u := range p.Uses {
				if u.Source == f.SourceIndex && links[u.Inner] {
					e.stat("use:non-canonical(linked symbol)")
				}
				if u.Source != f.SourceIndex {
					e.stat("use:foreign")
				}
			}
			for _, dcl := range p.Declared {
				if dcl.IsTopLevel && links[dcl.Ref.Inner] {
					e.stat("decl:linked")
				}
			}
			for _, c := range p.CallUses {
				y := flags[c.Ref]
				if y.IsImport {
					if b, ok := binds[c.Ref]; ok {
						y = flags[b.Ref]
					}
				}
				switch {
				case y.IsEmpty && !y.Mutated:
					e.stat("call:empty-exempt")
				case y.IsIdentity && !y.Mutated && c.Calls == c.Single:
					e.stat("call:identity-exempt")
				case y.IsIdentity && !y.Mutated:
					e.stat("call:identity-kept(multi-arg)")
				case (y.IsEmpty || y.IsIdentity) && y.Mutated:
					e.stat("call:mutated-kept")
				default:
					e.stat("call:kept")
				}
			}
			for _, dp := range p.Deps {
				switch {
				case dp[0] == d.RuntimeSource:
					e.stat("dep:runtime")
				case dp[0] == f.SourceIndex:
					e.stat("dep:local")
				default:
					e.stat("dep:cross-file")
				}
			}
		}
	}
}

func init() {
	kernels["partdeps"] = func(r *gen.Rand, e *emitter, tier string) {
		dir, err := os.MkdirTemp("", "verif-partdeps-")
		if err != nil {
			panic(err)
		}
		defer os.RemoveAll(dir)
		lastOp := ""
		for !e.full() {
			// malformed stream: a damaged copy of the previous operation
			if lastOp != "" && r.Chance(1, 40) {
				fields := strings.Split(lastOp, "\t")
				switch r.Intn(4) {
				case 0:
					fields = fields[:3] // no runtime table
				case 1:
					fields[1] = fields[1] + "1" // six option bits
				case 2:
					fields[len(fields)-1] = strings.Replace(fields[len(fields)-1], ";", ",", 1) // a file with 15 fields
				default:
					fields[3] = "0;0.x" // truncated runtime table
				}
				e.stat("malformed")
				e.emit(strings.Join(fields, "\t"), "bad-op")
				continue
			}
			var g *gen.Graph
			ents := 1
			switch r.Intn(4) {
			case 0:
				g = gen.GenShakeGraph(r, gen.ShakeOpts{Modules: 1 + r.Intn(3), EmptyFunc: r.Bool()})
				e.stat("graph:shake-templates")
			default:
				ents = 1 + r.Intn(2)
				g = gen.GenGraph(r, gen.GraphOpts{Modules: ents + r.Intn(5), Entries: ents, AllowCJS: r.Chance(1, 2), AllowDyn: r.Chance(1, 3), AllowCycle: r.Bool(), AllowStar: r.Bool(), SideEffectFreeDecls: r.Bool(), PkgSideEffectsFalse: r.Chance(1, 3), CollidingNames: r.Chance(1, 4)})
				e.stat("graph:module-graph")
			}
			pdExtras(r, g, e)
			os.RemoveAll(dir)
			for rel, c := range g.Files {
				p := filepath.Join(dir, rel)
				os.MkdirAll(filepath.Dir(p), 0755)
				os.WriteFile(p, []byte(c), 0644)
			}
			bo := api.BuildOptions{AbsWorkingDir: dir, EntryPoints: g.Entries[:ents], Bundle: true, Outdir: "out", Write: false, LogLevel: api.LogLevelSilent,
				Format: api.FormatESModule, External: []string{"ext-pkg", "ext-pkg2"}}
			switch r.Intn(4) {
			case 0:
				bo.Format = api.FormatCommonJS
				e.stat("opt:format=cjs")
			case 1:
				bo.Format = api.FormatIIFE
				if r.Bool() {
					bo.GlobalName = "G"
				}
				e.stat("opt:format=iife")
			default:
				bo.Splitting = r.Chance(1, 3)
				if bo.Splitting {
					e.stat("opt:splitting")
				}
				e.stat("opt:format=esm")
			}
			if r.Chance(1, 2) {
				bo.MinifySyntax = true
				e.stat("opt:minify-syntax")
			}
			if r.Chance(1, 6) {
				bo.TreeShaking = api.TreeShakingFalse
			}
			if r.Chance(1, 6) {
				bo.IgnoreAnnotations = true
			}
			if r.Chance(1, 3) {
				bo.Platform = api.PlatformNode
			}
			if r.Chance(1, 8) && bo.Format != api.FormatESModule {
				bo.Supported = map[string]bool{"dynamic-import": false}
				e.stat("opt:no-dynamic-import")
			}
			var dump *linker.VerifPDDump
			linker.VerifSetPartDepsObserver(func(d linker.VerifPDDump) { dd := d; dump = &dd })
			res := api.Build(bo)
			linker.VerifSetPartDepsObserver(nil)
			if dump == nil {
				e.stat("no-dump")
				if len(res.Errors) > 0 {
					e.stat("build-error")
				}
				continue
			}
			op, exp := partdepsOpAndExpected(dump)
			pdStats(dump, e)
			e.stat(fmt.Sprintf("files=%d", len(dump.Files)-1))
			lastOp = op
			e.emit(op, exp)
		}
	}
}
