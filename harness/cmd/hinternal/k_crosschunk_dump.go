package main

import (
	"fmt"
	"os"

	"github.com/evanw/esbuild/internal/linker"
	"github.com/evanw/esbuild/pkg/api"
	"github.com/evanw/esbuild/verifharness/gen"
)

// kernel "crosschunk-dir": VERIF_CC_DIR names a directory, VERIF_CC_ENTRIES a comma separated list of entry
// points; emits the one operation of that build (used to turn a concrete project into a Lean example)
func init() {
	kernels["crosschunk-dir"] = func(r *gen.Rand, e *emitter, tier string) {
		dir := os.Getenv("VERIF_CC_DIR")
		ents := splitComma(os.Getenv("VERIF_CC_ENTRIES"))
		var dump *linker.VerifCCDump
		linker.VerifSetCrossChunkObserver(func(d linker.VerifCCDump) { dd := d; dump = &dd })
		res := api.Build(api.BuildOptions{AbsWorkingDir: dir, EntryPoints: ents, Bundle: true, Splitting: true, Outdir: "out", Write: false,
			LogLevel: api.LogLevelSilent, Format: api.FormatESModule, MinifyIdentifiers: os.Getenv("VERIF_CC_MINIFY") != ""})
		linker.VerifSetCrossChunkObserver(nil)
		if dump == nil {
			fmt.Fprintln(os.Stderr, "no dump", res.Errors)
			return
		}
		op, exp := crossChunkOpAndExpected(*dump)
		e.emit(op, exp)
	}
}

func splitComma(s string) []string {
	out := []string{}
	cur := ""
	for _, c := range s {
		if c == ',' {
			out = append(out, cur)
			cur = ""
		} else {
			cur += string(c)
		}
	}
	if cur != "" {
		out = append(out, cur)
	}
	return out
}
