package main

// op `js` of kernel jsonrt (see k_jsonrt.go): esbuild's JSON loader end to end.  The text goes through
// api.Transform (loader json, format esm); Node imports the module and prints a canonical dump of its default
// export, of JSON.parse(text), and checks the named exports against the properties of the parsed object.
// The model prints the JavaScript value of the expression its ParseJSON returns.

import (
	"encoding/json"
	"fmt"
	"os"
	"os/exec"
	"path/filepath"
	"strings"

	"github.com/evanw/esbuild/pkg/api"
)

const jsonNodeRunner = `
const fs = require('fs'), path = require('path'), url = require('url');
const [, , casesFile, outFile] = process.argv;
const dv = new DataView(new ArrayBuffer(8));
function hex16(s) { if (s.length === 0) return '-'; let o = ''; for (let i = 0; i < s.length; i++) o += s.charCodeAt(i).toString(16).padStart(4, '0'); return o; }
function dump(v) {
  if (v === null) return 'n';
  if (v === true) return 't';
  if (v === false) return 'f';
  if (typeof v === 'number') { dv.setFloat64(0, v); return '#' + dv.getBigUint64(0).toString(16).padStart(16, '0'); }
  if (typeof v === 'string') return 's' + hex16(v);
  if (Array.isArray(v)) return '[' + v.map(dump).join(',') + ']';
  if (typeof v === 'object') {
    const p = Object.getPrototypeOf(v) !== Object.prototype ? 'P' : '';
    return '{' + p + Object.keys(v).map(k => hex16(k) + ':' + dump(v[k])).join(',') + '}';
  }
  return '?' + typeof v;
}
(async () => {
  const lines = fs.readFileSync(casesFile, 'utf8').split('\n').filter(x => x);
  const out = [];
  for (const line of lines) {
    const c = JSON.parse(line);
    let mod, modErr = '', ref, refErr = '';
    try { mod = await import(url.pathToFileURL(c.file).href); } catch (e) { modErr = 'import-throws:' + String(e && e.name); }
    try { ref = JSON.parse(Buffer.from(c.hex, 'hex').toString('utf8')); } catch (e) { refErr = 'parse-throws'; }
    const a = modErr || dump(mod.default);
    const b = refErr || dump(ref);
    let named = 'named=ok';
    if (!modErr && !refErr && ref !== null && typeof ref === 'object' && !Array.isArray(ref)) {
      for (const k of Object.keys(ref)) {
        if (k === 'default' || !k.isWellFormed()) continue; // an export name must be well-formed Unicode
        if (!(k in mod)) { named = 'named=missing:' + hex16(k); break; }
        if (dump(mod[k]) !== dump(ref[k])) { named = 'named=differs:' + hex16(k); break; }
      }
    }
    out.push(a + ' ' + (a === b ? 'same' : 'JSON.parse:' + b) + ' ' + named);
  }
  fs.writeFileSync(outFile, out.join('\n') + '\n');
})().catch(e => { console.error(e); process.exit(1); });
`

type jsonJSCase struct {
	File string `json:"file"`
	Hex  string `json:"hex"`
	text []byte
}

var jsonJSQueue []jsonJSCase
var jsonJSDir string

// at most this many end-to-end cases per run (Node imports one module per case)
func jsonJSLimit(limit int) int {
	n := limit / 25
	if n > 4000 {
		n = 4000
	}
	if n < 40 {
		n = 40
	}
	return n
}

func jsonQueueJS(e *emitter, text []byte) {
	if jsonJSDir == "" {
		dir, err := os.MkdirTemp("", "jsonrt")
		if err != nil {
			panic(err)
		}
		jsonJSDir = dir
	}
	res := api.Transform(string(text), api.TransformOptions{Loader: api.LoaderJSON, Format: api.FormatESModule, LogLevel: api.LogLevelSilent, Sourcefile: "data.json"})
	if len(res.Errors) > 0 {
		// the strict generator produces RFC 8259 texts only: a refusal is a disagreement with the model's "accepted"
		e.stat("js:transform-error")
		e.emit("jsonrt\tjs\t"+hexBytes(text), "transform-error: "+res.Errors[0].Text)
		return
	}
	file := filepath.Join(jsonJSDir, fmt.Sprintf("m%d.mjs", len(jsonJSQueue)))
	if err := os.WriteFile(file, res.Code, 0644); err != nil {
		panic(err)
	}
	jsonJSQueue = append(jsonJSQueue, jsonJSCase{File: file, Hex: strings.TrimPrefix(hexBytes(text), "-"), text: text})
}

func jsonFlushJS(e *emitter) {
	if jsonJSDir == "" {
		return
	}
	defer func() {
		os.RemoveAll(jsonJSDir)
		jsonJSDir = ""
		jsonJSQueue = nil
	}()
	if len(jsonJSQueue) == 0 {
		return
	}
	var sb strings.Builder
	for _, c := range jsonJSQueue {
		js, _ := json.Marshal(c)
		sb.Write(js)
		sb.WriteByte('\n')
	}
	os.WriteFile(filepath.Join(jsonJSDir, "runner.js"), []byte(jsonNodeRunner), 0644)
	os.WriteFile(filepath.Join(jsonJSDir, "cases.jsonl"), []byte(sb.String()), 0644)
	cmd := exec.Command("node", filepath.Join(jsonJSDir, "runner.js"), filepath.Join(jsonJSDir, "cases.jsonl"), filepath.Join(jsonJSDir, "out.txt"))
	if outb, err := cmd.CombinedOutput(); err != nil {
		panic(fmt.Sprintf("node failed: %v\n%s", err, outb))
	}
	outb, err := os.ReadFile(filepath.Join(jsonJSDir, "out.txt"))
	if err != nil {
		panic(err)
	}
	lines := strings.Split(strings.TrimRight(string(outb), "\n"), "\n")
	if len(lines) != len(jsonJSQueue) {
		panic(fmt.Sprintf("node answered %d lines for %d cases", len(lines), len(jsonJSQueue)))
	}
	for i, c := range jsonJSQueue {
		f := strings.Fields(lines[i])
		switch {
		case len(f) != 3:
			e.stat("js:harness-error")
		case f[1] == "same" && f[2] == "named=ok":
			e.stat("js:module-equals-JSON.parse")
		case f[1] != "same":
			e.stat("js:module-differs-from-JSON.parse")
		default:
			e.stat("js:named-export-differs")
		}
		// the model answers `<dump> same named=ok`: any deviation of the module from JSON.parse shows as a disagreement
		e.emit("jsonrt\tjs\t"+hexBytes(c.text), lines[i])
	}
}
